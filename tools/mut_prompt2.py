import json,sys,glob,os
pid=sys.argv[1]; tag=sys.argv[2]
base=open('/verif/tools/mut_prompt.py').read()
# render the round-1 prompt with directories renamed to <pid><tag>
import subprocess
txt=subprocess.check_output(['python3','/verif/tools/mut_prompt.py',pid]).decode()
txt=txt.replace(f'/tmp/wt/{pid}',f'/tmp/wt/{pid}{tag}').replace(f'/tmp/mut/{pid}/',f'/tmp/mut/{pid}{tag}/').replace(f'/tmp/mut/{pid} ',f'/tmp/mut/{pid}{tag} ').replace(f'/tmp/mut/{pid};',f'/tmp/mut/{pid}{tag};')
prev=[]
for d in glob.glob(f'/verif/seeded/{pid}-*'):
    try:
        m=json.load(open(d+'/meta.json')); prev.append(m.get('summary') or '')
    except Exception: pass
avoid="\n\nALREADY TAKEN — another developer already tried the following change(s) for this property; yours must be a DIFFERENT kind of slip in a different place or mechanism:\n"+"\n".join(" - "+p[:400] for p in prev) if prev else ""
print(txt+avoid)
