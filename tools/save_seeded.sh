#!/bin/bash
# usage: save_seeded.sh <id> <name> <detected_by> <notes>
id=$1; name=$2; d=/verif/seeded/$name; mkdir -p $d; cp /tmp/mut/$id/patch.diff $d/; cp /tmp/mut/$id/*_test.go $d/ 2>/dev/null
python3 - "$id" "$d" "$3" "$4" <<'PY'
import json,sys
id,d,detected,notes=sys.argv[1:5]
m=json.load(open(f'/tmp/mut/{id}/meta.json'))
out={"property":id[:3],"round":(2 if len(id)>3 else 1),"summary":m.get("summary"),"needs_to_manifest":m.get("needs_to_manifest"),"demo_pkg_dir":m.get("demo_pkg_dir"),"demo_cmd":m.get("demo_cmd"),
 "origin":"independent sub-agent given only the property text and a scratch worktree",
 "confirmed_by_me":{"builds":True,"demo_fails_with_patch":True,"demo_passes_without_patch":True,"baseline_suite_passes_with_patch":True,"how":"tools/confirm_mutation.sh (fresh checkout in a scratch worktree: demo without/with patch, then the 883-test baseline with the patch and without the demo)"},
 "detected_by":detected,"notes":notes}
json.dump(out,open(d+'/meta.json','w'),indent=1)
PY
