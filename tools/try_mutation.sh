#!/bin/bash
# usage: try_mutation.sh <dir with patch.diff> [props...]
# Applies the patch to /repo, runs the quick checks (all claimed, or the listed ones), reverts.
D=$1; shift
cd /repo || exit 2
if [ -n "$(git status --porcelain)" ]; then echo "/repo not clean"; exit 2; fi
git apply "$D/patch.diff" || { echo "patch does not apply"; exit 2; }
trap 'git -C /repo checkout -- . ' EXIT
export GOFLAGS=-mod=mod GOPROXY=off
go build ./... || { echo "does not build"; exit 2; }
cd /verif; mkdir -p /tmp/mutev; cp /verif/known_findings.json /tmp/mutev/
PROPS="$@"
if [ -z "$PROPS" ]; then
  # all checks, four at a time
  out=$(GATECHECK_VERIF=/tmp/mutev ./bin/gatecheck -prop all -tier quick 2>&1)
  echo "$out" | grep -v "^VIOLATION\|quick:\|^KNOWN" | grep "violated\|undecided" | cut -c1-400 | sed 's/^/== DETECTS: /' | head -40
  echo "-- done"
  exit 0
fi
for p in $PROPS; do
  out=$(GATECHECK_VERIF=/tmp/mutev ./bin/gatecheck -prop $p -tier quick 2>&1)
  if echo "$out" | grep -q "^VIOLATION"; then
    echo "== $p DETECTS:"; echo "$out" | grep -v "^VIOLATION\|quick:" | cut -c1-400 | head -6
  fi
done
echo "-- done"
