#!/bin/bash
# usage: confirm_mutation.sh <mutdir> <worktree>
# Independently confirms a seeded change: builds, demo fails with / passes without the patch, baseline suite passes with it.
M=$1; W=$2
export GOFLAGS=-mod=mod GOPROXY=off
cd "$W" || exit 2
git checkout -q -- . && git clean -fdq
PKG=$(python3 -c "import json;print(json.load(open('$M/meta.json'))['demo_pkg_dir'])")
CMD=$(python3 -c "import json;print(json.load(open('$M/meta.json'))['demo_cmd'])")
DEMOS=$(ls $M/*_test.go 2>/dev/null)
echo "pkg=$PKG cmd=$CMD"
# without patch
cp $DEMOS "$W/$PKG/"
( cd "$W" && timeout 600 bash -c "$CMD" > /tmp/confirm_nopatch.log 2>&1 ); rc0=$?
# with patch
git apply "$M/patch.diff" || { echo "PATCH DOES NOT APPLY"; exit 2; }
go build ./... || { echo "DOES NOT BUILD"; exit 2; }
( cd "$W" && timeout 600 bash -c "$CMD" > /tmp/confirm_patch.log 2>&1 ); rc1=$?
echo "demo without patch rc=$rc0 (want 0); with patch rc=$rc1 (want !=0)"
tail -5 /tmp/confirm_patch.log | cut -c1-300
# suite with patch, demo removed
for d in $DEMOS; do rm -f "$W/$PKG/$(basename $d)"; done
/verif/tools/run_suite.sh "$W" /tmp/confirm_suite.$$.json
echo "suite rc=$?"
git checkout -q -- . && git clean -fdq
