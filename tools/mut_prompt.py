import json,sys
pid=sys.argv[1]
p=[json.loads(l) for l in open('/verif/properties.jsonl') if l.strip() and json.loads(l)['id']==pid][0]
print(f"""You are working in a scratch git worktree of the Go project minekube/gate (module go.minekube.com/gate, a Minecraft reverse proxy) at /tmp/wt/{pid}. The sandbox has NO network. Before every go command run: `export GOFLAGS=-mod=mod GOPROXY=off` (do NOT set GOSUMDB or GOTOOLCHAIN). Work ONLY inside /tmp/wt/{pid} and /tmp/mut/{pid}; never read or write /verif or /repo.

The project is supposed to satisfy this semantic property (id {p['id']}):

TITLE: {p['title']}
STATEMENT: {p['statement']}
QUANTIFIED OVER: {p['quantifier']['text']}
WHY THE EXISTING TESTS CANNOT SETTLE IT: {p['why_tests_cant']}
RELEVANT FILES: {', '.join(p['anchors']['files'])}
MECHANISMS MEANT TO MAKE IT HOLD: {json.dumps(p['anchors'].get('mechanism',[]))}

YOUR TASK: make ONE small, realistic change to the project's NON-test source code that BREAKS this property, such that
  (a) the project still compiles: `cd /tmp/wt/{pid} && go build ./...`
  (b) the existing tests of every package you touched (and packages that import it, at least `go test -vet=off -count=1 ./pkg/edition/java/... ./pkg/gate/... ./pkg/internal/... ./pkg/util/...` restricted to what is relevant; run the relevant ones fully) still PASS with your change,
  (c) the breakage needs something SPECIFIC to manifest: a particular goroutine interleaving, a fault at a particular point, a multi-step sequence of operations, an unusual input, or two cooperating code sites that each look fine alone. Do NOT make a change that ordinary use would expose at once. It should look like a plausible refactoring or maintenance slip a developer could commit, not sabotage with obviously dead or silly code.
Also write a DEMONSTRATION: a Go test (put it in a NEW file named zz_demo_{pid.lower()}_test.go inside the relevant package, it may use unexported identifiers) or a small Go program, which FAILS (or deadlocks/panics/reports a data race with -race) WITH your change and PASSES WITHOUT it. Verify both directions yourself (save the change with `git diff > /tmp/mut/{pid}/patch.diff`, undo it with `git checkout -- <files>`, run the demo, re-apply with `git apply`, run again — do NOT use `git stash`: the stash is shared between worktrees).

DELIVERABLES in /tmp/mut/{pid}/ :
  patch.diff  - `git diff` of the source change ONLY (exclude the demo test file; it must apply with `git apply` on a clean checkout of this commit)
  the demo file(s) (copy of zz_demo_{pid.lower()}_test.go, plus a note of the package directory it belongs in)
  meta.json   - {{"property": "{pid}", "summary": "...what was changed...", "needs_to_manifest": "...the specific input/schedule/sequence...", "demo_pkg_dir": "pkg/...", "demo_cmd": "go test -run ... ./pkg/...", "demo_fails_with_patch": true, "demo_passes_without_patch": true, "existing_tests_run": "...commands you ran and that they passed..."}}
Keep the patch small (ideally < 20 changed lines). When done, reply with a 5-line summary: what you changed, why it breaks the property, what it needs to manifest, and the demo command.""")
