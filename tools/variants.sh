#!/bin/bash
# usage: variants.sh Cnn  — runs every seeded variant of a property and prints whether it is detected
cd /verif
P=$1
for v in $(grep -o 'Name: *"[^"]*"' gatecheck/*.go | sed 's/.*"\(.*\)"/\1/' | sort -u); do
  out=$(./bin/gatecheck -prop $P -variant $v 2>/dev/null | tail -1)
  case "$out" in *anchor-absent*) continue;; esac
  echo "$out" | python3 -c "
import json,sys
d=json.loads(sys.stdin.read()); print('$v', d['status'], [o['key'] for o in d.get('bad',[])][:5], d.get('err','')[:300])"
done
