#!/bin/bash
# usage: replay_refactorings.sh [glob] — applies every behaviour-preserving refactoring (written by
# sub-agents, see DESIGN.md §8.9) to /repo in turn and requires ALL checks to stay silent.
cd /verif
G=${1:-*}
fail=0
for d in /verif/refactorings/$G/; do
  n=$(basename $d)
  prop=$(python3 -c "import json;print(json.load(open('$d/meta.json'))['property'][:3])")
  if [ -n "$ALL" ]; then prop=""; fi   # ALL=1: every check, not just the refactored property's
  out=$(tools/try_mutation.sh $d $prop 2>&1 | grep -v KNOWN)
  if echo "$out" | grep -q "DETECTS\|does not\|not clean"; then
    echo "ALARM $n"; echo "$out" | head -8 | cut -c1-300; fail=1
  else
    echo "quiet $n"
  fi
done
exit $fail
