import json,sys
pid=sys.argv[1]; tag=sys.argv[2]
p=[json.loads(l) for l in open('/verif/properties.jsonl') if l.strip() and json.loads(l)['id']==pid][0]
d=f"{pid}{tag}"
print(f"""You are working in a scratch git worktree of the Go project minekube/gate (module go.minekube.com/gate, a Minecraft reverse proxy) at /tmp/wt/{d}. The sandbox has NO network. Before every go command run: `export GOFLAGS=-mod=mod GOPROXY=off` (do NOT set GOSUMDB or GOTOOLCHAIN). Work ONLY inside /tmp/wt/{d} and /tmp/mut/{d}; never read or write /verif or /repo. Do NOT use `git stash` (it is shared between worktrees).

The project satisfies this semantic property (id {p['id']}), and it must KEEP satisfying it after your change:

TITLE: {p['title']}
STATEMENT: {p['statement']}
RELEVANT FILES: {', '.join(p['anchors']['files'])}
MECHANISMS THAT MAKE IT HOLD: {json.dumps(p['anchors'].get('mechanism',[]))}

YOUR TASK: act as a maintainer doing routine clean-up. Make a realistic, BEHAVIOUR-PRESERVING refactoring of the code that implements the mechanisms above (in the relevant files), of the kind that lands in real projects every week. Touch the code that matters for the property, not unrelated code. Use SEVERAL of these, 40-120 changed lines in total:
  - extract a helper function or method from a block (or inline a small helper),
  - rename local variables / unexported helpers / unexported fields,
  - restructure control flow without changing behaviour: early returns instead of nested ifs (or the reverse), switch instead of if-chain, invert a condition and swap branches, merge or split conditions, `for i := range` instead of index loops (or the reverse),
  - reorder independent statements, move a declaration closer to its use, replace `x = append(x, a); x = append(x, b)` by one append,
  - replace a defer by explicit calls on every path ONLY if you keep exactly the same effect on every path (or the reverse),
  - introduce a named constant for a literal, or a small local closure.
The observable behaviour, locking discipline, ordering of effects, error handling and wire formats MUST stay exactly the same: the property above must still hold and no new bug may be introduced. Be careful: this is a test of whether a verifier raises false alarms on correct code, so correctness of your refactoring is essential — re-read your diff critically before delivering.

CHECKS you must run: `cd /tmp/wt/{d} && go build ./... && go vet ./pkg/... 2>&1 | tail -5` and the tests of every package you touched plus `go test -vet=off -count=1 ./pkg/edition/java/... ./pkg/gate/... ./pkg/internal/... ./pkg/util/...` (they must pass; TestGeyserDownloadAPI needs network and may fail).

DELIVERABLES in /tmp/mut/{d}/ :
  patch.diff  - `git diff` of your change (must apply with `git apply` on a clean checkout of this commit)
  meta.json   - {{"property": "{pid}", "kind": "refactoring", "summary": "...what was refactored and how...", "why_behaviour_preserving": "...argument per change...", "tests_run": "...commands and results..."}}
When done, reply with a 4-line summary.""")
