#!/bin/bash
# Runs the pinned baseline suite (BASELINE.json cmd) on a tree (default /repo) and compares the
# passing set against BASELINE.stable_pass. Not a check: used to validate fix: commits and seeded changes.
DIR=${1:-/repo}
OUT=${2:-/tmp/suite.$$.json}
export GOFLAGS=-mod=mod GOPROXY=off
(cd "$DIR" && go test -mod=mod -json -vet=off -count=1 -timeout 25m ./... > "$OUT" 2>/dev/null)
python3 - "$OUT" <<'PY'
import json,sys
base=set(json.load(open('/root/.vp/BASELINE.json'))['stable_pass'])
passed=set(); failed=set()
for l in open(sys.argv[1]):
    try: e=json.loads(l)
    except: continue
    t=e.get('Test'); 
    if not t: continue
    k=e['Package']+'::'+t
    if e.get('Action')=='pass': passed.add(k)
    elif e.get('Action')=='fail': failed.add(k)
missing=sorted(base-passed)
print(f"baseline={len(base)} passed={len(passed)} failed={len(failed)} baseline_missing={len(missing)}")
for m in missing[:40]: print("  MISSING", m)
sys.exit(1 if missing else 0)
PY
rc=$?
rm -f "$OUT"
exit $rc
