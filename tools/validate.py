#!/opt/veriftools/pyvenv/bin/python
import json,jsonschema,sys,glob
m=json.load(open('/verif/MANIFEST.json'))
jsonschema.validate(m, json.load(open('/root/.vp/MANIFEST.schema.json')))
es=json.load(open('/root/.vp/EVIDENCE.schema.json'))
bad=0
for c in m['checks']:
    try:
        jsonschema.validate(json.load(open(c['evidence_file'])), es)
    except Exception as e:
        bad+=1; print('EVIDENCE BAD', c['property_id'], str(e)[:200])
ids={json.loads(l)['id'] for l in open('/verif/properties.jsonl')}
claimed={c['property_id'] for c in m['checks']}; na={n['property_id'] for n in m.get('not_applicable',[])}
print('manifest ok; claimed',len(claimed),'na',len(na),'uncovered',sorted(ids-claimed-na),'overlap',sorted(claimed&na),'bad evidence',bad)
