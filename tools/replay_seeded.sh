#!/bin/bash
# usage: replay_seeded.sh [name-glob]   — applies every seeded change to /repo in turn and requires the
# check of its property to report a violation (and the tree to be clean again afterwards).
cd /verif
G=${1:-*}
fail=0
for d in /verif/seeded/$G/; do
  n=$(basename $d)
  prop=$(python3 -c "import json;print(json.load(open('$d/meta.json'))['property'])")
  out=$(tools/try_mutation.sh $d $prop 2>&1)
  if echo "$out" | grep -q "== $prop DETECTS"; then
    key=$(echo "$out" | grep -v "^==\|^--\|KNOWN" | head -1 | sed 's/^[^ ]* //' | cut -d: -f1-2 | cut -c1-90)
    echo "ok    $n  ($key)"
  else
    echo "MISS  $n"; echo "$out" | tail -3; fail=1
  fi
done
exit $fail
