module gatecheckfx

go 1.22
