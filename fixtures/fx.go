// Package gatecheckfx holds tiny positive and negative examples for gatecheck's analysis primitives.
// Every quick check runs the primitives it relies on against these functions first: the "bad" twin
// must be reported and the "good" twin must be silent, otherwise the check fails (SELFTEST-FAIL) —
// a rule that can no longer see its own positive example proves nothing by being quiet.
package gatecheckfx

import (
	"errors"
	"io"
	"strings"
	"sync"
)

type box struct {
	mu    sync.RWMutex
	items map[string]int
	n     int
}

// ---- guard cut (P2)
func guardGood(b *box, ok bool) {
	if !ok {
		return
	}
	sink(b)
}
func guardBad(b *box, ok bool) {
	if !ok {
		println("not ok")
	}
	sink(b)
}
func sink(*box) {}

// ---- lock set (P4)
func lockGood(b *box) int {
	b.mu.RLock()
	defer b.mu.RUnlock()
	return b.n
}
func lockBad(b *box) int {
	b.mu.RLock()
	b.mu.RUnlock()
	return b.n
}

// ---- re-entrancy (P4)
func (b *box) get() int {
	b.mu.RLock()
	defer b.mu.RUnlock()
	return b.n
}
func reentryBad(b *box) int {
	b.mu.Lock()
	defer b.mu.Unlock()
	return b.get()
}
func reentryGood(b *box) int {
	b.mu.Lock()
	b.n++
	b.mu.Unlock()
	return b.get()
}

// ---- ranges (P3)
func boundsGood(n int) []byte {
	if n < 0 || n > 1024 {
		return nil
	}
	return make([]byte, n)
}
func boundsBad(n int) []byte {
	if n > 1024 {
		return nil
	}
	return make([]byte, n)
}

// ---- known bits (P6)
func bitsBad(b byte) bool    { return int(b)&0x8000 != 0 }
func bitsGood(b uint16) bool { return int(b)&0x8000 != 0 }

// ---- bit-slice provenance (P6b)
func sliceGood(lo uint16, hi uint8) int { return int(hi)<<15 | int(lo)&0x7fff }
func sliceBad(lo uint16, hi uint8) int  { return int(hi)<<15 | int(lo) }

// ---- wire grammar (P7)
func wireWrite(w io.Writer, a [4]byte, s []byte) error {
	if _, err := w.Write(a[:]); err != nil {
		return err
	}
	_, err := w.Write(s)
	return err
}
func wireReadGood(r io.Reader) ([]byte, error) {
	var a [4]byte
	if _, err := io.ReadFull(r, a[:]); err != nil {
		return nil, err
	}
	return io.ReadAll(r)
}
func wireReadBad(r io.Reader) ([]byte, error) {
	var a [2]byte
	if _, err := io.ReadFull(r, a[:]); err != nil {
		return nil, err
	}
	return io.ReadAll(r)
}

// ---- error discipline
func errGood(r io.Reader) (byte, error) {
	var a [1]byte
	_, err := io.ReadFull(r, a[:])
	if err != nil {
		return 0, err
	}
	return a[0], nil
}
func errBad(r io.Reader) (byte, error) {
	var a [1]byte
	if _, err := io.ReadFull(r, a[:]); false {
		return 0, err
	}
	_, _ = io.ReadFull(r, a[:])
	return a[0], nil
}

// ---- provenance through defer-spilled results (P5)
func spillNil(n int) (out []byte, err error) {
	defer func() { _ = recover() }()
	if n < 0 {
		return nil, errors.New("x")
	}
	out = make([]byte, n)
	return out, nil
}

// ---- lock pairing
func leakGood(b *box, dup bool) bool {
	b.mu.Lock()
	if dup {
		b.mu.Unlock()
		return false
	}
	b.n++
	b.mu.Unlock()
	return true
}
func leakBad(b *box, dup bool) bool {
	b.mu.Lock()
	if dup {
		return false
	}
	b.n++
	b.mu.Unlock()
	return true
}
func leakTryGood(b *box) int {
	if b.mu.TryRLock() {
		defer b.mu.RUnlock()
	}
	return b.n
}

// ---- string shapes
func cutGood(name string) string {
	host := firstPartFx(name, "\x00")
	host = strings.SplitN(host, "///", 2)[0]
	return strings.Trim(host, ".")
}
func cutBad(name string) string {
	host := strings.Split(name, "\x00")[1] // keeps the wrong part
	return strings.Trim(host, ".")
}
func firstPartFx(s, sep string) string {
	before, _, _ := strings.Cut(s, sep)
	return before
}
func joinBuilder(a, b string) string {
	sb := new(strings.Builder)
	sb.WriteString(a)
	sb.WriteString("\x00")
	sb.WriteString(b)
	return sb.String()
}
func joinLiteral(a, b string) string { return joinFx([]string{a, b}) }
func joinFx(parts []string) string  { return strings.Join(parts, "\x00") }
func joinConditional(a, b string, withB bool) string {
	sb := new(strings.Builder)
	sb.WriteString(a)
	if withB {
		sb.WriteString("\x00")
		sb.WriteString(b)
	}
	return sb.String()
}

// ---- typed nil in an interface
type srvFx interface{ Name() string }
type implFx struct{ n string }

func (i *implFx) Name() string { return i.n }
func wrapFx(n string) *implFx {
	if n == "" {
		return nil
	}
	return &implFx{n}
}
func providerBad(n string) srvFx { return wrapFx(n) }
func providerGood(n string) srvFx {
	w := wrapFx(n)
	if w == nil {
		return nil
	}
	return w
}

// ---- lock entry through a three-function cycle
func (b *box) cycleEntry() {
	b.mu.Lock()
	defer b.mu.Unlock()
	b.cycleA(3)
}
func (b *box) cycleA(k int) {
	if k == 0 {
		return
	}
	b.cycleB(k)
}
func (b *box) cycleB(k int) { b.cycleC(k) }
func (b *box) cycleC(k int) {
	b.n++ // guarded: every way here holds b.mu
	b.cycleA(k - 1)
}

// ---- wire grammar: constant-trip-count loops are a fixed sequence
func wireWriteLoop3(w io.Writer, a, b, c byte) error {
	for _, x := range [...]byte{a, b, c} {
		var buf [1]byte
		buf[0] = x
		if _, err := w.Write(buf[:]); err != nil {
			return err
		}
	}
	return nil
}
func wireRead3(r io.Reader) error {
	var x [3]byte
	_, err := io.ReadFull(r, x[:])
	return err
}
func wireRead2(r io.Reader) error {
	var x [2]byte
	_, err := io.ReadFull(r, x[:])
	return err
}
