#!/bin/sh
# builds /verif/bin/gatecheck from files on disk only (module cache), offline
set -e
cd "$(dirname "$0")/gatecheck"
export PATH=/opt/veriftools/go1.26.8/bin:$PATH GOTOOLCHAIN=local GOFLAGS=-mod=mod GOPROXY=off GOSUMDB=off GOWORK=off CGO_ENABLED=0
go build -o ../bin/gatecheck .
