package main

import (
	"go/types"
	"strings"
)

// FieldVarLike resolves a struct field by name and, when a field of that name no longer exists (an
// unexported field was renamed), by being the only field of the struct whose type contains
// typeContains. The rule keeps following the same piece of state under its new name.
func (P *Program) FieldVarLike(typ, name, typeContains string) *types.Var {
	if v := P.FieldVar(typ, name); v != nil {
		return v
	}
	st := structOfField(P, typ)
	if st == nil || typeContains == "" {
		return nil
	}
	var found *types.Var
	for i := 0; i < st.NumFields(); i++ {
		f := st.Field(i)
		if strings.Contains(f.Type().String(), typeContains) {
			if found != nil {
				return nil // ambiguous
			}
			found = f
		}
	}
	return found
}
