package main

import "golang.org/x/tools/go/ssa"

// callArgs returns the actual arguments of a call with a variadic tail unpacked: a trailing
// `slice t[:]` of a fresh array is replaced by the values stored into the array's elements.
func callArgs(cc *ssa.CallCommon) []ssa.Value {
	args := cc.Args
	if len(args) == 0 {
		return nil
	}
	last := args[len(args)-1]
	sl, ok := last.(*ssa.Slice)
	if !ok {
		return args
	}
	a, ok := sl.X.(*ssa.Alloc)
	if !ok || a.Comment != "varargs" {
		return args
	}
	out := append([]ssa.Value{}, args[:len(args)-1]...)
	return append(out, storedInto(a, 1)...)
}

// lastArg is the last actual argument (variadic tail unpacked), or nil.
func lastArg(cc *ssa.CallCommon) ssa.Value {
	a := callArgs(cc)
	if len(a) == 0 {
		return nil
	}
	return a[len(a)-1]
}
