package main

import (
	"go/token"

	"golang.org/x/tools/go/ssa"
)

// cellHolds reports whether v, or — when v is a load from a local cell (a variable spilled to memory,
// e.g. a named result in a function with defers) — any value stored into that cell, satisfies pred.
// Nested loads are followed up to depth 4.
func cellHolds(v ssa.Value, pred func(ssa.Value) bool) bool {
	return cellHoldsD(v, pred, 4)
}

func cellHoldsD(v ssa.Value, pred func(ssa.Value) bool, d int) bool {
	v = strip(v)
	if pred(v) {
		return true
	}
	if d == 0 {
		return false
	}
	ld, ok := v.(*ssa.UnOp)
	if !ok || ld.Op != token.MUL {
		return false
	}
	a, ok := ld.X.(*ssa.Alloc)
	if !ok {
		return false
	}
	for _, sv := range storesTo(a) {
		if sv == v {
			continue
		}
		if cellHoldsD(sv, pred, d-1) {
			return true
		}
	}
	return false
}

func isMakeSlice(v ssa.Value) bool { _, ok := v.(*ssa.MakeSlice); return ok }

// terminalStatusConsumed: the error yielded by success return r derives from a Close() call on the
// decoder's zlib reader, or the error result of a probe read is compared against nil / io.EOF.
func terminalStatusConsumed(fn *ssa.Function, r *ssa.Return, isProbe func(ssa.Instruction) bool) bool {
	if len(r.Results) < 2 {
		return false
	}
	isClose := func(v ssa.Value) bool {
		cl, ok := v.(*ssa.Call)
		if !ok {
			return false
		}
		return methodName(&cl.Call) == "Close" && hasAnySuffix(PathOf(cl.Call.Value), ".zrd")
	}
	if cellHolds(retVal(r, 1), func(v ssa.Value) bool { return derivesFrom(v, 3, isClose) }) {
		return true
	}
	ok := false
	eachInstr(fn, func(in ssa.Instruction) {
		if !isProbe(in) {
			return
		}
		v, isV := in.(ssa.Value)
		if !isV || v.Referrers() == nil {
			return
		}
		for _, ref := range *v.Referrers() {
			ex, isEx := ref.(*ssa.Extract)
			if !isEx || ex.Index != 1 || ex.Referrers() == nil {
				continue
			}
			for _, rr := range *ex.Referrers() {
				switch rr.(type) {
				case *ssa.BinOp, *ssa.Return, *ssa.Store, *ssa.Call, *ssa.MakeInterface:
					ok = true
				}
			}
		}
	})
	return ok
}
