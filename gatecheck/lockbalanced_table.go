package main

import (
	"strings"

	"golang.org/x/tools/go/ssa"
)

// lockBalancedScope: for the properties that rest on a mutex, the functions whose lock pairing is
// part of the property (package, receiver types; no receiver list = the whole package). A leaked
// mutex turns every later access into a deadlock, so "released on all exits" is a necessary condition
// of each of these properties.
var lockBalancedScope = map[string][]struct {
	pkg   string
	recvs []string
}{
	"C01": {{pkgCodec, nil}},
	"C11": {{pkgProxy, []string{"Proxy"}}},
	"C12": {{pkgProxy, []string{"Proxy", "players"}}},
	"C13": {{pkgProxy, []string{"loginInboundConn"}}},
	"C14": {{pkgNetmc, nil}},
	"C16": {{pkgProxy, []string{"connectedPlayer", "connectionRequest"}}},
	"C18": {{pkgProxy, []string{"serverConnection"}}},
	"C21": {{pkgProxy, []string{"chatQueue", "ChatState"}}},
	"C24": {{pkgProxy, []string{"clientConfigSessionHandler"}}},
	"C27": {{pkgRP, nil}},
	"C28": {{pkgITab, nil}},
	"C30": {{pkgLite, []string{"StrategyManager"}}},
	"C32": {{pkgLite, []string{"pingStatusCache"}}},
	"C35": {{"pkg/gate", nil}},
	"C42": {{pkgFuture, nil}},
}

func runLockBalanced(c *Ctx, id string) {
	specs, ok := lockBalancedScope[id]
	if !ok {
		return
	}
	for _, sp := range specs {
		var scope []*ssa.Function
		for _, fn := range c.P.Funcs(Mod + "/" + sp.pkg) {
			if fnPkgPath(fn) != Mod+"/"+sp.pkg {
				continue
			}
			if len(sp.recvs) > 0 {
				root := fn
				for root.Parent() != nil {
					root = root.Parent()
				}
				if root.Signature.Recv() == nil {
					continue
				}
				nt := namedOf(root.Signature.Recv().Type())
				if nt == nil {
					continue
				}
				match := false
				for _, r := range sp.recvs {
					if nt.Obj().Name() == r || strings.HasPrefix(nt.Obj().Name(), r+"[") {
						match = true
					}
				}
				if !match {
					continue
				}
			}
			scope = append(scope, fn)
		}
		checkLockBalanced(c, scope)
	}
}
