package main

import (
	"encoding/json"
	"fmt"
	"os"
	"path/filepath"
	"sort"
	"strings"
)

// The reference id table. Packet ids of a released Minecraft protocol version never change, so the
// table evaluated (P8) from the pinned tree — cross-checked against go-mc's independent constants at
// protocol 764 and in daily use against vanilla clients and servers of every listed version — is the
// reference for every later change: a (state, direction, type, protocol) cell that exists in the
// reference must keep its id. New types and new protocol versions are new cells and are not judged.
// The file is generated once with `gatecheck -dump-ids` and committed; it is never written at check time.

type goldenIDs map[string][][3]int64 // "State.Dir/pkg.Type" -> runs [fromProto, toProto, id] over supported protocols

func goldenPath() string {
	if exe, err := os.Executable(); err == nil {
		p := filepath.Join(filepath.Dir(filepath.Dir(exe)), "reference", "packet_ids.json")
		if _, err := os.Stat(p); err == nil {
			return p
		}
	}
	return filepath.Join("/verif", "reference", "packet_ids.json")
}

func buildGolden(regs []Registration, vt *VersionTable) goldenIDs {
	g := goldenIDs{}
	max := vt.Supported[len(vt.Supported)-1]
	for i := range regs {
		r := &regs[i]
		k := fmt.Sprintf("%s.%s/%s", r.State, r.Dir, r.Type)
		for _, p := range vt.Supported {
			id, ok := r.idAt(p, max)
			if !ok {
				continue
			}
			runs := g[k]
			if n := len(runs); n > 0 && runs[n-1][2] == id && runs[n-1][1] == prevSupported(vt, p) {
				runs[n-1][1] = p
			} else {
				runs = append(runs, [3]int64{p, p, id})
			}
			g[k] = runs
		}
	}
	return g
}

func prevSupported(vt *VersionTable, p int64) int64 {
	prev := int64(-1)
	for _, q := range vt.Supported {
		if q == p {
			return prev
		}
		prev = q
	}
	return -1
}

func dumpGolden() error {
	P, err := Load([]string{"./pkg/edition/java/proto/state", "./pkg/edition/java/proto/version"}, false, nil)
	if err != nil {
		return err
	}
	vt, err := evalVersionTable(P)
	if err != nil {
		return err
	}
	regs, _, err := evalRegistrations(P, vt)
	if err != nil {
		return err
	}
	b, _ := json.MarshalIndent(buildGolden(regs, vt), "", " ")
	_, err = os.Stdout.Write(append(b, '\n'))
	return err
}

func checkGoldenIDs(c *Ctx, regs []Registration, vt *VersionTable) {
	b, err := os.ReadFile(goldenPath())
	if err != nil {
		c.Undecided("reference-ids", "reference/packet_ids.json", err.Error())
		return
	}
	var g goldenIDs
	if err := json.Unmarshal(b, &g); err != nil {
		c.Undecided("reference-ids", "reference/packet_ids.json", err.Error())
		return
	}
	max := vt.Supported[len(vt.Supported)-1]
	byKey := map[string]*Registration{}
	for i := range regs {
		r := &regs[i]
		byKey[fmt.Sprintf("%s.%s/%s", r.State, r.Dir, r.Type)] = r
	}
	supported := map[int64]bool{}
	for _, p := range vt.Supported {
		supported[p] = true
	}
	var keys []string
	for k := range g {
		keys = append(keys, k)
	}
	sort.Strings(keys)
	cells := 0
	for _, k := range keys {
		r := byKey[k]
		var diffs []string
		for _, run := range g[k] {
			for _, p := range vt.Supported {
				if p < run[0] || p > run[1] {
					continue
				}
				cells++
				if r == nil {
					continue
				}
				id, ok := r.idAt(p, max)
				if !ok {
					diffs = append(diffs, fmt.Sprintf("protocol %d: no id (reference %#x)", p, run[2]))
				} else if id != run[2] {
					diffs = append(diffs, fmt.Sprintf("protocol %d: id %#x, reference %#x", p, id, run[2]))
				}
			}
		}
		if r == nil {
			// a packet type that was removed or renamed is not an id disagreement
			c.Note("reference cell %s has no registration in this tree (type removed or renamed)", k)
			continue
		}
		d := ""
		if len(diffs) > 0 {
			d = strings.Join(diffs[:min(len(diffs), 4)], "; ")
		}
		c.CheckAt("reference-ids", k, "pkg/edition/java/proto/state/register.go", len(diffs) == 0,
			"the id of a packet in an already released protocol version changed against the reference table (ids of released versions are immutable; Velocity and vanilla use the reference value): "+d)
	}
	c.Info["reference_cells"] = cells
	if cells < 1400 {
		c.Undecided("reference-ids", "coverage", fmt.Sprintf("only %d reference cells evaluated", cells))
	}
}
