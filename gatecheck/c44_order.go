package main

import (
	"strings"

	"golang.org/x/tools/go/ssa"
)

// checkCancelBeforeClose: Closed(c) is "the connection's context is done". The teardown must cancel
// the context before it closes the socket and before it runs the session handler's Disconnected():
// otherwise, while teardown runs, the socket is already closed but Closed(c) still says "open", so a
// write made from a Disconnected handler (or another goroutine) reaches the dead socket, fails, and
// its error handling calls Close() again — re-entering closeOnce.Do from inside it (self-deadlock).
func checkCancelBeforeClose(c *Ctx, onceClosures []*ssa.Function) {
	n := 0
	for _, f := range onceClosures {
		var cancel, sockClose ssa.Instruction
		var disc []ssa.Instruction
		cancelDeferred := false
		eachInstr(f, func(in ssa.Instruction) {
			cc := callOf(in)
			if cc == nil {
				return
			}
			switch {
			case strings.HasSuffix(PathOf(cc.Value), ".cancelCtx"):
				cancel = in
				_, cancelDeferred = in.(*ssa.Defer)
			case cc.IsInvoke() && cc.Method.Name() == "Close" && strings.HasSuffix(PathOf(cc.Value), ".c"):
				sockClose = in
			case cc.IsInvoke() && cc.Method.Name() == "Disconnected":
				disc = append(disc, in)
			}
		})
		if cancel == nil || sockClose == nil {
			continue
		}
		n++
		ok := !cancelDeferred && domBefore(cancel, sockClose)
		for _, d := range disc {
			if !domBefore(cancel, d) {
				ok = false
			}
		}
		c.Check("teardown-order", "cancelCtx-before-socket-close-and-Disconnected@"+shortName(f), cancel, ok,
			"the connection is marked closed (context cancelled) only after the socket was closed / Disconnected() ran: during teardown Closed(c) still reports an open connection, a write from the handler hits the closed socket and its error path re-enters closeOnce (deadlock) instead of returning ErrClosedConn")
	}
	if n == 0 {
		c.Undecided("teardown-order", "closeKnown", "cancelCtx and socket Close were not found together in the once closure")
	}
}
