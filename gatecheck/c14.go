package main

import (
	"fmt"
	"strings"

	"golang.org/x/tools/go/ssa"
)

const pkgNetmc = "pkg/edition/java/netmc"
const pkgQueue = "pkg/edition/java/proto/util/queue"

func init() {
	register(&propDef{
		ID:       "C14",
		Title:    "Packets sent during configuration are delivered after it, in order, without loss",
		Patterns: []string{"./pkg/edition/java/netmc", "./pkg/edition/java/proto/util/queue"},
		Run:      runC14,
		Rule: "P4: every access to minecraftConn.playPacketQueue and every call of PlayPacketQueue.Queue/ReleaseQueue on it holds minecraftConn.mu " +
			"(the queue has no lock of its own); P3: PushBack is dominated by Len() < 1024 and the overflow edge returns a non-nil error that reaches " +
			"closeOnWriteErr; the direct write in bufferPacket is only reachable when Queue returned (false, nil); FIFO: only PushBack/PopFront/Len on the deque; " +
			"config-registered packets are not queued; the release sink is the non-queueing writer and the queue pointer is cleared in the same critical section.",
		Explanation: "Decides the structural conditions for 'no loss / no reorder / bounded': queue and release are serialised by one mutex, the bound dominates the push, " +
			"overflow closes the connection, the queue is FIFO by construction, release writes through the non-queueing path. " +
			"Does not decide: delivery order under all goroutine schedules of concurrent writers (a writer that loses the race for mu after release writes directly, which is allowed).",
		Fixtures: []string{"lockset", "bounds"},
		Variants: []Variant{
			{Name: "queue-reconciled-only-on-registry-change", File: pkgNetmc + "/connection.go",
				Old: "\tc.ensurePlayPacketQueue(s.State) // 1.20.2+\n", New: "\tif prevState != s {\n\t\tc.ensurePlayPacketQueue(s.State) // 1.20.2+\n\t}\n", Expect: "queue-reconciled"},
			{Name: "queue-outside-lock", File: pkgNetmc + "/connection.go",
				Old:    "\t\tc.mu.Lock()\n\t\tqueued, queueErr := c.playPacketQueue.Queue(packet)\n\t\tc.mu.Unlock()",
				New:    "\t\tc.mu.Lock()\n\t\tq := c.playPacketQueue\n\t\tc.mu.Unlock()\n\t\tqueued, queueErr := q.Queue(packet)",
				Expect: "queue-op-locked:"},
			{Name: "bound-off", File: pkgQueue + "/packet_queue.go",
				Old: "if h.queue.Len() >= maxQueueLen {", New: "if h.queue.Len() >= maxQueueLen*4 {", Expect: "bound:"},
			{Name: "lifo", File: pkgQueue + "/packet_queue.go",
				Old: "packet := h.queue.PopFront()", New: "packet := h.queue.PopBack()", Expect: "fifo:"},
			{Name: "overflow-silent", File: pkgQueue + "/packet_queue.go",
				Old: "return false, ErrQueueFull", New: "return true, nil", Expect: "overflow"},
			{Name: "release-requeues", File: pkgNetmc + "/connection.go",
				Old: "ReleaseQueue(c.bufferNoQueue, c.Flush)", New: "ReleaseQueue(c.BufferPacket, c.Flush)", Expect: "release-sink"},
		},
	})
}

func runC14(c *Ctx) {
	scope := c.P.Funcs(Mod + "/" + pkgNetmc)
	lc := NewLockCtx(c.P, scope)
	checkGuarded(c, lc, scope, GuardSpec{Type: pkgNetmc + ":minecraftConn", Mutex: "mu", Fields: []string{"playPacketQueue"}})
	c.Floor("guarded", 5)

	// every Queue / ReleaseQueue call, anywhere in the loaded program, holds <conn>.mu
	all := c.P.ModFuncs()
	nq := 0
	for _, fn := range all {
		for _, ci := range callsIn(fn, func(n string, cc *ssa.CallCommon) bool {
			return hasAnySuffix(n, "queue.PlayPacketQueue).Queue", "queue.PlayPacketQueue).ReleaseQueue")
		}) {
			nq++
			c.Analysed(fn)
			recv := PathOf(ci.Common().Args[0])
			want := strings.TrimSuffix(recv, ".playPacketQueue") + ".mu"
			var held lockState
			if strings.HasPrefix(fnPkgPath(fn), Mod+"/"+pkgNetmc) {
				held = lc.At(ci)
			} else {
				held = Locks(fn, nil).At(ci)
			}
			mode, ok := held[want]
			c.Check("queue-op-locked", fmt.Sprintf("%s@%s", methodName(ci.Common()), shortName(fn)), ci,
				strings.HasSuffix(recv, ".playPacketQueue") && ok && mode == 'W',
				fmt.Sprintf("PlayPacketQueue.%s on %s must run with %s held exclusively (the release happens under it; a Queue outside lands in a queue that is being/has been released, and races on the deque); held: %s", methodName(ci.Common()), recv, want, held))
		}
	}
	c.Floor("queue-op-locked", 2)

	// the queue itself
	q := c.MustFunc(pkgQueue + ":(*PlayPacketQueue).Queue")
	rel := c.MustFunc(pkgQueue + ":(*PlayPacketQueue).ReleaseQueue")
	if q != nil {
		for _, ci := range callsIn(q, func(n string, cc *ssa.CallCommon) bool { return methodName(cc) == "PushBack" }) {
			dq := PathOf(ci.Common().Args[0])
			r := RangeAt(ci.Block(), func(v ssa.Value) bool {
				call, ok := v.(*ssa.Call)
				return ok && methodName(&call.Call) == "Len" && len(call.Call.Args) > 0 && PathOf(call.Call.Args[0]) == dq
			})
			c.Check("bound", "PushBack<=1024@Queue", ci, r.HasHi() && r.Hi <= 1023,
				fmt.Sprintf("PushBack must be dominated by Len() < 1024 on the same deque; derived range of Len() here: %s", r))
			g, n := MustCross(ci, func(e Edge, cond ssa.Value, truth bool) bool {
				return boolCallEdge(cond, truth, false, callMethod("PacketID"))
			})
			c.Check("config-not-queued", "PushBack-on-not-registered-edge@Queue", ci, g && n > 0,
				"a packet is queued only on the edge where the CONFIG registry does not know it")
		}
		// overflow edge returns a non-nil error
		okOverflow := false
		for _, r := range returnsOf(q) {
			if len(r.Results) != 2 {
				continue
			}
			if isNilConst(r.Results[1]) {
				continue
			}
			// non-nil error return: must be on the Len() >= bound edge and report queued=false
			rg := RangeAt(r.Block(), func(v ssa.Value) bool {
				call, ok := v.(*ssa.Call)
				return ok && methodName(&call.Call) == "Len"
			})
			qv, isC := constBool(r.Results[0])
			if rg.HasLo() && rg.Lo >= 1024 && isC && !qv {
				okOverflow = true
			}
		}
		c.CheckAt("overflow", "error-return@Queue", c.P.Pos(q.Pos()), okOverflow,
			"when the queue is full Queue must return (false, non-nil error) — a silent drop or a 'queued' result loses the packet")
	}
	if rel != nil {
		// FIFO: deque ops in the package
		for _, fn := range c.P.Funcs(Mod + "/" + pkgQueue) {
			eachInstr(fn, func(in ssa.Instruction) {
				cc := callOf(in)
				if cc == nil || len(cc.Args) == 0 || cc.IsInvoke() {
					return
				}
				f := staticCallee(cc)
				if f == nil || f.Signature.Recv() == nil || !strings.Contains(f.Signature.Recv().Type().String(), "deque") {
					return
				}
				switch f.Name() {
				case "PushBack", "PopFront", "Len":
					c.Check("fifo", fmt.Sprintf("%s@%s", f.Name(), shortName(fn)), in, true, "")
				default:
					c.Check("fifo", fmt.Sprintf("%s@%s", f.Name(), shortName(fn)), in, false,
						"deque operation other than PushBack/PopFront/Len breaks first-in-first-out delivery")
				}
			})
		}
		c.Floor("fifo", 3)
		// each popped packet is what is handed to the sink
		for _, ci := range callsIn(rel, func(n string, cc *ssa.CallCommon) bool {
			_, isParam := cc.Value.(*ssa.Parameter)
			return isParam && len(cc.Args) == 1
		}) {
			arg := ci.Common().Args[0]
			call, ok := strip(arg).(*ssa.Call)
			c.Check("fifo", "sink-gets-popped@ReleaseQueue", ci, ok && methodName(&call.Call) == "PopFront",
				"the packet written on release must be the one popped from the front")
		}
	}

	// bufferPacket: direct write only when Queue returned (false, nil); error reaches closeOnWriteErr
	bp := c.MustFunc(pkgNetmc + ":(*minecraftConn).bufferPacket")
	if bp != nil {
		isQueue := forwardsTo(callSuffix("queue.PlayPacketQueue).Queue")) // the call itself or a thin wrapper handing its results back
		for _, ci := range callsIn(bp, func(n string, cc *ssa.CallCommon) bool { return methodName(cc) == "WritePacket" }) {
			// paths that come through the Queue call must cross err==nil and queued==false
			var qcall ssa.Instruction
			eachInstr(bp, func(x ssa.Instruction) {
				if cl, ok := x.(*ssa.Call); ok && isQueue(cl) {
					qcall = x
				}
			})
			if qcall == nil {
				c.Undecided("direct-write", "Queue@bufferPacket", "bufferPacket no longer calls PlayPacketQueue.Queue")
				continue
			}
			fromQ := reach(qcall.Block(), func(e Edge) bool {
				cond, truth := e.Cond()
				if errNonNilEdge(cond, truth, isQueue) {
					return true
				}
				return boolCallEdge(cond, truth, true, isQueue)
			})
			// also need that such edges exist
			nErr, nQd := 0, 0
			for _, e := range IfEdges(bp) {
				cond, truth := e.Cond()
				if errNonNilEdge(cond, truth, isQueue) {
					nErr++
				}
				if boolCallEdge(cond, truth, true, isQueue) {
					nQd++
				}
			}
			// remove: reach from qcall block avoiding the error/queued edges — the write is reachable (the normal path); the point is
			// that it is NOT reachable through those edges: cut everything except them and see
			viaBad := false
			for _, e := range IfEdges(bp) {
				cond, truth := e.Cond()
				if errNonNilEdge(cond, truth, isQueue) || boolCallEdge(cond, truth, true, isQueue) {
					if reach(e.To(), nil)[ci.Block()] {
						viaBad = true
					}
				}
			}
			_ = fromQ
			c.Check("direct-write", "only-if-not-queued@bufferPacket", ci, nErr > 0 && nQd > 0 && !viaBad,
				"the direct write is reachable after Queue reported an error or reported the packet queued (duplicate or lost ordering)")
		}
		// error path reaches closeOnWriteErr: a deferred closure calling closeOnWriteErr is installed before the Queue call
		okDefer := false
		eachInstr(bp, func(in ssa.Instruction) {
			d, ok := in.(*ssa.Defer)
			if !ok {
				return
			}
			f := staticCallee(&d.Call)
			if f == nil {
				return
			}
			for _, x := range callsIn(f, func(n string, cc *ssa.CallCommon) bool { return methodName(cc) == "closeOnWriteErr" }) {
				_ = x
				okDefer = true
			}
		})
		c.CheckAt("overflow", "closes-connection@bufferPacket", c.P.Pos(bp.Pos()), okDefer,
			"bufferPacket must route its error (including ErrQueueFull) to closeOnWriteErr")
		// the error edge of Queue returns that error
		okRet := false
		for _, e := range IfEdges(bp) {
			cond, truth := e.Cond()
			if !errNonNilEdge(cond, truth, isQueue) {
				continue
			}
			for b := range reach(e.To(), nil) {
				if !e.To().Dominates(b) {
					continue
				}
				for _, in := range b.Instrs {
					switch x := in.(type) {
					case *ssa.Store:
						if cv := callValue(x.Val); cv != nil && isQueue(cv) {
							okRet = true
						}
					case *ssa.Return:
						for _, r := range x.Results {
							if cv := callValue(r); cv != nil && isQueue(cv) {
								okRet = true
							}
						}
					}
				}
			}
		}
		c.CheckAt("overflow", "error-propagated@bufferPacket", c.P.Pos(bp.Pos()), okRet,
			"on the queueErr != nil edge bufferPacket must return that error")
	}

	checkQueueReconciledOnStateChange(c, lc)

	// release: sink is the non-queueing writer; pointer cleared in the same critical section
	ens := c.MustFunc(pkgNetmc + ":(*minecraftConn).ensurePlayPacketQueue")
	if ens != nil {
		for _, ci := range callsIn(ens, func(n string, cc *ssa.CallCommon) bool {
			return strings.HasSuffix(n, "queue.PlayPacketQueue).ReleaseQueue")
		}) {
			sink := ci.Common().Args[1]
			okSink := false
			if mc, ok := sink.(*ssa.MakeClosure); ok {
				// bound method wrapper or closure: it must reach bufferPacket(…, false) and not BufferPacket
				name := mc.Fn.Name()
				okSink = strings.Contains(name, "bufferNoQueue")
			}
			c.Check("release-sink", "non-queueing-writer@ensurePlayPacketQueue", ci, okSink,
				"ReleaseQueue must write through bufferNoQueue; a queueing writer re-enqueues into the queue being drained")
			// after release the field is set to nil on every path to exit
			cleared, _ := MayReachExitWithout(ci, func(in ssa.Instruction) bool {
				st, ok := in.(*ssa.Store)
				return ok && isNilConst(st.Val) && strings.HasSuffix(PathOf(st.Addr), ".playPacketQueue")
			})
			c.Check("release-clears", "playPacketQueue=nil@ensurePlayPacketQueue", ci, !cleared,
				"after ReleaseQueue the queue pointer must be cleared on every path (else later packets stay queued forever)")
		}
	}
	if nb := c.MustFunc(pkgNetmc + ":(*minecraftConn).bufferNoQueue"); nb != nil {
		for _, ci := range callsIn(nb, func(n string, cc *ssa.CallCommon) bool { return methodName(cc) == "bufferPacket" }) {
			v, ok := constBool(ci.Common().Args[len(ci.Common().Args)-1])
			c.Check("release-sink", "bufferNoQueue-passes-false", ci, ok && !v, "bufferNoQueue must call bufferPacket with canQueue=false")
		}
	}
}
