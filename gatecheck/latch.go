package main

import "golang.org/x/tools/go/ssa"

// latchImplies: cond is a boolean flag (a phi over constants and other such phis) every `true`
// source of which is assigned in a block that also executes an instruction satisfying did — so the
// flag being true implies that such an instruction has executed ("removed = true" right after the
// removal). Used to discard the infeasible path "flag is true although nothing was removed".
func latchImplies(cond ssa.Value, did func(ssa.Instruction) bool) bool {
	seen := map[ssa.Value]bool{}
	hasTrue := false
	var ok func(v ssa.Value) bool
	ok = func(v ssa.Value) bool {
		if seen[v] {
			return true
		}
		seen[v] = true
		ph, isPhi := v.(*ssa.Phi)
		if !isPhi {
			b, isK := constBool(v)
			return isK && !b
		}
		for i, e := range ph.Edges {
			if b, isK := constBool(e); isK {
				if !b {
					continue
				}
				hasTrue = true
				// the predecessor block (where the assignment to true happened) executed `did`
				p := ph.Block().Preds[i]
				found := false
				for _, in := range p.Instrs {
					if did(in) {
						found = true
					}
				}
				if !found {
					return false
				}
				continue
			}
			if !ok(e) {
				return false
			}
		}
		return true
	}
	return ok(cond) && hasTrue
}

// reachAvoiding: blocks reachable from start, stopping at instructions satisfying stop and not
// crossing conditional edges for which cut returns true.
func reachAvoiding(start *ssa.BasicBlock, stop func(ssa.Instruction) bool, cut func(Edge) bool) map[*ssa.BasicBlock]bool {
	seen := map[*ssa.BasicBlock]bool{}
	var walk func(b *ssa.BasicBlock)
	walk = func(b *ssa.BasicBlock) {
		if seen[b] {
			return
		}
		seen[b] = true
		for _, in := range b.Instrs {
			if stop(in) {
				return
			}
		}
		_, isIf := lastInstr(b).(*ssa.If)
		for i, s := range b.Succs {
			if isIf && cut != nil && cut(Edge{b, i}) {
				continue
			}
			walk(s)
		}
	}
	walk(start)
	// a block is "reached" only if control can arrive at its end… for return detection callers
	// check the block of the return; blocks where stop hit are marked seen but their returns come
	// after the stop, so remove them unless the return precedes the stop
	for b := range seen {
		for _, in := range b.Instrs {
			if stop(in) {
				delete(seen, b)
				break
			}
			if _, isRet := in.(*ssa.Return); isRet {
				break
			}
		}
	}
	return seen
}
