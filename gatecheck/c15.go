package main

import (
	"fmt"
	"strings"

	"golang.org/x/tools/go/ssa"
)

func init() {
	register(&propDef{
		ID:       "C15",
		Title:    "Non-intercepted packets are relayed byte-identical and in order",
		Patterns: []string{"./pkg/edition/java/proxy", "./pkg/edition/java/netmc", "./pkg/edition/java/proto/codec", "./pkg/edition/java/lite", "./pkg/internal/bufpool"},
		Run:      runC15,
		Rule: "P5: every forward helper of the play/config session handlers (forwardToServer / forwardToPlayer) passes exactly <packet context>.Payload to the connection's Write, and " +
			"netmc/codec hand that slice on to the frame writer untouched; no instruction in proxy, netmc, codec or lite stores into, copies into or appends to a PacketContext.Payload, and the " +
			"Payload field is assigned only by the decoder (and Lite's handshake rewrite); exhaustiveness: in each of the four play/config HandlePacket functions the unknown-packet edge and " +
			"the type-switch default reach a forward call with the received context, synchronously in the handler itself (not inside a go statement or an asynchronous callback).",
		Explanation: "Decides: the relayed bytes are the received bytes (provenance, no mutation), everything not intercepted is forwarded, and forwarding happens in read-loop order. " +
			"Does not decide: end-to-end equality through two live connections with different compression settings (covered structurally by C01).",
		Fixtures: []string{"provenance", "guardcut"},
		Variants: []Variant{
			{Name: "forward-reslices", File: pkgProxy + "/session_client_play.go",
				Old: "\t\t_ = serverMc.Write(pc.Payload)", New: "\t\t_ = serverMc.Write(pc.Payload[:len(pc.Payload):len(pc.Payload)][0:])", Expect: "forward-payload"},
			{Name: "default-dropped", File: pkgProxy + "/session_backend_play.go",
				Old: "\tdefault:\n\t\tb.forwardToPlayer(pc, nil)\n\t}\n}\n\nfunc (b *backendPlaySessionHandler) shouldHandle", New: "\tdefault:\n\t}\n}\n\nfunc (b *backendPlaySessionHandler) shouldHandle", Expect: "default-forwards"},
			{Name: "unknown-async", File: pkgProxy + "/session_client_play.go",
				Old: "\tif !pc.KnownPacket() {\n\t\tc.forwardToServer(pc)\n\t\treturn\n\t}\n\n\tswitch p := pc.Packet.(type) {\n\tcase *packet.KeepAlive:\n\t\tc.handleKeepAlive(p)",
				New: "\tif !pc.KnownPacket() {\n\t\tgo c.forwardToServer(pc)\n\t\treturn\n\t}\n\n\tswitch p := pc.Packet.(type) {\n\tcase *packet.KeepAlive:\n\t\tc.handleKeepAlive(p)", Expect: "unknown-forwards"},
			{Name: "payload-mutated", File: pkgProxy + "/session_backend_play.go",
				Old: "\t_ = b.serverConn.player.Write(packetContext.Payload)\n}\n\nfunc (b *backendPlaySessionHandler) proxy()", New: "\tif len(packetContext.Payload) > 0 {\n\t\tpacketContext.Payload[0] &= 0x7f\n\t}\n\t_ = b.serverConn.player.Write(packetContext.Payload)\n}\n\nfunc (b *backendPlaySessionHandler) proxy()", Expect: "payload-immutable"},
			{Name: "netmc-write-copy-prefix", File: pkgNetmc + "/connection.go",
				Old: "\tif _, err = c.wr.Write(payload); err != nil {", New: "\tif _, err = c.wr.Write(payload[1:]); err != nil {", Expect: "write-passthrough"},
		},
	})
}

func runC15(c *Ctx) {
	checkPoolHandsOutEmpty(c, "scratch-buffer-empty")
	proxyFns := c.P.Funcs(Mod + "/" + pkgProxy)
	isPayloadOf := func(v ssa.Value, base string) bool {
		ld, ok := v.(*ssa.UnOp)
		if !ok {
			return false
		}
		fa, ok := ld.X.(*ssa.FieldAddr)
		return ok && fieldOfAddr(fa).Name() == "Payload" && typeIs(fa.X.Type(), "gate/proto", "PacketContext") && (base == "" || PathOf(fa.X) == base)
	}
	// (1) forward helpers
	nF := 0
	var fwd []*ssa.Function
	for _, fn := range proxyFns {
		if fn.Parent() != nil || !(strings.HasPrefix(fn.Name(), "forwardTo")) {
			continue
		}
		var pcParam *ssa.Parameter
		for _, p := range fn.Params {
			if typeIs(p.Type(), "gate/proto", "PacketContext") {
				pcParam = p
			}
		}
		if pcParam == nil {
			continue
		}
		fwd = append(fwd, fn)
		c.Analysed(fn)
		for _, ci := range callsIn(fn, func(nm string, cc *ssa.CallCommon) bool {
			return methodName(cc) == "Write" || methodName(cc) == "BufferPayload"
		}) {
			nF++
			a := lastArg(ci.Common())
			c.Check("forward-payload", "Write(pc.Payload)@"+shortName(fn), ci, isPayloadOf(a, pcParam.Name()),
				"the forwarded bytes are not the received payload itself ("+a.String()+"): non-intercepted packets must be relayed byte-identical")
		}
	}
	if nF < 4 {
		c.Undecided("forward-payload", "forward helpers", fmt.Sprintf("expected ≥4 raw forward writes, found %d", nF))
	}
	// (2) nobody mutates a payload; who assigns the field
	scope := c.P.ModFuncs()
	nScan := 0
	for _, fn := range scope {
		pk := fnPkgPath(fn)
		if !(strings.HasSuffix(pk, "java/proxy") || strings.HasSuffix(pk, "java/netmc") || strings.HasSuffix(pk, "proto/codec") || strings.HasSuffix(pk, "java/lite")) {
			continue
		}
		nScan++
		eachInstr(fn, func(in ssa.Instruction) {
			switch x := in.(type) {
			case *ssa.Store:
				// element store into a Payload slice
				if ia, ok := x.Addr.(*ssa.IndexAddr); ok && isPayloadOf(seeThrough(ia.X), "") {
					c.Check("payload-immutable", "element-store@"+shortName(fn), in, false, "a byte of a received packet payload is overwritten in place before/while it is relayed")
				}
				// assignment of the field
				if fa, ok := x.Addr.(*ssa.FieldAddr); ok && fieldOfAddr(fa).Name() == "Payload" && typeIs(fa.X.Type(), "gate/proto", "PacketContext") {
					n := shortName(fn)
					ok := strings.Contains(n, "codec.Decoder).decodePayload") || strings.Contains(n, "codec.Encoder).WritePacket") || strings.HasSuffix(n, "lite.update") ||
						freshBase(fa.X)
					c.Check("payload-immutable", "Payload=@"+n, in, ok, "PacketContext.Payload is reassigned outside the decoder (the relayed bytes would no longer be the received ones)")
				}
			case *ssa.Call:
				if b, ok := x.Call.Value.(*ssa.Builtin); ok && len(x.Call.Args) > 0 {
					switch b.Name() {
					case "copy":
						if isPayloadOf(seeThrough(x.Call.Args[0]), "") {
							c.Check("payload-immutable", "copy-into@"+shortName(fn), in, false, "bytes are copied into a received packet payload")
						}
					case "append":
						if isPayloadOf(seeThrough(x.Call.Args[0]), "") {
							c.Check("payload-immutable", "append-to@"+shortName(fn), in, false, "a received packet payload is appended to (may write into its backing array)")
						}
					}
				}
			}
		})
	}
	c.CheckAt("payload-immutable", "scanned", "pkg/edition/java/{proxy,netmc,proto/codec,lite}", nScan > 500, fmt.Sprintf("%d functions scanned for writes into packet payloads", nScan))

	// (3) exhaustiveness + synchronous
	isForward := func(in ssa.Instruction, pc ssa.Value) bool {
		call, ok := in.(*ssa.Call) // a `go` statement is not a Call
		if !ok {
			return false
		}
		f := staticCallee(&call.Call)
		if f == nil {
			return false
		}
		isF := false
		for _, g := range fwd {
			if g == f {
				isF = true
			}
		}
		if !isF {
			return false
		}
		for _, a := range call.Call.Args {
			if a == pc {
				return true
			}
		}
		return false
	}
	for _, h := range []string{"(*clientPlaySessionHandler).HandlePacket", "(*backendPlaySessionHandler).HandlePacket",
		"(*clientConfigSessionHandler).HandlePacket", "(*backendConfigSessionHandler).HandlePacket"} {
		fn := c.MustFunc(pkgProxy + ":" + h)
		if fn == nil {
			continue
		}
		pc := fn.Params[1]
		follow := func(known bool) (bool, ssa.Instruction) {
			b := fn.Blocks[0]
			seen := map[*ssa.BasicBlock]bool{}
			for !seen[b] {
				seen[b] = true
				for _, in := range b.Instrs {
					if isForward(in, pc) {
						return true, in
					}
				}
				switch t := lastInstr(b).(type) {
				case *ssa.If:
					cond, _ := Edge{b, 0}.Cond()
					take := -1
					for i := range b.Succs {
						c2, truth := Edge{b, i}.Cond()
						_ = c2
						if cl := callValue(cond); cl != nil && methodName(&cl.Call) == "KnownPacket" {
							if truth == known {
								take = i
							}
							continue
						}
						if ex, ok := cond.(*ssa.Extract); ok {
							if _, isTA := ex.Tuple.(*ssa.TypeAssert); isTA {
								if !truth {
									take = i
								}
								continue
							}
						}
					}
					if take < 0 {
						// other guard (shouldHandle): continue on the edge that does not return at once
						for i, s := range b.Succs {
							if _, isRet := lastInstr(s).(*ssa.Return); !(isRet && len(s.Instrs) == 1) {
								take = i
							}
						}
					}
					if take < 0 {
						return false, t
					}
					b = b.Succs[take]
				case *ssa.Jump:
					b = b.Succs[0]
				default:
					return false, t
				}
			}
			return false, nil
		}
		ok1, at1 := follow(false)
		c.Check("unknown-forwards", h, at1, ok1, "a packet the proxy does not know is not forwarded synchronously with its received context (it must be relayed as is, in read-loop order)")
		ok2, at2 := follow(true)
		c.Check("default-forwards", h, at2, ok2, "a known packet type that no case intercepts (type-switch default) is not forwarded synchronously with its received context")
	}

	// (4a) the received payload is the whole frame (no zero-padded short read)
	codecFns := c.P.Funcs(Mod + "/" + pkgCodec)
	checkFullReader(c, codecFns, NewLockCtx(c.P, codecFns))

	// (4) netmc / codec pass the slice through
	if w := c.MustFunc(pkgNetmc + ":(*minecraftConn).Write"); w != nil {
		n := 0
		isWrite := func(nm string, cc *ssa.CallCommon) bool { return cc.IsInvoke() && cc.Method.Name() == "Write" }
		for _, ci := range callsIn(w, isWrite) {
			n++
			c.Check("write-passthrough", "wr.Write(payload)@minecraftConn.Write", ci, strip(lastArg(ci.Common())) == ssa.Value(w.Params[1]), "the connection must hand the payload to the frame writer unchanged")
		}
		// … or through an unexported helper of the connection (writePayload(payload, …)), its parameters
		// read as this call's arguments
		for _, hc := range callsIn(w, func(nm string, cc *ssa.CallCommon) bool {
			g := moduleHelperWithBody(cc)
			return g != nil && isUnexportedHelper(g)
		}) {
			g := moduleHelperWithBody(hc.Common())
			res := make([]ssa.Value, len(hc.Common().Args))
			for i, a := range hc.Common().Args {
				res[i] = strip(a)
			}
			withBinding(g, res, func() {
				for _, ci := range callsIn(g, isWrite) {
					if !strings.HasSuffix(PathOf(ci.Common().Value), ".wr") {
						continue
					}
					n++
					c.Analysed(g)
					c.Check("write-passthrough", "wr.Write(payload)@minecraftConn.Write", ci, strip(lastArg(ci.Common())) == ssa.Value(w.Params[1]), "the connection must hand the payload to the frame writer unchanged")
				}
			})
		}
		if n == 0 {
			c.Undecided("write-passthrough", "minecraftConn.Write", "no writer call")
		}
	}
	if ew := c.MustFunc(pkgCodec + ":(*Encoder).Write"); ew != nil {
		ok := false
		for _, ci := range callsIn(ew, func(nm string, cc *ssa.CallCommon) bool { return nm == "bytes.NewBuffer" }) {
			if ci.Common().Args[0] == ssa.Value(ew.Params[1]) {
				ok = true
			}
		}
		c.CheckAt("write-passthrough", "NewBuffer(payload)@Encoder.Write", c.P.Pos(ew.Pos()), ok, "the encoder must frame exactly the payload it was given")
	}
}
