package main

import (
	"fmt"
	"go/constant"
	"go/token"
	"sort"
	"strings"

	"golang.org/x/tools/go/ssa"
)

const pkgConnectutil = "pkg/util/connectutil"

func init() {
	register(&propDef{
		ID:       "C41",
		Title:    "Connect session principal fields are extracted exactly or rejected",
		Patterns: []string{"./pkg/util/connectutil"},
		Run:      runC41,
		Rule: "in ExtractSessionPrincipalWire: every protowire.Consume* length result is used as an offset only on the false edge of `n < 0`, whose true edge returns (nil, non-nil error); " +
			"`return nil, nil` is dominated only by the nil-session test or the nothing-found flag — never by a comparison on parse results, wire types or sizes; every other non-success " +
			"return carries a non-nil error; the typed-field path and the unknown-field path handle the same seven field numbers 6..12, and the bytes/varint split of the unknown path " +
			"matches the wire-type test; a principal field with the wrong wire type returns an error; the envelope store of the unknown path is dominated by 'no envelope yet' and " +
			"0 < len <= MaxEnvelopeBytes; from an accepted envelope the success return is only reachable across len(nonce) == 16.",
		Explanation: "Decides: rejected-never-downgraded (error discipline), offset safety, sibling exhaustiveness of the two readers, envelope uniqueness/size/nonce gates. " +
			"Does not decide: equality with a reference protobuf parser on all encodings (last-value-wins for scalars follows from straight overwrites, which is checked only as 'stores are unconditional').",
		Fixtures: []string{"guardcut", "bounds"},
		Variants: []Variant{
			{Name: "varint-field-accepts-fixed-wiretypes", File: pkgConnectutil + "/principal.go",
				Old: "(!wantBytes && typ != protowire.VarintType)", New: "(!wantBytes && typ == protowire.BytesType)", Expect: "consume-matches-wiretype"},
			{Name: "wrong-wiretype-skipped", File: pkgConnectutil + "/principal.go",
				Old:    "\t\t\tif isPrincipalField {\n\t\t\t\treturn nil, fmt.Errorf(\"session field %d has unexpected wire type %d\", num, typ)\n\t\t\t}\n",
				New:    "",
				Expect: "wrong-wiretype-rejected"},
			{Name: "second-envelope-wins", File: pkgConnectutil + "/principal.go",
				Old:    "\t\t\t\tif haveEnvelope {\n\t\t\t\t\treturn nil, errors.New(\"session carries more than one signed principal envelope\")\n\t\t\t\t}\n",
				New:    "",
				Expect: "envelope-gate"},
			{Name: "oversized-envelope", File: pkgConnectutil + "/principal.go",
				Old: "if len(v) == 0 || len(v) > bedrockprincipal.MaxEnvelopeBytes {", New: "if len(v) == 0 {", Expect: "envelope-gate"},
			{Name: "empty-envelope-downgrades", File: pkgConnectutil + "/principal.go",
				Old:    "\t\t\t\tif len(v) == 0 || len(v) > bedrockprincipal.MaxEnvelopeBytes {\n\t\t\t\t\treturn nil, errors.New(\"signed principal envelope has invalid size\")\n\t\t\t\t}",
				New:    "\t\t\t\tif len(v) > bedrockprincipal.MaxEnvelopeBytes {\n\t\t\t\t\treturn nil, errors.New(\"signed principal envelope has invalid size\")\n\t\t\t\t}\n\t\t\t\tif len(v) == 0 {\n\t\t\t\t\treturn nil, nil\n\t\t\t\t}",
				Expect: "no-downgrade"},
			{Name: "malformed-tag-ignored", File: pkgConnectutil + "/principal.go",
				Old:    "\t\tnum, typ, n := protowire.ConsumeTag(raw)\n\t\tif n < 0 {\n\t\t\treturn nil, fmt.Errorf(\"invalid session field encoding: %w\", protowire.ParseError(n))\n\t\t}",
				New:    "\t\tnum, typ, n := protowire.ConsumeTag(raw)\n\t\tif n < 0 {\n\t\t\tbreak\n\t\t}",
				Expect: "consume-checked"},
			{Name: "nonce-size-unchecked", File: pkgConnectutil + "/principal.go",
				Old:    "\t\tif len(nonce) != len(w.ConnectSessionNonce) {\n\t\t\treturn nil, errors.New(\"signed principal session nonce has invalid size\")\n\t\t}\n",
				New:    "",
				Expect: "nonce-gate"},
			{Name: "unknown-path-drops-field", File: pkgConnectutil + "/principal.go",
				Old:    "\t\tcase sessionFieldPolicyRevision:\n\t\t\tsetVarint(func(i int64) { w.PolicyRevision = i }, int64(v))\n\t\t}\n\t}",
				New:    "\t\t}\n\t}",
				Expect: "sibling-fields"},
		},
	})
}

func runC41(c *Ctx) {
	fn := c.MustFunc(pkgConnectutil + ":ExtractSessionPrincipalWire")
	if fn == nil {
		return
	}
	// ---- Consume* results
	nCons := 0
	eachInstr(fn, func(in ssa.Instruction) {
		cl, ok := in.(*ssa.Call)
		if !ok || !strings.Contains(calleeName(&cl.Call), "protowire.Consume") {
			return
		}
		nCons++
		name := staticCallee(&cl.Call).Name()
		// the length result
		var nval ssa.Value = cl
		if refs := cl.Referrers(); refs != nil {
			last := -1
			for _, r := range *refs {
				if ex, ok := r.(*ssa.Extract); ok && ex.Index > last {
					last = ex.Index
					nval = ex
				}
			}
		}
		isNeg := func(truth bool) EdgePred {
			return func(e Edge, cond ssa.Value, t bool) bool {
				bo, ok := cond.(*ssa.BinOp)
				if !ok || bo.X != nval {
					return false
				}
				k, isK := constInt(bo.Y)
				if !isK || k != 0 {
					return false
				}
				switch bo.Op {
				case token.LSS:
					return t == truth
				case token.GEQ:
					return t != truth
				}
				return false
			}
		}
		// uses as an offset
		used := 0
		if refs := nval.Referrers(); refs != nil {
			for _, r := range *refs {
				if sl, ok := r.(*ssa.Slice); ok && (sl.Low == nval || sl.High == nval) {
					used++
					g, n := MustCross(sl, isNeg(false))
					c.Check("consume-checked", name+"→slice@ExtractSessionPrincipalWire", sl, g && n > 0,
						"a protowire length result is used as a slice offset without a dominating `n < 0` test (malformed encoding → panic or mis-parse)")
				}
			}
		}
		if used == 0 {
			c.Check("consume-checked", name+"-unused@ExtractSessionPrincipalWire", in, false, "length result is never used to advance the buffer")
		}
		// the negative edge returns an error
		nNeg := 0
		for _, e := range IfEdges(fn) {
			cond, truth := e.Cond()
			if !isNeg(true)(e, cond, truth) {
				continue
			}
			nNeg++
			okErr := false
			for _, x := range e.To().Instrs {
				if r, isR := x.(*ssa.Return); isR && len(r.Results) == 2 && isNilConst(strip(r.Results[0])) && !isNilConst(r.Results[1]) {
					okErr = true
				}
			}
			c.Check("consume-checked", name+"-error-return@ExtractSessionPrincipalWire", e.To().Instrs[0], okErr,
				"malformed field encoding must reject the proposal with an error")
		}
		if nNeg == 0 {
			c.Check("consume-checked", name+"-tested@ExtractSessionPrincipalWire", in, false, "no `n < 0` test for this parse call")
		}
	})
	if nCons < 4 {
		c.Undecided("consume-checked", "ExtractSessionPrincipalWire", fmt.Sprintf("expected ≥4 protowire.Consume* calls, found %d", nCons))
	}

	// ---- returns
	var successRets []*ssa.Return
	for _, r := range returnsOf(fn) {
		if len(r.Results) != 2 {
			continue
		}
		r0nil, r1nil := isNilConst(strip(r.Results[0])), isNilConst(r.Results[1])
		switch {
		case r0nil && r1nil:
			// allowed only under the nil-session test or the nothing-found flag
			ok := true
			why := ""
			doms := EdgeDominators(r.Block())
			if len(doms) == 0 {
				ok, why = false, "unconditional"
			}
			for _, e := range doms {
				cond, truth := e.Cond()
				if v, _, isCmp := nilCmp(cond, truth); isCmp && strip(v) == ssa.Value(fn.Params[0]) {
					continue // the nil-session test, either way
				}
				if isSeenFlag(cond) && !truth {
					continue
				}
				// harmful: the condition depends on a parse result (length/offset, wire type, field number,
				// parsed bytes) — following only the sliced operand of re-slicing, so that the plain
				// `len(raw) > 0` loop condition is not counted — or on a latch flag being set.
				if dependsOnParse(cond, 6) {
					ok, why = false, "control-dependent on the parse result `"+cond.String()+"`"
				}
				if isBoolFlagWithTrue(cond) && truth {
					ok, why = false, "control-dependent on an 'already seen' flag being set"
				}
			}
			c.Check("no-downgrade", "return-nil-nil@ExtractSessionPrincipalWire", r, ok,
				"'no principal' (nil, nil) is returned on a path that depends on a parse result, wire type or size: a malformed or hostile proposal is silently downgraded instead of rejected ("+why+")")
		case !r0nil && r1nil:
			successRets = append(successRets, r)
		case r0nil && !r1nil:
			// reject: fine
		default:
			c.Check("no-downgrade", "return-shape@ExtractSessionPrincipalWire", r, false, "a return yields both a value and an error")
		}
	}
	if len(successRets) != 1 {
		c.Undecided("no-downgrade", "success-return", fmt.Sprintf("expected one success return, found %d", len(successRets)))
	}

	// ---- sibling exhaustiveness
	numConst := func(name string) int64 {
		k := c.P.Const(pkgConnectutil + ":" + name)
		if k == nil {
			c.Undecided("anchor", name, "constant does not resolve")
			return -1
		}
		v, _ := constant.Int64Val(k.Val())
		return v
	}
	want := map[int64]bool{}
	for _, n := range []string{"sessionFieldProtocol", "sessionFieldEndpointID", "sessionFieldOrganizationID", "sessionFieldConnectSessionNonce",
		"sessionFieldSourceProtocolVersion", "sessionFieldPolicyRevision", "sessionFieldSignedPrincipalV2"} {
		want[numConst(n)] = true
	}
	// num of the unknown path = Extract #0 of ConsumeTag
	var tagNum ssa.Value
	eachInstr(fn, func(in ssa.Instruction) {
		if ex, ok := in.(*ssa.Extract); ok && ex.Index == 0 {
			if cl, ok := ex.Tuple.(*ssa.Call); ok && strings.HasSuffix(calleeName(&cl.Call), "protowire.ConsumeTag") {
				tagNum = ex
			}
		}
	})
	typed, unknownBytes, unknownVarint := map[int64]bool{}, map[int64]bool{}, map[int64]bool{}
	var consBytes, consVarint *ssa.Call
	eachInstr(fn, func(in ssa.Instruction) {
		if cl, ok := in.(*ssa.Call); ok {
			switch {
			case strings.HasSuffix(calleeName(&cl.Call), "protowire.ConsumeBytes"):
				consBytes = cl
			case strings.HasSuffix(calleeName(&cl.Call), "protowire.ConsumeVarint"):
				consVarint = cl
			}
		}
	})
	eachInstr(fn, func(in ssa.Instruction) {
		bo, ok := in.(*ssa.BinOp)
		if !ok || bo.Op != token.EQL {
			return
		}
		k, isK := constInt(bo.Y)
		if !isK {
			return
		}
		// only comparisons that select a handler: the If on this comparison leads to a store / setter call
		if bo.X == tagNum {
			switch {
			case consBytes != nil && consBytes.Block().Dominates(bo.Block()) && bo.Block() != consBytes.Block() || (consBytes != nil && bo.Block() == consBytes.Block() && instrIndex(consBytes) < instrIndex(bo)):
				unknownBytes[k] = true
			case consVarint != nil && (consVarint.Block().Dominates(bo.Block())):
				unknownVarint[k] = true
			}
			return
		}
		// typed path: the compared value is the element of the ranged number list
		if _, isLoad := bo.X.(*ssa.UnOp); isLoad && tagNum != nil && !tagNum.(*ssa.Extract).Block().Dominates(bo.Block()) {
			typed[k] = true
		}
	})
	setStr := func(m map[int64]bool) string {
		var ks []int
		for k := range m {
			ks = append(ks, int(k))
		}
		sort.Ints(ks)
		return fmt.Sprint(ks)
	}
	union := map[int64]bool{}
	for k := range unknownBytes {
		union[k] = true
	}
	for k := range unknownVarint {
		union[k] = true
	}
	same := func(a, b map[int64]bool) bool {
		if len(a) != len(b) {
			return false
		}
		for k := range a {
			if !b[k] {
				return false
			}
		}
		return true
	}
	c.CheckAt("sibling-fields", "typed=unknown=6..12@ExtractSessionPrincipalWire", c.P.Pos(fn.Pos()), same(typed, want) && same(union, want),
		fmt.Sprintf("both readers must handle exactly the seven principal fields %s; typed path handles %s, unknown-field path handles %s (bytes %s, varint %s)",
			setStr(want), setStr(typed), setStr(union), setStr(unknownBytes), setStr(unknownVarint)))
	// disjoint split
	overlap := false
	for k := range unknownBytes {
		if unknownVarint[k] {
			overlap = true
		}
	}
	c.CheckAt("sibling-fields", "bytes/varint-split-disjoint", c.P.Pos(fn.Pos()), !overlap && len(unknownBytes) == 4 && len(unknownVarint) == 3,
		"the unknown-field reader must read 4 length-delimited and 3 varint principal fields, each in exactly one branch")

	// ---- wrong wire type rejected: the ConsumeFieldValue (skip) call is only reachable for non-principal fields
	eachInstr(fn, func(in ssa.Instruction) {
		cl, ok := in.(*ssa.Call)
		if !ok || !strings.HasSuffix(calleeName(&cl.Call), "protowire.ConsumeFieldValue") {
			return
		}
		// every path to the skip crosses an edge saying num is outside [6,12]
		g, n := MustCross(cl, func(e Edge, cond ssa.Value, truth bool) bool {
			r := RangeOnEdge(e, func(v ssa.Value) bool { return strip(v) == strip(tagNum) })
			return (r.HasHi() && r.Hi < 6) || (r.HasLo() && r.Lo > 12)
		})
		if !(g && n > 0) {
			// alternative shape: isPrincipalField computed as a bool Phi and tested
			g, n = MustCross(cl, func(e Edge, cond ssa.Value, truth bool) bool {
				if truth {
					return false
				}
				ph, ok := cond.(*ssa.Phi)
				if !ok {
					return false
				}
				// the phi is (num >= 6 && num <= 12)
				okRange := false
				for _, ed := range ph.Edges {
					if bo, ok := ed.(*ssa.BinOp); ok && strip(bo.X) == strip(tagNum) {
						okRange = true
					}
				}
				return okRange
			})
		}
		c.Check("wrong-wiretype-rejected", "skip-only-foreign-fields@ExtractSessionPrincipalWire", cl, g && n > 0,
			"a principal field (6..12) with an unexpected wire type is skipped like an unknown field instead of rejecting the proposal")
	})

	// ---- the payload of a principal field is parsed as the wire type the tag announced
	checkConsumeMatchesWireType(c, fn)

	// ---- envelope gate (unknown path)
	var envStores []*ssa.Store
	eachInstr(fn, func(in ssa.Instruction) {
		if st, ok := in.(*ssa.Store); ok && strings.HasSuffix(PathOf(st.Addr), ".Envelope") {
			envStores = append(envStores, st)
		}
	})
	maxEnv := c.P.Const("!go.minekube.com/connect/bedrockprincipal:MaxEnvelopeBytes")
	var maxV int64 = -1
	if maxEnv != nil {
		maxV, _ = constant.Int64Val(maxEnv.Val())
	} else {
		c.Undecided("anchor", "bedrockprincipal.MaxEnvelopeBytes", "constant does not resolve")
	}
	nUnk := 0
	for _, st := range envStores {
		if consBytes == nil || !consBytes.Block().Dominates(st.Block()) {
			continue // typed path: the generated accessor already enforced the field type
		}
		nUnk++
		// source slice v
		vsl := consBytesValue(consBytes)
		r := RangeAt(st.Block(), func(v ssa.Value) bool {
			cl, ok := v.(*ssa.Call)
			if !ok {
				return false
			}
			b, isB := cl.Call.Value.(*ssa.Builtin)
			return isB && b.Name() == "len" && cl.Call.Args[0] == vsl
		})
		okSize := r.HasLo() && r.Lo >= 1 && r.HasHi() && maxV > 0 && r.Hi <= maxV
		// not yet an envelope: dominated by the false edge of a "seen" flag phi
		g, n := MustCross(st, func(e Edge, cond ssa.Value, truth bool) bool {
			return !truth && isBoolFlagWithTrue(cond)
		})
		c.Check("envelope-gate", "unique+sized@ExtractSessionPrincipalWire", st, okSize && g && n > 0,
			fmt.Sprintf("the envelope must be stored only if none was seen before (ok=%v) and 0 < len <= MaxEnvelopeBytes (derived len range %s, max %d)", g && n > 0, r, maxV))
	}
	if nUnk == 0 {
		c.Undecided("envelope-gate", "ExtractSessionPrincipalWire", "no envelope store on the unknown-field path")
	}

	// ---- nonce gate
	if len(successRets) == 1 && nUnk > 0 {
		ret := successRets[0]
		lenEq := func(e Edge, cond ssa.Value, truth bool) bool {
			bo, ok := cond.(*ssa.BinOp)
			if !ok || (bo.Op != token.EQL && bo.Op != token.NEQ) {
				return false
			}
			cl := callValue(bo.X)
			if cl == nil {
				return false
			}
			b, isB := cl.Call.Value.(*ssa.Builtin)
			k, isK := constInt(bo.Y)
			if !isB || b.Name() != "len" || !isK || k != 16 {
				return false
			}
			return (bo.Op == token.EQL) == truth
		}
		for _, st := range envStores {
			if consBytes == nil || !consBytes.Block().Dominates(st.Block()) {
				continue
			}
			r := reach(st.Block(), func(e Edge) bool {
				cond, truth := e.Cond()
				if lenEq(e, cond, truth) {
					return true
				}
				// infeasible after an accepted envelope: the envelope flag being false
				return !truth && isBoolFlagWithTrue(cond)
			})
			c.Check("nonce-gate", "envelope→success-crosses-len(nonce)==16@ExtractSessionPrincipalWire", st, !r[ret.Block()],
				"a proposal with a signed principal envelope is accepted without checking that the session nonce is exactly 16 bytes")
		}
	}
}

// consBytesValue returns the byte slice result (#0) of a ConsumeBytes call.
func consBytesValue(cl *ssa.Call) ssa.Value {
	if refs := cl.Referrers(); refs != nil {
		for _, r := range *refs {
			if ex, ok := r.(*ssa.Extract); ok && ex.Index == 0 {
				return ex
			}
		}
	}
	return nil
}

// isSeenFlag: the condition is a load of a local bool variable that is only ever assigned constants
// or disjunctions with itself (a "found something" flag captured by closures).
func isSeenFlag(cond ssa.Value) bool {
	ld, ok := cond.(*ssa.UnOp)
	if !ok || ld.Op != token.MUL {
		return isBoolFlagWithTrue(cond)
	}
	a, ok := ld.X.(*ssa.Alloc)
	if !ok {
		return false
	}
	// stores in this function and in closures that capture it
	vals := storesTo(a)
	for _, r := range *a.Referrers() {
		if mc, ok := r.(*ssa.MakeClosure); ok {
			cl := mc.Fn.(*ssa.Function)
			for i, b := range mc.Bindings {
				if b != ssa.Value(a) || i >= len(cl.FreeVars) {
					continue
				}
				fv := cl.FreeVars[i]
				for _, rr := range *fv.Referrers() {
					if st, ok := rr.(*ssa.Store); ok && st.Addr == ssa.Value(fv) {
						vals = append(vals, st.Val)
					}
				}
			}
		}
	}
	if len(vals) == 0 {
		return false
	}
	for _, v := range vals {
		if _, isK := constBool(v); isK {
			continue
		}
		if isBoolFlagWithTrue(v) {
			continue
		}
		return false
	}
	return true
}

// isBoolFlagWithTrue: a bool SSA value built only from constants, other such flags and
// disjunctions/phis of them, with at least one `true` source (a latch).
func isBoolFlagWithTrue(v ssa.Value) bool {
	seen := map[ssa.Value]bool{}
	hasTrue := false
	var ok func(v ssa.Value, d int) bool
	ok = func(v ssa.Value, d int) bool {
		if d < 0 {
			return false
		}
		if seen[v] {
			return true
		}
		seen[v] = true
		switch x := v.(type) {
		case *ssa.Const:
			if b, isB := constBool(x); isB {
				if b {
					hasTrue = true
				}
				return true
			}
			return false
		case *ssa.Phi:
			for _, e := range x.Edges {
				if !ok(e, d-1) {
					return false
				}
			}
			return true
		case *ssa.BinOp:
			// len(w.Envelope) > 0 on the typed path
			if x.Op == token.GTR {
				if cl := callValue(x.X); cl != nil {
					if b, isB := cl.Call.Value.(*ssa.Builtin); isB && b.Name() == "len" {
						return true
					}
				}
			}
			return false
		case *ssa.UnOp:
			if x.Op == token.MUL {
				if a, isA := x.X.(*ssa.Alloc); isA {
					for _, sv := range storesTo(a) {
						if !ok(sv, d-1) {
							return false
						}
					}
					return true
				}
			}
			return false
		}
		return false
	}
	if _, isPhi := v.(*ssa.Phi); !isPhi {
		if _, isLd := v.(*ssa.UnOp); !isLd {
			return false
		}
	}
	return ok(v, 8) && hasTrue
}

// dependsOnParse: v is data-dependent on a protowire.Consume* result. For re-slicing only the
// sliced operand is followed (raw = raw[n:] keeps "raw" a buffer, not a parse result).
func dependsOnParse(v ssa.Value, depth int) bool {
	seen := map[ssa.Value]bool{}
	var walk func(v ssa.Value, d int) bool
	walk = func(v ssa.Value, d int) bool {
		if v == nil || seen[v] || d < 0 {
			return false
		}
		seen[v] = true
		if cl := callValue(v); cl != nil && strings.Contains(calleeName(&cl.Call), "protowire.Consume") {
			return true
		}
		switch x := v.(type) {
		case *ssa.Slice:
			return walk(x.X, d-1)
		case *ssa.Phi:
			for _, e := range x.Edges {
				if walk(e, d-1) {
					return true
				}
			}
			return false
		}
		in, ok := v.(ssa.Instruction)
		if !ok {
			return false
		}
		for _, op := range in.Operands(nil) {
			if *op != nil && walk(*op, d-1) {
				return true
			}
		}
		return false
	}
	return walk(v, depth)
}
