package main

import (
	"fmt"
	"go/token"
	"strings"

	"golang.org/x/tools/go/ssa"
)

const pkgLite = "pkg/edition/java/lite"

func init() {
	register(&propDef{
		ID:       "C32",
		Title:    "Lite ping cache never serves status from before a reload",
		Patterns: []string{"./pkg/edition/java/lite", "./pkg/edition/java/proxy"},
		Run:      runC32,
		Rule: "P4: pingStatusCache.generation and every Get/Set/Delete/DeleteAll on pingStatusCache.cache run under pingStatusCache.mu; P2: every cache.Set is dominated by " +
			"the true edge of `snapshot == c.generation` evaluated in the same critical section, where snapshot was read before the load started; reset increments the generation and " +
			"clears the cache in one critical section; the singleflight key is data-dependent on the generation snapshot, the route generation, backend and protocol; the fallback " +
			"status is produced only on the err != nil edge of tryBackends; ApplyLiveConfig resets the cache and bumps the route generation on the routes-changed edge before publishing.",
		Explanation: "Decides the structural conditions for 'no stale status after reset': stores are generation-checked under the lock, reset is atomic with the increment, in-flight " +
			"loads from before a reset cannot be joined by requests after it (key includes the generation). Does not decide: TTL arithmetic of the ttlcache library, or timing.",
		Fixtures: []string{"lockset", "guardcut"},
		Variants: []Variant{
			{Name: "store-unchecked", File: pkgLite + "/forward.go",
				Old:    "\t\tc.mu.Lock()\n\t\tif generation == c.generation {\n\t\t\tc.cache.Set(key, loaded, ttl)\n\t\t}\n\t\tc.mu.Unlock()",
				New:    "\t\tc.mu.Lock()\n\t\tc.cache.Set(key, loaded, ttl)\n\t\tc.mu.Unlock()",
				Expect: "set-generation-checked"},
			{Name: "flightkey-without-generation", File: pkgLite + "/forward.go",
				Old:    `fmt.Sprintf("%d:%d:%s:%d", generation, key.routeGeneration, key.backendAddr, key.protocol)`,
				New:    `fmt.Sprintf("%d:%s:%d", key.routeGeneration, key.backendAddr, key.protocol)`,
				Expect: "flight-key"},
			{Name: "reset-split", File: pkgLite + "/forward.go",
				Old:    "\tc.generation++\n\tc.cache.DeleteAll()\n\tc.mu.Unlock()",
				New:    "\tc.generation++\n\tc.mu.Unlock()\n\tc.cache.DeleteAll()",
				Expect: "cache-op-locked:DeleteAll"},
			{Name: "fallback-always", File: pkgLite + "/forward.go",
				Old:    "\tif err != nil {\n\t\tfallbackResp, fallbackLog := handleFallbackResponse(",
				New:    "\tif err != nil || res == nil {\n\t\tfallbackResp, fallbackLog := handleFallbackResponse(",
				Expect: "fallback-only-on-error"},
			{Name: "reload-without-reset", File: pkgProxy + "/proxy.go",
				Old: "\t\tlite.ResetPingCache()\n", New: "", Expect: "reload-resets"},
		},
	})
}

func runC32(c *Ctx) {
	scope := c.P.Funcs(Mod + "/" + pkgLite)
	lc := NewLockCtx(c.P, scope)
	genName := "generation"
	if gf := c.P.FieldVarLike(pkgLite+":pingStatusCache", "generation", "uint64"); gf != nil {
		genName = gf.Name() // the reset counter, whatever it is called now
	}
	checkGuarded(c, lc, scope, GuardSpec{Type: pkgLite + ":pingStatusCache", Mutex: "mu", Fields: []string{genName}})
	c.Floor("guarded", 4)

	isCache := func(cc *ssa.CallCommon) bool {
		return !cc.IsInvoke() && len(cc.Args) > 0 && strings.HasSuffix(PathOf(cc.Args[0]), ".cache") &&
			typeIs(cc.Args[0].Type(), "ttlcache/v3", "Cache")
	}
	genField := c.P.FieldVarLike(pkgLite+":pingStatusCache", "generation", "uint64")
	isGenLoad := func(v ssa.Value) bool {
		ld, ok := v.(*ssa.UnOp)
		if !ok || ld.Op != token.MUL {
			return false
		}
		fa, ok := ld.X.(*ssa.FieldAddr)
		return ok && sameField(fieldOfAddr(fa), genField)
	}
	for _, fn := range scope {
		for _, ci := range callsIn(fn, func(n string, cc *ssa.CallCommon) bool { return isCache(cc) }) {
			m := methodName(ci.Common())
			switch m {
			case "Start", "Stop":
				continue // eviction loop of the library, not a lookup or store
			}
			c.Analysed(fn)
			base := strings.TrimSuffix(PathOf(ci.Common().Args[0]), ".cache")
			held := lc.At(ci)
			c.Check("cache-op-locked", fmt.Sprintf("%s@%s", m, shortName(fn)), ci, held[base+".mu"] == 'W',
				fmt.Sprintf("cache.%s must run under %s.mu so that it is atomic with the generation check; held: %s", m, base, held))
			if m != "Set" {
				continue
			}
			// generation check dominates the store, compared inside this critical section
			var cmpEdge *Edge
			g, n := MustCross(ci, func(e Edge, cond ssa.Value, truth bool) bool {
				bo, ok := cond.(*ssa.BinOp)
				if !ok || bo.Op != token.EQL || !truth {
					return false
				}
				cur, snap := bo.X, bo.Y
				if !isGenLoad(cur) {
					cur, snap = bo.Y, bo.X
				}
				if !isGenLoad(cur) || isGenLoad(snap) && snap.(*ssa.UnOp).Block() == cur.(*ssa.UnOp).Block() {
					return false
				}
				// the snapshot must itself come from the generation (captured earlier)
				if !isSnapshotOfGeneration(snap, isGenLoad) {
					return false
				}
				ee := e
				cmpEdge = &ee
				return true
			})
			ok := g && n > 0
			detail := "cache.Set must be dominated by `snapshot == c.generation` (a load that started before a reset must not repopulate the cache)"
			if ok && cmpEdge != nil {
				// same critical section: no Unlock between the comparison block and the Set
				ms := NewMustSince(fn, func(x ssa.Instruction) bool { return x.Block() == cmpEdge.From && x == lastInstr(cmpEdge.From) },
					func(x ssa.Instruction) bool {
						if cc := callOf(x); cc != nil {
							if _, isDefer := x.(*ssa.Defer); isDefer {
								return false
							}
							if _, k, ok := lockOp(cc); ok && (k == "Unlock" || k == "Lock") {
								return true
							}
						}
						return false
					})
				if !ms.At(ci) {
					ok = false
					detail = "the generation comparison and cache.Set are not in the same critical section (reset can run in between)"
				}
				// the generation load used in the comparison must be made with the lock held
				cond, _ := cmpEdge.Cond()
				for _, side := range []ssa.Value{cond.(*ssa.BinOp).X, cond.(*ssa.BinOp).Y} {
					if isGenLoad(side) {
						if lc.At(side.(*ssa.UnOp))[base+".mu"] == 0 {
							ok = false
							detail = "c.generation is read for the comparison without the lock"
						}
					}
				}
			}
			c.Check("set-generation-checked", "Set@"+shortName(fn), ci, ok, detail)
		}
	}
	c.Floor("cache-op-locked", 4)
	c.Floor("set-generation-checked", 1)

	// reset: increment + DeleteAll, same critical section
	if rs := c.MustFunc(pkgLite + ":(*pingStatusCache).reset"); rs != nil {
		var inc, del ssa.Instruction
		eachInstr(rs, func(in ssa.Instruction) {
			if st, ok := in.(*ssa.Store); ok {
				if fa, ok := st.Addr.(*ssa.FieldAddr); ok && sameField(fieldOfAddr(fa), genField) {
					if bo, ok := st.Val.(*ssa.BinOp); ok && bo.Op == token.ADD && isGenLoad(bo.X) {
						if k, ok := constInt(bo.Y); ok && k > 0 {
							inc = in
						}
					}
				}
			}
			if cc := callOf(in); cc != nil && isCache(cc) && methodName(cc) == "DeleteAll" {
				del = in
			}
		})
		ok := inc != nil && del != nil
		if ok {
			lo, hi := inc, del
			if !domBefore(lo, hi) {
				lo, hi = del, inc
			}
			ms := NewMustSince(rs, func(x ssa.Instruction) bool { return x == lo }, func(x ssa.Instruction) bool {
				if cc := callOf(x); cc != nil {
					if _, k, ok := lockOp(cc); ok && k == "Unlock" {
						if _, isDefer := x.(*ssa.Defer); !isDefer {
							return true
						}
					}
				}
				return false
			})
			ok = ms.At(hi) && lc.At(inc)["c.mu"] == 'W' && lc.At(del)["c.mu"] == 'W'
		}
		c.CheckAt("reset-atomic", "generation++ & DeleteAll@reset", c.P.Pos(rs.Pos()), ok,
			"reset must increment the generation and clear the cache inside one critical section")
	}

	// flight key includes the generation snapshot and the key parts
	if ld := c.MustFunc(pkgLite + ":(*pingStatusCache).load"); ld != nil {
		n := 0
		for _, ci := range callsIn(ld, func(nm string, cc *ssa.CallCommon) bool { return methodName(cc) == "DoChan" || methodName(cc) == "Do" }) {
			n++
			args := ci.Common().Args
			keyArg := args[0]
			if !ci.Common().IsInvoke() {
				keyArg = args[1]
			}
			hasGen := false
			need := map[string]bool{"routeGeneration": false, "backendAddr": false, "protocol": false}
			var scan func(v ssa.Value, depth int)
			scan = func(v ssa.Value, depth int) {
				derivesFrom(v, 12, func(x ssa.Value) bool {
					if isGenLoad(x) || isSnapshotOfGeneration(x, isGenLoad) {
						hasGen = true
					}
					p := PathOf(x)
					for k := range need {
						if strings.HasSuffix(p, "."+k) {
							need[k] = true
						}
					}
					return false
				})
				// the key built by a helper of the module (flightKey(epoch, key)): what its result is made of,
				// its parameters read as this call's arguments
				if cl, isC := strip(v).(*ssa.Call); isC && depth > 0 {
					if g := moduleHelperWithBody(&cl.Call); g != nil {
						res := make([]ssa.Value, len(cl.Call.Args))
						for i, a := range cl.Call.Args {
							res[i] = strip(a)
						}
						withBinding(g, res, func() {
							for _, r := range successReturns(g) {
								if len(r.Results) > 0 {
									scan(retVal(r, 0), depth-1)
								}
							}
						})
					}
				}
			}
			scan(keyArg, 2)
			missing := []string{}
			for k, ok := range need {
				if !ok {
					missing = append(missing, k)
				}
			}
			c.Check("flight-key", "DoChan@load", ci, hasGen && len(missing) == 0,
				fmt.Sprintf("the singleflight key must depend on the cache generation snapshot (has=%v) and on %v — otherwise a request after a reset joins a load started before it", hasGen, missing))
		}
		if n == 0 {
			c.Undecided("flight-key", "DoChan@load", "no singleflight call found")
		}
	}

	// fallback only on error of tryBackends
	if rs := c.MustFunc(pkgLite + ":ResolveStatusResponseWithGeneration"); rs != nil {
		n := 0
		for _, ci := range callsIn(rs, func(nm string, cc *ssa.CallCommon) bool { return strings.HasSuffix(nm, "lite.handleFallbackResponse") }) {
			n++
			g, ns := MustCross(ci, func(e Edge, cond ssa.Value, truth bool) bool {
				return errNonNilEdge(cond, truth, callSuffix("lite.tryBackends"))
			})
			// and no other edge lets it through: MustCross already says every path crosses an err != nil edge
			c.Check("fallback-only-on-error", "handleFallbackResponse@ResolveStatusResponseWithGeneration", ci, g && ns > 0,
				"the configured fallback status may only be used when every backend failed (err != nil from tryBackends)")
		}
		if n == 0 {
			c.Undecided("fallback-only-on-error", "handleFallbackResponse", "call not found")
		}
	}

	// reload path: reset + route generation bump on the routes-changed edge, before publishing
	if al := c.MustFunc(pkgProxy + ":(*Proxy).ApplyLiveConfig"); al != nil {
		changed := func(e Edge, cond ssa.Value, truth bool) bool {
			return boolCallEdge(cond, truth, true, callSuffix("proxy.liteRoutesChanged"))
		}
		var resetCall ssa.Instruction
		for _, ci := range callsIn(al, func(nm string, cc *ssa.CallCommon) bool { return strings.HasSuffix(nm, "lite.ResetPingCache") }) {
			resetCall = ci
		}
		var store ssa.Instruction
		for _, ci := range callsIn(al, func(nm string, cc *ssa.CallCommon) bool {
			return methodName(cc) == "Store" && len(cc.Args) > 0 && strings.HasSuffix(PathOf(cc.Args[0]), ".currentCfg")
		}) {
			store = ci
		}
		ok := resetCall != nil && store != nil
		detail := "ApplyLiveConfig must call lite.ResetPingCache on the routes-changed edge before publishing the new snapshot"
		if ok {
			// every path from the routes-changed true edge to the Store passes the reset
			for _, e := range IfEdges(al) {
				cond, truth := e.Cond()
				if !changed(e, cond, truth) {
					continue
				}
				r := reachAvoidingInstr(e.To(), resetCall)
				if r[store.Block()] && !(store.Block() == resetCall.Block()) {
					ok = false
				}
			}
			// generation stored in the snapshot is bumped on that edge
			bumped := false
			derivesFrom(store.(ssa.CallInstruction).Common().Args[1], 10, func(v ssa.Value) bool {
				if bo, ok := v.(*ssa.BinOp); ok && bo.Op == token.ADD {
					if g, _ := MustCross(bo, changed); g {
						bumped = true
					}
				}
				return false
			})
			if !bumped {
				ok = false
				detail = "the route generation published with the new snapshot is not incremented on the routes-changed edge (cached status keyed by the old generation would still be served)"
			}
		}
		c.CheckAt("reload-resets", "ResetPingCache+generation@ApplyLiveConfig", c.P.Pos(al.Pos()), ok, detail)
	}
	// the status path passes the snapshot's generation
	if hs := c.P.Func(pkgProxy + ":(*handshakeSessionHandler).handleLiteStatus"); hs != nil {
		_ = hs
	}
}

// isSnapshotOfGeneration: v is a value captured from a load of the generation field (free variable
// bound to such a load in the enclosing function, or a load in a dominating block).
func isSnapshotOfGeneration(v ssa.Value, isGenLoad func(ssa.Value) bool) bool {
	return isSnapshotOfGenerationD(v, isGenLoad, 5)
}

func isSnapshotOfGenerationD(v ssa.Value, isGenLoad func(ssa.Value) bool, depth int) bool {
	if depth <= 0 || v == nil {
		return false
	}
	switch x := v.(type) {
	case *ssa.Parameter:
		// handed down by the callers: every call site passes a snapshot
		fn := x.Parent()
		if !isUnexportedHelper(fn) {
			return false
		}
		idx := -1
		for i, q := range fn.Params {
			if q == x {
				idx = i
			}
		}
		sites := staticCallersOf(fn)
		if idx < 0 || len(sites) == 0 {
			return false
		}
		for _, cs := range sites {
			if idx >= len(cs.Common().Args) || !isSnapshotOfGenerationD(stripNoSubst(cs.Common().Args[idx]), isGenLoad, depth-1) {
				return false
			}
		}
		return true
	case *ssa.Extract:
		// handed back by a helper (epoch, cached := c.snapshot(key)): every return yields a generation load
		cl, ok := x.Tuple.(*ssa.Call)
		if !ok {
			return false
		}
		g := moduleHelperWithBody(&cl.Call)
		if g == nil {
			return false
		}
		n := 0
		for _, r := range successReturns(g) {
			if x.Index >= len(r.Results) {
				return false
			}
			n++
			if !isSnapshotOfGenerationD(stripNoSubst(r.Results[x.Index]), isGenLoad, depth-1) {
				return false
			}
		}
		return n > 0
	}
	switch x := v.(type) {
	case *ssa.FreeVar:
		fn := x.Parent()
		idx := -1
		for i, fv := range fn.FreeVars {
			if fv == x {
				idx = i
			}
		}
		par := fn.Parent()
		if par == nil || idx < 0 {
			return false
		}
		found := false
		eachInstr(par, func(in ssa.Instruction) {
			if mc, ok := in.(*ssa.MakeClosure); ok && mc.Fn == fn && idx < len(mc.Bindings) {
				b := mc.Bindings[idx]
				if isGenLoad(b) || isSnapshotOfGenerationD(b, isGenLoad, 3) {
					found = true
				}
				// captured by reference: an alloc that stores a generation load
				if a, ok := b.(*ssa.Alloc); ok {
					for _, s := range storesTo(a) {
						if isGenLoad(s) || isSnapshotOfGenerationD(stripNoSubst(s), isGenLoad, 3) {
							found = true
						}
					}
				}
			}
		})
		return found
	case *ssa.UnOp:
		if isGenLoad(x) {
			return true
		}
		if x.Op == token.MUL {
			// load of a by-reference captured variable
			return isSnapshotOfGeneration(x.X, isGenLoad)
		}
	}
	return false
}

// reachAvoidingInstr: blocks reachable from start without executing instruction avoid (its block
// is entered but not left).
func reachAvoidingInstr(start *ssa.BasicBlock, avoid ssa.Instruction) map[*ssa.BasicBlock]bool {
	seen := map[*ssa.BasicBlock]bool{start: true}
	work := []*ssa.BasicBlock{start}
	for len(work) > 0 {
		b := work[len(work)-1]
		work = work[:len(work)-1]
		if b == avoid.Block() {
			continue
		}
		for _, s := range b.Succs {
			if !seen[s] {
				seen[s] = true
				work = append(work, s)
			}
		}
	}
	return seen
}
