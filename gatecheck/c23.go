package main

import (
	"strings"

	"golang.org/x/tools/go/ssa"
)

func init() {
	register(&propDef{
		ID:       "C23",
		Title:    "The command tree sent to a player only shows proxy commands it may use",
		Patterns: []string{"./pkg/edition/java/proxy"},
		Run:      runC23,
		Rule: "in filterNode: the only non-nil results are a fresh root node (on the is-root edge) or builder.Build() whose call is dominated by src.CanUse(ctx-with-the-player's-source)==true; " +
			"every argument of dest.AddChild and builder.Redirect is the result of a recursive filterNode call with the same source (AddChild only on its non-nil edge); in " +
			"handleAvailableCommands the nodes added to the backend's root are exactly the children of filterNode(proxy root, the receiving player), a same-named backend child is removed " +
			"before the add on the edge where it exists, and nothing else is removed.",
		Explanation: "Decides: every proxy node that can reach the player at any depth passed the requirement test for that player; proxy nodes replace same-named backend nodes; no other " +
			"backend node is touched. Does not decide: brigadier's CanUse/requirement evaluation itself or node serialisation.",
		Fixtures: []string{"guardcut", "provenance"},
		Variants: []Variant{
			{Name: "children-unfiltered", File: pkgProxy + "/session_backend_play.go",
				Old: "\t\tdestChild := filterNode(sourceChild, cmdSrc)\n\t\tif destChild != nil {\n\t\t\tdest.AddChild(destChild)\n\t\t}", New: "\t\tdest.AddChild(sourceChild)", Expect: "addchild-filtered"},
			{Name: "canuse-skipped", File: pkgProxy + "/session_backend_play.go",
				Old: "\t\tif !src.CanUse(command.ContextWithSource(context.Background(), cmdSrc)) {\n\t\t\treturn nil\n\t\t}\n", New: "", Expect: "build-after-canuse"},
			{Name: "redirect-unfiltered", File: pkgProxy + "/session_backend_play.go",
				Old: "builder.Redirect(filterNode(src.Redirect(), cmdSrc))", New: "builder.Redirect(src.Redirect())", Expect: "redirect-filtered"},
			{Name: "inject-unfiltered-root", File: pkgProxy + "/session_backend_play.go",
				Old: "\t\tproxyNodes := dispatcherRootNode.ChildrenOrdered()", New: "\t\tproxyNodes := b.proxy().command.Root.ChildrenOrdered()", Expect: "inject-filtered"},
			{Name: "filter-for-other-source", File: pkgProxy + "/session_backend_play.go",
				Old: "filterNode(&b.proxy().command.Root, b.serverConn.player)", New: "filterNode(&b.proxy().command.Root, command.SourceFromContext(context.Background()))", Expect: "inject-"},
			{Name: "no-replace", File: pkgProxy + "/session_backend_play.go",
				Old: "\t\t\tif existingServerChild != nil {\n\t\t\t\trootNode.RemoveChild(existingServerChild.Name())\n\t\t\t}\n", New: "\t\t\t_ = existingServerChild\n", Expect: "replace-same-name"},
		},
	})
}

func runC23(c *Ctx) {
	fnode := c.MustFunc(pkgProxy + ":filterNode")
	if fnode == nil {
		return
	}
	// filterNode and the unexported helpers it was split into (copyNode(node, source) …), their
	// parameters read as the call's arguments
	fnParts, fnRestore := boundParts(fnode, 1)
	defer fnRestore()
	isFilterCall := func(v ssa.Value) *ssa.Call {
		cl, ok := strip(v).(*ssa.Call)
		if ok && staticCallee(&cl.Call) == fnode {
			return cl
		}
		return nil
	}
	canUseTrue := func(e Edge, cond ssa.Value, truth bool) bool {
		if !truth {
			return false
		}
		cl := callValue(cond)
		if cl == nil || !cl.Call.IsInvoke() || cl.Call.Method.Name() != "CanUse" || strip(cl.Call.Value) != ssa.Value(fnode.Params[0]) {
			return false
		}
		// ctx built from the cmdSrc parameter
		return derivesFrom(cl.Call.Args[0], 5, func(v ssa.Value) bool { return strip(v) == ssa.Value(fnode.Params[1]) })
	}
	// results
	var judge func(v ssa.Value, r ssa.Instruction, depth int)
	judge = func(v ssa.Value, r ssa.Instruction, depth int) {
		if depth <= 0 {
			c.Check("result-shape", "source@filterNode", r, false, "filterNode's result could not be traced to a freshly built node")
			return
		}
		for _, o := range origins(v, 4) {
			o = strip(o)
			switch x := o.(type) {
			case *ssa.Const:
				c.Check("result-shape", "nil@filterNode", r, x.Value == nil, "unexpected constant result")
			case *ssa.Alloc:
				c.Check("result-shape", "fresh-root@filterNode", r, typeIs(x.Type(), "brigodier", "RootCommandNode"), "a fresh non-root node is returned without CanUse")
			case *ssa.Call, *ssa.Extract:
				cl := callValue(x)
				idx := 0
				if ex, isEx := x.(*ssa.Extract); isEx {
					idx = ex.Index
				}
				if cl != nil && methodName(&cl.Call) == "Build" {
					g, n := MustCross(cl, canUseTrue)
					c.Check("build-after-canuse", "Build@filterNode", cl, g && n > 0,
						"a proxy command node is produced for the player without a dominating src.CanUse(player's context) == true")
					continue
				}
				// a helper of the module that hands the node back: each of its returns is judged
				if g := moduleHelperWithBody(&cl.Call); cl != nil && g != nil && g != fnode {
					c.Analysed(g)
					res := make([]ssa.Value, len(cl.Call.Args))
					for i, a := range cl.Call.Args {
						res[i] = strip(a)
					}
					withBinding(g, res, func() {
						for _, hr := range successReturns(g) {
							if idx < len(hr.Results) {
								judge(hr.Results[idx], hr, depth-1)
							}
						}
					})
					continue
				}
				c.Check("build-after-canuse", methodName(&cl.Call)+"@filterNode", cl, false,
					"a proxy command node is produced for the player without a dominating src.CanUse(player's context) == true")
			case *ssa.UnOp:
				// dest captured by the Range closure: a local cell; look at what is stored in it
				if a, ok := x.X.(*ssa.Alloc); ok {
					for _, sv := range storesTo(a) {
						judge(sv, r, depth-1)
					}
				} else {
					c.Check("result-shape", "source@filterNode", r, false, "filterNode may return a node that is not freshly built: "+o.String())
				}
			default:
				c.Check("result-shape", "source@filterNode", r, false, "filterNode may return a node that is not freshly built (e.g. the unfiltered source node): "+o.String())
			}
		}
	}
	for _, r := range returnsOf(fnode) {
		if len(r.Results) != 1 {
			continue
		}
		judge(r.Results[0], r, 4)
	}
	c.Floor("build-after-canuse", 1)
	// the fresh root is only produced on the is-root edge
	// AddChild / Redirect arguments
	nAdd, nRed := 0, 0
	var fnAll []*ssa.Function
	for _, part := range fnParts {
		if part.Parent() == nil {
			fnAll = append(fnAll, Closures(part)...)
		}
	}
	for _, fn := range fnAll {
		c.Analysed(fn)
		for _, ci := range callsIn(fn, func(nm string, cc *ssa.CallCommon) bool {
			return (methodName(cc) == "AddChild" || methodName(cc) == "Redirect") && len(cc.Args) >= 1 && cc.IsInvoke()
		}) {
			a := lastArg(ci.Common())
			fc := isFilterCall(a)
			sameSrc := false
			if fc != nil {
				s := fc.Call.Args[1]
				sameSrc = strip(s) == ssa.Value(fnode.Params[1]) || strings.HasSuffix(PathOf(s), fnode.Params[1].Name())
			}
			if methodName(ci.Common()) == "AddChild" {
				nAdd++
				okNil := false
				if fc != nil {
					g, n := MustCross(ci, func(e Edge, cond ssa.Value, truth bool) bool {
						v, isNil, ok := nilCmp(cond, truth)
						return ok && !isNil && strip(v) == ssa.Value(fc)
					})
					okNil = g && n > 0
				}
				c.Check("addchild-filtered", "AddChild@"+shortName(fn), ci, fc != nil && sameSrc && okNil,
					"a child is attached that did not come out of filterNode for the same player (the player would see a command it may not use)")
			} else {
				nRed++
				c.Check("redirect-filtered", "Redirect@"+shortName(fn), ci, fc != nil && sameSrc,
					"a redirect target is attached unfiltered")
			}
		}
	}
	if nAdd == 0 {
		c.Undecided("addchild-filtered", "filterNode", "no AddChild found")
	}
	if nRed == 0 {
		// brigadier's CreateBuilder copies the source node's redirect target (unfiltered); without a
		// filtered Redirect(...) overriding it the player is sent the target's original subtree
		var cb ssa.Instruction
		for _, fn := range fnAll {
			for _, ci := range callsIn(fn, func(nm string, cc *ssa.CallCommon) bool { return methodName(cc) == "CreateBuilder" }) {
				cb = ci
			}
		}
		if cb != nil {
			c.Check("redirect-filtered", "CreateBuilder-without-filtered-Redirect@filterNode", cb, false,
				"the copy is built with CreateBuilder(), which carries the source node's original redirect target, and no Redirect(filterNode(...)) replaces it: an alias/redirect exposes the target's unfiltered children to the player")
		} else {
			c.Undecided("redirect-filtered", "filterNode", "no Redirect found")
		}
	}

	// handleAvailableCommands
	h := c.MustFunc(pkgProxy + ":(*backendPlaySessionHandler).handleAvailableCommands")
	if h == nil {
		return
	}
	// the handler and the helpers it was split into (injectProxyCommands(root, player), replaceChild …)
	hParts, hRestore := boundParts(h, 2)
	defer hRestore()
	var hTop []*ssa.Function
	for _, part := range hParts {
		isFn := false
		for _, q := range fnParts {
			if q == part {
				isFn = true
			}
		}
		if !isFn {
			hTop = append(hTop, part)
			c.Analysed(part)
		}
	}
	callsInH := func(m func(string, *ssa.CallCommon) bool) (out []ssa.CallInstruction) {
		for _, part := range hTop {
			if part.Parent() == nil || part.Parent() == h {
				out = append(out, callsIn(part, m)...)
			}
		}
		return
	}
	var filt *ssa.Call
	for _, ci := range callsInH(func(nm string, cc *ssa.CallCommon) bool { return staticCallee(cc) == fnode }) {
		filt = ci.(*ssa.Call)
	}
	if filt == nil {
		c.Undecided("inject-filtered", "handleAvailableCommands", "no filterNode call")
		return
	}
	// the player filtered for is the player written to
	var written ssa.Value
	var writtenIn *ssa.Function
	for _, fn := range Closures(h) {
		for _, ci := range callsIn(fn, func(nm string, cc *ssa.CallCommon) bool { return methodName(cc) == "WritePacket" }) {
			if ci.Common().IsInvoke() {
				written = ci.Common().Value
			} else {
				written = ci.Common().Args[0]
			}
			writtenIn = fn
		}
	}
	pw, pf := "", pathThroughFreeVars(filt.Call.Args[1], filt.Parent())
	if written != nil {
		pw = pathThroughFreeVars(written, writtenIn)
	}
	c.Check("inject-for-recipient", "filterNode(player)=WritePacket(player)@handleAvailableCommands", filt,
		written != nil && strings.HasSuffix(pf, ".serverConn.player") && strings.HasSuffix(strings.TrimSuffix(pw, ".MinecraftConn"), ".serverConn.player"),
		"the tree is filtered for "+pf+" but sent to "+pw)
	// Range over children of the filtered root; closure adds its node parameter
	nInj := 0
	injected := map[*ssa.Function]bool{}
	for _, ci := range callsInH(func(nm string, cc *ssa.CallCommon) bool { return methodName(cc) == "Range" }) {
		args := ci.Common().Args
		mc, ok := args[len(args)-1].(*ssa.MakeClosure)
		if !ok {
			continue
		}
		cl := mc.Fn.(*ssa.Function)
		clParts := deepFuncs(cl, 1)
		callsInCl := func(m func(string, *ssa.CallCommon) bool) (out []ssa.CallInstruction) {
			for _, part := range clParts {
				out = append(out, callsIn(part, m)...)
			}
			return
		}
		adds := callsInCl(func(nm string, cc *ssa.CallCommon) bool { return methodName(cc) == "AddChild" })
		if len(adds) == 0 {
			continue
		}
		for _, part := range clParts {
			injected[part] = true
		}
		nInj++
		recv := ci.Common().Value
		if !ci.Common().IsInvoke() {
			recv = args[0]
		}
		fromFiltered := derivesFrom(recv, 6, func(v ssa.Value) bool { return v == ssa.Value(filt) })
		onlyFiltered := !derivesFrom(recv, 6, func(v ssa.Value) bool {
			return strings.HasSuffix(PathOf(v), ".command.Root") && !derivesFrom(v, 0, func(ssa.Value) bool { return false }) && v != ssa.Value(filt) && func() bool {
				// reaching the raw root other than through the filter call
				_, isFA := v.(*ssa.FieldAddr)
				return isFA && !derivesFrom(recv, 6, func(x ssa.Value) bool { return x == ssa.Value(filt) })
			}()
		})
		c.Check("inject-filtered", "Range-over-filtered-children@handleAvailableCommands", ci, fromFiltered && onlyFiltered,
			"the proxy nodes injected into the backend's tree are not the children of the filtered root")
		for _, ad := range adds {
			node := lastArg(ad.Common())
			c.Check("inject-filtered", "AddChild(node-param)@"+shortName(cl), ad, len(cl.Params) == 2 && strip(node) == ssa.Value(cl.Params[1]),
				"the node added to the backend's root is not the filtered node being iterated")
			// replacement: on the edge where a same-named backend child exists it is removed before the add
			var rem ssa.Instruction
			for _, rc := range callsInCl(func(nm string, cc *ssa.CallCommon) bool { return methodName(cc) == "RemoveChild" }) {
				rem = rc
			}
			okRep := false
			if rem != nil {
				for _, e := range IfEdges(rem.Parent()) {
					cond, truth := e.Cond()
					v, isNil, isCmp := nilCmp(cond, truth)
					if !isCmp || isNil {
						continue
					}
					// v = Children()[node.Name()]
					lk, isLk := strip(v).(*ssa.Lookup)
					if !isLk {
						continue
					}
					keyOK := false
					if kc := callValue(lk.Index); kc != nil && kc.Call.IsInvoke() && kc.Call.Method.Name() == "Name" && strip(kc.Call.Value) == ssa.Value(cl.Params[1]) {
						keyOK = true
					}
					first := e.To().Instrs[0]
					miss := true
					if first == rem {
						miss = false
					} else {
						reachAdd := reachAvoidingInstr(e.To(), rem)
						miss = reachAdd[ad.Block()] && ad.Block() != rem.Block()
					}
					// removed name is the existing child's name
					nameArg := lastArg(rem.(ssa.CallInstruction).Common())
					nameOK := false
					if nc := callValue(nameArg); nc != nil && nc.Call.IsInvoke() && nc.Call.Method.Name() == "Name" && strip(nc.Call.Value) == ssa.Value(lk) {
						nameOK = true
					}
					if keyOK && !miss && nameOK && domBefore(rem, ad) || (keyOK && !miss && nameOK && flowsTo(rem, ad)) {
						okRep = true
					}
				}
			}
			c.Check("replace-same-name", "RemoveChild-before-AddChild@"+shortName(cl), ad, okRep,
				"a backend node with the same name as a proxy node must be removed (by its own name) before the proxy node is added")
			// nothing else removed
			for _, rc := range callsInCl(func(nm string, cc *ssa.CallCommon) bool { return methodName(cc) == "RemoveChild" }) {
				g, n := MustCross(rc, func(e Edge, cond ssa.Value, truth bool) bool {
					v, isNil, isCmp := nilCmp(cond, truth)
					_, isLk := strip(v).(*ssa.Lookup)
					return isCmp && !isNil && isLk
				})
				c.Check("only-same-name-removed", "RemoveChild@"+shortName(cl), rc, g && n > 0, "a backend node is removed without a same-named proxy node replacing it")
			}
		}
	}
	if nInj == 0 {
		c.Undecided("inject-filtered", "handleAvailableCommands", "no injection loop found")
	}
	var outside []ssa.CallInstruction
	for _, part := range hTop {
		if part.Parent() != nil || injected[part] {
			continue
		}
		outside = append(outside, callsIn(part, func(nm string, cc *ssa.CallCommon) bool {
			m := methodName(cc)
			return m == "RemoveChild" || m == "AddChild"
		})...)
	}
	for _, rc := range outside {
		c.Check("only-same-name-removed", methodName(rc.Common())+"@handleAvailableCommands", rc, false, "backend tree modified outside the injection loop")
	}
}
