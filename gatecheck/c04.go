package main

import (
	"fmt"
	"go/types"
	"sort"
	"strings"

	"golang.org/x/tools/go/ssa"
)

const pkgPacket = "pkg/edition/java/proto/packet"

func init() {
	register(&propDef{
		ID:    "C04",
		Title: "Every packet type round-trips losslessly in every supported protocol version",
		Patterns: []string{"./pkg/edition/java/proto/packet/...", "./pkg/edition/java/proto/state", "./pkg/edition/java/proto/version", "./pkg/edition/java/proto/util",
			"./pkg/edition/java/proxy/crypto", "./pkg/edition/java/profile", "./pkg/gate/proto"},
		Run: runC04,
		Rule: "P7+P8: for every packet type registered in any state/direction and every protocol in its registered range, the wire-token automaton of Encode (partially evaluated for " +
			"that protocol, helper codecs inlined, error exits cut) is included in the automaton of Decode: every field sequence the encoder can emit — bytes, varints, length-delimited " +
			"blobs, third-party codec calls, in order, with loops and optional parts — is a sequence the decoder consumes to a normal return. A field added, dropped, reordered, re-typed " +
			"or version-gated on one side only breaks the inclusion and is reported with the offending token sequence.",
		Explanation: "Decides: writer/reader agreement on field order, widths and version gating for all registered packet types × protocols (the necessary structural part of the round trip). " +
			"Does not decide: that equal layouts carry equal values, symmetric omissions (a field dropped on both sides), nor value-dependent layout choices that both sides make from different data.",
		Fixtures: []string{"wire"},
		Variants: []Variant{
			{Name: "decode-skips-field", File: pkgPacket + "/login.go",
				Old: "\t\tif c.Protocol.GreaterEqual(version.Minecraft_1_20_2) {\n\t\t\terr = util.WriteUUID(wr, s.HolderID)", New: "\t\tif c.Protocol.GreaterEqual(version.Minecraft_1_20_3) {\n\t\t\terr = util.WriteUUID(wr, s.HolderID)", Expect: "layout:packet.ServerLogin"},
			{Name: "success-properties-gate-shift", File: pkgPacket + "/login.go",
				Old: "\tif c.Protocol.GreaterEqual(version.Minecraft_1_19) {\n\t\terr = util.WriteProperties(wr, s.Properties)", New: "\tif c.Protocol.Greater(version.Minecraft_1_19) {\n\t\terr = util.WriteProperties(wr, s.Properties)", Expect: "layout:packet.ServerLoginSuccess"},
			{Name: "success-fields-swapped", File: pkgPacket + "/login.go",
				Old:    "\terr = util.WriteString(wr, s.Username)\n\tif err != nil {\n\t\treturn err\n\t}\n\tif c.Protocol.GreaterEqual(version.Minecraft_1_19) {\n\t\terr = util.WriteProperties(wr, s.Properties)\n\t\tif err != nil {\n\t\t\treturn err\n\t\t}\n\t}",
				New:    "\tif c.Protocol.GreaterEqual(version.Minecraft_1_19) {\n\t\terr = util.WriteProperties(wr, s.Properties)\n\t\tif err != nil {\n\t\t\treturn err\n\t\t}\n\t}\n\terr = util.WriteString(wr, s.Username)\n\tif err != nil {\n\t\treturn err\n\t}",
				Expect: "layout:packet.ServerLoginSuccess"},
			{Name: "chat-salt-width", File: pkgPacket + "/chat/session_chat.go",
				Old: "\terr = util.WriteInt64(wr, p.Salt)", New: "\terr = util.WriteInt32(wr, int32(p.Salt))", Expect: "layout:chat.SessionPlayerChat"},
			{Name: "serverlink-drops-url", File: pkgPacket + "/serverlinks.go",
				Old: "\t\tr.VarInt(&p.ID)\n\t\tr.String(&p.URL)", New: "\t\tr.VarInt(&p.ID)", Expect: "layout:packet.ServerLinks"},
		},
	})
}

// codecPairs finds named types with Encode(c *proto.PacketContext, io.Writer) and Decode(c, io.Reader).
func codecPairs(P *Program) map[string][2]*ssa.Function {
	out := map[string][2]*ssa.Function{}
	for _, fn := range P.ModFuncs() {
		if fn.Signature.Recv() == nil || (fn.Name() != "Encode" && fn.Name() != "Decode") || fn.Parent() != nil {
			continue
		}
		if fn.Signature.Params().Len() != 2 {
			continue
		}
		if !strings.HasSuffix(fn.Signature.Params().At(0).Type().String(), "gate/proto.PacketContext") {
			continue
		}
		nt := namedOf(fn.Signature.Recv().Type())
		if nt == nil {
			continue
		}
		key := nt.Obj().Pkg().Name() + "." + nt.Obj().Name()
		p := out[key]
		if fn.Name() == "Encode" {
			p[0] = fn
		} else {
			p[1] = fn
		}
		out[key] = p
	}
	return out
}

func wireOf(P *Program, vt *VersionTable, fn *ssa.Function, proto int64) (wAuto, *wireCtx) {
	w := newWireCtx(P, vt, proto)
	roots := map[ssa.Value]bool{fn.Params[len(fn.Params)-1]: true}
	s, e := w.build(fn, roots, 0)
	return wAuto{w.nfa, s, e}, w
}

func runC04(c *Ctx) {
	checkForgeShortLayout(c, "forge-short-layout")
	// a field that round-trips must be written with its own width and kind at every released protocol:
	// the Encode language (typed tokens: a boolean is not a byte) is compared with the reference table
	checkWireGolden(c, "reference-wire")
	vt, err := evalVersionTable(c.P)
	if err != nil {
		c.Undecided("table", "version.Versions", err.Error())
		return
	}
	regs, _, err := evalRegistrations(c.P, vt)
	if err != nil {
		c.Undecided("table", "register.go", err.Error())
		return
	}
	max := vt.Supported[len(vt.Supported)-1]
	pairs := codecPairs(c.P)
	// registered range per type
	rng := map[string]map[int64]bool{}
	for i := range regs {
		r := &regs[i]
		for _, p := range vt.Supported {
			if _, ok := r.idAt(p, max); ok {
				if rng[r.Type] == nil {
					rng[r.Type] = map[int64]bool{}
				}
				rng[r.Type][p] = true
			}
		}
	}
	var names []string
	for k := range rng {
		names = append(names, k)
	}
	sort.Strings(names)
	// frozen exceptions: one named type with a reason
	exempt := map[string]string{
		"packet.AvailableCommands": "brigadier argument properties are dispatched through a run-time registry (identifier → codec, passthrough properties with optional payload, mod arguments as raw bytes); the per-call-site token inclusion cannot express that pairing",
	}
	nPairs, nTypes := 0, 0
	var lenient []string
	defer func() { c.Info["decoder_more_permissive"] = lenient }()
	for _, name := range names {
		if why, ok := exempt[name]; ok {
			c.Note("exempt from layout inclusion: %s — %s", name, why)
			continue
		}
		p, ok := pairs[name]
		if !ok || p[0] == nil || p[1] == nil {
			c.Undecided("layout", name, "registered packet type has no Encode/Decode pair with the expected signature")
			continue
		}
		nTypes++
		c.Analysed(p[0], p[1])
		var protos []int64
		for pr := range rng[name] {
			protos = append(protos, pr)
		}
		sort.Slice(protos, func(i, j int) bool { return protos[i] < protos[j] })
		// group protocols with identical verdict/witness to keep the obligation list readable
		type verdict struct {
			ok      bool
			witness string
			note    string
		}
		results := map[int64]verdict{}
		memo := map[string]verdict{}
		for _, pr := range protos {
			nPairs++
			ea, wa := wireOf(c.P, vt, p[0], pr)
			da, wd := wireOf(c.P, vt, p[1], pr)
			sig := fmt.Sprint(len(ea.n.adj), len(da.n.adj), nfaSig(ea), nfaSig(da))
			if v, ok := memo[sig]; ok {
				results[pr] = v
				continue
			}
			ok, wit, empty, err := wireIncluded(ea, da)
			v := verdict{ok: ok}
			switch {
			case err != nil:
				v = verdict{false, "", "undecided: " + err.Error()}
			case empty:
				// the encoder has no normal return for this protocol (e.g. it refuses to encode for it): nothing to include
				v = verdict{true, "", "encoder has no success path for this protocol"}
			case !ok:
				v.witness = strings.Join(wit, " ")
			}
			if len(wa.Undecided)+len(wd.Undecided) > 0 {
				v.note += " " + strings.Join(append(wa.Undecided, wd.Undecided...), "; ")
			}
			memo[sig] = v
			results[pr] = v
			// informational: is the decoder more permissive than the encoder (L(Decode) ⊄ L(Encode))?
			if rok, rw, _, rerr := wireIncluded(da, ea); rerr == nil && !rok {
				lenient = append(lenient, fmt.Sprintf("%s@%d: decoder also accepts [%s]", name, pr, strings.Join(rw, " ")))
			}
		}
		// report: one obligation per maximal run of protocols with the same verdict
		i := 0
		for i < len(protos) {
			j := i
			for j+1 < len(protos) && results[protos[j+1]] == results[protos[i]] {
				j++
			}
			v := results[protos[i]]
			span := fmt.Sprintf("%d", protos[i])
			if j > i {
				span = fmt.Sprintf("%d-%d", protos[i], protos[j])
			}
			c.CheckAt("layout", fmt.Sprintf("%s@protocols %s", name, span), c.P.Pos(p[0].Pos()), v.ok,
				fmt.Sprintf("Encode can emit the field sequence [%s] which Decode does not consume to a normal return (a field is added, dropped, reordered, re-typed or version-gated on one side only)%s", v.witness, v.note))
			i = j + 1
		}
	}
	c.Info["registered_types"] = nTypes
	c.Info["type_protocol_pairs"] = nPairs
	if nTypes < 60 {
		c.Undecided("layout", "coverage", fmt.Sprintf("expected ≥60 registered packet types with codecs, analysed %d", nTypes))
	}
	_ = types.Typ
}

// nfaSig is a cheap structural signature of an automaton (for memoising identical residual programs).
func nfaSig(a wAuto) string {
	var sb strings.Builder
	for i, es := range a.n.adj {
		for _, e := range es {
			fmt.Fprintf(&sb, "%d>%d:%s,", i, e.to, e.tok)
		}
	}
	return sb.String()
}
