package main

import (
	"fmt"
	"go/token"
	"regexp"
	"strings"

	"golang.org/x/tools/go/ssa"
)

func init() {
	register(&propDef{
		ID:       "C29",
		Title:    "Lite routes the first route whose host pattern matches the cleaned host",
		Patterns: []string{"./pkg/edition/java/lite"},
		Run:      runC29,
		Rule: "P9 on the glob→regexp template: the string handed to regexp.Compile is recovered as a template over the constants in the source (prefix, QuoteMeta(pattern), the two " +
			"replacement fragments, suffix); instantiated for the patterns \"?\" and \"*\" it must denote exactly 'any one character' and 'any sequence of characters' over all strings " +
			"(including newline), anchored at both ends, and literal pattern characters must stay literal (instantiated for \"a.b\"); P5: pattern and subject are both lower-cased, the subject " +
			"is ClearVirtualHost(handshake address) and ClearVirtualHost strips the Forge and TCPShield suffixes and surrounding dots; the first matching host of the first matching route is " +
			"returned from inside the ordered loops; P2: backends are only tried after findRoute returned without error.",
		Explanation: "Decides: the wildcard semantics of the matcher as a language property, case/cleaning normalisation of both operands, first-match structure, no dialing without a route. " +
			"Does not decide: the $n substitution arithmetic.",
		Fixtures: []string{"regex", "guardcut"},
		Variants: []Variant{
			{Name: "params-substituted-ascending", File: pkgLite + "/forward.go",
				Old: "\tfor i := len(groups); i >= 1; i-- {", New: "\tfor i := 1; i <= len(groups); i++ {", Expect: "param-substitution"},
			{Name: "star-not-newline", File: pkgLite + "/match.go",
				Old: "regexStr = \"(?s)^\" + strings.ReplaceAll(regexStr, \"\\\\?\", \"(.)\") + \"$\"", New: "regexStr = \"^\" + strings.ReplaceAll(regexStr, \"\\\\?\", \"(.)\") + \"$\"", Expect: "glob-language"},
			{Name: "unanchored", File: pkgLite + "/match.go",
				Old: "strings.ReplaceAll(regexStr, \"\\\\?\", \"(.)\") + \"$\"", New: "strings.ReplaceAll(regexStr, \"\\\\?\", \"(.)\")", Expect: "glob-language"},
			{Name: "question-optional", File: pkgLite + "/match.go",
				Old: "\"\\\\?\", \"(.)\")", New: "\"\\\\?\", \"(.?)\")", Expect: "glob-language"},
			{Name: "subject-not-lowercased", File: pkgLite + "/match.go",
				Old: "\tmatches := reg.FindStringSubmatch(strings.ToLower(s))", New: "\tmatches := reg.FindStringSubmatch(s)", Expect: "case-insensitive"},
			{Name: "host-not-cleaned", File: pkgLite + "/forward.go",
				Old: "host, route, groups := FindRouteWithGroups(clearedHost, routes...)", New: "host, route, groups := FindRouteWithGroups(handshake.ServerAddress, routes...)", Expect: "cleaned-host"},
			{Name: "dial-without-route", File: pkgLite + "/forward.go",
				Old: "\tif err != nil {\n\t\t// A player connection that matches no route is silently dropped, so log it at", New: "\tif err != nil && route != nil {\n\t\t// A player connection that matches no route is silently dropped, so log it at", Expect: "no-dial-without-route"},
		},
	})
	register(&propDef{
		ID:       "C30",
		Title:    "Lite backend selection tries each backend once per attempt and counts fairly",
		Patterns: []string{"./pkg/edition/java/lite"},
		Run:      runC30,
		Rule: "P10: in the per-attempt backend iterator every successful selection is followed, on every path to its return, by a store that shrinks the candidate list (so an attempt " +
			"terminates and no backend is tried twice); tryBackends leaves its loop with success only after try returned nil and with errAllBackendsFailed only when the iterator is " +
			"exhausted; the release closure returned by TrackConnection / IncrementConnection is deferred, called, or handed on by every caller; P4: activeConnections only under " +
			"activeConnectionsMu; increments and decrements are paired in TrackConnection (one ++ before, one decrement in the returned closure on the same key); a *math/rand.Rand kept " +
			"in the shared StrategyManager is only used with a mutex of that manager held (rand.Rand is not safe for concurrent use).",
		Explanation: "Decides: termination/once-per-attempt structure, failure only after exhaustion, release pairing of the connection counters, lock discipline of the counters and of the shared RNG. " +
			"Does not decide: the order each strategy dictates or fairness of round-robin under concurrency.",
		Fixtures: []string{"lockset", "guardcut"},
		Variants: []Variant{
			{Name: "counter-written-under-canonical-key", File: pkgLite + "/strategy.go",
				Old: "\tdecrementStrategyCounter := sm.IncrementConnection(backend)", New: "\tdecrementStrategyCounter := sm.IncrementConnection(canonicalBackendAddress(backend))", Expect: "key-agreement"},
			{Name: "no-termination-guard", File: pkgLite + "/forward.go",
				Old: "\t\t\ttryBackends = nil\n", New: "\t\t\t_ = tryBackends\n", Expect: "once-per-attempt"},
			{Name: "release-not-deferred", File: pkgLite + "/forward.go",
				Old: "\tdefer decrementConnection()\n", New: "\t_ = decrementConnection\n", Expect: "release-paired"},
			{Name: "rng-unlocked", File: pkgLite + "/strategy.go",
				Old: "\tsm.rngMu.Lock()\n\trandIndex := sm.rng.Intn(len(backends))\n\tsm.rngMu.Unlock()", New: "\trandIndex := sm.rng.Intn(len(backends))", Expect: "rng-locked"},
			{Name: "active-read-unlocked", File: pkgLite + "/strategy.go",
				Old: "\tsm.activeConnectionsMu.RLock()\n\tdefer sm.activeConnectionsMu.RUnlock()\n", New: "", Expect: "guarded:StrategyManager.activeConnections"},
			{Name: "success-on-error", File: pkgLite + "/forward.go",
				Old: "\t\tif err != nil {\n\t\t\terrs.V(log, err).Info(\"failed to try backend\", \"error\", err)\n\t\t\tcontinue\n\t\t}", New: "\t\tif err != nil {\n\t\t\terrs.V(log, err).Info(\"failed to try backend\", \"error\", err)\n\t\t}", Expect: "try-loop"},
		},
	})
	register(&propDef{
		ID:       "C31",
		Title:    "Lite forwards the connection unchanged apart from configured rewrites",
		Patterns: []string{"./pkg/edition/java/lite", "./pkg/edition/java/internal/protoutil"},
		Run:      runC31,
		Rule: "P5/P2: the handshake written to the backend is the received packet context's payload with its length prefix; the payload is rebuilt (update) only on the edge of a flag whose " +
			"`true` sources are exactly: virtual-host rewriting enabled and the hosts differ, TCPShield real-IP enabled and present, or the caller's explicit argument (Forward passes false); " +
			"the PROXY header is written only on the route.ProxyProtocol edge, built from the client's address and the backend connection, before the handshake; in Forward the buffered " +
			"client bytes are flushed to the backend before the pipe starts and only if that succeeded; the pipe is two io.Copy calls in opposite directions and nothing else writes to either side.",
		Explanation: "Decides: provenance of every byte Lite itself writes to the backend and the gating of the two configured rewrites. Does not decide: io.Copy or the PROXY header encoder.",
		Fixtures:    []string{"guardcut", "provenance"},
		Variants: []Variant{
			{Name: "always-reencode", File: pkgLite + "/forward.go",
				Old: "\tif forceUpdatePacketContext {\n\t\tupdate(handshakeCtx, handshake)\n\t}", New: "\tupdate(handshakeCtx, handshake)", Expect: "handshake-unchanged"},
			{Name: "proxy-header-always", File: pkgLite + "/forward.go",
				Old: "\tif route.ProxyProtocol {\n\t\theader :=", New: "\t{\n\t\theader :=", Expect: "proxy-header-gated"},
			{Name: "pipe-before-flush", File: pkgLite + "/forward.go",
				Old: "\tif err = emptyReadBuff(client, dst); err != nil {\n\t\terrs.V(log, err).Info(\"failed to empty client buffer\", \"error\", err)\n\t\treturn\n\t}\n", New: "", Expect: "flush-before-pipe"},
			{Name: "rewrite-when-equal", File: pkgLite + "/forward.go",
				Old: "\t\tif !strings.EqualFold(clearedHost, backendHost) {", New: "\t\tif clearedHost != \"\" {", Expect: "handshake-unchanged"},
			{Name: "forward-forces-update", File: pkgLite + "/forward.go",
				Old: "route, backendAddr, handshake, pc, false)", New: "route, backendAddr, handshake, pc, true)", Expect: "handshake-unchanged"},
		},
	})
}

// ---- string template recovery (constants, QuoteMeta(param), ReplaceAll, +) ------------------------

type strTpl interface{ eval(p string) (string, bool) }
type tplConst string
type tplQuote struct{}
type tplParam struct{}
type tplCat struct{ a, b strTpl }
type tplRepl struct {
	in       strTpl
	old, new string
}

func (t tplConst) eval(string) (string, bool) { return string(t), true }
func (tplQuote) eval(p string) (string, bool) { return regexp.QuoteMeta(p), true }
func (tplParam) eval(p string) (string, bool) { return p, true }
func (t tplCat) eval(p string) (string, bool) {
	a, ok1 := t.a.eval(p)
	b, ok2 := t.b.eval(p)
	return a + b, ok1 && ok2
}
func (t tplRepl) eval(p string) (string, bool) {
	s, ok := t.in.eval(p)
	return strings.ReplaceAll(s, t.old, t.new), ok
}

func recoverTpl(v ssa.Value, param ssa.Value, depth int) strTpl {
	if depth < 0 {
		return nil
	}
	v = seeThrough(v)
	if s, ok := constString(v); ok {
		return tplConst(s)
	}
	if v == param {
		return tplParam{}
	}
	switch x := v.(type) {
	case *ssa.BinOp:
		a, b := recoverTpl(x.X, param, depth-1), recoverTpl(x.Y, param, depth-1)
		if a == nil || b == nil {
			return nil
		}
		return tplCat{a, b}
	case *ssa.Call:
		switch calleeName(&x.Call) {
		case "regexp.QuoteMeta":
			if seeThrough(x.Call.Args[0]) == param {
				return tplQuote{}
			}
		case "strings.ReplaceAll":
			in := recoverTpl(x.Call.Args[0], param, depth-1)
			o, ok1 := constString(x.Call.Args[1])
			n, ok2 := constString(x.Call.Args[2])
			if in != nil && ok1 && ok2 {
				return tplRepl{in, o, n}
			}
		default:
			// the template built by a helper of the module (globToRegex(pattern)): its single return,
			// the helper's parameters read as this call's arguments
			if g := moduleHelperWithBody(&x.Call); g != nil && g.Signature.Results().Len() == 1 {
				rets := successReturns(g)
				if len(rets) != 1 {
					return nil
				}
				res := make([]ssa.Value, len(x.Call.Args))
				for i, a := range x.Call.Args {
					res[i] = seeThrough(a)
				}
				var out strTpl
				withBinding(g, res, func() { out = recoverTpl(retVal(rets[0], 0), param, depth-1) })
				return out
			}
		}
	case *ssa.Phi:
		// straight-line reassignments of one variable do not create phis; anything else is unsupported
	}
	return nil
}

func runC29(c *Ctx) {
	checkParamSubstitution(c)
	fns := c.P.Funcs(Mod + "/" + pkgLite)
	// the loader closure that compiles the regexp
	nComp := 0
	for _, fn := range fns {
		if fnPkgPath(fn) != Mod+"/"+pkgLite {
			continue
		}
		for _, ci := range callsIn(fn, func(nm string, cc *ssa.CallCommon) bool { return nm == "regexp.Compile" || nm == "regexp.MustCompile" }) {
			if !strings.Contains(c.site(ci), "match.go") {
				continue
			}
			nComp++
			c.Analysed(fn)
			var param ssa.Value
			for _, p := range fn.Params {
				if p.Type().String() == "string" {
					param = p
				}
			}
			tpl := recoverTpl(ci.Common().Args[0], param, 10)
			if tpl == nil {
				c.Check("glob-language", "template@"+shortName(fn), ci, false, "cannot recover the glob→regexp template from constants, QuoteMeta and ReplaceAll (undecided)")
				continue
			}
			for _, probe := range []struct{ glob, spec, what string }{
				{"?", `(?s)^.$`, "'?' must match exactly one arbitrary character"},
				{"*", `(?s)^.*$`, "'*' must match any sequence of characters"},
				{"a.b", `^a\.b$`, "literal characters (including '.') must match only themselves"},
				{"a*b?c", `(?s)^a.*b.c$`, "wildcards combine with literals, anchored at both ends"},
			} {
				rx, _ := tpl.eval(probe.glob)
				eq, w, err := RegexEquivalent(rx, probe.spec)
				d := ""
				if err != nil {
					d = err.Error()
				} else if !eq {
					d = fmt.Sprintf("glob %q compiles to %q which differs from %q on the host %q", probe.glob, rx, probe.spec, w)
				}
				c.Check("glob-language", fmt.Sprintf("glob %q@%s", probe.glob, shortName(fn)), ci, err == nil && eq, probe.what+": "+d)
			}
		}
	}
	if nComp == 0 {
		c.Undecided("glob-language", "match.go", "no regexp.Compile found")
	}
	// lower-casing of both operands
	for _, name := range []string{"match", "matchWithGroups"} {
		fn := c.MustFunc(pkgLite + ":" + name)
		if fn == nil {
			continue
		}
		ok := false
		for _, ci := range callsIn(fn, func(nm string, cc *ssa.CallCommon) bool {
			m := methodName(cc)
			return m == "MatchString" || m == "FindStringSubmatch"
		}) {
			a := callValue(lastArg(ci.Common()))
			ok = a != nil && calleeName(&a.Call) == "strings.ToLower" && a.Call.Args[0] == ssa.Value(fn.Params[0])
			c.Check("case-insensitive", "subject-lowercased@"+name, ci, ok, "the host must be lower-cased before matching (patterns are stored lower-cased)")
		}
	}
	if gr := c.MustFunc(pkgLite + ":getRegexp"); gr != nil {
		ok := false
		for _, ci := range callsIn(gr, func(nm string, cc *ssa.CallCommon) bool { return methodName(cc) == "Get" }) {
			for _, arg := range ci.Common().Args {
				if a := callValue(arg); a != nil && calleeName(&a.Call) == "strings.ToLower" {
					ok = true
				}
			}
		}
		c.CheckAt("case-insensitive", "pattern-lowercased@getRegexp", c.P.Pos(gr.Pos()), ok, "the pattern must be lower-cased before it is compiled / looked up")
	}
	// cleaned host
	if fr := c.MustFunc(pkgLite + ":findRoute"); fr != nil {
		for _, ci := range callsIn(fr, func(nm string, cc *ssa.CallCommon) bool {
			return strings.HasSuffix(nm, "lite.FindRouteWithGroups") || strings.HasSuffix(nm, "lite.FindRoute")
		}) {
			a := callValue(ci.Common().Args[0])
			ok := a != nil && strings.HasSuffix(calleeName(&a.Call), "lite.ClearVirtualHost") && strings.HasSuffix(PathOf(a.Call.Args[0]), ".ServerAddress")
			c.Check("cleaned-host", "FindRouteWithGroups(ClearVirtualHost(handshake.ServerAddress))@findRoute", ci, ok, "routes must be matched against the cleaned virtual host")
		}
	}
	if cv := c.MustFunc(pkgLite + ":ClearVirtualHost"); cv != nil {
		var seps []string
		trimDot := false
		// the returned string as a chain of cuts and trims of the parameter, whatever the spelling
		for i, r := range successReturns(cv) {
			src, steps := strChain(retVal(r, 0), 2)
			var here []string
			dot := false
			if strip(src) == ssa.Value(cv.Params[0]) {
				for _, st := range steps {
					switch st.Kind {
					case "cut":
						here = append(here, st.Arg)
					case "trim":
						if st.Arg == "." {
							dot = true
						}
					}
				}
			}
			if i == 0 {
				seps, trimDot = here, dot
				continue
			}
			// every return must cut and trim alike: keep what all have
			var both []string
			for _, a := range seps {
				for _, b := range here {
					if a == b {
						both = append(both, a)
					}
				}
			}
			seps, trimDot = both, trimDot && dot
		}
		has := func(x string) bool {
			for _, s := range seps {
				if s == x {
					return true
				}
			}
			return false
		}
		c.CheckAt("cleaned-host", "forge+tcpshield+dots@ClearVirtualHost", c.P.Pos(cv.Pos()), has("\x00") && has("///") && trimDot,
			fmt.Sprintf("ClearVirtualHost must cut at the Forge separator NUL and the TCPShield separator ///, and trim dots (separators found: %q, trim dots: %v)", seps, trimDot))
	}
	// first match: the non-nil route return sits inside the loops on the matched edge
	if frg := c.MustFunc(pkgLite + ":FindRouteWithGroups"); frg != nil {
		n := 0
		for _, r := range returnsOf(frg) {
			if len(r.Results) != 3 || isNilConst(strip(r.Results[1])) {
				continue
			}
			n++
			g, ns := MustCross(r, func(e Edge, cond ssa.Value, truth bool) bool {
				return boolCallEdge(cond, truth, true, callSuffix("lite.matchWithGroups"))
			})
			inLoop := false
			for _, s := range r.Block().Preds {
				_ = s
			}
			// the return's block is reachable from a loop header that it does not dominate (it leaves the loop)
			for _, b := range frg.Blocks {
				for _, p := range b.Preds {
					if b.Dominates(p) && b.Dominates(r.Block()) {
						inLoop = true
					}
				}
			}
			c.Check("first-match", "return-on-first-hit@FindRouteWithGroups", r, g && ns > 0 && inLoop, fmt.Sprintf("the route must be returned at the first matching host, from inside the ordered loops (behind-match=%v edges=%d in-loop=%v)", g, ns, inLoop))
		}
		if n != 1 {
			c.Undecided("first-match", "FindRouteWithGroups", fmt.Sprintf("expected one matching return, found %d", n))
		}
	}
	// no dialing without a route
	for _, name := range []string{"Forward", "ResolveStatusResponseWithGeneration"} {
		fn := c.MustFunc(pkgLite + ":" + name)
		if fn == nil {
			continue
		}
		for _, ci := range callsIn(fn, func(nm string, cc *ssa.CallCommon) bool { return strings.HasSuffix(nm, "lite.tryBackends") }) {
			g, ns := MustCross(ci, func(e Edge, cond ssa.Value, truth bool) bool {
				return errNilEdge(cond, truth, callSuffix("lite.findRoute"))
			})
			c.Check("no-dial-without-route", "tryBackends@"+name, ci, g && ns > 0, "backends are tried although no route matched the host (a host matching no route must be closed without dialing)")
		}
	}
}

func runC30(c *Ctx) {
	fns := c.P.Funcs(Mod + "/" + pkgLite)
	var scope []*ssa.Function
	for _, f := range fns {
		if fnPkgPath(f) == Mod+"/"+pkgLite {
			scope = append(scope, f)
		}
	}
	lc := NewLockCtx(c.P, scope)
	checkGuarded(c, lc, scope, GuardSpec{Type: pkgLite + ":StrategyManager", Mutex: "activeConnectionsMu", Fields: []string{"activeConnections"}})
	c.Floor("guarded", 5)
	checkKeyAgreement(c, lc, scope, pkgLite+":StrategyManager", []string{"connectionCounters", "activeConnections", "latencyCache"})

	// shared RNG
	nRng := 0
	for _, fn := range scope {
		for _, ci := range callsIn(fn, func(nm string, cc *ssa.CallCommon) bool {
			f := staticCallee(cc)
			return f != nil && f.Signature.Recv() != nil && strings.HasSuffix(f.Signature.Recv().Type().String(), "math/rand.Rand") && len(cc.Args) > 0
		}) {
			recv := ci.Common().Args[0]
			p := PathOf(recv)
			if !strings.Contains(p, ".") {
				continue // a local generator
			}
			nRng++
			c.Analysed(fn)
			base := p[:strings.LastIndex(p, ".")]
			held := lc.At(ci)
			ok := false
			for k := range held {
				if strings.HasPrefix(k, base+".") {
					ok = true
				}
			}
			c.Check("rng-locked", methodName(ci.Common())+"@"+shortName(fn), ci, ok,
				fmt.Sprintf("%s is a *math/rand.Rand shared by all connections and used without a lock of %s held: rand.Rand is not safe for concurrent use (data race, can panic inside the source)", p, base))
		}
	}
	if nRng == 0 {
		c.Note("no shared *math/rand.Rand in use")
	}

	// iterator shrinks on every selection
	fr := c.MustFunc(pkgLite + ":findRoute")
	if fr != nil {
		n := 0
		for _, cl := range fr.AnonFuncs {
			for _, ci := range callsIn(cl, func(nm string, cc *ssa.CallCommon) bool {
				return strings.HasSuffix(nm, "StrategyManager).GetNextBackend")
			}) {
				n++
				call := ci.(*ssa.Call)
				// the candidate list cell: free variable holding a []string that is passed to GetNextBackend
				listArg := lastArg(ci.Common())
				var cell ssa.Value
				if ld, ok := strip(listArg).(*ssa.UnOp); ok {
					cell = ld.X
				}
				isShrink := func(in ssa.Instruction) bool {
					st, ok := in.(*ssa.Store)
					return ok && cell != nil && st.Addr == cell
				}
				bad := false
				for _, e := range IfEdges(cl) {
					cond, truth := e.Cond()
					ex, isEx := cond.(*ssa.Extract)
					if !isEx || ex.Tuple != ssa.Value(call) || ex.Index != 2 || !truth {
						continue
					}
					// from the ok edge: is a `return …, true` reachable without a store to the list?
					r := reachAvoiding(e.To(), isShrink, func(x Edge) bool {
						// "removed" is true although nothing was removed: infeasible
						cnd, tr := x.Cond()
						return tr && latchImplies(cnd, isShrink)
					})
					for _, ret := range returnsOf(cl) {
						if v, isK := constBool(ret.Results[len(ret.Results)-1]); isK && v && r[ret.Block()] {
							bad = true
						}
					}
				}
				// … and never shrinks by more than the selected one while others are untried: a wholesale
				// clear of the list (the "could not match it, give up" fallback) is only sound if the
				// selected backend was first looked for by literal equality — it IS an element of the
				// list, so that search cannot miss. If the only removal compares parsed/normalised
				// addresses, a backend whose address does not parse is never matched and the fallback
				// throws away every candidate that was not tried yet.
				var clears []ssa.Instruction
				literal := false
				eachInstr(cl, func(in ssa.Instruction) {
					st, ok := in.(*ssa.Store)
					if !ok || cell == nil || st.Addr != cell {
						return
					}
					if isNilConst(st.Val) {
						clears = append(clears, in)
						return
					}
					if sl, isSl := strip(st.Val).(*ssa.Slice); isSl && sl.High != nil {
						if k, isK := constInt(sl.High); isK && k == 0 {
							clears = append(clears, in)
							return
						}
					}
					g, ns := MustCross(in, func(e Edge, cond ssa.Value, truth bool) bool {
						bo, isB := cond.(*ssa.BinOp)
						if !isB || bo.Op != token.EQL || !truth {
							return false
						}
						for _, pair := range [][2]ssa.Value{{bo.X, bo.Y}, {bo.Y, bo.X}} {
							ex, isEx := strip(pair[0]).(*ssa.Extract)
							if !isEx || ex.Tuple != ssa.Value(call) || ex.Index != 0 {
								continue
							}
							// the other side is an element of the list as it is, not a computed form of it
							if !derivesFrom(pair[1], 4, func(x ssa.Value) bool { _, isCall := x.(*ssa.Call); return isCall }) {
								return true
							}
						}
						return false
					})
					if g && ns > 0 {
						literal = true
					}
				})
				if len(clears) > 0 {
					c.Check("all-tried", "clear-all-only-after-literal-miss@"+shortName(cl), clears[0], literal,
						"the candidate list is cleared wholesale when the selected backend was not matched, but no removal looks for it by literal equality: a backend whose address does not parse/normalise is never matched, and the fallback discards the backends that were not tried yet (the attempt fails before every backend failed)")
				}
				c.Check("once-per-attempt", "selection-shrinks-candidates@"+shortName(cl), ci, cell != nil && !bad,
					"a path returns the selected backend without removing anything from the candidate list: if it fails it is selected again, the attempt never ends (e.g. a backend whose address does not parse, such as an unsubstituted \"host:$2\")")
			}
		}
		if n == 0 {
			c.Undecided("once-per-attempt", "findRoute", "backend iterator not found")
		}
	}
	// tryBackends loop
	var tb *ssa.Function
	for _, f := range scope {
		if f.Name() == "tryBackends" && len(f.TypeArgs()) == 0 {
			tb = f
		}
	}
	if tb == nil {
		c.Undecided("try-loop", "tryBackends", "generic function not found")
	} else {
		c.Analysed(tb)
		for _, r := range returnsOf(tb) {
			if len(r.Results) != 4 {
				continue
			}
			if isNilConst(r.Results[3]) {
				g, n := MustCross(r, func(e Edge, cond ssa.Value, truth bool) bool {
					v, isNil, ok := nilCmp(cond, truth)
					if !ok || !isNil {
						return false
					}
					ex, isEx := strip(v).(*ssa.Extract)
					return isEx && ex.Index == 2
				})
				c.Check("try-loop", "success-only-if-try-ok@tryBackends", r, g && n > 0, "tryBackends reports success although the last try returned an error")
			} else {
				g, n := MustCross(r, func(e Edge, cond ssa.Value, truth bool) bool {
					ex, isEx := cond.(*ssa.Extract)
					return isEx && ex.Index == 2 && !truth
				})
				okErr := strings.HasSuffix(PathOf(r.Results[3]), "errAllBackendsFailed")
				c.Check("try-loop", "failure-only-when-exhausted@tryBackends", r, g && n > 0 && okErr, "the attempt must fail only when the iterator is exhausted (every backend failed)")
			}
		}
	}
	// release pairing
	isAcquire := func(cc *ssa.CallCommon) bool {
		n := calleeName(cc)
		return strings.HasSuffix(n, "StrategyManager).TrackConnection") || strings.HasSuffix(n, "StrategyManager).IncrementConnection")
	}
	nAcq := 0
	for _, fn := range c.P.ModFuncs() {
		for _, ci := range callsIn(fn, func(nm string, cc *ssa.CallCommon) bool { return isAcquire(cc) }) {
			nAcq++
			c.Analysed(fn)
			res := ci.(ssa.Value)
			released := func(in ssa.Instruction) bool {
				switch x := in.(type) {
				case *ssa.Defer:
					return seeThrough(x.Call.Value) == res
				case *ssa.Call:
					return seeThrough(x.Call.Value) == res
				case *ssa.Return:
					for _, r := range x.Results {
						if seeThrough(r) == res {
							return true
						}
					}
				case *ssa.MakeClosure:
					// handed on inside a closure that is returned (TrackConnection wraps IncrementConnection's release)
					for _, b := range x.Bindings {
						if seeThrough(b) == res {
							return true
						}
						if a, ok := b.(*ssa.Alloc); ok {
							for _, sv := range storesTo(a) {
								if sv == res {
									return true
								}
							}
						}
					}
				}
				return false
			}
			miss, _ := MayReachExitWithout(ci, released)
			c.Check("release-paired", methodName(ci.Common())+"@"+shortName(fn), ci, !miss,
				"the release function returned by the connection counter is dropped on some path: the active-connection count never returns to zero")
		}
	}
	if nAcq < 2 {
		c.Undecided("release-paired", "acquire sites", fmt.Sprintf("expected ≥2, found %d", nAcq))
	}
}

func runC31(c *Ctx) {
	{
		var liteFns []*ssa.Function
		for _, f := range c.P.Funcs(Mod + "/" + pkgLite) {
			if fnPkgPath(f) == Mod+"/"+pkgLite {
				liteFns = append(liteFns, f)
			}
		}
		checkNoReusedBufferEscape(c, "payload-owned", liteFns, 1)
	}
	dr := c.MustFunc(pkgLite + ":dialRoute")
	wp := c.MustFunc(pkgLite + ":writePacket")
	fw := c.MustFunc(pkgLite + ":Forward")
	if wp != nil {
		okLen, okPay := false, false
		for _, ci := range callsIn(wp, func(nm string, cc *ssa.CallCommon) bool { return true }) {
			cc := ci.Common()
			if strings.HasSuffix(calleeName(cc), "util.WriteVarInt") {
				if l := callValue(cc.Args[1]); l != nil && isLenOf(l, func(v ssa.Value) bool { return PathOf(v) == wp.Params[1].Name()+".Payload" }) {
					okLen = true
				}
			}
			if cc.IsInvoke() && cc.Method.Name() == "Write" && PathOf(cc.Args[0]) == wp.Params[1].Name()+".Payload" {
				okPay = true
			}
		}
		c.CheckAt("handshake-unchanged", "len+payload@writePacket", c.P.Pos(wp.Pos()), okLen && okPay, "the handshake frame must be the length of the received payload followed by the payload itself")
	}
	if dr != nil {
		flagParam := dr.Params[len(dr.Params)-1]
		// update() only on the flag's true edge
		for _, ci := range callsIn(dr, func(nm string, cc *ssa.CallCommon) bool { return strings.HasSuffix(nm, "lite.update") }) {
			var flagPhi *ssa.Phi
			g, n := MustCross(ci, func(e Edge, cond ssa.Value, truth bool) bool {
				if !truth {
					return false
				}
				if ph, ok := cond.(*ssa.Phi); ok {
					flagPhi = ph
					return true
				}
				return cond == ssa.Value(flagParam)
			})
			ok := g && n > 0
			detail := "the received handshake is re-encoded unconditionally"
			if ok && flagPhi != nil {
				detail = ""
				// every `true` source of the flag is one of the two rewrite conditions; the other source is the parameter
				var walk func(v ssa.Value, seen map[ssa.Value]bool)
				walk = func(v ssa.Value, seen map[ssa.Value]bool) {
					if seen[v] {
						return
					}
					seen[v] = true
					ph, isPhi := v.(*ssa.Phi)
					if !isPhi {
						if v != ssa.Value(flagParam) {
							if b, isK := constBool(v); !isK || b {
								ok, detail = false, "the rewrite flag has an unexpected source "+v.String()
							}
						}
						return
					}
					for i, e := range ph.Edges {
						if b, isK := constBool(e); isK && b {
							guarded := phiEdgeGuarded(ph, i, func(e Edge, cond ssa.Value, truth bool) bool {
								// !strings.EqualFold(cleared, backendHost)
								if cl := callValue(cond); cl != nil && calleeName(&cl.Call) == "strings.EqualFold" && !truth {
									return true
								}
								// IsTCPShieldRealIP(...) true
								if cl := callValue(cond); cl != nil && strings.HasSuffix(calleeName(&cl.Call), "lite.IsTCPShieldRealIP") && truth {
									return true
								}
								return false
							})
							if !guarded {
								ok, detail = false, "the handshake is rebuilt on a path that is neither 'virtual host differs' nor 'TCPShield real IP present'"
							}
							// and that condition is itself under the route option
							continue
						}
						walk(e, seen)
					}
				}
				walk(flagPhi, map[ssa.Value]bool{})
			}
			c.Check("handshake-unchanged", "update-only-on-rewrite@dialRoute", ci, ok, "the client's handshake must be forwarded exactly as sent unless a configured rewrite applies: "+detail)
		}
		// EqualFold / TCPShield tests themselves under the route options
		for _, ci := range callsIn(dr, func(nm string, cc *ssa.CallCommon) bool {
			return nm == "strings.EqualFold" || strings.HasSuffix(nm, "lite.IsTCPShieldRealIP")
		}) {
			opt := ".ModifyVirtualHost"
			if strings.HasSuffix(calleeName(ci.Common()), "IsTCPShieldRealIP") {
				opt = "GetTCPShieldRealIP"
			}
			g, n := MustCross(ci, func(e Edge, cond ssa.Value, truth bool) bool {
				if !truth {
					return false
				}
				if strings.HasSuffix(PathOf(cond), opt) {
					return true
				}
				cl := callValue(cond)
				return cl != nil && methodName(&cl.Call) == opt
			})
			c.Check("handshake-unchanged", "rewrite-needs-option:"+opt+"@dialRoute", ci, g && n > 0, "a handshake rewrite is evaluated although the route does not enable it")
		}
		// PROXY header
		nH := 0
		// dialRoute and the helpers its preamble was split into (sendPreamble(dst, …)), parameters bound
		drParts, drRestore := boundParts(dr, 1)
		callsInDR := func(m func(string, *ssa.CallCommon) bool) (out []ssa.CallInstruction) {
			for _, part := range drParts {
				out = append(out, callsIn(part, m)...)
			}
			return
		}
		for _, ci := range callsInDR(func(nm string, cc *ssa.CallCommon) bool { return strings.HasSuffix(nm, "protoutil.ProxyHeader") }) {
			nH++
			g, n := MustCross(ci, func(e Edge, cond ssa.Value, truth bool) bool {
				return truth && strings.HasSuffix(PathOf(cond), ".ProxyProtocol")
			})
			a := ci.Common().Args
			okArgs := strip(a[0]) == ssa.Value(dr.Params[2]) && func() bool {
				cl := callValue(a[1])
				return cl != nil && cl.Call.IsInvoke() && cl.Call.Method.Name() == "RemoteAddr"
			}()
			c.Check("proxy-header-gated", "ProxyHeader@dialRoute", ci, g && n > 0 && okArgs, "the PROXY header must only be sent when the route enables it, carrying the client's address")
			// before the handshake
			for _, w := range callsInDR(func(nm string, cc *ssa.CallCommon) bool { return strings.HasSuffix(nm, "lite.writePacket") }) {
				c.Check("proxy-header-gated", "header-before-handshake@dialRoute", w, !flowsToIn(dr, w, ci), "the PROXY header must precede the handshake")
			}
		}
		if nH == 0 {
			c.Undecided("proxy-header-gated", "dialRoute", "no ProxyHeader call")
		}
		// the handshake written is the received context
		nW := 0
		for _, w := range callsInDR(func(nm string, cc *ssa.CallCommon) bool { return strings.HasSuffix(nm, "lite.writePacket") }) {
			nW++
			c.Check("handshake-unchanged", "writePacket(handshakeCtx)@dialRoute", w, strip(w.Common().Args[1]) == ssa.Value(dr.Params[6]), "the packet written must be the received handshake context")
		}
		if nW == 0 {
			c.Undecided("handshake-unchanged", "writePacket@dialRoute", "no handshake write found")
		}
		drRestore()
	}
	if fw != nil {
		var flush, pp ssa.Instruction
		for _, cl := range Closures(fw) {
			for _, ci := range callsIn(cl, func(nm string, cc *ssa.CallCommon) bool { return strings.HasSuffix(nm, "lite.dialRoute") }) {
				v, isK := constBool(lastArg(ci.Common()))
				c.Check("handshake-unchanged", "Forward-passes-false@"+shortName(cl), ci, isK && !v, "player connections must not force re-encoding of the handshake")
			}
		}
		for _, ci := range callsIn(fw, func(nm string, cc *ssa.CallCommon) bool { return strings.HasSuffix(nm, "lite.emptyReadBuff") }) {
			flush = ci
		}
		for _, ci := range callsIn(fw, func(nm string, cc *ssa.CallCommon) bool { return strings.HasSuffix(nm, "lite.pipe") }) {
			pp = ci
		}
		ok := flush != nil && pp != nil
		if ok {
			fc := flush.(*ssa.Call)
			g, n := MustCross(pp, func(e Edge, cond ssa.Value, truth bool) bool {
				return errNilEdge(cond, truth, func(x *ssa.Call) bool { return x == fc })
			})
			ok = g && n > 0
		}
		c.CheckAt("flush-before-pipe", "emptyReadBuff→pipe@Forward", c.P.Pos(fw.Pos()), ok, "bytes the client already sent (buffered behind the handshake) must reach the backend before the raw pipe starts, and the pipe must not start if that failed")
	}
	if pf := c.MustFunc(pkgLite + ":pipe"); pf != nil {
		var copies [][2]string
		other := 0
		for _, cl := range Closures(pf) {
			eachInstr(cl, func(in ssa.Instruction) {
				cc := callOf(in)
				if cc == nil {
					return
				}
				if calleeName(cc) == "io.Copy" {
					// a copy inside a local closure applied to its parameters (copyAll(to, from)): one copy
					// per application, with the arguments of that application
					pi, pj := -1, -1
					for k, q := range cl.Params {
						if stripNoSubst(cc.Args[0]) == ssa.Value(q) {
							pi = k
						}
						if stripNoSubst(cc.Args[1]) == ssa.Value(q) {
							pj = k
						}
					}
					if sites := staticCallersOf(cl); cl != pf && pi >= 0 && pj >= 0 && len(sites) > 0 {
						for _, cs := range sites {
							a := cs.Common().Args
							if pi < len(a) && pj < len(a) {
								copies = append(copies, [2]string{PathOf(a[pi]), PathOf(a[pj])})
							}
						}
						return
					}
					copies = append(copies, [2]string{PathOf(cc.Args[0]), PathOf(cc.Args[1])})
					return
				}
				if cc.IsInvoke() && (cc.Method.Name() == "Write" || cc.Method.Name() == "Read") {
					other++
				}
			})
		}
		ok := len(copies) == 2 && other == 0 && copies[0][0] == copies[1][1] && copies[0][1] == copies[1][0] && copies[0][0] != copies[0][1]
		c.CheckAt("pipe-is-copy", "two-opposite-io.Copy@pipe", c.P.Pos(pf.Pos()), ok, fmt.Sprintf("the pipe must be exactly two io.Copy calls in opposite directions: %v, other reads/writes: %d", copies, other))
	}
}
