package main

import (
	"fmt"
	"go/constant"
	"strings"

	"golang.org/x/tools/go/ssa"
)

const pkgNetutil = "pkg/util/netutil"

func init() {
	register(&propDef{
		ID:       "C33",
		Title:    "PROXY protocol headers are honored only from trusted upstreams",
		Patterns: []string{"./pkg/edition/java/proxy", "./pkg/util/netutil", "./pkg/edition/bedrock/geyser"},
		Run:      runC33,
		Rule: "every proxyproto.NewConn in the module passes WithPolicy and a read-header timeout (frozen exception: the Bedrock/Geyser loopback listener); the policy value is REJECT " +
			"except on the edge where trusted.Contains(conn.RemoteAddr()) of the very connection being wrapped is true, where it is USE (no other policy constant); listenAndServe hands " +
			"HandleConn the unwrapped connection only on the ProxyProtocol == false edge; Contains(nil)=false; ContainsStr tests ParseAddr(host).Unmap().WithZone(\"\") and returns " +
			"false on parse failure and after the loop; parseNetwork returns a nil error only after ParsePrefix/ParseAddr succeeded and Is4In6() was false; a nil wrapper trusts nothing.",
		Explanation: "Decides: policy selection (fail closed), who may wrap, wrap-before-handle, address normalisation at the membership test, rejection of IPv4-mapped forms and parse errors. " +
			"Does not decide: what go-proxyproto does with a policy (library), nor netip's CIDR arithmetic.",
		Fixtures: []string{"guardcut", "provenance"},
		Variants: []Variant{
			{Name: "policy-default-use", File: pkgProxy + "/proxy_protocol.go",
				Old:    "\tpolicy := proxyproto.REJECT\n\tif p.trustedNetworks().Contains(conn.RemoteAddr()) {\n\t\tpolicy = proxyproto.USE\n\t}",
				New:    "\tpolicy := proxyproto.USE\n\tif !p.trustedNetworks().Contains(conn.RemoteAddr()) && len(p.trusted) > 0 {\n\t\tpolicy = proxyproto.REJECT\n\t}",
				Expect: "policy"},
			{Name: "policy-ignore-for-untrusted", File: pkgProxy + "/proxy_protocol.go",
				Old: "\tpolicy := proxyproto.REJECT\n", New: "\tpolicy := proxyproto.IGNORE\n", Expect: "policy"},
			{Name: "trust-by-local-addr", File: pkgProxy + "/proxy_protocol.go",
				Old: "p.trustedNetworks().Contains(conn.RemoteAddr())", New: "p.trustedNetworks().Contains(conn.LocalAddr())", Expect: "policy"},
			{Name: "no-unmap", File: pkgNetutil + "/trusted.go",
				Old: "\tip = ip.Unmap().WithZone(\"\")\n", New: "\tip = ip.WithZone(\"\")\n", Expect: "contains-normalised"},
			{Name: "parse-error-trusted", File: pkgNetutil + "/trusted.go",
				Old: "\t\t// Not an IP address (e.g. a unix socket or an in-memory net.Pipe).\n\t\treturn false", New: "\t\treturn len(t) > 0", Expect: "contains-parse-failure"},
			{Name: "accept-4in6-cidr", File: pkgNetutil + "/trusted.go",
				Old: "\t\tif prefix.Addr().Is4In6() {", New: "\t\tif prefix.Addr().Is4In6() && prefix.Bits() < 96 {", Expect: "parse-rejects-4in6"},
			{Name: "bare-newconn", File: pkgProxy + "/proxy_protocol.go",
				Old: "\treturn proxyproto.NewConn(conn,\n\t\tproxyproto.WithPolicy(policy),\n\t\tproxyproto.SetReadHeaderTimeout(readHeaderTimeout),\n\t)",
				New: "\t_ = policy\n\t_ = readHeaderTimeout\n\treturn proxyproto.NewConn(conn)", Expect: "newconn-options"},
			{Name: "nil-wrapper-trusts", File: pkgProxy + "/proxy_protocol.go",
				Old: "\tif p == nil {\n\t\treturn nil\n\t}\n\treturn p.trusted", New: "\tif p == nil {\n\t\treturn netutil.TrustedNetworks{{}}\n\t}\n\treturn p.trusted", Expect: "nil-wrapper"},
		},
	})
}

func runC33(c *Ctx) {
	const ppPath = "!github.com/pires/go-proxyproto"
	use, rej := c.P.Const(ppPath+":USE"), c.P.Const(ppPath+":REJECT")
	if use == nil || rej == nil {
		c.Undecided("anchor", "proxyproto.USE/REJECT", "policy constants do not resolve")
		return
	}
	useV, _ := constant.Int64Val(use.Val())
	rejV, _ := constant.Int64Val(rej.Val())

	// frozen exception: one named symbol with a reason
	exempt := map[string]string{
		"(*pkg/edition/bedrock/geyser.Integration).handleConnection": "Bedrock: loopback listener fed by the managed Geyser process, outside the Java listener's trust decision",
	}
	n := 0
	for _, fn := range c.P.ModFuncs() {
		for _, ci := range callsIn(fn, func(nm string, cc *ssa.CallCommon) bool { return strings.HasSuffix(nm, "go-proxyproto.NewConn") }) {
			if why, ok := exempt[shortName(fn)]; ok {
				c.Note("exempt NewConn in %s: %s", shortName(fn), why)
				continue
			}
			n++
			c.Analysed(fn)
			args := ci.Common().Args
			var opts []*ssa.Call
			if len(args) > 1 {
				derivesFrom(args[1], 8, func(v ssa.Value) bool {
					if cl, ok := v.(*ssa.Call); ok && strings.Contains(calleeName(&cl.Call), "go-proxyproto.") {
						opts = append(opts, cl)
					}
					return false
				})
			}
			var policyCall, timeoutCall *ssa.Call
			for _, o := range opts {
				switch {
				case strings.HasSuffix(calleeName(&o.Call), ".WithPolicy"):
					policyCall = o
				case strings.HasSuffix(calleeName(&o.Call), ".SetReadHeaderTimeout"):
					timeoutCall = o
				}
			}
			c.Check("newconn-options", "WithPolicy+timeout@"+shortName(fn), ci, policyCall != nil && timeoutCall != nil,
				"proxyproto.NewConn without an explicit policy honours a PROXY header from anybody (and without a header timeout parks a goroutine per silent client)")
			if policyCall == nil {
				continue
			}
			// policy value
			conn := args[0]
			trustedTrue := func(e Edge, cond ssa.Value, truth bool) bool {
				if !truth {
					return false
				}
				cl := callValue(cond)
				if cl == nil || !strings.HasSuffix(calleeName(&cl.Call), "netutil.TrustedNetworks).Contains") {
					return false
				}
				// argument = <conn>.RemoteAddr() of the connection being wrapped
				a := cl.Call.Args[len(cl.Call.Args)-1]
				ra, ok := strip(a).(*ssa.Call)
				return ok && ra.Call.IsInvoke() && ra.Call.Method.Name() == "RemoteAddr" && strip(ra.Call.Value) == strip(conn)
			}
			ok := true
			detail := ""
			pv := policyCall.Call.Args[0]
			switch x := strip(pv).(type) {
			case *ssa.Phi:
				nUse := 0
				for i, e := range x.Edges {
					k, isK := constInt(e)
					switch {
					case isK && k == rejV:
					case isK && k == useV:
						nUse++
						if !phiEdgeGuarded(x, i, trustedTrue) {
							ok, detail = false, "policy USE is selected on a path that did not pass trusted.Contains(conn.RemoteAddr()) == true for the wrapped connection"
						}
					default:
						ok, detail = false, fmt.Sprintf("policy may be %s — only REJECT (default) and USE (trusted peer) are allowed", e)
					}
				}
				_ = nUse
			default:
				// the policy chosen by a helper (headerPolicy(conn.RemoteAddr())): every return is REJECT, or
				// USE behind the trusted test of the wrapped connection's peer (parameters bound)
				if hc, isC := strip(pv).(*ssa.Call); isC && moduleHelperWithBody(&hc.Call) != nil {
					g := moduleHelperWithBody(&hc.Call)
					c.Analysed(g)
					res := make([]ssa.Value, len(hc.Call.Args))
					for i, a := range hc.Call.Args {
						res[i] = strip(a)
					}
					nRet := 0
					withBinding(g, res, func() {
						for _, hr := range successReturns(g) {
							if len(hr.Results) != 1 {
								continue
							}
							nRet++
							k, isK := constInt(hr.Results[0])
							switch {
							case isK && k == rejV:
							case isK && k == useV:
								if gd, ns := MustCross(hr, trustedTrue); !gd || ns == 0 {
									ok, detail = false, "policy USE is returned by "+g.Name()+" on a path that did not pass trusted.Contains(conn.RemoteAddr()) == true for the wrapped connection"
								}
							default:
								ok, detail = false, fmt.Sprintf("policy may be %s — only REJECT (default) and USE (trusted peer) are allowed", hr.Results[0])
							}
						}
					})
					if nRet == 0 {
						ok, detail = false, "policy helper has no return"
					}
				} else if k, isK := constInt(pv); !isK || k != rejV {
					ok, detail = false, "policy is not REJECT-by-default/USE-if-trusted: "+pv.String()
				}
			}
			c.Check("policy", "REJECT-unless-trusted-peer@"+shortName(fn), policyCall, ok, detail)
		}
	}
	if n == 0 {
		c.Undecided("newconn-options", "proxyproto.NewConn", "no Java-listener NewConn site found")
	}

	// listenAndServe: unwrapped connection reaches HandleConn only when ProxyProtocol is off
	if ls := c.MustFunc(pkgProxy + ":(*Proxy).listenAndServe"); ls != nil {
		k := 0
		for _, ci := range callsIn(ls, func(nm string, cc *ssa.CallCommon) bool { return strings.HasSuffix(nm, "Proxy).HandleConn") }) {
			k++
			a := ci.Common().Args[1]
			ppOff := func(e Edge, cond ssa.Value, truth bool) bool {
				return !truth && strings.HasSuffix(PathOf(cond), ".ProxyProtocol")
			}
			ok := true
			switch x := strip(a).(type) {
			case *ssa.Phi:
				for i, e := range x.Edges {
					if cl := callValue(e); cl != nil && methodName(&cl.Call) == "wrapConn" {
						continue
					}
					if !phiEdgeGuarded(x, i, ppOff) {
						ok = false
					}
				}
			default:
				cl := callValue(a)
				ok = cl != nil && methodName(&cl.Call) == "wrapConn"
			}
			c.Check("wrap-before-handle", "HandleConn@listenAndServe", ci, ok, "with ProxyProtocol enabled an accepted connection reaches HandleConn without the trust-checking wrapper")
		}
		if k == 0 {
			c.Undecided("wrap-before-handle", "listenAndServe", "HandleConn call not found")
		}
	}
	if tn := c.MustFunc(pkgProxy + ":(*proxyProtocol).trustedNetworks"); tn != nil {
		ok := false
		for _, e := range IfEdges(tn) {
			cond, truth := e.Cond()
			v, isNil, isCmp := nilCmp(cond, truth)
			if isCmp && isNil && strip(v) == ssa.Value(tn.Params[0]) {
				for _, in := range e.To().Instrs {
					if r, isR := in.(*ssa.Return); isR && len(r.Results) == 1 && isNilConst(strip(r.Results[0])) {
						ok = true
					}
				}
			}
		}
		c.CheckAt("nil-wrapper", "trustedNetworks(nil)=nil", c.P.Pos(tn.Pos()), ok, "an unset PROXY protocol wrapper must trust no upstream")
	}

	// netutil
	checkTrustedMembership(c)
	if ct := c.MustFunc(pkgNetutil + ":(TrustedNetworks).Contains"); ct != nil {
		ok := false
		for _, e := range IfEdges(ct) {
			cond, truth := e.Cond()
			_, isNil, isCmp := nilCmp(cond, truth)
			if isCmp && isNil {
				for _, in := range e.To().Instrs {
					if r, isR := in.(*ssa.Return); isR {
						if v, isK := constBool(r.Results[0]); isK && !v {
							ok = true
						}
					}
				}
			}
		}
		c.CheckAt("contains-parse-failure", "nil-addr→false@Contains", c.P.Pos(ct.Pos()), ok, "Contains(nil) must be false")
	}
	if pn := c.MustFunc(pkgNetutil + ":parseNetwork"); pn != nil {
		k := 0
		var pnReturns []*ssa.Return
		for _, part := range deepFuncs(pn, 1) {
			c.Analysed(part)
			for _, r := range returnsOf(part) {
				// a return that hands on a helper's (prefix, error) pair is judged at the helper's returns
				if len(r.Results) == 2 {
					if ex, isEx := r.Results[0].(*ssa.Extract); isEx {
						if hc, isC := ex.Tuple.(*ssa.Call); isC && moduleHelperWithBody(&hc.Call) != nil {
							continue
						}
					}
				}
				pnReturns = append(pnReturns, r)
			}
		}
		for _, r := range pnReturns {
			if len(r.Results) != 2 || !isNilConst(r.Results[1]) {
				continue
			}
			k++
			g1, n1 := MustCross(r, func(e Edge, cond ssa.Value, truth bool) bool {
				return errNilEdge(cond, truth, callSuffix("netip.ParsePrefix", "netip.ParseAddr"))
			})
			g2, n2 := MustCross(r, func(e Edge, cond ssa.Value, truth bool) bool {
				return boolCallEdge(cond, truth, false, callSuffix("netip.Addr).Is4In6"))
			})
			c.Check("parse-rejects-4in6", "accept-return@parseNetwork", r, g1 && n1 > 0 && g2 && n2 > 0,
				"parseNetwork accepts an entry without a successful parse and a plain Is4In6() == false test (IPv4-mapped forms must be rejected)")
			// the accepted prefix is unmapped/masked from the parsed value
		}
		if k < 2 {
			c.Undecided("parse-rejects-4in6", "parseNetwork", fmt.Sprintf("expected two accepting returns (CIDR and single address), found %d", k))
		}
	}
	if pt := c.MustFunc(pkgNetutil + ":ParseTrustedNetworks"); pt != nil {
		// any parse error aborts the whole list
		ok := false
		for _, e := range IfEdges(pt) {
			cond, truth := e.Cond()
			if errNonNilEdge(cond, truth, callSuffix("netutil.parseNetwork")) {
				for _, in := range e.To().Instrs {
					if r, isR := in.(*ssa.Return); isR && len(r.Results) == 2 && !isNilConst(r.Results[1]) {
						ok = true
					}
				}
			}
		}
		c.CheckAt("parse-rejects-4in6", "error-aborts@ParseTrustedNetworks", c.P.Pos(pt.Pos()), ok, "a malformed entry must fail the whole trusted list")
	}
}
