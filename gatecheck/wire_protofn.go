package main

import (
	"go/types"
	"strings"

	"golang.org/x/tools/go/ssa"
)

// Protocol predicates factored into helpers — func hasX(protocol proto.Protocol) bool — are
// evaluated by walking the helper's CFG with the same partial evaluator: every branch must be
// decidable from the protocol alone, otherwise the result is unknown.

func isProtocolType(t types.Type) bool {
	return strings.HasSuffix(t.String(), "gate/proto.Protocol")
}

func (w *wireCtx) evalProtoFunc(f *ssa.Function, depth int) (val bool, known bool) {
	if f == nil || f.Blocks == nil || depth > 3 || !strings.HasPrefix(fnPkgPath(f), Mod) {
		return false, false
	}
	res := f.Signature.Results()
	if res.Len() != 1 || res.At(0).Type().String() != "bool" {
		return false, false
	}
	for _, p := range f.Params {
		if !isProtocolType(p.Type()) {
			return false, false
		}
		if w.protoVals == nil {
			w.protoVals = map[ssa.Value]bool{}
		}
		w.protoVals[p] = true
	}
	var evalVal func(v ssa.Value, from *ssa.BasicBlock, at *ssa.BasicBlock) (bool, bool)
	evalVal = func(v ssa.Value, from, at *ssa.BasicBlock) (bool, bool) {
		if b, ok := constBool(v); ok {
			return b, true
		}
		if ph, ok := v.(*ssa.Phi); ok && from != nil && ph.Block() == at {
			for i, pr := range at.Preds {
				if pr == from {
					return evalVal(ph.Edges[i], nil, nil)
				}
			}
			return false, false
		}
		return w.evalProtoCond(v)
	}
	b := f.Blocks[0]
	var from *ssa.BasicBlock
	for steps := 0; steps < 64; steps++ {
		switch t := lastInstr(b).(type) {
		case *ssa.If:
			v, ok := evalVal(t.Cond, from, b)
			if !ok {
				return false, false
			}
			from = b
			if v {
				b = b.Succs[0]
			} else {
				b = b.Succs[1]
			}
		case *ssa.Jump:
			from = b
			b = b.Succs[0]
		case *ssa.Return:
			return evalVal(t.Results[0], from, b)
		default:
			return false, false
		}
	}
	return false, false
}
