package main

import (
	"encoding/json"
	"fmt"
	"sort"
)

// notApplicable: properties not claimed, with the reason. Properties with a registered checker are
// removed from this table automatically.
var notApplicable = map[string]string{
	"C09": "value-level equality of a pure arithmetic/string function over all 2^160 digests (two's complement, zero trimming); no path, ownership or agreement fact captures it without matching the algorithm's own text. Its one structural fact (hash input = secret then public key) is decided under C08.",
	"C36": "RFC 7396 conformance of a 15-line recursive function over `any` is value-level over all JSON documents; there is no structural necessary condition that is not the algorithm itself.",
}

var pending = map[string]string{}

func init() {
	for _, id := range []string{"C01", "C02", "C03", "C04", "C05", "C06", "C07", "C08", "C10", "C13", "C15", "C16", "C17", "C19", "C20", "C21", "C22", "C23", "C24", "C25", "C26", "C28", "C29", "C30", "C31", "C32", "C33", "C34", "C35", "C37", "C38", "C39", "C40", "C41", "C42", "C43", "C44"} {
		pending[id] = "static checker for the structural clauses described in DESIGN.md §3 is not built yet; not claimed on the strength of the design alone"
	}
}

func printManifest() {
	type level struct {
		Category  string `json:"category"`
		Text      string `json:"text"`
		DesignRef string `json:"design_ref"`
	}
	type check struct {
		PropertyID string `json:"property_id"`
		Quick      string `json:"quick_cmd"`
		Thorough   string `json:"thorough_cmd"`
		Evidence   string `json:"evidence_file"`
		Replay     string `json:"replay_cmd_template"`
		Engine     string `json:"engine"`
		Level      level  `json:"level_claimed"`
		Note       string `json:"level_note"`
		Technique  string `json:"technique"`
	}
	var ids []string
	for id := range registry {
		ids = append(ids, id)
	}
	sort.Strings(ids)
	var checks []check
	for _, id := range ids {
		d := registry[id]
		checks = append(checks, check{
			PropertyID: id,
			Quick:      "./bin/gatecheck -prop " + id + " -tier quick",
			Thorough:   "./bin/gatecheck -prop " + id + " -tier thorough",
			Evidence:   "/verif/evidence/" + id + ".json",
			Replay:     "./bin/gatecheck -prop " + id + " -replay {path}",
			Engine:     "gatecheck",
			Level: level{Category: "other",
				Text:      "Structural necessary conditions of the property, decided exhaustively over every path / call site / table row of the anchored mechanism on /repo's current source (static analysis; nothing is executed). " + d.Explanation,
				DesignRef: "DESIGN.md §3 " + id},
			Note:      "Trusted base: go/types + golang.org/x/tools/go/ssa v0.50.0 and the gatecheck primitives (guard cut, lock set, provenance, bounds). The behavioural statement as a whole is not decided — only the clauses named in the level text; interface/function-value calls are followed only where the rule says so.",
			Technique: "static analysis: " + fullRule(d),
		})
	}
	type na struct {
		PropertyID string `json:"property_id"`
		Reason     string `json:"reason"`
	}
	var nas []na
	var naIDs []string
	for id := range notApplicable {
		naIDs = append(naIDs, id)
	}
	for id := range pending {
		if _, ok := registry[id]; !ok {
			naIDs = append(naIDs, id)
		}
	}
	sort.Strings(naIDs)
	for _, id := range naIDs {
		if _, ok := registry[id]; ok {
			continue
		}
		r := notApplicable[id]
		if r == "" {
			r = pending[id]
		}
		nas = append(nas, na{id, r})
	}
	m := map[string]any{
		"version":   1,
		"setup_cmd": "./build.sh",
		"hooks": map[string]any{
			"guard":            "verif",
			"enable":           "no hooks: gatecheck analyses /repo's source as it is (go/packages + go/ssa); nothing in /repo is instrumented or executed",
			"baseline_off_cmd": "cd /repo && go test -mod=mod -json -vet=off -count=1 -timeout 25m ./...",
			"source_commits":   []string{},
			"add_only":         true,
		},
		"engines": []map[string]any{{
			"name": "gatecheck", "path": "/verif/gatecheck", "serves_properties": ids,
			"kind_free_text": "repository-specific static analyser over go/types + go/ssa: guard cuts (must-pass-through on the CFG), lock-set / re-entrancy / guarded-reference-escape analysis, value provenance, dominating-comparison ranges, table evaluation, regex language equivalence",
		}},
		"checks":         checks,
		"not_applicable": nas,
		"notes":          "All checks are static (technique family: static analysis). Each claims level 'other': structural necessary conditions only; see DESIGN.md. known_findings.json lists genuine defects (fixed: entries record fix: commits in /repo).",
	}
	b, _ := json.MarshalIndent(m, "", " ")
	fmt.Println(string(b))
}
