package main

import (
	"fmt"
	"go/token"
	"go/types"
	"sort"
	"strings"

	"golang.org/x/tools/go/ssa"
)

func init() {
	register(&propDef{
		ID:       "C03",
		Title:    "Primitive field codecs are exact inverses and reject truncated input",
		Patterns: []string{"./pkg/edition/java/proto/util", "./pkg/edition/java/proto/version", "./pkg/gate/proto", "./pkg/edition/java/profile"},
		Run:      runC03,
		Rule: "(1) no silently short read: every io.Reader.Read in package proto/util with a buffer longer than one byte must use its count (io.ReadFull and ReadByte are the accepted " +
			"idioms) — a discarded count turns a strict prefix into a zero-padded value with a nil error; (2) P7: for every WriteX/ReadX pair of the package the wire-token automata " +
			"(fixed widths expanded to bytes, varint, length-delimited blob, loops, optional parts, protocol gates partially evaluated) accept the same language; (3) P6: no mask tests " +
			"bits the value cannot have and no narrowing conversion drops a flag bit just set (width contradictions); (4) P3: every allocation whose size comes from the stream is " +
			"dominated by a lower bound >= 0 (or is unsigned / provably non-negative) and an upper bound that is a constant, a parameter, the type's width, or the min(n, cap) idiom.",
		Explanation: "Decides: truncated input cannot yield a value (structurally: counts are honoured), reader/writer agreement on widths and field order for all primitive pairs, " +
			"width consistency of masks, and that length prefixes are validated before allocation. Does not decide: value-level inverse for all values (UTF-8 subtleties, float NaNs).",
		Fixtures: []string{"wire", "bounds", "knownbits", "bitprov", "errdisc"},
		Variants: []Variant{
			{Name: "short-read-uint32", File: pkgUtil + "/reader.go",
				Old: "\t_, err = io.ReadFull(reader, protocol[:4])", New: "\t_, err = reader.Read(protocol[:4])", Expect: "short-read"},
			{Name: "property-flag-error-discarded", File: pkgUtil + "/reader.go",
				Old: "\t\thasSignature, err := ReadBool(rd)\n\t\tif err != nil {\n\t\t\treturn nil, err\n\t\t}", New: "\t\thasSignature, _ := ReadBool(rd)", Expect: "read-error-consumed"},
			{Name: "int64-written-as-4", File: pkgUtil + "/writer.go",
				Old: "func WriteInt64(writer io.Writer, val int64) (err error) {\n\terr = WriteUint64(writer, uint64(val))", New: "func WriteInt64(writer io.Writer, val int64) (err error) {\n\terr = WriteUint32(writer, uint32(val))", Expect: "pair:Int64"},
			{Name: "negative-length-unchecked", File: pkgUtil + "/reader.go",
				Old: "\tif length < 0 {\n\t\terr = fmt.Errorf(\"decode, bytes/string length is < 0: %d\", length)\n\t\treturn\n\t}\n", New: "", Expect: "alloc-bounded"},
			{Name: "string-max-dropped", File: pkgUtil + "/reader.go",
				Old: "\tif length > max*4 { // *4 since UTF8 character has up to 4 bytes\n\t\treturn \"\", fmt.Errorf(\"bad string length (got %d, max. %d)\", length, max)\n\t}\n", New: "", Expect: "alloc-bounded"},
			{Name: "properties-order", File: pkgUtil + "/writer.go",
				Old: "\t\terr = WriteString(wr, p.Name)\n\t\tif err != nil {\n\t\t\treturn err\n\t\t}\n\t\terr = WriteString(wr, p.Value)", New: "\t\terr = WriteString(wr, p.Name)\n\t\tif err != nil {\n\t\t\treturn err\n\t\t}\n\t\thasSig := len(p.Signature) != 0\n\t\tif err = WriteBool(wr, hasSig); err != nil {\n\t\t\treturn err\n\t\t}\n\t\terr = WriteString(wr, p.Value)", Expect: "pair:Properties"},
			{Name: "utf-length-varint", File: pkgUtil + "/writer.go",
				Old: "\terr := WriteUint16(wr, uint16(len(s)))\n\tif err != nil {\n\t\treturn err\n\t}\n\t_, err = wr.Write([]byte(s))", New: "\terr := WriteVarInt(wr, len(s))\n\tif err != nil {\n\t\treturn err\n\t}\n\t_, err = wr.Write([]byte(s))", Expect: "pair:UTF"},
		},
	})
}

// streamParam finds the io.Reader/io.Writer parameter of a codec helper.
func streamParam(fn *ssa.Function) ssa.Value {
	for _, p := range fn.Params {
		s := p.Type().String()
		if s == "io.Reader" || s == "io.Writer" {
			return p
		}
	}
	return nil
}

func wireOfParam(P *Program, vt *VersionTable, fn *ssa.Function, proto int64) (wAuto, *wireCtx, bool) {
	sp := streamParam(fn)
	if sp == nil {
		return wAuto{}, nil, false
	}
	w := newWireCtx(P, vt, proto)
	s, e := w.build(fn, map[ssa.Value]bool{sp: true}, 0)
	return wAuto{w.nfa, s, e}, w, true
}

func runC03(c *Ctx) {
	scope := c.P.Funcs(Mod + "/" + pkgUtil)
	var utilFns []*ssa.Function
	for _, fn := range scope {
		if fnPkgPath(fn) == Mod+"/"+pkgUtil {
			utilFns = append(utilFns, fn)
		}
	}
	// ---- (1) short reads
	nRead := 0
	for _, fn := range utilFns {
		for _, ci := range callsIn(fn, func(nm string, cc *ssa.CallCommon) bool {
			return cc.IsInvoke() && cc.Method.Name() == "Read" && cc.Value.Type().String() == "io.Reader"
		}) {
			nRead++
			c.Analysed(fn)
			buf := ci.Common().Args[0]
			tok := bufToken(buf)
			if tok == "fixed:1" {
				c.Check("short-read", "Read(1 byte)@"+shortName(fn), ci, true, "")
				continue
			}
			// is the count used?
			used := false
			if refs := ci.(*ssa.Call).Referrers(); refs != nil {
				for _, r := range *refs {
					if ex, ok := r.(*ssa.Extract); ok && ex.Index == 0 && ex.Referrers() != nil && len(*ex.Referrers()) > 0 {
						used = true
					}
					if _, ok := r.(*ssa.Return); ok {
						used = true // `return rd.Read(p)` passes the count on
					}
				}
			}
			c.Check("short-read", "Read("+tok+")@"+shortName(fn), ci, used,
				"io.Reader.Read may return fewer bytes than the buffer without an error (bytes.Reader, net.Conn): the count is discarded here, so a truncated input yields a zero-padded value with err == nil; use io.ReadFull")
		}
	}
	c.Info["reader_read_calls"] = nRead

	// ---- (1b) no read error dropped: a truncated input must surface as an error
	nErr := 0
	for _, fn := range utilFns {
		if streamParam(fn) == nil && fn.Parent() == nil {
			continue
		}
		dropped, total := droppedErrors(fn, func(nm string, cc *ssa.CallCommon) bool {
			for _, a := range cc.Args {
				if a.Type().String() == "io.Reader" || a.Type().String() == "io.ByteReader" {
					return true
				}
			}
			return cc.IsInvoke() && (cc.Value.Type().String() == "io.Reader" || cc.Value.Type().String() == "io.ByteReader")
		})
		nErr += total
		for _, ci := range dropped {
			c.Check("read-error-consumed", calleeName(ci.Common())+"@"+shortName(fn), ci, false,
				"the error of this stream read is never tested or returned (discarded, or assigned to a shadowed variable that goes out of scope): a strict prefix of a valid encoding decodes to a zero/short value with err == nil")
		}
	}
	c.CheckAt("read-error-consumed", "scanned", pkgUtil, nErr >= 40, fmt.Sprintf("%d error-returning stream reads in package util, each consumed", nErr))

	// ---- (2) pair agreement
	vt, err := evalVersionTable(c.P)
	if err != nil {
		c.Undecided("pair", "version table", err.Error())
	} else {
		byName := map[string]*ssa.Function{}
		for _, fn := range utilFns {
			if fn.Parent() == nil && fn.Signature.Recv() == nil {
				byName[fn.Name()] = fn
			}
		}
		type pair struct{ key, w, r string }
		var pairs []pair
		special := map[string]string{"WriteStrings": "ReadStringArray", "WriteString": "ReadString", "WriteBytes": "ReadBytes", "WriteVarInt": "ReadVarInt", "WriteRawBytes": "ReadRawBytes"}
		for name := range byName {
			if !strings.HasPrefix(name, "Write") || strings.HasSuffix(name, "N") && byName[strings.TrimSuffix(name, "N")] != nil {
				continue
			}
			rn := "Read" + strings.TrimPrefix(name, "Write")
			if s, ok := special[name]; ok {
				rn = s
			}
			if byName[rn] == nil {
				continue
			}
			if streamParam(byName[name]) == nil || streamParam(byName[rn]) == nil {
				continue
			}
			pairs = append(pairs, pair{strings.TrimPrefix(name, "Write"), name, rn})
		}
		// extra readers that share a writer
		for _, extra := range []pair{{"StringMax", "WriteString", "ReadStringMax"}, {"BytesLen", "WriteBytes", "ReadBytesLen"}, {"IntArray", "WriteVarIntArray", "ReadIntArray"},
			{"UnixMilli", "WriteInt64", "ReadUnixMilli"}, {"MinimalKey", "WriteString", "ReadMinimalKey"}, {"CompoundTag", "WriteBinaryTag", "ReadCompoundTag"}} {
			if byName[extra.w] != nil && byName[extra.r] != nil {
				pairs = append(pairs, extra)
			}
		}
		sort.Slice(pairs, func(i, j int) bool { return pairs[i].key < pairs[j].key })
		protos := []int64{vt.Supported[0], 763, 764, vt.Supported[len(vt.Supported)-1]}
		for _, p := range pairs {
			c.Analysed(byName[p.w], byName[p.r])
			ok := true
			detail := ""
			for _, pr := range protos {
				wa, _, _ := wireOfParam(c.P, vt, byName[p.w], pr)
				ra, _, _ := wireOfParam(c.P, vt, byName[p.r], pr)
				in1, w1, _, e1 := wireIncluded(wa, ra)
				in2, w2, _, e2 := wireIncluded(ra, wa)
				switch {
				case e1 != nil || e2 != nil:
					ok, detail = false, "automaton too large"
				case !in1:
					ok, detail = false, fmt.Sprintf("protocol %d: %s can write [%s] which %s does not read", pr, p.w, strings.Join(w1, " "), p.r)
				case !in2:
					ok, detail = false, fmt.Sprintf("protocol %d: %s accepts [%s] which %s never writes", pr, p.r, strings.Join(w2, " "), p.w)
				}
				if !ok {
					break
				}
			}
			c.CheckAt("pair", p.key+" ("+p.w+"↔"+p.r+")", c.P.Pos(byName[p.w].Pos()), ok,
				"writer and reader of this primitive disagree on the wire layout: "+detail)
		}
		c.Info["pairs"] = len(pairs)
		if len(pairs) < 25 {
			c.Undecided("pair", "coverage", fmt.Sprintf("expected ≥25 Write/Read pairs, found %d", len(pairs)))
		}
	}

	// ---- (3) width contradictions
	nb := 0
	for _, fn := range utilFns {
		fs := bitContradictions(fn)
		nb++
		if len(fs) == 0 {
			continue
		}
		for _, f := range fs {
			c.Check("mask-width", f.Kind+"@"+shortName(fn), f.At, false, f.Msg)
		}
	}
	c.CheckAt("mask-width", "scanned", "pkg/edition/java/proto/util", nb > 50, fmt.Sprintf("%d functions scanned for width contradictions", nb))

	// ---- (4) allocations sized by the stream
	isStreamRead := func(v ssa.Value) bool {
		cl := callValue(v)
		if cl == nil {
			return false
		}
		if cl.Call.IsInvoke() {
			return cl.Call.Method.Name() == "ReadByte"
		}
		f := staticCallee(&cl.Call)
		return f != nil && strings.HasPrefix(f.Name(), "Read") && fnPkgPath(f) == Mod+"/"+pkgUtil
	}
	nAlloc := 0
	for _, fn := range utilFns {
		eachInstr(fn, func(in ssa.Instruction) {
			ms, ok := in.(*ssa.MakeSlice)
			if !ok {
				return
			}
			for _, sz := range []ssa.Value{ms.Len, ms.Cap} {
				if _, isK := constInt(sz); isK {
					continue
				}
				if !derivesFrom(sz, 6, isStreamRead) {
					// one-level summary: the size is a parameter of an unexported helper whose callers
					// pass a value read from the stream (readStringMax(rd, max, length))
					tainted := false
					if p, isP := strip(sz).(*ssa.Parameter); isP && fn.Object() != nil && !fn.Object().Exported() {
						idx := -1
						for i, q := range fn.Params {
							if q == p {
								idx = i
							}
						}
						for _, caller := range utilFns {
							for _, ci := range callsIn(caller, func(nm string, cc *ssa.CallCommon) bool { return staticCallee(cc) == fn }) {
								if idx >= 0 && idx < len(ci.Common().Args) && derivesFrom(ci.Common().Args[idx], 6, isStreamRead) {
									tainted = true
								}
							}
						}
					}
					if !tainted {
						continue
					}
				}
				nAlloc++
				c.Analysed(fn)
				lower, upper, how := allocBounds(ms, sz, fn)
				if p, isP := strip(sz).(*ssa.Parameter); isP && !(lower && upper) && isUnexportedHelper(fn) {
					// make(n) inside a helper (readN(rd, n)): the bounds are established by the callers —
					// each call site that passes a stream-read value is judged where it stands
					idx := -1
					for i, q := range fn.Params {
						if q == p {
							idx = i
						}
					}
					sites := 0
					for _, cs := range staticCallersOf(fn) {
						if idx < 0 || idx >= len(cs.Common().Args) {
							continue
						}
						arg := cs.Common().Args[idx]
						if _, isK := constInt(arg); isK {
							continue
						}
						if !derivesFrom(arg, 6, isStreamRead) {
							continue
						}
						sites++
						if sites > 1 {
							nAlloc++
						}
						c.Analysed(cs.Parent())
						lo, up, h := allocBoundsAt(cs.Block(), arg, cs.Parent())
						c.Check("alloc-bounded", "make@"+shortName(cs.Parent())+"→"+fn.Name(), cs, (lo || lower) && (up || upper),
							fmt.Sprintf("allocation (in %s) sized by a value read from the stream without a validated %s (%s): a negative or huge length prefix panics / exhausts memory before any data is read",
								fn.Name(), map[bool]string{true: "upper bound", false: "lower bound (>= 0)"}[lo || lower], h))
					}
					if sites > 0 {
						continue
					}
				}
				c.Check("alloc-bounded", "make@"+shortName(fn), ms, lower && upper,
					fmt.Sprintf("allocation sized by a value read from the stream without a validated %s (%s): a negative or huge length prefix panics / exhausts memory before any data is read",
						map[bool]string{true: "upper bound", false: "lower bound (>= 0)"}[lower], how))
			}
		})
	}
	c.Info["stream_sized_allocations"] = nAlloc
	if nAlloc < 8 {
		c.Undecided("alloc-bounded", "coverage", fmt.Sprintf("expected ≥8 stream-sized allocations in proto/util, found %d", nAlloc))
	}
	// ---- (5) the 1.7 extended short: reader and writer place every bit alike (P6b)
	checkForgeShortLayout(c, "forge-short-layout")
}

// allocBounds decides whether size value sz (used by make at ms) has a dominating lower bound >= 0
// and an upper bound (constant, parameter-relative, type width, or min idiom).
func allocBounds(ms *ssa.MakeSlice, sz ssa.Value, fn *ssa.Function) (lower, upper bool, how string) {
	return allocBoundsAt(ms.Block(), sz, fn)
}

// allocBoundsAt: the bounds known for sz at block `at` of fn.
func allocBoundsAt(at *ssa.BasicBlock, sz ssa.Value, fn *ssa.Function) (lower, upper bool, how string) {
	core := strip(sz)
	// min(n, CONST) idiom: bounded above by the constant; n itself still needs the lower bound
	if cl, ok := core.(*ssa.Call); ok {
		if b, isB := cl.Call.Value.(*ssa.Builtin); isB && b.Name() == "min" {
			hasConst := false
			var other ssa.Value
			for _, a := range cl.Call.Args {
				if _, isK := constInt(a); isK {
					hasConst = true
				} else {
					other = a
				}
			}
			if hasConst && other != nil {
				lo, _, h := allocBoundsAt(at, other, fn)
				return lo, true, "min(n, const); n: " + h
			}
		}
	}
	// clamp helper: a module function of the size every return of which is a constant or the
	// parameter itself behind an upper-bound test — min(n, CONST) spelled as a function
	if cl, ok := core.(*ssa.Call); ok {
		if g := moduleHelperWithBody(&cl.Call); g != nil && g.Signature.Results().Len() == 1 {
			clamp, argIdx, n := true, -1, 0
			for _, ret := range successReturns(g) {
				n++
				rv := stripNoSubst(retVal(ret, 0))
				if _, isK := constInt(rv); isK {
					continue
				}
				prm, isP := rv.(*ssa.Parameter)
				if !isP {
					clamp = false
					break
				}
				if r := RangeAt(ret.Block(), isVal(prm)); !r.HasHi() {
					clamp = false
					break
				}
				for i, q := range g.Params {
					if q == prm {
						if argIdx >= 0 && argIdx != i {
							clamp = false
						}
						argIdx = i
					}
				}
			}
			if clamp && n > 0 && argIdx >= 0 && argIdx < len(cl.Call.Args) {
				lo, _, h := allocBoundsAt(at, cl.Call.Args[argIdx], fn)
				return lo, true, g.Name() + "(n) clamps to a constant; n: " + h
			}
		}
	}
	// unsigned narrow types are bounded by their width
	if w, signed, ok := typeWidth(core.Type()); ok && !signed && w <= 16 {
		return true, true, fmt.Sprintf("uint%d", w)
	}
	is := func(v ssa.Value) bool {
		v = strip(v)
		if v == core {
			return true
		}
		// two loads of the same local variable (filled through a pointer by a panic-reader)
		l1, ok1 := v.(*ssa.UnOp)
		l2, ok2 := core.(*ssa.UnOp)
		if ok1 && ok2 && l1.Op == token.MUL && l2.Op == token.MUL {
			if a1, ok := l1.X.(*ssa.Alloc); ok && l1.X == l2.X && len(storesTo(a1)) == 0 {
				return true
			}
		}
		return false
	}
	r := RangeAt(at, is)
	lower = r.HasLo() && r.Lo >= 0
	upper = r.HasHi()
	how = r.String()
	for _, s := range r.Sym {
		if s.Op == token.LEQ || s.Op == token.LSS {
			// bound against a parameter (or an expression of parameters/constants)
			if derivesFrom(s.Other, 4, func(v ssa.Value) bool { _, isP := v.(*ssa.Parameter); return isP }) {
				upper = true
				how += " ≤param"
			}
		}
	}
	if !lower {
		// provably non-negative by construction (masks/shifts of bytes), possibly through a helper's return
		pb := possibleBits(core, 8)
		if ex, ok := core.(*ssa.Extract); ok {
			if cl, ok := ex.Tuple.(*ssa.Call); ok {
				if f := staticCallee(&cl.Call); f != nil && f.Blocks != nil {
					pb = 0
					for _, ret := range returnsOf(f) {
						if ret.Block() == f.Recover || ex.Index >= len(ret.Results) {
							continue
						}
						pb |= possibleBits(retVal(ret, ex.Index), 8)
					}
				}
			}
		}
		if wd, _, ok := typeWidth(core.Type()); ok && pb&(uint64(1)<<uint(wd-1)) == 0 {
			lower = true
			how += " non-negative by construction"
		}
	}
	_ = types.Typ
	return
}
