package main

import (
	"fmt"
	"sort"
	"strings"

	"golang.org/x/tools/go/ssa"
)

const pkgITab = "pkg/internal/tablist"

// tabAttr: one attribute of a tab-list entry: the player-info action that carries it, the Entry getter
// the model reports, the packet field, and the internal setter the backend-update path uses.
type tabAttr struct{ action, getter, field, setter string }

var tabAttrs = []tabAttr{
	{"UpdateDisplayNameAction", "DisplayName", "DisplayName", "SetDisplayNameInternal"},
	{"UpdateLatencyAction", "Latency", "Latency", "SetLatencyInternal"},
	{"UpdateGameModeAction", "GameMode", "GameMode", "SetGameModeInternal"},
	{"UpdateListedAction", "Listed", "Listed", "SetListedInternal"},
	{"UpdateListOrderAction", "ListOrder", "ListOrder", "SetListOrderInternal"},
	{"InitializeChatAction", "ChatSession", "RemoteChatSession", "SetChatSessionInternal"},
}

func init() {
	register(&propDef{
		ID:       "C28",
		Title:    "The tab-list model matches what the client was told",
		Patterns: []string{"./pkg/internal/tablist", "./pkg/edition/java/proxy/tablist", "./pkg/edition/java/proto/packet/tablist/playerinfo"},
		Run:      runC28,
		Rule: "pairing tables (sibling agreement between the two directions of the 1.19.3+ tab list): in TabList.add, every block that appends action X to the packet's action set lies " +
			"behind a comparison of the previous and the new entry's getter for X's attribute (update branch) and stores that same getter's value into X's packet field; the new-entry " +
			"branch always sends AddPlayer+Latency+Listed with profile, latency and listed taken from the entry; in processUpdateForEntry, for every action X the internal setter for " +
			"X's attribute is called behind ContainsAction(actions, X)==true with X's packet field; the model map is written under the lock with the entry's own profile id as key, " +
			"ProcessRemove/RemoveAll delete exactly the ids that are (to be) sent, and RemoveAll's packet carries the ids deleteEntries returned; canonical action order on the wire is " +
			"shared with C07.",
		Explanation: "Decides: each attribute travels in the action that a vanilla client decodes it from, in both directions (API change → packet, backend packet → model), so the model " +
			"cannot say one thing while the packet said another; keys and removals agree. Does not decide: full histories (interleavings of API and backend updates), legacy (<1.19.3) lists.",
		Fixtures: []string{"provenance", "guardcut"},
		Variants: []Variant{
			{Name: "latency-change-sent-as-gamemode", File: pkgITab + "/tablist.go",
				Old: "\t\t\tactions = append(actions, playerinfo.UpdateLatencyAction)\n\t\t\tplayerInfoEntry.Latency = int(entry.Latency().Milliseconds())\n\t\t}\n\t\tif previousEntry.GameMode()",
				New: "\t\t\tactions = append(actions, playerinfo.UpdateGameModeAction)\n\t\t\tplayerInfoEntry.Latency = int(entry.Latency().Milliseconds())\n\t\t}\n\t\tif previousEntry.GameMode()", Expect: "emit-pairing"},
			{Name: "listed-change-sends-previous", File: pkgITab + "/tablist.go",
				Old: "\t\t\tactions = append(actions, playerinfo.UpdateListedAction)\n\t\t\tplayerInfoEntry.Listed = entry.Listed()", New: "\t\t\tactions = append(actions, playerinfo.UpdateListedAction)\n\t\t\tplayerInfoEntry.Listed = previousEntry.Listed()", Expect: "emit-pairing"},
			{Name: "backend-listed-applied-as-latency", File: pkgITab + "/tablist.go",
				Old: "\tif playerinfo.ContainsAction(actions, playerinfo.UpdateListedAction) {\n\t\tdoInternalEntity(currentEntry, func(e internalEntry) {\n\t\t\te.SetListedInternal(info.Listed)",
				New: "\tif playerinfo.ContainsAction(actions, playerinfo.UpdateLatencyAction) {\n\t\tdoInternalEntity(currentEntry, func(e internalEntry) {\n\t\t\te.SetListedInternal(info.Listed)", Expect: "consume-pairing"},
			{Name: "backend-gamemode-ignored", File: pkgITab + "/tablist.go",
				Old: "\tif playerinfo.ContainsAction(actions, playerinfo.UpdateGameModeAction) {\n\t\tdoInternalEntity(currentEntry, func(e internalEntry) {\n\t\t\te.SetGameModeInternal(info.GameMode)\n\t\t})\n\t}\n", New: "", Expect: "consume-pairing"},
			{Name: "readd-of-existing-entry-dropped", File: pkgITab + "/tablist.go",
				Old: "\t\t} // else: Received an add player packet for an existing entry; this does nothing.\n", New: "\t\t} else {\n\t\t\treturn nil\n\t\t}\n", Expect: "update-not-dropped"},
			{Name: "new-entry-without-listed", File: pkgITab + "/tablist.go",
				Old: "\t\t\tplayerinfo.AddPlayerAction,\n\t\t\tplayerinfo.UpdateLatencyAction,\n\t\t\tplayerinfo.UpdateListedAction,\n", New: "\t\t\tplayerinfo.AddPlayerAction,\n\t\t\tplayerinfo.UpdateLatencyAction,\n", Expect: "new-entry"},
			{Name: "remove-packet-omits-ids", File: pkgITab + "/tablist.go",
				Old: "\t\treturn t.Viewer.BufferPacket(&playerinfo.Remove{\n\t\t\tPlayersToRemove: toRemove,", New: "\t\treturn t.Viewer.BufferPacket(&playerinfo.Remove{\n\t\t\tPlayersToRemove: ids,", Expect: "remove-agrees"},
			{Name: "model-write-unlocked", File: pkgITab + "/tablist.go",
				Old: "\tt.Lock()\n\tpreviousEntry := t.EntriesByID[playerInfoEntry.ProfileID]\n\tt.EntriesByID[playerInfoEntry.ProfileID] = entry\n\tt.Unlock()", New: "\tpreviousEntry := t.EntriesByID[playerInfoEntry.ProfileID]\n\tt.EntriesByID[playerInfoEntry.ProfileID] = entry", Expect: "guarded"},
		},
	})
}

// actionStores: blocks of fn that put the named action constants into a varargs array (append).
func actionStores(fn *ssa.Function) map[*ssa.BasicBlock][]string {
	out := map[*ssa.BasicBlock][]string{}
	eachInstr(fn, func(in ssa.Instruction) {
		st, ok := in.(*ssa.Store)
		if !ok {
			return
		}
		if _, isIA := st.Addr.(*ssa.IndexAddr); !isIA {
			return
		}
		ld, ok := strip(st.Val).(*ssa.UnOp)
		if !ok {
			return
		}
		g, ok := ld.X.(*ssa.Global)
		if !ok || !strings.HasSuffix(g.Name(), "Action") {
			return
		}
		out[st.Block()] = append(out[st.Block()], g.Name())
	})
	return out
}

func invokesGetter(v ssa.Value, getter string, depth int) []*ssa.Call {
	var out []*ssa.Call
	seen := map[*ssa.Call]bool{}
	derivesFrom(v, depth, func(x ssa.Value) bool {
		if cl, ok := x.(*ssa.Call); ok && cl.Call.IsInvoke() && cl.Call.Method.Name() == getter && !seen[cl] {
			seen[cl] = true
			out = append(out, cl)
		}
		return false
	})
	return out
}

func runC28(c *Ctx) {
	scope := c.P.Funcs(Mod + "/" + pkgITab)
	lc := NewLockCtx(c.P, scope)
	add := c.MustFunc(pkgITab + ":(*TabList).add")
	upd := c.MustFunc(pkgITab + ":(*TabList).processUpdateForEntry")
	if add == nil || upd == nil {
		return
	}
	c.Analysed(add, upd)
	entryPrm := add.Params[1]
	byAction := map[string]tabAttr{}
	for _, a := range tabAttrs {
		byAction[a.action] = a
	}
	byAction["UpdateHatAction"] = tabAttr{"UpdateHatAction", "ShowHat", "ShowHat", ""}

	// ---- (1) emit side — in add and in the unexported helpers it was split into (their parameters bound
	// to the arguments of their call, so "the entry being added" stays the same value throughout)
	isModelLookup := func(v ssa.Value) bool {
		v = strip(v)
		if lk, ok := v.(*ssa.Lookup); ok {
			return strings.HasSuffix(PathOf(lk.X), ".EntriesByID")
		}
		if cl, ok := v.(*ssa.Call); ok {
			if h := staticCallee(&cl.Call); h != nil && h.Blocks != nil && isUnexportedHelper(h) {
				for _, r := range returnsOf(h) {
					if len(r.Results) > 0 {
						if lk, isLk := strip(retVal(r, 0)).(*ssa.Lookup); isLk && strings.HasSuffix(PathOf(lk.X), ".EntriesByID") {
							return true
						}
					}
				}
			}
		}
		return false
	}
	prevNonNil := func(e Edge, cond ssa.Value, truth bool) bool {
		v, isNil, ok := nilCmp(cond, truth)
		if !ok || isNil {
			return false
		}
		return isModelLookup(v)
	}
	nUpd, newSeen := 0, map[string]bool{}
	parts := deepFuncs(add, 2)
	forEachPart := func(f func(fn *ssa.Function)) {
		for _, g := range parts {
			g := g
			if g == add || !withCalleeBound(g, func() { f(g) }) {
				if g == add || g.Parent() != nil {
					f(g)
				}
			}
		}
	}
	forEachPart(func(part *ssa.Function) {
		stores := actionStores(part)
		var blocks []*ssa.BasicBlock
		for b := range stores {
			blocks = append(blocks, b)
		}
		sort.Slice(blocks, func(i, j int) bool { return blocks[i].Index < blocks[j].Index })
		for _, b := range blocks {
			first := b.Instrs[0]
			inUpdate, nsel := MustCross(first, prevNonNil)
			for _, act := range stores[b] {
				at, known := byAction[act]
				if !inUpdate || nsel == 0 {
					newSeen[act] = true
					continue
				}
				if !known {
					continue
				}
				nUpd++
				// (a) behind a comparison of previous.G() and entry.G()
				cmp := false
				for _, e := range EdgeDominators(b) {
					cond, _ := e.Cond()
					if len(invokesGetter(cond, at.getter, 5)) >= 2 {
						cmp = true
					}
				}
				// (b) the packet field is filled from entry.G()
				fieldOK := false
				for _, in := range b.Instrs {
					st, ok := in.(*ssa.Store)
					if !ok {
						continue
					}
					fa, isFA := st.Addr.(*ssa.FieldAddr)
					if !isFA || fieldOfAddr(fa).Name() != at.field {
						continue
					}
					recvs := getterReceivers(st.Val, at.getter, 6)
					fieldOK = len(recvs) > 0
					for _, r := range recvs {
						if r != ssa.Value(entryPrm) {
							fieldOK = false
						}
					}
				}
				c.Check("emit-pairing", act+"@add(update)", first, cmp && fieldOK,
					fmt.Sprintf("the action %s must be sent exactly when previous.%s() differs from entry.%s() and carry entry.%s() in the packet's %s field (compared=%v, field-from-new-entry=%v): otherwise the client is told something the model does not say",
						act, at.getter, at.getter, at.getter, at.field, cmp, fieldOK))
			}
		}
	})
	if nUpd < 5 {
		c.Undecided("emit-pairing", "add(update)", fmt.Sprintf("expected ≥5 diffed attributes in the update branch, found %d", nUpd))
	}
	// new entry: AddPlayer + Latency + Listed unconditionally, fields from the entry
	for _, must := range []string{"AddPlayerAction", "UpdateLatencyAction", "UpdateListedAction"} {
		c.CheckAt("new-entry", must+"@add(new)", c.P.Pos(add.Pos()), newSeen[must], "a new entry must be announced with add-player, latency and listed (what a vanilla client needs to show it as the model reports it)")
	}
	for _, f := range []struct{ field, getter string }{{"Profile", "Profile"}, {"Latency", "Latency"}, {"Listed", "Listed"}} {
		ok := false
		forEachPart(func(part *ssa.Function) {
			eachInstr(part, func(in ssa.Instruction) {
				st, isSt := in.(*ssa.Store)
				if !isSt {
					return
				}
				fa, isFA := st.Addr.(*ssa.FieldAddr)
				if !isFA || fieldOfAddr(fa).Name() != f.field || !typeIs(fa.X.Type(), "tablist/playerinfo", "Entry") {
					return
				}
				for _, r := range getterReceivers(st.Val, f.getter, 6) {
					if r == ssa.Value(entryPrm) {
						ok = true
					}
				}
			})
		})
		c.CheckAt("new-entry", "field "+f.field+"=entry."+f.getter+"()@add", c.P.Pos(add.Pos()), ok, "the packet entry's "+f.field+" must come from the entry being added")
	}
	// the model write: key is the entry's own profile id, under the lock
	nW := 0
	forEachPart(func(part *ssa.Function) {
		eachInstr(part, func(in ssa.Instruction) {
			mu, ok := in.(*ssa.MapUpdate)
			if !ok || !strings.HasSuffix(PathOf(mu.Map), ".EntriesByID") {
				return
			}
			nW++
			keyOK := derivesFrom(strip(mu.Key), 6, func(x ssa.Value) bool {
				cl, ok := x.(*ssa.Call)
				return ok && cl.Call.IsInvoke() && cl.Call.Method.Name() == "Profile" && strip(cl.Call.Value) == ssa.Value(entryPrm)
			})
			c.Check("model-key", "EntriesByID[entry.Profile().ID]=entry@add", in, keyOK && strip(mu.Value) == ssa.Value(entryPrm),
				"the model must store the added entry under its own profile id")
		})
	})
	if nW == 0 {
		c.Undecided("model-key", "add", "the model map is not written")
	}
	checkGuarded(c, lc, scope, GuardSpec{Type: pkgITab + ":TabList", Mutex: "RWMutex", Fields: []string{"EntriesByID"},
		Exempt: map[string]string{
			"(*pkg/internal/tablist.TabList).hasEntry": "documented try-lock helper: called with the lock held by the keyed/legacy lists or takes a read lock itself",
			"pkg/internal/tablist.New":                 "constructor",
		}})

	// ---- (2) consume side
	seenSetter := map[string]bool{}
	for _, f := range upd.AnonFuncs {
		c.Analysed(f)
		var mc *ssa.MakeClosure
		eachInstr(upd, func(in ssa.Instruction) {
			if m, ok := in.(*ssa.MakeClosure); ok && m.Fn == f {
				mc = m
			}
		})
		if mc == nil {
			continue
		}
		for _, ci := range callsIn(f, func(nm string, cc *ssa.CallCommon) bool {
			return cc.IsInvoke() && strings.HasPrefix(cc.Method.Name(), "Set") && strings.HasSuffix(cc.Method.Name(), "Internal")
		}) {
			setter := ci.Common().Method.Name()
			var at *tabAttr
			for i := range tabAttrs {
				if tabAttrs[i].setter == setter {
					at = &tabAttrs[i]
				}
			}
			if at == nil {
				continue
			}
			seenSetter[setter] = true
			// guarded by ContainsAction(actions, X) for the right X
			g, ns := MustCross(mc, func(e Edge, cond ssa.Value, truth bool) bool {
				cl := callValue(cond)
				if cl == nil || !truth || !strings.HasSuffix(calleeName(&cl.Call), "playerinfo.ContainsAction") {
					return false
				}
				ld, ok := strip(cl.Call.Args[1]).(*ssa.UnOp)
				if !ok {
					return false
				}
				gl, ok := ld.X.(*ssa.Global)
				return ok && gl.Name() == at.action
			})
			// argument from the packet field
			fromField := derivesFrom(ci.Common().Args[len(ci.Common().Args)-1], 5, func(x ssa.Value) bool {
				return strings.HasSuffix(PathOf(x), "."+at.field)
			})
			c.Check("consume-pairing", at.action+"→"+setter, ci, g && ns > 0 && fromField,
				fmt.Sprintf("a backend player-info update must apply the %s field to the model exactly when the packet's action set contains %s (guarded=%v, from-field=%v)", at.field, at.action, g && ns > 0, fromField))
		}
	}
	for _, a := range tabAttrs {
		if !seenSetter[a.setter] {
			c.CheckAt("consume-pairing", a.action+"→"+a.setter, c.P.Pos(upd.Pos()), false,
				"backend updates carrying "+a.action+" are not applied to the model: the proxy keeps reporting the old "+a.getter+" while the client shows the new one")
		}
	}

	checkUpdateNotDropped(c, upd)

	// ---- (3) removals
	if pr := c.MustFunc(pkgITab + ":(*TabList).ProcessRemove"); pr != nil {
		c.Analysed(pr)
		ok := false
		eachInstr(pr, func(in ssa.Instruction) {
			cl, isC := in.(*ssa.Call)
			if !isC {
				return
			}
			if b, isB := cl.Call.Value.(*ssa.Builtin); isB && b.Name() == "delete" && strings.HasSuffix(PathOf(cl.Call.Args[0]), ".EntriesByID") {
				if derivesFrom(cl.Call.Args[1], 4, func(x ssa.Value) bool { return strings.HasSuffix(PathOf(x), ".PlayersToRemove") }) {
					ok = true
				}
			}
		})
		c.CheckAt("remove-agrees", "delete(PlayersToRemove…)@ProcessRemove", c.P.Pos(pr.Pos()), ok, "a backend removal must delete exactly the ids the client was told to remove")
	}
	if ra := c.MustFunc(pkgITab + ":(*TabList).RemoveAll"); ra != nil {
		c.Analysed(ra)
		ok := false
		eachInstr(ra, func(in ssa.Instruction) {
			st, isSt := in.(*ssa.Store)
			if !isSt {
				return
			}
			fa, isFA := st.Addr.(*ssa.FieldAddr)
			if !isFA || fieldOfAddr(fa).Name() != "PlayersToRemove" {
				return
			}
			if cl := callValue(st.Val); cl != nil && strings.HasSuffix(calleeName(&cl.Call), "TabList).deleteEntries") {
				ok = true
			}
		})
		c.CheckAt("remove-agrees", "Remove{deleteEntries(ids)}@RemoveAll", c.P.Pos(ra.Pos()), ok,
			"the removal packet must carry exactly the ids that were deleted from the model (for 'remove all' the caller passes none — the deleted ids are the model's own)")
	}
}
