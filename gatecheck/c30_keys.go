package main

import (
	"fmt"
	"go/token"
	"sort"
	"strings"

	"golang.org/x/tools/go/ssa"
)

// Key-spelling agreement. The strategy manager keeps per-backend state in maps keyed by a backend
// string. A counter that is written under one spelling of the key (say, lower-cased with the default
// port added) and read under another (the string as configured) silently reads zero: least-connections
// then prefers the busiest backend and the counters no longer mean "open connections of this backend".
// For every access to one of these maps the chain of string normalisers applied to the key — followed
// backwards through parameters to all call sites and through captured variables — must be the same.

func keySpellings(lc *LockCtx, v ssa.Value, depth int, seen map[ssa.Value]bool) map[string]bool {
	out := map[string]bool{}
	add := func(prefix string, m map[string]bool) {
		for k := range m {
			if prefix == "" {
				out[k] = true
			} else if k == "" {
				out[prefix] = true
			} else {
				out[prefix+"∘"+k] = true
			}
		}
	}
	v = strip(v)
	if depth < 0 || seen[v] {
		out[""] = true
		return out
	}
	seen[v] = true
	switch x := v.(type) {
	case *ssa.Call:
		f := staticCallee(&x.Call)
		if f != nil && len(x.Call.Args) >= 1 && x.Type().String() == "string" {
			isNorm := strings.HasPrefix(fnPkgPath(f), Mod) && f.Signature.Params().Len() >= 1
			n := calleeName(&x.Call)
			switch n {
			case "strings.ToLower", "strings.ToUpper", "strings.TrimSpace", "strings.TrimSuffix", "strings.TrimPrefix", "strings.Trim", "net.JoinHostPort":
				isNorm = true
			}
			if isNorm {
				// all string arguments contribute (a two-part key is the pair of its parts' spellings)
				var parts []string
				for _, a := range x.Call.Args {
					if a.Type().String() != "string" {
						continue
					}
					var ks []string
					for k := range keySpellings(lc, a, depth-1, seen) {
						ks = append(ks, k)
					}
					sort.Strings(ks)
					parts = append(parts, strings.Join(ks, "|"))
				}
				name := f.Name()
				inner := strings.Join(parts, ",")
				if strings.Trim(inner, ",|") == "" {
					out[name] = true
				} else {
					out[name+"∘("+inner+")"] = true
				}
				return out
			}
		}
		out[""] = true
	case *ssa.BinOp:
		if x.Op == token.ADD {
			l := keySpellings(lc, x.X, depth-1, seen)
			r := keySpellings(lc, x.Y, depth-1, seen)
			for a := range l {
				for b := range r {
					if a == "" && b == "" {
						out[""] = true
					} else {
						out["("+a+")+("+b+")"] = true
					}
				}
			}
			return out
		}
		out[""] = true
	case *ssa.Const:
		out[""] = true
	case *ssa.Parameter:
		fn := x.Parent()
		idx := -1
		for i, p := range fn.Params {
			if p == x {
				idx = i
			}
		}
		sites := lc.Callers[fn]
		if len(sites) == 0 || idx < 0 {
			out[""] = true
			return out
		}
		for _, cs := range sites {
			args := cs.Instr.Common().Args
			if idx < len(args) {
				add("", keySpellings(lc, args[idx], depth-1, seen))
			}
		}
	case *ssa.UnOp:
		if x.Op == token.MUL {
			switch cell := x.X.(type) {
			case *ssa.FreeVar:
				for _, sv := range resolveCell(cell, 3) {
					add("", keySpellings(lc, sv, depth-1, seen))
				}
				if len(out) == 0 {
					out[""] = true
				}
				return out
			case *ssa.Alloc:
				for _, sv := range storesTo(cell) {
					add("", keySpellings(lc, sv, depth-1, seen))
				}
				if len(out) == 0 {
					out[""] = true
				}
				return out
			}
		}
		out[""] = true
	case *ssa.Phi:
		for _, e := range x.Edges {
			add("", keySpellings(lc, e, depth-1, seen))
		}
	default:
		out[""] = true
	}
	if len(out) == 0 {
		out[""] = true
	}
	return out
}

func checkKeyAgreement(c *Ctx, lc *LockCtx, scope []*ssa.Function, typ string, fields []string) {
	for _, field := range fields {
		type acc struct {
			at   ssa.Instruction
			what string
			sp   string
		}
		var accs []acc
		for _, fn := range scope {
			eachInstr(fn, func(in ssa.Instruction) {
				var key ssa.Value
				what := ""
				switch x := in.(type) {
				case *ssa.Lookup:
					if strings.HasSuffix(PathOf(x.X), "."+field) {
						key, what = x.Index, "read"
					}
				case *ssa.MapUpdate:
					if strings.HasSuffix(PathOf(x.Map), "."+field) {
						key, what = x.Key, "write"
					}
				case *ssa.Call:
					if b, ok := x.Call.Value.(*ssa.Builtin); ok && b.Name() == "delete" && strings.HasSuffix(PathOf(x.Call.Args[0]), "."+field) {
						key, what = x.Call.Args[1], "delete"
					} else if !x.Call.IsInvoke() && len(x.Call.Args) >= 2 && strings.HasSuffix(PathOf(x.Call.Args[0]), "."+field) {
						switch methodName(&x.Call) {
						case "Load", "Get", "Has":
							key, what = x.Call.Args[1], "read"
						case "Store", "LoadOrStore", "Set", "Swap":
							key, what = x.Call.Args[1], "write"
						case "Delete", "CompareAndDelete", "LoadAndDelete":
							key, what = x.Call.Args[1], "delete"
						}
					}
				}
				if key == nil {
					return
				}
				var ks []string
				for k := range keySpellings(lc, key, 6, map[ssa.Value]bool{}) {
					if k == "" {
						k = "as-configured"
					}
					ks = append(ks, k)
				}
				sort.Strings(ks)
				accs = append(accs, acc{in, what + "@" + shortName(fn), strings.Join(ks, " | ")})
			})
		}
		if len(accs) < 2 {
			c.Undecided("key-agreement", field, fmt.Sprintf("expected ≥2 accesses of %s.%s, found %d", typ, field, len(accs)))
			continue
		}
		// the reference spelling is the one most accesses use
		count := map[string]int{}
		ref := accs[0].sp
		for _, a := range accs {
			count[a.sp]++
			if count[a.sp] > count[ref] {
				ref = a.sp
			}
		}
		owner := typ[strings.LastIndex(typ, ":")+1:]
		for _, a := range accs {
			c.Check("key-agreement", field+":"+a.what, a.at, a.sp == ref,
				fmt.Sprintf("%s.%s is accessed here under the key spelling [%s] but elsewhere under [%s]: an entry stored under one spelling is not found under the other (lookups miss, counters read zero, entries are never removed)", owner, field, a.sp, ref))
		}
	}
}
