package main

import (
	"fmt"
	"go/token"
	"strings"

	"golang.org/x/tools/go/ssa"
)

const pkgReload = "pkg/internal/reload"

func init() {
	register(&propDef{
		ID:       "C38",
		Title:    "Config file reload fires once for the final content despite lost fs events",
		Patterns: []string{"./pkg/internal/reload"},
		Run:      runC38,
		Rule: "who-may-call/P2: the reload callback is invoked from exactly one closure of runWatchLoop, behind the 'candidate != evaluated' edge and after 'evaluated = candidate' on that path; " +
			"that closure is called only from the debounce case with the observed fingerprint; reconcile compares a fresh fingerprint of the file with 'observed' and only on the unequal " +
			"edge stores it and (re)arms the debounce timer with debounceDuration; P10: the ticker case reaches reconcile on every path (also when re-creating the watcher fails), so lost " +
			"notifications are made up for within one reconciliation interval, and a notification for the config file reaches reconcile; ownership: all loop state (evaluated, observed, " +
			"debounce, watcher) is touched only by runWatchLoop and its closures, runWatchLoop contains no go statement and is started exactly once per Watch, seeded with the fingerprint " +
			"taken at Watch time; the fingerprint is SHA-256 over the whole file with distinct states for missing and unreadable; the intervals are the declared constants.",
		Explanation: "Decides: never a callback for content equal to the last evaluated one, at most one callback per observed change, a change that only the ticker notices still reaches the " +
			"callback path, single-goroutine ownership (no races on the loop state), what 'content' means. Does not decide: the real-time bound (timers), nor the window between taking a " +
			"fingerprint and the callback reading the file.",
		Fixtures: []string{"guardcut", "provenance"},
		Variants: []Variant{
			{Name: "callback-for-unchanged-content", File: pkgReload + "/watch.go",
				Old: "\t\tif candidate == evaluated {\n\t\t\treturn\n\t\t}\n", New: "", Expect: "callback-guard"},
			{Name: "evaluated-not-recorded", File: pkgReload + "/watch.go",
				Old: "\t\tevaluated = candidate\n", New: "\t\t_ = candidate\n", Expect: "callback-guard"},
			{Name: "tick-skips-reconcile-when-rewatch-fails", File: pkgReload + "/watch.go",
				Old: "\t\t\t\tnext, err := opts.newWatcher(dir)\n\t\t\t\tif err == nil {", New: "\t\t\t\tnext, err := opts.newWatcher(dir)\n\t\t\t\tif err != nil {\n\t\t\t\t\tcontinue\n\t\t\t\t}\n\t\t\t\tif err == nil {", Expect: "tick-reconciles"},
			{Name: "reconcile-forgets-reverted-content", File: pkgReload + "/watch.go",
				Old: "\t\tif current == observed {\n\t\t\treturn\n\t\t}\n", New: "\t\tif current == evaluated {\n\t\t\tstopDebounce()\n\t\t\treturn\n\t\t}\n\t\tif current == observed {\n\t\t\treturn\n\t\t}\n", Expect: "return-only-if-unchanged-or-recorded"},
			{Name: "reconcile-schedules-always", File: pkgReload + "/watch.go",
				Old: "\t\tif current == observed {\n\t\t\treturn\n\t\t}\n\t\tobserved = current\n", New: "\t\tobserved = current\n", Expect: "reconcile-on-change"},
			{Name: "callback-in-goroutine", File: pkgReload + "/watch.go",
				Old: "\t\t\tdebounce = nil\n\t\t\trunCallback(observed)", New: "\t\t\tdebounce = nil\n\t\t\tgo runCallback(observed)", Expect: "single-owner"},
			{Name: "fingerprint-by-size", File: pkgReload + "/watch.go",
				Old: "\t\t\treturn contentFingerprint{state: 1, sum: sha256.Sum256(content)}", New: "\t\t\treturn contentFingerprint{state: 1, sum: sha256.Sum256([]byte{byte(len(content))})}", Expect: "fingerprint"},
			{Name: "events-only-no-ticker-reconcile", File: pkgReload + "/watch.go",
				Old: "\t\t\t\t}\n\t\t\t}\n\t\t\treconcile()\n\t\tcase <-debounce:", New: "\t\t\t\t}\n\t\t\t}\n\t\tcase <-debounce:", Expect: "tick-reconciles"},
		},
	})
}

func runC38(c *Ctx) {
	loop := c.MustFunc(pkgReload + ":runWatchLoop")
	wo := c.MustFunc(pkgReload + ":watchWithOptions")
	fp := c.MustFunc(pkgReload + ":fingerprint")
	if loop == nil || wo == nil || fp == nil {
		return
	}
	c.Analysed(loop, wo, fp)
	c.Analysed(loop.AnonFuncs...)

	// identify the closures by what they do
	var runCB, reconcile, schedule *ssa.Function
	for _, f := range loop.AnonFuncs {
		eachInstr(f, func(in ssa.Instruction) {
			cc := callOf(in)
			if cc == nil {
				return
			}
			n := calleeName(cc)
			switch {
			case strings.HasSuffix(n, "reload.fingerprint"):
				reconcile = f
			case n == "(*time.Timer).Reset":
				schedule = f
			}
			// the callback: a call through the captured cb parameter
			if !cc.IsInvoke() && staticCallee(cc) == nil {
				if ld, ok := cc.Value.(*ssa.UnOp); ok {
					if fv, ok := ld.X.(*ssa.FreeVar); ok && fv.Name() == "cb" {
						runCB = f
					}
				}
				if fv, ok := cc.Value.(*ssa.FreeVar); ok && fv.Name() == "cb" {
					runCB = f
				}
			}
		})
	}
	if runCB == nil || reconcile == nil || schedule == nil {
		c.Undecided("anchor", "runWatchLoop closures", fmt.Sprintf("callback-runner=%v reconcile=%v schedule=%v", runCB != nil, reconcile != nil, schedule != nil))
		return
	}
	isCell := func(v ssa.Value, name string) bool {
		switch x := v.(type) {
		case *ssa.FreeVar:
			return x.Name() == name
		case *ssa.Alloc:
			return x.Comment == name
		case *ssa.Parameter:
			return x.Name() == name
		}
		return false
	}
	loadOf := func(v ssa.Value, name string) bool {
		ld, ok := strip(v).(*ssa.UnOp)
		return ok && ld.Op == token.MUL && isCell(ld.X, name)
	}

	// ---- (1) who calls cb
	nCB := 0
	var all []*ssa.Function
	for _, f := range c.P.Funcs(Mod + "/" + pkgReload) {
		all = append(all, f)
	}
	for _, f := range all {
		eachInstr(f, func(in ssa.Instruction) {
			cc := callOf(in)
			if cc == nil || cc.IsInvoke() || staticCallee(cc) != nil {
				return
			}
			isCb := false
			if ld, ok := cc.Value.(*ssa.UnOp); ok {
				isCb = isCell(ld.X, "cb")
			}
			if fv, ok := cc.Value.(*ssa.FreeVar); ok && fv.Name() == "cb" {
				isCb = true
			}
			if p, ok := cc.Value.(*ssa.Parameter); ok && p.Name() == "cb" {
				isCb = true
			}
			if !isCb {
				return
			}
			nCB++
			_, plain := in.(*ssa.Call)
			c.Check("callback-guard", "cb()-site@"+shortName(f), in, f == runCB && plain, "the reload callback may only be invoked, synchronously, by the loop's callback runner")
			if f != runCB {
				return
			}
			// behind candidate != evaluated
			g, ns := MustCross(in, func(e Edge, cond ssa.Value, truth bool) bool {
				bo, ok := cond.(*ssa.BinOp)
				if !ok {
					return false
				}
				cmp := (strip(bo.X) == ssa.Value(f.Params[0]) && loadOf(bo.Y, "evaluated")) || (strip(bo.Y) == ssa.Value(f.Params[0]) && loadOf(bo.X, "evaluated"))
				if !cmp {
					return false
				}
				return (bo.Op == token.EQL && !truth) || (bo.Op == token.NEQ && truth)
			})
			c.Check("callback-guard", "candidate!=evaluated@callback-runner", in, g && ns > 0,
				"the callback runs although the candidate content equals what was last evaluated (a reload for unchanged content)")
			// evaluated = candidate before cb()
			ms := NewMustSince(f, func(x ssa.Instruction) bool {
				st, ok := x.(*ssa.Store)
				return ok && isCell(st.Addr, "evaluated") && strip(st.Val) == ssa.Value(f.Params[0])
			}, func(x ssa.Instruction) bool { return false })
			c.Check("callback-guard", "evaluated=candidate-before-cb@callback-runner", in, ms.At(in),
				"the content is not recorded as evaluated before the callback runs: the same content triggers the callback again on the next debounce")
		})
	}
	if nCB != 1 {
		c.Undecided("callback-guard", "cb()", fmt.Sprintf("expected exactly one invocation site of the callback, found %d", nCB))
	}

	// ---- (2) callers of the closures from the loop
	callsTo := func(target *ssa.Function) []ssa.Instruction {
		var out []ssa.Instruction
		for _, f := range append([]*ssa.Function{loop}, loop.AnonFuncs...) {
			eachInstr(f, func(in ssa.Instruction) {
				cc := callOf(in)
				if cc == nil || cc.IsInvoke() {
					return
				}
				for _, g := range resolveFuncValue(cc.Value) {
					if g == target {
						out = append(out, in)
					}
				}
			})
		}
		return out
	}
	rcCalls := callsTo(runCB)
	for _, in := range rcCalls {
		_, plain := in.(*ssa.Call)
		c.Check("single-owner", "callback-runner-call", in, plain && in.Parent() == loop, "the callback runner must be called synchronously from the watch loop itself (one goroutine owns the loop state)")
		if plain {
			a := callOf(in).Args
			c.Check("callback-guard", "runCallback(observed)", in, len(a) == 1 && loadOf(a[0], "observed"), "the candidate handed to the callback runner must be the observed fingerprint")
		}
	}
	if len(rcCalls) != 1 {
		c.Undecided("callback-guard", "callback-runner", fmt.Sprintf("expected one call of the callback runner (debounce case), found %d", len(rcCalls)))
	}

	// ---- (3) reconcile
	{
		var cur ssa.Value
		for _, ci := range callsIn(reconcile, func(nm string, cc *ssa.CallCommon) bool { return strings.HasSuffix(nm, "reload.fingerprint") }) {
			cur = ci.(*ssa.Call)
		}
		neq := func(e Edge, cond ssa.Value, truth bool) bool {
			bo, ok := cond.(*ssa.BinOp)
			if !ok || cur == nil {
				return false
			}
			cmp := (strip(bo.X) == cur && loadOf(bo.Y, "observed")) || (strip(bo.Y) == cur && loadOf(bo.X, "observed"))
			return cmp && ((bo.Op == token.EQL && !truth) || (bo.Op == token.NEQ && truth))
		}
		nSt := 0
		eachInstr(reconcile, func(in ssa.Instruction) {
			if st, ok := in.(*ssa.Store); ok && isCell(st.Addr, "observed") {
				nSt++
				g, ns := MustCross(in, neq)
				c.Check("reconcile-on-change", "observed=current@reconcile", in, strip(st.Val) == cur && g && ns > 0, "observed must become the fresh fingerprint exactly when it differs")
			}
		})
		nSch := 0
		eachInstr(reconcile, func(in ssa.Instruction) {
			cc := callOf(in)
			if cc == nil || cc.IsInvoke() {
				return
			}
			for _, g := range resolveFuncValue(cc.Value) {
				if g == schedule {
					nSch++
					gd, ns := MustCross(in, neq)
					c.Check("reconcile-on-change", "schedule()@reconcile", in, gd && ns > 0,
						"the debounce timer is (re)armed although the content did not change: the callback path is entered for unchanged content and a steady stream of notifications postpones the reload forever")
				}
			}
		})
		// observed tracks the file: reconcile may only return without recording what it just saw when that equals observed
		eq := func(e Edge, cond ssa.Value, truth bool) bool {
			bo, ok := cond.(*ssa.BinOp)
			if !ok || cur == nil {
				return false
			}
			cmp := (strip(bo.X) == cur && loadOf(bo.Y, "observed")) || (strip(bo.Y) == cur && loadOf(bo.X, "observed"))
			return cmp && ((bo.Op == token.EQL && truth) || (bo.Op == token.NEQ && !truth))
		}
		recorded := NewMustSince(reconcile, func(x ssa.Instruction) bool {
			st, ok := x.(*ssa.Store)
			return ok && isCell(st.Addr, "observed") && strip(st.Val) == cur
		}, func(x ssa.Instruction) bool { return false })
		_ = recorded
		// every path to a return either takes an "equal to observed" edge or passes the recording store
		eqEdges := map[Edge]bool{}
		for _, e := range IfEdges(reconcile) {
			if cnd, t := e.Cond(); eq(e, cnd, t) {
				eqEdges[e] = true
			}
		}
		unrecorded := reachAvoiding(reconcile.Blocks[0], func(x ssa.Instruction) bool {
			st, ok := x.(*ssa.Store)
			return ok && isCell(st.Addr, "observed") && strip(st.Val) == cur
		}, func(e Edge) bool { return eqEdges[e] })
		for _, r := range returnsOf(reconcile) {
			if r.Block() == reconcile.Recover {
				continue
			}
			c.Check("reconcile-on-change", "return-only-if-unchanged-or-recorded@reconcile", r, len(eqEdges) > 0 && !unrecorded[r.Block()],
				"reconcile returns without recording the fingerprint it just took although it differs from 'observed': when the file later returns to the stale observed content the comparison says 'unchanged' and the final content is never reloaded")
		}
		if nSt == 0 || nSch == 0 {
			c.Undecided("reconcile-on-change", "reconcile", fmt.Sprintf("observed stores=%d schedule calls=%d", nSt, nSch))
		}
		// schedule arms with the declared debounce
		for _, ci := range callsIn(schedule, func(nm string, cc *ssa.CallCommon) bool { return nm == "(*time.Timer).Reset" }) {
			k, isK := constInt(ci.Common().Args[1])
			want := c.P.Const(pkgReload + ":debounceDuration")
			ok := isK && want != nil && fmt.Sprint(k) == want.Val().ExactString()
			c.Check("reconcile-on-change", "Reset(debounceDuration)@schedule", ci, ok, "the debounce timer must be armed with debounceDuration")
		}
	}

	// ---- (4) select cases: ticker → reconcile on every path; config-file event → reconcile
	recCalls := callsTo(reconcile)
	isRec := func(in ssa.Instruction) bool {
		for _, r := range recCalls {
			if r == in {
				return true
			}
		}
		return false
	}
	var sel *ssa.Select
	eachInstr(loop, func(in ssa.Instruction) {
		if s, ok := in.(*ssa.Select); ok {
			sel = s
		}
	})
	if sel == nil {
		c.Undecided("tick-reconciles", "runWatchLoop", "no select")
	} else {
		// index of the ticker case: channel is reconcileTicker.C
		tick, evt := -1, -1
		for i, st := range sel.States {
			if ld, ok := strip(st.Chan).(*ssa.UnOp); ok {
				if fa, ok := ld.X.(*ssa.FieldAddr); ok {
					if cl := callValue(fa.X); cl != nil && calleeName(&cl.Call) == "time.NewTicker" {
						tick = i
					}
				}
			}
			if loadOf(st.Chan, "events") {
				evt = i
			}
		}
		// the block entered for case i: If on (Extract index == i) true edge
		caseEntry := func(i int) *ssa.BasicBlock {
			for _, e := range IfEdges(loop) {
				cond, truth := e.Cond()
				bo, ok := cond.(*ssa.BinOp)
				if !ok || bo.Op != token.EQL || !truth {
					continue
				}
				ex, isEx := bo.X.(*ssa.Extract)
				k, isK := constInt(bo.Y)
				if isEx && ex.Tuple == ssa.Value(sel) && ex.Index == 0 && isK && int(k) == i {
					return e.To()
				}
			}
			return nil
		}
		if tick < 0 {
			c.Undecided("tick-reconciles", "select", "ticker case not found")
		} else if b := caseEntry(tick); b == nil {
			c.Undecided("tick-reconciles", "select", "ticker case block not found")
		} else {
			// every path from the case entry back to the select passes a reconcile call
			reached := reachAvoiding(b, isRec, nil)
			c.Check("tick-reconciles", "ticker-case→reconcile", b.Instrs[0], !reached[sel.Block()] && len(recCalls) > 0,
				"a tick of the reconciliation timer can return to the select without comparing the file's fingerprint: a change whose notification was lost is not picked up within the reconciliation interval")
		}
		if evt < 0 {
			c.Undecided("tick-reconciles", "select", "events case not found")
		} else if b := caseEntry(evt); b != nil {
			ok := false
			for _, r := range recCalls {
				if r.Parent() == loop && b.Dominates(r.Block()) {
					ok = true
				}
			}
			c.Check("tick-reconciles", "event-case→reconcile", b.Instrs[0], ok, "a notification for the config file must trigger a fingerprint comparison")
		}
		// ticker interval is the declared constant by default
		okIv := false
		eachInstr(wo, func(in ssa.Instruction) {
			st, isSt := in.(*ssa.Store)
			if !isSt || !strings.HasSuffix(PathOf(st.Addr), ".reconcileInterval") {
				return
			}
			k, isK := constInt(st.Val)
			want := c.P.Const(pkgReload + ":reconciliationInterval")
			if isK && want != nil && fmt.Sprint(k) == want.Val().ExactString() {
				okIv = true
			}
		})
		c.CheckAt("tick-reconciles", "default-interval=reconciliationInterval@watchWithOptions", c.P.Pos(wo.Pos()), okIv, "the default reconciliation interval must be the declared constant")
	}

	// ---- (5) ownership
	nGo := 0
	for _, f := range append([]*ssa.Function{loop}, loop.AnonFuncs...) {
		eachInstr(f, func(in ssa.Instruction) {
			if _, ok := in.(*ssa.Go); ok {
				nGo++
				c.Check("single-owner", "go@"+shortName(f), in, false, "the watch loop starts another goroutine: its state (evaluated, observed, timers, watcher) is owned by one goroutine and not synchronised")
			}
		})
	}
	if nGo == 0 {
		c.CheckAt("single-owner", "no-go-in-loop", c.P.Pos(loop.Pos()), true, "")
	}
	starts := 0
	for _, f := range all {
		eachInstr(f, func(in ssa.Instruction) {
			g, ok := in.(*ssa.Go)
			if !ok || staticCallee(&g.Call) != loop {
				return
			}
			starts++
			// seeded with the fingerprint taken at Watch time
			a := g.Call.Args[4]
			cl := callValue(a)
			c.Check("single-owner", "go runWatchLoop(initial=fingerprint(path))@"+shortName(f), in, f == wo && cl != nil && strings.HasSuffix(calleeName(&cl.Call), "reload.fingerprint"),
				"the loop must start from the fingerprint of the content that is already loaded (no callback for unchanged content at start)")
		})
	}
	c.CheckAt("single-owner", "one-loop-per-Watch", c.P.Pos(wo.Pos()), starts == 1, fmt.Sprintf("exactly one watch loop per Watch call (found %d go statements)", starts))

	// ---- (6) fingerprint
	{
		okSum, okStates := false, map[int64]bool{}
		eachInstrDeep(fp, 1, func(in ssa.Instruction) {
			st, ok := in.(*ssa.Store)
			if !ok {
				return
			}
			fa, isFA := st.Addr.(*ssa.FieldAddr)
			if !isFA {
				return
			}
			switch fieldOfAddr(fa).Name() {
			case "sum":
				if cl := callValue(st.Val); cl != nil && calleeName(&cl.Call) == "crypto/sha256.Sum256" {
					if rd := callValue(cl.Call.Args[0]); rd != nil {
						okSum = calleeName(&rd.Call) == "io.ReadAll"
					} else if ex, isEx := strip(cl.Call.Args[0]).(*ssa.Extract); isEx {
						if rd := callValue(ex.Tuple); rd != nil && calleeName(&rd.Call) == "io.ReadAll" {
							okSum = true
						}
					}
				}
			case "state":
				if k, isK := constInt(st.Val); isK {
					okStates[k] = true
				}
			}
		})
		c.CheckAt("fingerprint", "sum=sha256(ReadAll(file))@fingerprint", c.P.Pos(fp.Pos()), okSum, "the fingerprint must be a collision-resistant digest of the whole file content (equal fingerprints ⇔ equal content)")
		c.CheckAt("fingerprint", "distinct-states@fingerprint", c.P.Pos(fp.Pos()), len(okStates) >= 3, "readable, missing and unreadable must be distinguishable states")
	}
}
