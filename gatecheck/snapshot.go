package main

import (
	"fmt"
	"go/token"
	"go/types"
	"sort"
	"strings"

	"golang.org/x/tools/go/ssa"
)

// Immutable-snapshot analysis (P5, forward): values that point into memory published through an
// atomic snapshot pointer must never be written through. Two taint kinds:
//   ptr — the value is a pointer/slice/map that aliases snapshot memory
//   val — the value is a struct/array copied out of snapshot memory whose reference-typed
//         fields still alias it (shallow copy)
// Inter-procedural by parameter summaries over static callees (worklist to a fixpoint) and by
// "returns a snapshot pointer" summaries.

type taintKind uint8

const (
	tNone taintKind = 0
	tPtr  taintKind = 1
	tVal  taintKind = 2
)

type SnapWrite struct {
	Fn    *ssa.Function
	At    ssa.Instruction
	What  string
	Trace string
}

type snapAnalysis struct {
	isSource func(c *ssa.CallCommon) bool
	funcs    []*ssa.Function
	// summaries
	paramTaint map[*ssa.Function]map[int]taintKind
	retTaint   map[*ssa.Function]taintKind
	Writes     map[string]SnapWrite
	Sources    int
	FnsTouched map[*ssa.Function]bool
}

func kindForType(t types.Type) taintKind {
	switch u := t.Underlying().(type) {
	case *types.Pointer, *types.Slice, *types.Map:
		return tPtr
	case *types.Struct:
		return tVal
	case *types.Array:
		return tVal
	case *types.Interface:
		_ = u
		return tPtr // may box a pointer
	}
	return tNone
}

func runSnapshotAnalysis(funcs []*ssa.Function, isSource func(c *ssa.CallCommon) bool) *snapAnalysis {
	sa := &snapAnalysis{isSource: isSource, funcs: funcs, paramTaint: map[*ssa.Function]map[int]taintKind{}, retTaint: map[*ssa.Function]taintKind{},
		Writes: map[string]SnapWrite{}, FnsTouched: map[*ssa.Function]bool{}}
	inScope := map[*ssa.Function]bool{}
	for _, f := range funcs {
		inScope[f] = true
	}
	for round := 0; round < 12; round++ {
		changed := false
		for _, fn := range funcs {
			if sa.analyse(fn, inScope) {
				changed = true
			}
		}
		if !changed {
			break
		}
	}
	return sa
}

func (sa *snapAnalysis) analyse(fn *ssa.Function, inScope map[*ssa.Function]bool) (changed bool) {
	taint := map[ssa.Value]taintKind{}
	container := map[*ssa.Alloc]bool{} // local allocs holding a shallow copy
	for i, k := range sa.paramTaint[fn] {
		if i < len(fn.Params) {
			taint[fn.Params[i]] = k
		}
	}
	hasSource := len(taint) > 0
	// quick reject: no sources, no tainted params, no calls to tainted-returning functions
	if !hasSource {
		eachInstr(fn, func(in ssa.Instruction) {
			if cc := callOf(in); cc != nil {
				if sa.isSource(cc) {
					hasSource = true
				} else if f := staticCallee(cc); f != nil && sa.retTaint[origin(f)] != tNone {
					hasSource = true
				}
			}
		})
	}
	if !hasSource {
		return false
	}
	sa.FnsTouched[fn] = true
	set := func(v ssa.Value, k taintKind) bool {
		if k == tNone || taint[v] == k {
			return false
		}
		if taint[v] == tPtr {
			return false
		}
		taint[v] = k
		return true
	}
	rootAlloc := func(v ssa.Value) *ssa.Alloc {
		for i := 0; i < 16; i++ {
			switch x := v.(type) {
			case *ssa.Alloc:
				return x
			case *ssa.FieldAddr:
				v = x.X
			case *ssa.IndexAddr:
				if _, ok := x.X.Type().Underlying().(*types.Pointer); ok { // pointer to array
					v = x.X
				} else {
					return nil
				}
			default:
				return nil
			}
		}
		return nil
	}
	for iter := 0; iter < 20; iter++ {
		ch := false
		eachInstr(fn, func(in ssa.Instruction) {
			switch x := in.(type) {
			case *ssa.Call:
				if sa.isSource(&x.Call) {
					sa.Sources++
					if set(x, tPtr) {
						ch = true
					}
				} else if f := staticCallee(&x.Call); f != nil {
					if k := sa.retTaint[origin(f)]; k != tNone {
						if x.Type() != nil {
							if _, isTuple := x.Type().(*types.Tuple); isTuple {
								if set(x, tPtr) {
									ch = true
								}
							} else if kk := kindForType(x.Type()); kk != tNone && set(x, kk) {
								ch = true
							}
						}
					}
				}
			case *ssa.Extract:
				if taint[x.Tuple] != tNone {
					if k := kindForType(x.Type()); k != tNone && set(x, k) {
						ch = true
					}
				}
			case *ssa.FieldAddr:
				if taint[x.X] == tPtr && set(x, tPtr) {
					ch = true
				}
			case *ssa.IndexAddr:
				if taint[x.X] == tPtr && set(x, tPtr) {
					ch = true
				}
			case *ssa.Field:
				if taint[x.X] == tVal {
					if k := kindForType(x.Type()); k != tNone && set(x, k) {
						ch = true
					}
				}
			case *ssa.Index:
				if taint[x.X] != tNone {
					if k := kindForType(x.Type()); k != tNone && set(x, k) {
						ch = true
					}
				}
			case *ssa.Lookup:
				if taint[x.X] == tPtr {
					if x.CommaOk {
						if set(x, tPtr) {
							ch = true
						}
					} else if k := kindForType(x.Type()); k != tNone && set(x, k) {
						ch = true
					}
				}
			case *ssa.UnOp:
				if x.Op == token.MUL {
					if taint[x.X] == tPtr {
						if k := kindForType(x.Type()); k != tNone && set(x, k) {
							ch = true
						}
					} else if a := rootAlloc(x.X); a != nil && container[a] {
						if k := kindForType(x.Type()); k != tNone && set(x, k) {
							ch = true
						}
					}
				}
			case *ssa.Phi:
				for _, e := range x.Edges {
					if k := taint[e]; k != tNone && set(x, k) {
						ch = true
					}
				}
			case *ssa.ChangeType:
				if k := taint[x.X]; k != tNone && set(x, k) {
					ch = true
				}
			case *ssa.MakeInterface:
				if k := taint[x.X]; k == tPtr && set(x, tPtr) {
					ch = true
				}
			case *ssa.TypeAssert:
				if taint[x.X] == tPtr {
					if x.CommaOk {
						if set(x, tPtr) {
							ch = true
						}
					} else if k := kindForType(x.Type()); k != tNone && set(x, k) {
						ch = true
					}
				}
			case *ssa.Slice:
				if k := taint[x.X]; k == tPtr && set(x, tPtr) {
					ch = true
				}
			case *ssa.Range:
				if taint[x.X] == tPtr && set(x, tPtr) {
					ch = true
				}
			case *ssa.Next:
				if taint[x.Iter] == tPtr && set(x, tPtr) {
					ch = true
				}
			case *ssa.Store:
				if k := taint[x.Val]; k != tNone {
					if a := rootAlloc(x.Addr); a != nil && !container[a] {
						container[a] = true
						ch = true
					}
				}
			}
		})
		if !ch {
			break
		}
	}
	// writes through snapshot memory
	report := func(in ssa.Instruction, what string) {
		key := shortName(fn) + "|" + what
		if _, ok := sa.Writes[key]; !ok {
			sa.Writes[key] = SnapWrite{Fn: fn, At: in, What: what}
		}
	}
	eachInstr(fn, func(in ssa.Instruction) {
		switch x := in.(type) {
		case *ssa.Store:
			if taint[x.Addr] == tPtr {
				report(in, "store to "+PathOf(x.Addr))
			}
		case *ssa.MapUpdate:
			if taint[x.Map] == tPtr {
				report(in, "map update of "+PathOf(x.Map))
			}
		case *ssa.Call:
			if b, ok := x.Call.Value.(*ssa.Builtin); ok && len(x.Call.Args) > 0 {
				switch b.Name() {
				case "delete", "clear", "copy":
					if taint[x.Call.Args[0]] == tPtr {
						report(in, b.Name()+" on "+PathOf(x.Call.Args[0]))
					}
				}
			}
		}
	})
	// propagate to callees and return summary
	eachInstr(fn, func(in ssa.Instruction) {
		ci, ok := in.(ssa.CallInstruction)
		if !ok {
			return
		}
		cc := ci.Common()
		f := staticCallee(cc)
		if f == nil {
			return
		}
		f = origin(f)
		if !inScope[f] {
			return
		}
		for i, a := range cc.Args {
			if k := taint[a]; k != tNone {
				if sa.paramTaint[f] == nil {
					sa.paramTaint[f] = map[int]taintKind{}
				}
				if old := sa.paramTaint[f][i]; old != tPtr && old != k {
					sa.paramTaint[f][i] = k
					changed = true
				}
			}
		}
		if mc, ok := cc.Value.(*ssa.MakeClosure); ok {
			_ = mc
		}
	})
	for _, r := range returnsOf(fn) {
		for _, res := range r.Results {
			if k := taint[res]; k == tPtr {
				if sa.retTaint[fn] != tPtr {
					sa.retTaint[fn] = tPtr
					changed = true
				}
			}
		}
	}
	return changed
}

func origin(f *ssa.Function) *ssa.Function {
	if o := f.Origin(); o != nil {
		return o
	}
	return f
}

func (sa *snapAnalysis) sortedWrites() []SnapWrite {
	var keys []string
	for k := range sa.Writes {
		keys = append(keys, k)
	}
	sort.Strings(keys)
	var out []SnapWrite
	for _, k := range keys {
		out = append(out, sa.Writes[k])
	}
	return out
}

// atomicLoadOn matches x.Load() where x is an atomic.Pointer/atomic.Value field with one of the given names.
func atomicLoadOn(fields ...string) func(c *ssa.CallCommon) bool {
	return func(c *ssa.CallCommon) bool {
		if c.IsInvoke() || len(c.Args) == 0 {
			return false
		}
		f := staticCallee(c)
		if f == nil || f.Name() != "Load" || f.Signature.Recv() == nil {
			return false
		}
		if !strings.Contains(f.Signature.Recv().Type().String(), "atomic.") {
			return false
		}
		p := PathOf(c.Args[0])
		for _, n := range fields {
			if strings.HasSuffix(p, "."+n) {
				return true
			}
		}
		return false
	}
}

var _ = fmt.Sprint
