package main

import (
	"strings"

	"golang.org/x/tools/go/ssa"
)

// checkUpdateNotDropped: a vanilla client applies every action of a player-info update to an entry
// it holds (add-player on an existing entry is a no-op for the profile only — putIfAbsent — the other
// actions still apply). The only update the model may skip is the one the client skips too: no
// add-player action and no entry yet. Every return of processUpdateForEntry that comes before the
// attribute setters must therefore lie behind both "ContainsAction(actions, AddPlayerAction) is
// false" and "the entry is nil".
func checkUpdateNotDropped(c *Ctx, upd *ssa.Function) {
	// the setter section starts at the first MakeClosure (doInternalEntity callback)
	var firstSetter ssa.Instruction
	eachInstr(upd, func(in ssa.Instruction) {
		if mc, ok := in.(*ssa.MakeClosure); ok {
			if firstSetter == nil || mc.Block().Index < firstSetter.Block().Index {
				firstSetter = mc
			}
		}
	})
	if firstSetter == nil {
		c.Undecided("update-not-dropped", "processUpdateForEntry", "no setter section found")
		return
	}
	containsAdd := func(want bool) EdgePred {
		return func(e Edge, cond ssa.Value, truth bool) bool {
			cl := callValue(cond)
			if cl == nil || !strings.HasSuffix(calleeName(&cl.Call), "playerinfo.ContainsAction") || truth != want {
				return false
			}
			ld, ok := strip(cl.Call.Args[1]).(*ssa.UnOp)
			if !ok {
				return false
			}
			g, ok := ld.X.(*ssa.Global)
			return ok && g.Name() == "AddPlayerAction"
		}
	}
	entryNil := func(e Edge, cond ssa.Value, truth bool) bool {
		v, isNil, ok := nilCmp(cond, truth)
		if !ok || !isNil {
			return false
		}
		_, isLookup := strip(v).(*ssa.Lookup)
		_, isPhi := strip(v).(*ssa.Phi)
		return isLookup || isPhi
	}
	n := 0
	for _, r := range returnsOf(upd) {
		if r.Block() == upd.Recover {
			continue
		}
		// a return after the setter section is the normal end
		if flowsTo(firstSetter, r) {
			continue
		}
		n++
		g1, n1 := MustCross(r, containsAdd(false))
		g2, n2 := MustCross(r, entryNil)
		c.Check("update-not-dropped", "early-return@processUpdateForEntry", r, g1 && n1 > 0 && g2 && n2 > 0,
			"a backend update is dropped from the model although the client applies it: the only update that may be skipped is one without add-player for an entry that does not exist (an add-player for an existing entry still carries latency, game mode, listed, display name … for it)")
	}
	if n == 0 {
		c.CheckAt("update-not-dropped", "early-return@processUpdateForEntry", c.P.Pos(upd.Pos()), true, "")
	}
}
