package main

import (
	"go/token"

	"golang.org/x/tools/go/ssa"
)

// getterReceivers: receivers of invoke calls of method `getter` from which v is directly computed —
// through conversions, call arguments, composite literals and local variables, but not through map
// lookups or loads of unrelated struct fields (derivesFrom is field-insensitive, too coarse here).
func getterReceivers(v ssa.Value, getter string, depth int) []ssa.Value {
	var out []ssa.Value
	seen := map[ssa.Value]bool{}
	var walk func(v ssa.Value, d int)
	walk = func(v ssa.Value, d int) {
		v = strip(v)
		if d < 0 || seen[v] {
			return
		}
		seen[v] = true
		switch x := v.(type) {
		case *ssa.Call:
			if x.Call.IsInvoke() && x.Call.Method.Name() == getter {
				out = append(out, strip(x.Call.Value))
				return
			}
			if x.Call.IsInvoke() {
				walk(x.Call.Value, d-1)
			}
			for _, a := range x.Call.Args {
				walk(a, d-1)
			}
		case *ssa.Extract:
			walk(x.Tuple, d-1)
		case *ssa.BinOp:
			walk(x.X, d-1)
			walk(x.Y, d-1)
		case *ssa.Phi:
			for _, e := range x.Edges {
				walk(e, d-1)
			}
		case *ssa.Alloc:
			for _, sv := range storedInto(x, 1) {
				walk(sv, d-1)
			}
		case *ssa.UnOp:
			if x.Op == token.MUL {
				if a, ok := x.X.(*ssa.Alloc); ok {
					for _, sv := range storesTo(a) {
						walk(sv, d-1)
					}
				}
			}
		}
	}
	walk(v, depth)
	return out
}
