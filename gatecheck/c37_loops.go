package main

import (
	"fmt"

	"golang.org/x/tools/go/ssa"
)

// checkNoEarlyLoopExit: validation iterates over collections of independent items (the two quotas, the
// servers, the try list, forced hosts, Lite routes). Each item must be examined: the only way out of
// such a loop is the exhausted range. A break or return inside the loop silently skips the remaining
// items, so a broken constraint further down the list is accepted.
func checkNoEarlyLoopExit(c *Ctx, rule string, fn *ssa.Function) {
	if fn == nil {
		return
	}
	nLoops := 0
	for _, h := range fn.Blocks {
		// natural loop of every back edge p→h
		body := map[*ssa.BasicBlock]bool{}
		for _, p := range h.Preds {
			if !h.Dominates(p) {
				continue
			}
			body[h] = true
			stack := []*ssa.BasicBlock{p}
			for len(stack) > 0 {
				b := stack[len(stack)-1]
				stack = stack[:len(stack)-1]
				if body[b] {
					continue
				}
				body[b] = true
				stack = append(stack, b.Preds...)
			}
		}
		if len(body) == 0 {
			continue
		}
		nLoops++
		var bad ssa.Instruction
		for b := range body {
			if b == h {
				continue
			}
			for _, s := range b.Succs {
				if !body[s] {
					bad = lastInstr(b)
				}
			}
			if _, isRet := lastInstr(b).(*ssa.Return); isRet {
				bad = lastInstr(b)
			}
		}
		// inner loops exit through their own header into the outer body: allowed (s is in the outer body)
		key := fmt.Sprintf("loop#%d@%s", nLoops, shortName(fn))
		if bad == nil {
			c.CheckAt(rule, key, c.P.Pos(fn.Pos()), true, "")
		} else {
			c.Check(rule, key, bad, false,
				"a validation loop is left before its range is exhausted (break/return inside the loop): the remaining items are not validated, so a configuration that breaks a documented constraint further down the list is accepted")
		}
	}
	if nLoops == 0 {
		c.Undecided(rule, shortName(fn), "no loops found")
	}
}
