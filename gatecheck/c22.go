package main

import (
	"fmt"
	"strings"

	"golang.org/x/tools/go/ssa"
)

func init() {
	register(&propDef{
		ID:       "C22",
		Title:    "Commands run on the proxy or reach the backend exactly once",
		Patterns: []string{"./pkg/edition/java/proxy"},
		Run:      runC22,
		Rule: "in each of the three protocol-family packet creators passed to queueCommandResult (legacy, keyed 1.19–1.19.2, session 1.19.3+), with returns classified as nil / " +
			"ChatAcknowledgement / command-bearing (following calls of local closures): every return dominated by Allowed()==false is nil or an acknowledgement; executeCommand is " +
			"dominated by Allowed()==true and Forward()==false; returns dominated by hasRun==true or by err!=nil are not command-bearing; returns on the hasRun==false edge and on the " +
			"Forward()==true edge are command-bearing unless dominated by the forced-key-authentication disconnect; executeCommand reports hasRun=false only for ErrForward/unknown command.",
		Explanation: "Decides: a denied command never yields a command packet; a command the proxy ran is not also sent on; a command the proxy did not run (or that the event forwarded) " +
			"is sent on — one packet per invocation by construction (single return value). Does not decide: brigadier's dispatch/requirement evaluation, nor that the queue writes the " +
			"packet exactly once (C21).",
		Fixtures: []string{"guardcut"},
		Variants: []Variant{
			{Name: "denied-legacy-forwarded", File: pkgProxy + "/handle_cmd.go",
				Old:    "\t\tif !e.Allowed() {\n\t\t\treturn nil\n\t\t}\n\t\tcommandToRun := e.Command()\n\t\tif e.Forward() {\n\t\t\treturn (&chat.Builder{\n\t\t\t\tProtocol: c.player.Protocol(),\n\t\t\t\tMessage:  \"/\" + commandToRun,",
				New:    "\t\tcommandToRun := e.Command()\n\t\tif e.Forward() || !e.Allowed() {\n\t\t\treturn (&chat.Builder{\n\t\t\t\tProtocol: c.player.Protocol(),\n\t\t\t\tMessage:  \"/\" + commandToRun,",
				Expect: "denied-"},
			{Name: "session-denied-returns-packet", File: pkgProxy + "/handle_cmd.go",
				Old:    "\t\tif !e.Allowed() {\n\t\t\treturn consumeCommand(packet, newLastSeenMessages != nil)\n\t\t}",
				New:    "\t\tif !e.Allowed() {\n\t\t\treturn forwardCommand(packet, packet.Command)\n\t\t}",
				Expect: "denied-"},
			{Name: "ran-and-forwarded", File: pkgProxy + "/handle_cmd.go",
				Old:    "\t\tif hasRun {\n\t\t\treturn consumeCommand(packet, newLastSeenMessages != nil)\n\t\t}\n\t\treturn forwardCommand(packet, commandToRun)",
				New:    "\t\t_ = hasRun\n\t\treturn forwardCommand(packet, commandToRun)",
				Expect: "ran-not-forwarded"},
			{Name: "not-run-dropped", File: pkgProxy + "/handle_cmd.go",
				Old:    "\t\tif !hasRun {\n\t\t\treturn (&chat.Builder{\n\t\t\t\tProtocol: c.player.Protocol(),\n\t\t\t\tMessage:  packet.Message,\n\t\t\t\tSender:   c.player.ID(),\n\t\t\t}).ToServer()\n\t\t}\n\t\treturn nil",
				New:    "\t\t_ = hasRun\n\t\treturn nil",
				Expect: "creator-shape"}, // the not-run return is gone: reported as the missing case of the three-way shape
			{Name: "syntax-error-forwards", File: pkgProxy + "/handle_cmd.go",
				Old: "\t\t\treturn true, player.SendMessage(&component.Text{\n\t\t\t\tContent: sErr.Error(),", New: "\t\t\treturn false, player.SendMessage(&component.Text{\n\t\t\t\tContent: sErr.Error(),", Expect: "hasRun-false-only"},
		},
	})
}

type retClass int

const (
	rcNil retClass = iota
	rcAck
	rcBearing
	rcUnknown
)

func (r retClass) String() string { return [...]string{"nil", "ack", "command-bearing", "unknown"}[r] }

// classifyReturns computes the set of result classes a return value may have.
func classifyValue(v ssa.Value, depth int) map[retClass]bool {
	out := map[retClass]bool{}
	if depth < 0 {
		out[rcUnknown] = true
		return out
	}
	v = strip(v)
	switch x := v.(type) {
	case *ssa.Const:
		if x.Value == nil {
			out[rcNil] = true
		} else {
			out[rcUnknown] = true
		}
	case *ssa.Phi:
		for _, e := range x.Edges {
			for k := range classifyValue(e, depth-1) {
				out[k] = true
			}
		}
	case *ssa.Alloc:
		if typeIs(x.Type(), "packet/chat", "ChatAcknowledgement") {
			out[rcAck] = true
		} else {
			out[rcBearing] = true
		}
	case *ssa.Call:
		if fns := resolveFuncValue(x.Call.Value); len(fns) > 0 && staticCallee(&x.Call) == nil || isLocalClosure(&x.Call) {
			for _, f := range resolveFuncValue(x.Call.Value) {
				for _, r := range returnsOf(f) {
					if len(r.Results) != 1 {
						out[rcUnknown] = true
						continue
					}
					for k := range classifyValue(r.Results[0], depth-1) {
						out[k] = true
					}
				}
			}
		} else {
			// any other call producing a packet (Builder.ToServer etc.)
			out[rcBearing] = true
		}
	default:
		// packet parameter / captured packet / load
		out[rcBearing] = true
	}
	return out
}

func isLocalClosure(cc *ssa.CallCommon) bool {
	_, ok := cc.Value.(*ssa.MakeClosure)
	return ok
}

func runC22(c *Ctx) {
	scope := c.P.Funcs(Mod + "/" + pkgProxy)
	var creators []*ssa.Function
	for _, fn := range scope {
		for _, ci := range callsIn(fn, func(nm string, cc *ssa.CallCommon) bool {
			return strings.HasSuffix(nm, "chatHandler).queueCommandResult")
		}) {
			args := ci.Common().Args
			if mc, ok := args[len(args)-1].(*ssa.MakeClosure); ok {
				creators = append(creators, mc.Fn.(*ssa.Function))
			} else {
				c.Check("creator", "closure@"+shortName(fn), ci, false, "packet creator is not a local closure; cannot analyse")
			}
		}
	}
	if len(creators) < 3 {
		c.Undecided("creator", "queueCommandResult", fmt.Sprintf("expected 3 packet creators (legacy, keyed, session), found %d", len(creators)))
	}
	isAllowed := callMethod("Allowed")
	isForward := callMethod("Forward")
	isExec := callSuffix("proxy.executeCommand")
	isDisc := callMethod("disconnectIllegalProtocolState")
	for _, cr := range creators {
		c.Analysed(cr)
		name := shortName(cr)
		deniedEdge := func(e Edge, cond ssa.Value, truth bool) bool { return boolCallEdge(cond, truth, false, isAllowed) }
		allowedEdge := func(e Edge, cond ssa.Value, truth bool) bool { return boolCallEdge(cond, truth, true, isAllowed) }
		fwdTrue := func(e Edge, cond ssa.Value, truth bool) bool { return boolCallEdge(cond, truth, true, isForward) }
		fwdFalse := func(e Edge, cond ssa.Value, truth bool) bool { return boolCallEdge(cond, truth, false, isForward) }
		ranTrue := func(e Edge, cond ssa.Value, truth bool) bool { return boolCallEdge(cond, truth, true, isExec) }
		ranFalse := func(e Edge, cond ssa.Value, truth bool) bool { return boolCallEdge(cond, truth, false, isExec) }
		errEdge := func(e Edge, cond ssa.Value, truth bool) bool { return errNonNilEdge(cond, truth, isExec) }
		discEdge := func(e Edge, cond ssa.Value, truth bool) bool { return boolCallEdge(cond, truth, true, isDisc) }

		nDenied, nRan, nNotRun, nFwd := 0, 0, 0, 0
		for _, r := range returnsOf(cr) {
			if len(r.Results) != 1 {
				continue
			}
			cls := classifyValue(r.Results[0], 4)
			var names []string
			for k := range cls {
				names = append(names, k.String())
			}
			dom := func(p EdgePred) bool { g, n := MustCross(r, p); return g && n > 0 }
			switch {
			case dom(deniedEdge):
				nDenied++
				c.Check("denied-no-command", "return@"+name, r, !cls[rcBearing] && !cls[rcUnknown],
					fmt.Sprintf("a denied command yields a packet that may carry the command to the backend (classes: %v)", names))
			case dom(errEdge):
				c.Check("error-no-command", "return@"+name, r, !cls[rcBearing] && !cls[rcUnknown],
					fmt.Sprintf("a command that failed on the proxy is also sent to the backend (classes: %v)", names))
			case dom(ranTrue):
				nRan++
				c.Check("ran-not-forwarded", "return@"+name, r, !cls[rcBearing] && !cls[rcUnknown],
					fmt.Sprintf("a command executed by the proxy is also sent to the backend (classes: %v)", names))
			case dom(ranFalse):
				nNotRun++
				if dom(discEdge) || afterDisconnectCall(r) {
					continue // forced key authentication: the player is being disconnected
				}
				c.Check("not-run-forwarded", "return@"+name, r, cls[rcBearing] && !cls[rcNil] || viaLocalDisconnect(r.Results[0]),
					fmt.Sprintf("a command the proxy did not run must reach the backend (classes: %v)", names))
			case dom(fwdTrue):
				nFwd++
				if dom(discEdge) || afterDisconnectCall(r) {
					continue
				}
				c.Check("forward-forwarded", "return@"+name, r, cls[rcBearing] && !cls[rcNil] || viaLocalDisconnect(r.Results[0]),
					fmt.Sprintf("a command the event forwarded must reach the backend (classes: %v)", names))
			}
		}
		// path form of the denied rule: from any Allowed()==false edge no command-bearing return is
		// reachable without re-crossing an Allowed()==true edge (covers `Forward() || !Allowed()`).
		for _, e := range IfEdges(cr) {
			cond, truth := e.Cond()
			if !deniedEdge(e, cond, truth) {
				continue
			}
			r := reach(e.To(), func(x Edge) bool { cc, tt := x.Cond(); return allowedEdge(x, cc, tt) })
			for _, ret := range returnsOf(cr) {
				if !r[ret.Block()] || len(ret.Results) != 1 {
					continue
				}
				cls := classifyValue(ret.Results[0], 4)
				c.Check("denied-no-command", "reachable-from-denied-edge@"+name, ret, !cls[rcBearing] && !cls[rcUnknown],
					"a return reachable on the path where the command event denied the command may carry the command to the backend")
			}
		}
		c.CheckAt("creator-shape", "denied/ran/not-run/forward returns@"+name, c.P.Pos(cr.Pos()), nDenied > 0 && nNotRun > 0 && nFwd > 0,
			fmt.Sprintf("expected returns for the denied, not-run and forward cases; found denied=%d ran=%d notRun=%d forward=%d", nDenied, nRan, nNotRun, nFwd))
		// hasRun true must have a non-bearing return: either explicit ranTrue-dominated return or the fall-through after `if !hasRun`
		// executeCommand gated
		nEx := 0
		for _, ci := range callsIn(cr, func(nm string, cc *ssa.CallCommon) bool { return strings.HasSuffix(nm, "proxy.executeCommand") }) {
			nEx++
			g1, n1 := MustCross(ci, allowedEdge)
			g2, n2 := MustCross(ci, fwdFalse)
			c.Check("execute-gated", "executeCommand@"+name, ci, g1 && g2 && n1 > 0 && n2 > 0,
				"the proxy executes a command that the event denied or asked to forward")
		}
		if nEx != 1 {
			c.CheckAt("execute-gated", "one-executeCommand@"+name, c.P.Pos(cr.Pos()), false, fmt.Sprintf("expected exactly one executeCommand call, found %d", nEx))
		}
		// fall-through return after `if !hasRun {…}` in legacy/keyed: the return reached on hasRun==true must not be bearing.
		for _, r := range returnsOf(cr) {
			if len(r.Results) != 1 {
				continue
			}
			g, n := MustCross(r, ranFalse)
			if g && n > 0 {
				continue
			}
			// reachable after executeCommand without having established hasRun == false?
			reachable := false
			for _, ci := range callsIn(cr, func(nm string, cc *ssa.CallCommon) bool { return strings.HasSuffix(nm, "proxy.executeCommand") }) {
				if flowsTo(ci, r) {
					reachable = true
				}
			}
			if ge, ne := MustCross(r, errEdge); ge && ne > 0 {
				continue
			}
			if !reachable {
				continue
			}
			cls := classifyValue(r.Results[0], 4)
			c.Check("ran-not-forwarded", "hasRun-reachable-return@"+name, r, !cls[rcBearing] && !cls[rcUnknown],
				"a return reachable after the proxy ran the command may carry it to the backend")
		}
		// a command whose execution failed on the proxy was executed by the proxy: every command-bearing
		// return that can be reached after executeCommand lies behind its err == nil edge (the error
		// branch must not fall through to the forwarding return)
		for _, r := range returnsOf(cr) {
			if len(r.Results) != 1 {
				continue
			}
			cls := classifyValue(r.Results[0], 4)
			if !cls[rcBearing] && !cls[rcUnknown] {
				continue
			}
			for _, ci := range callsIn(cr, func(nm string, cc *ssa.CallCommon) bool { return strings.HasSuffix(nm, "proxy.executeCommand") }) {
				if !flowsTo(ci, r) {
					continue
				}
				g, n := MustCross(r, func(e Edge, cond ssa.Value, truth bool) bool { return errNilEdge(cond, truth, isExec) })
				c.Check("error-no-command", "bearing-return-behind-err-nil@"+name, r, g && n > 0,
					"a command-bearing return is reachable after executeCommand reported an error: the command the proxy tried (and failed) to run is also sent to the backend")
			}
		}
	}
	c.Floor("denied-no-command", 3)
	c.Floor("execute-gated", 3)
	c.Floor("not-run-forwarded", 2)

	// what the command event / dispatcher sees is what the player typed: the command line handed to
	// queueCommandResult is the packet's command field, or (legacy chat) the message with exactly one
	// leading slash removed (strings.TrimPrefix(msg, "/")); and the event is built from that value.
	nMsg := 0
	for _, fn := range scope {
		for _, ci := range callsIn(fn, func(nm string, cc *ssa.CallCommon) bool {
			return strings.HasSuffix(nm, "chatHandler).queueCommandResult")
		}) {
			nMsg++
			msg := ci.Common().Args[1]
			ok := false
			how := PathOf(msg)
			if strings.HasSuffix(PathOf(msg), ".Command") && strings.HasPrefix(PathOf(msg), fn.Params[1].Name()) {
				ok = true
			}
			if cl := callValue(msg); cl != nil {
				how = calleeName(&cl.Call)
				if calleeName(&cl.Call) == "strings.TrimPrefix" {
					s, isS := constString(cl.Call.Args[1])
					if isS && s == "/" && strings.HasSuffix(PathOf(cl.Call.Args[0]), ".Message") {
						ok = true
					}
				}
			}
			c.Check("command-as-typed", "commandline@"+shortName(fn), ci, ok,
				"the command line given to the command event is not the packet's command (or the chat message minus exactly one leading '/'): derived via "+how+" — e.g. '//wand' must stay '/wand', not become 'wand'")
		}
	}
	if nMsg < 3 {
		c.Undecided("command-as-typed", "queueCommandResult", fmt.Sprintf("expected 3 call sites, found %d", nMsg))
	}
	if q := c.MustFunc(pkgProxy + ":(*chatHandler).queueCommandResult"); q != nil {
		okEv := false
		eachInstr(q, func(in ssa.Instruction) {
			a, ok := in.(*ssa.Alloc)
			if !ok || !typeIs(a.Type(), "java/proxy", "CommandExecuteEvent") {
				return
			}
			n := 0
			for _, r := range *a.Referrers() {
				if fa, isFA := r.(*ssa.FieldAddr); isFA {
					switch fieldOfAddr(fa).Name() {
					case "commandline", "originalCommand":
						for _, sv := range storedInto(fa, 0) {
							if strip(sv) == ssa.Value(q.Params[1]) {
								n++
							}
						}
					}
				}
			}
			okEv = n == 2
		})
		c.CheckAt("command-as-typed", "event.commandline=originalCommand=message@queueCommandResult", c.P.Pos(q.Pos()), okEv,
			"the command event must be initialised with the command line exactly as received")
	}

	// executeCommand: hasRun=false only for ErrForward / unknown command
	if ex := c.MustFunc(pkgProxy + ":executeCommand"); ex != nil {
		isFwdErr := func(e Edge, cond ssa.Value, truth bool) bool {
			if !truth {
				return false
			}
			cl := callValue(cond)
			if cl == nil || !strings.HasSuffix(calleeName(&cl.Call), "errors.Is") {
				return false
			}
			p := PathOf(cl.Call.Args[1])
			return strings.HasSuffix(p, "ErrForward") || strings.HasSuffix(p, "ErrDispatcherUnknownCommand")
		}
		for _, r := range returnsOf(ex) {
			if len(r.Results) != 2 || r.Block() == ex.Recover {
				continue
			}
			v, isK := constBool(retVal(r, 0))
			if !isK {
				c.Check("hasRun-false-only", "constant-result@executeCommand", r, false, "hasRun must be a literal on every return")
				continue
			}
			if !v {
				g, n := MustCross(r, isFwdErr)
				// or the dispatcher's own error is propagated (the creator then returns nil)
				propagates := false
				if cl := callValue(retVal(r, 1)); cl != nil && methodName(&cl.Call) == "Do" {
					propagates = true
				}
				if ld, ok := retVal(r, 1).(*ssa.UnOp); ok {
					// `return false, err` with the named result still holding the dispatcher's error
					if a, ok := ld.X.(*ssa.Alloc); ok {
						for _, ref := range *a.Referrers() {
							if st, ok := ref.(*ssa.Store); ok && st.Addr == a {
								if cl := callValue(st.Val); cl != nil && methodName(&cl.Call) == "Do" && st.Block().Dominates(r.Block()) {
									propagates = true
								}
							}
						}
					}
				}
				c.Check("hasRun-false-only", "(false,…)@executeCommand", r, (g && n > 0 && isNilConst(retVal(r, 1))) || propagates,
					"executeCommand reports 'not run' (forward to backend) for something other than ErrForward / unknown command")
			}
			if v {
				// success or syntax error shown to the player
				g1, n1 := MustCross(r, func(e Edge, cond ssa.Value, truth bool) bool { return errNilEdge(cond, truth, callMethod("Do")) })
				g2, n2 := MustCross(r, func(e Edge, cond ssa.Value, truth bool) bool {
					return boolCallEdge(cond, truth, true, callSuffix("errors.As"))
				})
				c.Check("hasRun-true-only", "(true,…)@executeCommand", r, (g1 && n1 > 0) || (g2 && n2 > 0), "hasRun=true must mean the dispatcher accepted the command or reported a syntax error to the player")
			}
		}
	}
}

// afterDisconnectCall: the return is dominated by a block that calls disconnectIllegalProtocolState
// (the player is being kicked for a plugin having altered a signed command).
func afterDisconnectCall(r *ssa.Return) bool {
	ok := false
	eachInstr(r.Parent(), func(in ssa.Instruction) {
		if cc := callOf(in); cc != nil && methodName(cc) == "disconnectIllegalProtocolState" {
			if in.Block() == r.Block() || (in.Block().Dominates(r.Block()) && in.Block() != r.Parent().Blocks[0]) {
				ok = true
			}
		}
	})
	return ok
}

// viaLocalDisconnect: the value is the result of a local closure all of whose nil returns are
// dominated by the forced-key-authentication disconnect.
func viaLocalDisconnect(v ssa.Value) bool {
	call, ok := strip(v).(*ssa.Call)
	if !ok {
		return false
	}
	fns := resolveFuncValue(call.Call.Value)
	if len(fns) == 0 {
		return false
	}
	return closuresNilOnlyOnDisconnect(fns, 3)
}

func closuresNilOnlyOnDisconnect(fns []*ssa.Function, depth int) bool {
	if depth < 0 {
		return false
	}
	for _, f := range fns {
		for _, r := range returnsOf(f) {
			if len(r.Results) != 1 {
				return false
			}
			cls := classifyValue(r.Results[0], 0)
			if call, ok := strip(r.Results[0]).(*ssa.Call); ok {
				if inner := resolveFuncValue(call.Call.Value); len(inner) > 0 {
					if !closuresNilOnlyOnDisconnect(inner, depth-1) {
						return false
					}
					continue
				}
			}
			if cls[rcNil] {
				g, n := MustCross(r, func(e Edge, cond ssa.Value, truth bool) bool {
					return boolCallEdge(cond, truth, true, callMethod("disconnectIllegalProtocolState"))
				})
				if !(g && n > 0) && !afterDisconnectCall(r) {
					return false
				}
			}
		}
	}
	return true
}
