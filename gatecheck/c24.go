package main

import (
	"fmt"
	"go/token"
	"strings"

	"golang.org/x/tools/go/ssa"
)

func init() {
	register(&propDef{
		ID:       "C24",
		Title:    "Early plugin messages are delivered once, in order, with bounded buffering",
		Patterns: []string{"./pkg/edition/java/proxy"},
		Run:      runC24,
		Rule: "P3: each PushBack on the pre-backend (config) and pre-join (play) plugin-message queues is dominated by count+1 <= 1024 and bytes+len(data) <= 4 MiB, where count is " +
			"Len() of the same deque and bytes the queue's byte counter, and the counter stored afterwards is that sum; the overflow edge latches, clears and reaches player.Disconnect " +
			"on every path; P4: queue fields only under the handler's mutex; for the config queue the ready test + enqueue, and drain + buffered writes + readyServer store, each " +
			"form one critical section; the deques are used FIFO only (PushBack/PopFront/Len/Clear); drained messages are written in pop order.",
		Explanation: "Decides: the two caps dominate every enqueue, overflow disconnects instead of buffering, no enqueue can fall between the config drain and readiness (so nothing is " +
			"stranded or overtaken there), FIFO by construction. Does not decide: the pre-join (play) queue's drain/direct-write race — its drain result is written outside the " +
			"critical section and whether that is observable depends on connection phases at run time.",
		Fixtures: []string{"lockset", "bounds"},
		Variants: []Variant{
			{Name: "count-cap-off-by-many", File: pkgProxy + "/session_client_config.go",
				Old:    "if newBytes > maxQueuedLoginPluginMessageBytes || newCount > maxQueuedLoginPluginMessages {\n\t\th.mu.pluginMessagesOverflowed = true",
				New:    "if newBytes > maxQueuedLoginPluginMessageBytes {\n\t\th.mu.pluginMessagesOverflowed = true",
				Expect: "cap-count"},
			{Name: "bytes-cap-dropped-play", File: pkgProxy + "/session_client_play.go",
				Old:    "if newBytes > maxQueuedLoginPluginMessageBytes || newCount > maxQueuedLoginPluginMessages {\n\t\tc.mu.loginPluginMessagesOverflowed = true",
				New:    "if newCount > maxQueuedLoginPluginMessages {\n\t\tc.mu.loginPluginMessagesOverflowed = true",
				Expect: "cap-bytes"},
			{Name: "overflow-no-disconnect", File: pkgProxy + "/session_client_play.go",
				Old:    "\t\tc.player.Disconnect(&component.Text{\n\t\t\tContent: \"Too many plugin messages were sent before joining a server\",\n\t\t})\n\t\treturn false",
				New:    "\t\treturn false",
				Expect: "overflow-disconnects"},
			{Name: "ready-before-drain", File: pkgProxy + "/session_client_config.go",
				Old:    "\th.mu.Lock()\n\tdefer h.mu.Unlock()\n\tif h.mu.readyServer == serverConn {\n\t\treturn nil\n\t}\n",
				New:    "\th.mu.Lock()\n\tif h.mu.readyServer == serverConn {\n\t\th.mu.Unlock()\n\t\treturn nil\n\t}\n\th.mu.readyServer = serverConn\n\th.mu.Unlock()\n\th.mu.Lock()\n\tdefer h.mu.Unlock()\n",
				Expect: "drain-ready-atomic"},
			{Name: "bytes-counter-not-updated", File: pkgProxy + "/session_client_config.go",
				Old: "\th.mu.pluginMessagesBytes = newBytes\n", New: "", Expect: "cap-bytes"},
		},
	})
}

type earlyQueue struct {
	typ, dequeF, bytesF, overflowF string
	enqueue, drain                 string
}

func runC24(c *Ctx) {
	scope := c.P.Funcs(Mod + "/" + pkgProxy)
	lc := NewLockCtx(c.P, scope)
	maxCount := c.P.Const(pkgProxy + ":maxQueuedLoginPluginMessages")
	maxBytes := c.P.Const(pkgProxy + ":maxQueuedLoginPluginMessageBytes")
	if maxCount == nil || maxBytes == nil {
		c.Undecided("anchor", "maxQueuedLoginPluginMessages(Bytes)", "cap constants do not resolve")
	}
	// the specification's numbers (from the property statement), independent of the repo's constants
	const specCount, specBytes = 1024, 4 << 20

	queues := []earlyQueue{
		{"clientConfigSessionHandler", "pluginMessages", "pluginMessagesBytes", "pluginMessagesOverflowed", "enqueuePluginMessage", "flushQueuedPluginMessagesTo"},
		{"clientPlaySessionHandler", "loginPluginMessages", "loginPluginMessagesBytes", "loginPluginMessagesOverflowed", "enqueueLoginPluginMessage", "drainQueuedLoginPluginMessages"},
	}
	for _, q := range queues {
		fields := []string{q.dequeF, q.bytesF, q.overflowF}
		if q.typ == "clientConfigSessionHandler" {
			fields = append(fields, "readyServer")
		}
		checkGuarded(c, lc, scope, GuardSpec{Type: pkgProxy + ":" + q.typ, Sub: "mu", Mutex: map[bool]string{true: "Mutex", false: "RWMutex"}[q.typ == "clientConfigSessionHandler"], Fields: fields})

		enq := c.MustFunc(pkgProxy + ":(*" + q.typ + ")." + q.enqueue)
		if enq == nil {
			continue
		}
		isDequeCall := func(cc *ssa.CallCommon, m string) bool {
			return !cc.IsInvoke() && len(cc.Args) > 0 && methodName(cc) == m && strings.HasSuffix(PathOf(cc.Args[0]), ".mu."+q.dequeF)
		}
		isBytesLoad := func(v ssa.Value) bool {
			ld, ok := v.(*ssa.UnOp)
			return ok && ld.Op == token.MUL && strings.HasSuffix(PathOf(ld.X), ".mu."+q.bytesF)
		}
		// newCount = Len()+1 ; newBytes = bytes + len(msg.Data)
		isNewCount := func(v ssa.Value) bool {
			bo, ok := strip(v).(*ssa.BinOp)
			if !ok || bo.Op != token.ADD {
				return false
			}
			call, ok := bo.X.(*ssa.Call)
			k, isK := constInt(bo.Y)
			return ok && isDequeCall(&call.Call, "Len") && isK && k == 1
		}
		isNewBytes := func(v ssa.Value) bool {
			bo, ok := strip(v).(*ssa.BinOp)
			if !ok || bo.Op != token.ADD {
				return false
			}
			isLenData := func(x ssa.Value) bool {
				call, ok := x.(*ssa.Call)
				if !ok {
					return false
				}
				b, ok := call.Call.Value.(*ssa.Builtin)
				return ok && b.Name() == "len" && strings.HasSuffix(PathOf(call.Call.Args[0]), ".Data")
			}
			return (isBytesLoad(bo.X) && isLenData(bo.Y)) || (isBytesLoad(bo.Y) && isLenData(bo.X))
		}
		nPush := 0
		for _, ci := range callsIn(enq, func(nm string, cc *ssa.CallCommon) bool { return isDequeCall(cc, "PushBack") }) {
			nPush++
			rc := RangeAt(ci.Block(), isNewCount)
			rb := RangeAt(ci.Block(), isNewBytes)
			c.Check("cap-count", "PushBack@"+q.enqueue, ci, rc.HasHi() && rc.Hi <= specCount,
				fmt.Sprintf("enqueue must be dominated by Len()+1 <= %d; derived: %s", specCount, rc))
			c.Check("cap-bytes", "PushBack@"+q.enqueue, ci, rb.HasHi() && rb.Hi <= specBytes,
				fmt.Sprintf("enqueue must be dominated by bytes+len(data) <= %d; derived: %s", specBytes, rb))
			// the byte counter is updated with the same sum on every path after the push
			miss, _ := MayReachExitWithout(ci, func(in ssa.Instruction) bool {
				st, ok := in.(*ssa.Store)
				return ok && strings.HasSuffix(PathOf(st.Addr), ".mu."+q.bytesF) && isNewBytes(st.Val)
			})
			c.Check("cap-bytes", "counter-updated@"+q.enqueue, ci, !miss, "after an enqueue the byte counter must be set to bytes+len(data) (else the byte cap never triggers)")
			// lock held, same critical section as the Len()/bytes reads
			held := lc.At(ci)
			_, lk := held[strings.TrimSuffix(PathOf(ci.Common().Args[0]), "."+q.dequeF)+"."+map[bool]string{true: "Mutex", false: "RWMutex"}[q.typ == "clientConfigSessionHandler"]]
			c.Check("enqueue-locked", "PushBack@"+q.enqueue, ci, lk, "enqueue must hold the handler mutex")
			ms := NewMustSince(enq, func(x ssa.Instruction) bool {
				cc := callOf(x)
				return cc != nil && isDequeCall(cc, "Len")
			}, func(x ssa.Instruction) bool {
				if cc := callOf(x); cc != nil {
					if _, isDefer := x.(*ssa.Defer); !isDefer {
						if _, k, ok := lockOp(cc); ok && (k == "Unlock" || k == "Lock") {
							return true
						}
					}
				}
				return false
			})
			c.Check("enqueue-atomic", "caps-and-push-one-critical-section@"+q.enqueue, ci, ms.At(ci), "the cap test and the push are not in one critical section")
		}
		if nPush == 0 {
			c.Undecided("cap-count", q.enqueue, "no PushBack found")
		}
		// overflow edges: latch + clear + Disconnect on every path
		// The overflow region: everything reachable from the point where the new totals are computed
		// without taking an edge that is necessary for the enqueue (those edges say "within the caps").
		// Whatever the caps test looks like (two comparisons, one helper, inverted), every return in that
		// region must have disconnected the player and latched the overflow flag.
		var totals *ssa.BasicBlock
		eachInstr(enq, func(in ssa.Instruction) {
			if v, ok := in.(ssa.Value); ok && (isNewBytes(v) || isNewCount(v)) {
				if totals == nil || in.Block().Dominates(totals) {
					totals = in.Block()
				}
			}
		})
		var pushBlocks []*ssa.BasicBlock
		for _, ci := range callsIn(enq, func(nm string, cc *ssa.CallCommon) bool { return isDequeCall(cc, "PushBack") }) {
			pushBlocks = append(pushBlocks, ci.Block())
		}
		if totals == nil || len(pushBlocks) == 0 {
			c.Undecided("overflow-disconnects", q.enqueue, "the new totals (bytes+len(data), Len()+1) or the enqueue were not found")
		} else {
			accept := map[Edge]bool{}
			for _, pb := range pushBlocks {
				for _, e := range EdgeDominators(pb) {
					if totals.Dominates(e.From) {
						accept[e] = true
					}
				}
			}
			isDisc := func(in ssa.Instruction) bool {
				cc := callOf(in)
				if cc == nil {
					return false
				}
				if methodName(cc) == "Disconnect" {
					return true
				}
				// a helper of the module every path of which disconnects (disconnectOverflow(player, …))
				g := moduleHelperWithBody(cc)
				if g == nil || len(g.Blocks) == 0 || len(g.Blocks[0].Instrs) == 0 {
					return false
				}
				isD := func(x ssa.Instruction) bool { c2 := callOf(x); return c2 != nil && methodName(c2) == "Disconnect" }
				first := g.Blocks[0].Instrs[0]
				if isD(first) {
					return true
				}
				miss, _ := MayReachExitWithout(first, isD)
				return !miss
			}
			isLatch := func(in ssa.Instruction) bool {
				st, ok := in.(*ssa.Store)
				if !ok {
					return false
				}
				v, isB := constBool(st.Val)
				return isB && v && strings.HasSuffix(PathOf(st.Addr), ".mu."+q.overflowF)
			}
			region := func(stop func(ssa.Instruction) bool) (bad *ssa.Return, n int) {
				reached := reachAvoiding(totals, stop, func(e Edge) bool { return accept[e] })
				for b := range reached {
					if b == totals {
						continue
					}
					n++
					if r, ok := lastInstr(b).(*ssa.Return); ok && b != enq.Recover {
						bad = r
					}
				}
				return
			}
			badD, _ := region(isDisc)
			badL, _ := region(isLatch)
			_, n1 := region(func(ssa.Instruction) bool { return false }) // the region itself must exist
			var atD, atL ssa.Instruction = totals.Instrs[0], totals.Instrs[0]
			if badD != nil {
				atD = badD
			}
			if badL != nil {
				atL = badL
			}
			c.Check("overflow-disconnects", "over-the-caps@"+q.enqueue, atD, len(accept) > 0 && n1 > 0 && badD == nil,
				"when the new totals exceed a cap (any path past the totals that does not enqueue) the player must be disconnected before returning")
			c.Check("overflow-latches", "over-the-caps@"+q.enqueue, atL, len(accept) > 0 && badL == nil,
				"overflow must latch so that later messages are rejected without buffering")
		}
		// the Disconnect is not under the lock
		checkNoCallUnderLock(c, lc, enq, ".mu.Mutex", "callback-unlocked", func(nm string, cc *ssa.CallCommon) bool { return methodName(cc) == "Disconnect" })
		checkNoCallUnderLock(c, lc, enq, ".mu.RWMutex", "callback-unlocked", func(nm string, cc *ssa.CallCommon) bool { return methodName(cc) == "Disconnect" })

		// FIFO ops on this deque anywhere in the package
		for _, fn := range scope {
			for _, op := range dequeOpsIn(fn, ".mu."+q.dequeF) {
				switch op.Method {
				case "PushBack", "PopFront", "Len", "Clear":
					c.Check("fifo", op.Method+"@"+shortName(fn), op.At, true, "")
				default:
					c.Check("fifo", op.Method+"@"+shortName(fn), op.At, false, "non-FIFO deque operation on an early plugin message queue")
				}
			}
		}
	}
	c.Floor("guarded", 15)
	c.Floor("fifo", 8)

	// config queue: ready test + enqueue one critical section; drain + writes + ready store one critical section
	if enq := c.P.Func(pkgProxy + ":(*clientConfigSessionHandler).enqueuePluginMessage"); enq != nil {
		isReadyLoad := func(v ssa.Value) bool {
			ld, ok := v.(*ssa.UnOp)
			return ok && ld.Op == token.MUL && strings.HasSuffix(PathOf(ld.X), ".mu.readyServer")
		}
		// "deliver directly" (return false) only for an existing, ready backend: with no backend chosen yet
		// (target == nil, readyServer == nil) the message must be queued, not handed to a caller that has
		// nowhere to send it
		for _, r := range returnsOf(enq) {
			if r.Block() == enq.Recover || len(r.Results) != 1 {
				continue
			}
			if b, isC := constBool(retVal(r, 0)); !isC || b {
				continue
			}
			g, n := MustCross(r, func(e Edge, cond ssa.Value, truth bool) bool {
				v, isNil, ok := nilCmp(cond, truth)
				if !ok || isNil {
					return false
				}
				p, isP := strip(v).(*ssa.Parameter)
				return isP && p == enq.Params[1]
			})
			c.Check("enqueue-ready-atomic", "bypass-only-with-a-backend@enqueuePluginMessage", r, g && n > 0,
				"the queue is bypassed (message to be delivered directly) although no backend exists yet (target == nil compares equal to the unset readyServer): the early message is dropped instead of queued")
		}
		for _, ci := range callsIn(enq, func(nm string, cc *ssa.CallCommon) bool { return methodName(cc) == "PushBack" }) {
			// dominated by the "not ready for this target" edge, evaluated in the same critical section
			var cmpBlock *ssa.BasicBlock
			g, n := MustCross(ci, func(e Edge, cond ssa.Value, truth bool) bool {
				bo, ok := cond.(*ssa.BinOp)
				if !ok || bo.Op != token.EQL || truth || !(isReadyLoad(bo.X) || isReadyLoad(bo.Y)) {
					return false
				}
				cmpBlock = e.From
				return true
			})
			// target == nil also bypasses the ready test: accept the nil edge as part of the cut
			if !g {
				g, n = MustCross(ci, func(e Edge, cond ssa.Value, truth bool) bool {
					if bo, ok := cond.(*ssa.BinOp); ok && bo.Op == token.EQL && !truth && (isReadyLoad(bo.X) || isReadyLoad(bo.Y)) {
						cmpBlock = e.From
						return true
					}
					v, isNil, ok := nilCmp(cond, truth)
					if ok && isNil {
						if p, isP := strip(v).(*ssa.Parameter); isP && p.Name() == enq.Params[1].Name() {
							return true
						}
					}
					return false
				})
			}
			ok := g && n > 0 && cmpBlock != nil
			if ok {
				ms := NewMustSince(enq, func(x ssa.Instruction) bool { return x.Block() == cmpBlock && x == lastInstr(cmpBlock) }, nil)
				_ = ms
				// no unlock between the comparison and the push on paths through the comparison
				for b := range reach(cmpBlock, nil) {
					for _, in := range b.Instrs {
						if cc := callOf(in); cc != nil {
							if _, k, isL := lockOp(cc); isL && k == "Unlock" && flowsTo(in, ci) && cmpBlock.Dominates(b) {
								ok = false
							}
						}
					}
				}
			}
			c.Check("enqueue-ready-atomic", "ready-test+push@enqueuePluginMessage", ci, ok,
				"the 'backend not ready' test and the enqueue must share one critical section (else a message is queued after the drain and never delivered)")
		}
	}
	if fl := c.MustFunc(pkgProxy + ":(*clientConfigSessionHandler).flushQueuedPluginMessagesTo"); fl != nil {
		var pops, writes, ready []ssa.Instruction
		popValues := map[ssa.Value]bool{} // values that hold popped messages: PopFront results, or the result of a helper that pops
		for _, op := range dequeOpsIn(fl, ".mu.pluginMessages") {
			if op.Method == "PopFront" {
				pops = append(pops, op.At)
				if v, ok := op.At.(ssa.Value); ok {
					popValues[v] = true
				}
			}
		}
		eachInstr(fl, func(in ssa.Instruction) {
			if cc := callOf(in); cc != nil {
				switch methodName(cc) {
				case "BufferPacket", "WritePacket":
					writes = append(writes, in)
				}
			}
			if st, ok := in.(*ssa.Store); ok && strings.HasSuffix(PathOf(st.Addr), ".mu.readyServer") {
				ready = append(ready, in)
			}
		})
		ok := len(pops) > 0 && len(writes) > 0 && len(ready) > 0
		detail := "flush must pop, write and mark ready"
		if ok {
			// one critical section: a single Lock dominates all three and no explicit Unlock can run between them
			nUnlock := 0
			eachInstr(fl, func(in ssa.Instruction) {
				if cc := callOf(in); cc != nil {
					if _, isDefer := in.(*ssa.Defer); !isDefer {
						if _, k, isL := lockOp(cc); isL && k == "Unlock" {
							nUnlock++
						}
					}
				}
			})
			for _, in := range append(append(append([]ssa.Instruction{}, pops...), writes...), ready...) {
				if lc.At(in)["h.mu.Mutex"] != 'W' {
					ok = false
					detail = "drain, buffered writes and the readyServer store must all happen with h.mu held"
				}
			}
			if nUnlock > 0 {
				ok = false
				detail = "flush releases h.mu between drain and readiness: a message enqueued in that window is stranded or overtaken"
			}
			// ready only after the writes
			for _, r := range ready {
				for _, w := range writes {
					if !flowsTo(w, r) || flowsTo(r, w) {
						ok = false
						detail = "readyServer must be set after the queued messages were written"
					}
				}
			}
		}
		c.CheckAt("drain-ready-atomic", "pop+write+ready@flushQueuedPluginMessagesTo", c.P.Pos(fl.Pos()), ok, detail)
		// order: the written packet is the ranged element of the slice filled by PopFront in order
		for _, w := range writes {
			arg := w.(ssa.CallInstruction).Common().Args
			v := arg[len(arg)-1]
			fromPop := derivesFrom(v, 10, func(x ssa.Value) bool {
				if popValues[x] {
					// a helper that pops: what it returns must itself come from PopFront
					if cl, ok := x.(*ssa.Call); ok && methodName(&cl.Call) != "PopFront" {
						if h := staticCallee(&cl.Call); h != nil {
							okRet := false
							for _, r := range returnsOf(h) {
								if len(r.Results) > 0 && derivesFrom(retVal(r, 0), 10, func(y ssa.Value) bool {
									c2, ok := y.(*ssa.Call)
									return ok && methodName(&c2.Call) == "PopFront"
								}) {
									okRet = true
								}
							}
							return okRet
						}
					}
					return true
				}
				cl, ok := x.(*ssa.Call)
				return ok && methodName(&cl.Call) == "PopFront"
			})
			c.Check("drain-order", "write-gets-popped@flushQueuedPluginMessagesTo", w, fromPop, "the messages written at drain must be the popped ones")
		}
	}
}
