// gatecheck decides structural necessary conditions of the properties in /verif/properties.jsonl
// by static analysis (go/types + go/ssa) of /repo's current working tree. Nothing in /repo is run.
package main

import (
	"encoding/json"
	"flag"
	"fmt"
	"os"
	"os/exec"
	"path/filepath"
	"runtime/debug"
	"sort"
	"strings"
	"sync"
	"time"
)

var registry = map[string]*propDef{}

func register(d *propDef) { registry[d.ID] = d }

// Variant is a seeded source edit (applied as an in-memory overlay) that must make the property's
// rule report an obligation whose key contains Expect. The text is only used to construct the
// variant; it never decides the property.
type Variant struct {
	Name   string
	File   string // repo relative
	Old    string
	New    string
	Expect string
}

func main() {
	prop := flag.String("prop", "", "property id (C01…C44) or 'all'")
	tier := flag.String("tier", "quick", "quick | thorough")
	variant := flag.String("variant", "", "internal: run with the named seeded variant as overlay and print obligations as JSON")
	replay := flag.String("replay", "", "findings file: re-evaluate and print the verdicts of the obligations named in it")
	list := flag.Bool("list", false, "list properties")
	selftest := flag.Bool("selftest", false, "run primitive fixtures only")
	manifest := flag.Bool("manifest", false, "print MANIFEST.json for the registered properties")
	wireDbg := flag.String("wire", "", "debug: print sample wire-token sequences of <pkg.Type>'s Encode and Decode")
	wireProto := flag.Int64("proto", -1, "debug: protocol for -wire")
	rxeq := flag.Bool("rxeq", false, "debug: decide language equality of the two regexps given as arguments")
	dumpIDs := flag.Bool("dump-ids", false, "print the evaluated packet id table (used once to create reference/packet_ids.json)")
	dumpWire := flag.Bool("dump-wire", false, "print the evaluated Encode layouts (used once to create reference/packet_wire.json)")
	flag.Parse()
	if *dumpWire {
		if err := dumpWireGolden(); err != nil {
			fmt.Fprintln(os.Stderr, err)
			os.Exit(2)
		}
		return
	}
	if *dumpIDs {
		if err := dumpGolden(); err != nil {
			fmt.Fprintln(os.Stderr, err)
			os.Exit(2)
		}
		return
	}
	if *rxeq {
		ok, w, err := RegexEquivalent(flag.Arg(0), flag.Arg(1))
		fmt.Printf("equivalent=%v witness=%q err=%v\n", ok, w, err)
		return
	}
	if *manifest {
		printManifest()
		return
	}
	if *wireDbg != "" {
		debugWire(*wireDbg, *wireProto)
		return
	}
	if *list {
		var ids []string
		for id := range registry {
			ids = append(ids, id)
		}
		sort.Strings(ids)
		for _, id := range ids {
			fmt.Println(id, registry[id].Title)
		}
		return
	}
	if *selftest {
		fails := runFixtures(nil)
		for _, f := range fails {
			fmt.Println("SELFTEST-FAIL:", f)
		}
		if len(fails) > 0 {
			os.Exit(2)
		}
		fmt.Println("fixtures ok")
		return
	}
	if *prop == "all" {
		os.Exit(runAll(*tier))
	}
	def := registry[*prop]
	if def == nil {
		fmt.Fprintf(os.Stderr, "unknown property %q\n", *prop)
		os.Exit(2)
	}
	if *tier != "quick" && *tier != "thorough" {
		fmt.Fprintf(os.Stderr, "bad tier\n")
		os.Exit(2)
	}
	if *variant != "" {
		os.Exit(runVariantChild(def, *variant))
	}
	os.Exit(runProp(def, *tier, *replay))
}

func runAll(tier string) int {
	var ids []string
	for id := range registry {
		ids = append(ids, id)
	}
	sort.Strings(ids)
	self, _ := os.Executable()
	rc := 0
	sem := make(chan struct{}, 4)
	var mu sync.Mutex
	var wg sync.WaitGroup
	for _, id := range ids {
		wg.Add(1)
		go func(id string) {
			defer wg.Done()
			sem <- struct{}{}
			defer func() { <-sem }()
			out, err := exec.Command(self, "-prop", id, "-tier", tier).CombinedOutput()
			mu.Lock()
			defer mu.Unlock()
			os.Stdout.Write(out)
			if err != nil {
				rc = 1
			}
		}(id)
	}
	wg.Wait()
	return rc
}

func analyse(def *propDef, tier string, overlay map[string][]byte) (c *Ctx, err error) {
	defer func() {
		if r := recover(); r != nil {
			err = fmt.Errorf("analyser panic: %v\n%s", r, debug.Stack())
		}
	}()
	var P *Program
	if tier == "thorough" {
		pats := []string{"./..."}
		for _, p := range def.Patterns {
			if !strings.HasPrefix(p, ".") {
				pats = append(pats, p) // reference packages outside the module (e.g. go-mc's id table)
			}
		}
		P, err = Load(pats, true, overlay)
	} else {
		P, err = Load(def.Patterns, false, overlay)
	}
	if err != nil {
		return nil, err
	}
	c = newCtx(def.ID, tier, P)
	def.Run(c)
	runLockBalanced(c, def.ID)
	return c, nil
}

func runProp(def *propDef, tier, replay string) int {
	start := time.Now()
	c, err := analyse(def, tier, nil)
	if err != nil {
		// undecided is failure: a tree that does not load or an analyser crash is reported
		c = newCtx(def.ID, tier, &Program{})
		c.record("load", "program", "?", "undecided", err.Error())
		return c.finish(def, start, nil)
	}
	if replay != "" {
		return doReplay(c, replay)
	}
	extra := map[string]any{}
	// positive controls: the primitives this property relies on must fire on their fixtures
	fx := append([]string{}, def.Fixtures...)
	if _, ok := lockBalancedScope[def.ID]; ok {
		fx = append(fx, "lockleak")
	}
	fails := runFixtures(fx)
	extra["positive_controls"] = fx
	extra["positive_control_failures"] = fails
	selfFail := len(fails) > 0
	for _, f := range fails {
		fmt.Println("SELFTEST-FAIL:", f)
	}
	if tier == "thorough" && len(def.Variants) > 0 {
		res := runVariants(def)
		extra["variants"] = res
		applied, detected := 0, 0
		for _, r := range res {
			if r.Status == "detected" {
				applied++
				detected++
			} else if r.Status == "missed" {
				applied++
				selfFail = true
				fmt.Printf("SELFTEST-FAIL: variant %s applied and type-checked but %s did not report a key containing %q\n", r.Name, def.ID, r.Expect)
			}
		}
		extra["variants_applied"] = applied
		extra["variants_detected"] = detected
	}
	rc := c.finish(def, start, extra)
	if rc == 0 && selfFail {
		return 2
	}
	return rc
}

func doReplay(c *Ctx, path string) int {
	b, err := os.ReadFile(path)
	if err != nil {
		fmt.Println(err)
		return 2
	}
	var f struct {
		Findings []Obligation `json:"findings"`
	}
	if err := json.Unmarshal(b, &f); err != nil {
		fmt.Println(err)
		return 2
	}
	cur := map[string]Obligation{}
	for _, o := range c.Obl {
		cur[o.Key] = o
	}
	rc := 0
	for _, o := range f.Findings {
		if n, ok := cur[o.Key]; ok {
			fmt.Printf("%s: %s: %s: %s\n", n.Site, n.Key, n.Verdict, n.Detail)
			if n.Verdict != "holds" {
				rc = 1
			}
		} else {
			fmt.Printf("?: %s: obligation no longer exists on this tree\n", o.Key)
		}
	}
	if rc == 1 {
		fmt.Printf("VIOLATION property=%s replay=%s\n", c.Prop, path)
	}
	return rc
}

// ---------- variants -----------------------------------------------------------------------------

type VariantResult struct {
	Name   string `json:"name"`
	Expect string `json:"expect"`
	Status string `json:"status"` // detected | missed | anchor-absent | does-not-typecheck
	Hit    string `json:"hit,omitempty"`
}

func variantOverlay(v Variant) (map[string][]byte, bool) {
	p := filepath.Join(RepoDir, v.File)
	src, err := os.ReadFile(p)
	if err != nil || !strings.Contains(string(src), v.Old) {
		return nil, false
	}
	return map[string][]byte{p: []byte(strings.Replace(string(src), v.Old, v.New, 1))}, true
}

func runVariantChild(def *propDef, name string) int {
	for _, v := range def.Variants {
		if v.Name != name {
			continue
		}
		ov, ok := variantOverlay(v)
		if !ok {
			fmt.Println(`{"status":"anchor-absent"}`)
			return 0
		}
		c, err := analyse(def, "quick", ov)
		if err != nil {
			b, _ := json.Marshal(map[string]any{"status": "does-not-typecheck", "err": err.Error()})
			fmt.Println(string(b))
			return 0
		}
		// floors count as findings too
		for rule, n := range c.floors {
			if c.counts[rule] < n {
				c.record("floor", rule, "?", "violated", "below floor")
			}
		}
		var bad []Obligation
		for _, o := range c.Obl {
			if o.Verdict != "holds" {
				bad = append(bad, o)
			}
		}
		b, _ := json.Marshal(map[string]any{"status": "ran", "bad": bad})
		fmt.Println(string(b))
		return 0
	}
	fmt.Println(`{"status":"anchor-absent"}`)
	return 0
}

func runVariants(def *propDef) []VariantResult {
	self, _ := os.Executable()
	known, _ := loadKnown()
	knownKeys := map[string]bool{}
	for _, k := range known {
		if k.Property == def.ID && k.Status == "known" {
			knownKeys[k.Key] = true
		}
	}
	out := make([]VariantResult, len(def.Variants))
	sem := make(chan struct{}, 4)
	var wg sync.WaitGroup
	for i, v := range def.Variants {
		wg.Add(1)
		go func(i int, v Variant) {
			defer wg.Done()
			sem <- struct{}{}
			defer func() { <-sem }()
			r := VariantResult{Name: v.Name, Expect: v.Expect}
			cmd := exec.Command(self, "-prop", def.ID, "-variant", v.Name)
			cmd.Env = os.Environ()
			b, err := cmd.Output()
			var res struct {
				Status string       `json:"status"`
				Bad    []Obligation `json:"bad"`
			}
			if err != nil || json.Unmarshal(lastLine(b), &res) != nil {
				r.Status = "does-not-typecheck"
				out[i] = r
				return
			}
			switch res.Status {
			case "ran":
				r.Status = "missed"
				for _, o := range res.Bad {
					if knownKeys[o.Key] {
						continue
					}
					if strings.Contains(o.Key, v.Expect) {
						r.Status = "detected"
						r.Hit = o.Key
						break
					}
				}
			default:
				r.Status = res.Status
			}
			out[i] = r
		}(i, v)
	}
	wg.Wait()
	return out
}

func lastLine(b []byte) []byte {
	s := strings.TrimSpace(string(b))
	if i := strings.LastIndexByte(s, '\n'); i >= 0 {
		s = s[i+1:]
	}
	return []byte(s)
}
