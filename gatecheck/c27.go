package main

import (
	"fmt"
	"go/constant"
	"go/token"
	"strings"

	"golang.org/x/tools/go/ssa"
)

const pkgRP = "pkg/edition/java/proxy/internal/resourcepack"

func init() {
	register(&propDef{
		ID:       "C27",
		Title:    "Resource-pack prompts never block and follow the client-version rules",
		Patterns: []string{"./pkg/edition/java/proxy/internal/resourcepack"},
		Run:      runC27,
		Rule: "P4 re-entrancy: no function of package resourcepack that holds a handler's RWMutex reaches (through static calls, depth ≤ 5) another Lock — or an RLock " +
			"while holding it exclusively — of the same mutex on the same receiver; handler state fields are accessed under that mutex; player.Disconnect is not " +
			"called with it held; P2: the backend report in handleResponseResult is dominated by the false edge of (queued != nil && Origin == PluginOnProxyOrigin).",
		Explanation: "Decides: absence of self-deadlock by lock re-entry in all three handlers (sync.RWMutex is not re-entrant: the first QueueResourcePack on a < 1.20.3 client " +
			"would never return), guarded state, origin gate of the backend report. Does not decide: prompt order, auto-decline rules, per-id tracking — those are value-level histories.",
		Fixtures: []string{"lockcycle", "lockset", "reentry"},
	})
	registry["C27"].Variants = []Variant{
		{Name: "modern-queue-ticks-under-lock", File: pkgRP + "/handler_modern.go",
			Old:    "\t\tid := m.outstandingPacks.Get(info.ID)[0].ID\n\t\tm.Unlock()\n\t\treturn m.tickResourcePackQueue(id)",
			New:    "\t\tid := m.outstandingPacks.Get(info.ID)[0].ID\n\t\tdefer m.Unlock()\n\t\tm.RLock()\n\t\tm.RUnlock()\n\t\treturn m.tickResourcePackQueue(id)",
			Expect: "reentry:"},
		{Name: "modern-has-pack-under-lock", File: pkgRP + "/handler_modern.go",
			Old:    "func (m *modernHandler) Remove(id uuid.UUID) bool {\n\tm.Lock()\n\tdefer m.Unlock()\n",
			New:    "func (m *modernHandler) Remove(id uuid.UUID) bool {\n\tm.Lock()\n\tdefer m.Unlock()\n\t_ = m.HasPackAppliedByHash(nil)\n",
			Expect: "reentry:"},
		{Name: "report-proxy-packs-to-backend", File: pkgRP + "/handler.go",
			Old: "\tif !handled {\n\t\tbackend := player.BackendInFlight()", New: "\t{\n\t\tbackend := player.BackendInFlight()", Expect: "origin-gate:"},
		{Name: "legacy-state-unlocked", File: pkgRP + "/handler_legacy.go",
			Old:    "func (h *legacyHandler) ClearAppliedResourcePacks() {\n\th.Lock()\n\tdefer h.Unlock()\n",
			New:    "func (h *legacyHandler) ClearAppliedResourcePacks() {\n",
			Expect: "guarded:legacyHandler.appliedPack"},
	}
}

func runC27(c *Ctx) {
	scope := c.P.Funcs(Mod + "/" + pkgRP)
	lc := NewLockCtx(c.P, scope)

	// (1) re-entrancy over every function of the package that takes a lock
	roots := 0
	for _, fn := range scope {
		takes := false
		eachInstr(fn, func(in ssa.Instruction) {
			if call, ok := in.(*ssa.Call); ok {
				if _, k, ok := lockOp(&call.Call); ok && (k == "Lock" || k == "RLock") {
					takes = true
				}
			}
		})
		if !takes {
			continue
		}
		roots++
		c.Analysed(fn)
		res := findReentry(fn, lockState{}, 5, nil, map[string]bool{})
		if len(res) == 0 {
			c.CheckAt("reentry", shortName(fn), c.P.Pos(fn.Pos()), true, "")
			continue
		}
		seen := map[string]bool{}
		for _, r := range res {
			k := strings.Join(r.Chain, " → ")
			if seen[k] {
				continue
			}
			seen[k] = true
			c.Check("reentry", shortName(fn), r.At, false,
				fmt.Sprintf("self-deadlock: %s is acquired again while already held on the same receiver; call chain %s (sync.RWMutex is not re-entrant)", r.Mutex, k))
		}
	}
	c.Floor("reentry", 15)
	c.Info["lock_taking_functions"] = roots

	// (1b) guarded state
	checkGuarded(c, lc, scope, GuardSpec{Type: pkgRP + ":legacyHandler", Mutex: "rwMutex", Fields: []string{"prevResourceResponse", "outstandingPacks", "pendingPack", "appliedPack"}})
	checkGuarded(c, lc, scope, GuardSpec{Type: pkgRP + ":modernHandler", Mutex: "rwMutex", Fields: []string{"pendingPacks", "appliedPacks"}})
	// modernHandler.outstandingPacks: tickResourcePackQueue reads it under TryRLock "or caller holds" — writes are checked
	checkGuarded(c, lc, scope, GuardSpec{Type: pkgRP + ":modernHandler", Mutex: "rwMutex", Fields: []string{"outstandingPacks"}, WritesOnly: true})
	c.Floor("guarded", 25)

	// (2) Disconnect not under the handler lock
	for _, fn := range scope {
		checkNoCallUnderLock(c, lc, fn, ".rwMutex", "callback-unlocked", func(n string, cc *ssa.CallCommon) bool { return methodName(cc) == "Disconnect" })
	}
	c.Floor("callback-unlocked", 2)

	// (2b) per-id tracking (1.20.3+): a response for an id with nothing outstanding must be judged with
	// the origin of the already applied pack — the report gate only knows the origin through the pack
	// info it is handed, and nil means "backend's pack".
	if mo := c.MustFunc(pkgRP + ":(*modernHandler).OnResourcePackResponse"); mo != nil {
		ok := false
		for _, ci := range callsIn(mo, func(nm string, cc *ssa.CallCommon) bool { return methodName(cc) == "HandleResponseResult" }) {
			a := ci.Common().Args[1]
			fromApplied := derivesFrom(a, 4, func(v ssa.Value) bool {
				lk, isLk := v.(*ssa.Lookup)
				return isLk && strings.HasSuffix(PathOf(lk.X), ".appliedPacks")
			})
			if !fromApplied {
				continue
			}
			// reached only when nothing was outstanding for the id
			g, n := MustCross(ci, func(e Edge, cond ssa.Value, truth bool) bool {
				v, isNil, isCmp := nilCmp(cond, truth)
				if !isCmp || !isNil {
					return false
				}
				_, isPhi := strip(v).(*ssa.Phi)
				return isPhi
			})
			if g && n > 0 {
				ok = true
			}
		}
		c.CheckAt("applied-origin-consulted", "HandleResponseResult(appliedPacks[id])@modernHandler.OnResourcePackResponse", c.P.Pos(mo.Pos()), ok,
			"when no pack is outstanding for the id, the response must be judged with the applied pack's info (its origin); otherwise a repeated SUCCESSFUL for a proxy-originated pack is reported to the backend")
	}

	// (3) origin gate
	hr := c.MustFunc(pkgRP + ":handleResponseResult")
	origin := c.P.Const(pkgRP + ":PluginOnProxyOrigin")
	if hr == nil {
		return
	}
	if origin == nil {
		c.Undecided("anchor", "PluginOnProxyOrigin", "constant does not resolve")
		return
	}
	n := 0
	for _, ci := range callsIn(hr, func(nm string, cc *ssa.CallCommon) bool { return methodName(cc) == "WritePacket" }) {
		n++
		g, nsel := MustCross(ci, func(e Edge, cond ssa.Value, truth bool) bool {
			if truth {
				return false
			}
			for _, o := range origins(cond, 4) {
				bo, ok := o.(*ssa.BinOp)
				if !ok || bo.Op != token.EQL {
					continue
				}
				for _, side := range [][2]ssa.Value{{bo.X, bo.Y}, {bo.Y, bo.X}} {
					k, isC := strip(side[1]).(*ssa.Const)
					if isC && k.Value != nil && constant.Compare(k.Value, token.EQL, origin.Val()) && strings.HasSuffix(PathOf(side[0]), ".Origin") {
						return true
					}
				}
			}
			return false
		})
		c.Check("origin-gate", "WritePacket@handleResponseResult", ci, g && nsel > 0,
			"the response is reported to the backend although the pack was sent by a proxy plugin (must be dominated by !(queued != nil && queued.Origin == PluginOnProxyOrigin))")
	}
	if n == 0 {
		c.Undecided("origin-gate", "WritePacket@handleResponseResult", "no backend write found")
	}
}
