package main

import (
	"go/token"

	"golang.org/x/tools/go/ssa"
)

// checkParamSubstitution: "$n" in a backend template is replaced by the text the n-th wildcard matched.
// Textual replacement of "$1" also rewrites the head of "$10", "$11", …, so the parameters must be
// substituted highest index first (the descending ReplaceAll loop), or — with strings.NewReplacer, where
// the pair listed first wins at a position — listed highest index first. The index mapping must be
// "$i" → groups[i-1].
func checkParamSubstitution(c *Ctx) {
	fn := c.MustFunc(pkgLite + ":substituteBackendParams")
	if fn == nil {
		return
	}
	c.Analysed(fn)
	groups := fn.Params[1]
	// direction of an index value: +1 ascending, -1 descending, 0 unknown
	direction := func(v ssa.Value) (dir int, phi *ssa.Phi) {
		v = strip(v)
		// range loops: i = phi + 1
		if bo, ok := v.(*ssa.BinOp); ok && bo.Op == token.ADD {
			if ph, isPhi := bo.X.(*ssa.Phi); isPhi {
				for _, e := range ph.Edges {
					if e == ssa.Value(bo) {
						return +1, ph
					}
				}
			}
		}
		ph, ok := v.(*ssa.Phi)
		if !ok {
			return 0, nil
		}
		for _, e := range ph.Edges {
			bo, ok := e.(*ssa.BinOp)
			if !ok || bo.X != ssa.Value(ph) {
				continue
			}
			k, isK := constInt(bo.Y)
			if !isK {
				continue
			}
			if (bo.Op == token.ADD && k > 0) || (bo.Op == token.SUB && k < 0) {
				return +1, ph
			}
			if (bo.Op == token.SUB && k > 0) || (bo.Op == token.ADD && k < 0) {
				return -1, ph
			}
		}
		return 0, ph
	}
	// the "$%d" parameter name and the index it is formatted from
	paramIndex := func(v ssa.Value) ssa.Value {
		var idx ssa.Value
		derivesFrom(v, 4, func(x ssa.Value) bool {
			// "$" + strconv.Itoa(i)
			if bo, isB := x.(*ssa.BinOp); isB && bo.Op == token.ADD {
				if pre, isS := constString(bo.X); isS && pre == "$" {
					if it := callValue(strip(bo.Y)); it != nil && (calleeName(&it.Call) == "strconv.Itoa" || calleeName(&it.Call) == "strconv.FormatInt") {
						idx = strip(it.Call.Args[0])
						return true
					}
				}
				return false
			}
			cl, ok := x.(*ssa.Call)
			if !ok || calleeName(&cl.Call) != "fmt.Sprintf" {
				return false
			}
			if f, isS := constString(cl.Call.Args[0]); !isS || f != "$%d" {
				return false
			}
			as := callArgs(&cl.Call)
			if len(as) >= 2 {
				idx = strip(as[len(as)-1])
			}
			return true
		})
		return idx
	}
	// offset: repl is groups[idx+off]
	groupOffset := func(repl ssa.Value, idx ssa.Value) (int64, bool) {
		ld, ok := strip(repl).(*ssa.UnOp)
		if !ok {
			return 0, false
		}
		ia, ok := ld.X.(*ssa.IndexAddr)
		if !ok || strip(ia.X) != ssa.Value(groups) {
			return 0, false
		}
		gi := strip(ia.Index)
		if gi == idx {
			return 0, true
		}
		// idx = gi + k  (name built from the loop index plus one)  ⇒ group offset −k
		if bo, isB := idx.(*ssa.BinOp); isB && strip(bo.X) == gi {
			if k, isK := constInt(bo.Y); isK && bo.Op == token.ADD {
				return -k, true
			}
		}
		if bo, isB := gi.(*ssa.BinOp); isB && strip(bo.X) == idx {
			if k, isK := constInt(bo.Y); isK {
				if bo.Op == token.SUB {
					return -k, true
				}
				if bo.Op == token.ADD {
					return k, true
				}
			}
		}
		return 0, false
	}
	n := 0
	for _, ci := range callsIn(fn, func(nm string, cc *ssa.CallCommon) bool { return nm == "strings.ReplaceAll" || nm == "strings.Replace" }) {
		idx := paramIndex(ci.Common().Args[1])
		if idx == nil {
			continue
		}
		n++
		off, okOff := groupOffset(ci.Common().Args[2], idx)
		c.Check("param-substitution", "$i→groups[i-1]@substituteBackendParams", ci, okOff && off == -1,
			"the parameter $i must be replaced by the text of the i-th wildcard (groups[i-1])")
		dir, _ := direction(idx)
		if dir == 0 {
			// name built from the loop index plus a constant (0-based loop, $i+1)
			if bo, isB := idx.(*ssa.BinOp); isB {
				if _, isK := constInt(bo.Y); isK && (bo.Op == token.ADD || bo.Op == token.SUB) {
					dir, _ = direction(bo.X)
				}
			}
		}
		c.Check("param-substitution", "highest-index-first@substituteBackendParams", ci, dir == -1,
			"parameters are not substituted from the highest index down: replacing $1 first also rewrites the head of $10, $11, … (the tenth and later wildcards never reach the backend address)")
	}
	for _, ci := range callsIn(fn, func(nm string, cc *ssa.CallCommon) bool { return nm == "strings.NewReplacer" }) {
		n++
		// the pair list: appended in a loop; find the append that adds the "$%d" name
		var dir int
		found := false
		eachInstr(fn, func(in ssa.Instruction) {
			cl, ok := in.(*ssa.Call)
			if !ok {
				return
			}
			if b, isB := cl.Call.Value.(*ssa.Builtin); !isB || b.Name() != "append" {
				return
			}
			// elements of the variadic slice
			sl, isSl := strip(cl.Call.Args[1]).(*ssa.Slice)
			if !isSl {
				return
			}
			eachInstr(fn, func(in2 ssa.Instruction) {
				st, isSt := in2.(*ssa.Store)
				if !isSt {
					return
				}
				ia, isIA := st.Addr.(*ssa.IndexAddr)
				if !isIA || ia.X != sl.X {
					return
				}
				if idx := paramIndex(st.Val); idx != nil {
					found = true
					dir, _ = direction(idx)
					if dir == 0 {
						// name built from loop index + 1
						if bo, isB := idx.(*ssa.BinOp); isB {
							dir, _ = direction(bo.X)
						}
					}
				}
			})
		})
		c.Check("param-substitution", "highest-index-first@substituteBackendParams", ci, found && dir == -1,
			"strings.NewReplacer prefers the pair listed first at a position: with $1 listed before $10 the text of the first wildcard plus a literal 0 is substituted for $10")
	}
	if n == 0 {
		c.Undecided("param-substitution", "substituteBackendParams", "neither a ReplaceAll loop over \"$%d\" names nor a Replacer was recognised")
	}
}
