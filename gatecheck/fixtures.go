package main

import (
	"fmt"
	"go/types"
	"os"
	"path/filepath"
	"strings"

	"golang.org/x/tools/go/ssa"
)

// Positive controls. Before a quick check reports, the primitives it relies on are run against
// /verif/fixtures (a tiny stand-alone module with a "good" and a "bad" twin per primitive): the bad
// twin must be reported and the good one must be silent. A failure is printed as SELFTEST-FAIL and
// makes the check exit non-zero — a quiet rule that cannot see its own positive example proves nothing.
// (The per-rule positive controls are the seeded Variants, run by the thorough tier.)

func fixturesDir() string {
	if exe, err := os.Executable(); err == nil {
		p := filepath.Join(filepath.Dir(filepath.Dir(exe)), "fixtures")
		if _, err := os.Stat(filepath.Join(p, "fx.go")); err == nil {
			return p
		}
	}
	return "/verif/fixtures"
}

var fxProg *Program

func loadFixtures() (*Program, error) {
	if fxProg != nil {
		return fxProg, nil
	}
	saved := RepoDir
	RepoDir = fixturesDir()
	defer func() { RepoDir = saved }()
	P, err := Load([]string{"."}, false, nil)
	if err != nil {
		return nil, err
	}
	fxProg = P
	return P, nil
}

func fxFunc(P *Program, name string) *ssa.Function {
	for _, pk := range P.SSA.AllPackages() {
		if pk.Pkg.Path() != "gatecheckfx" {
			continue
		}
		if f := pk.Func(name); f != nil {
			return f
		}
		// methods
		for _, m := range pk.Members {
			if t, ok := m.(*ssa.Type); ok {
				for _, recv := range []interface{ String() string }{t.Type()} {
					_ = recv
				}
				for _, recvT := range []types.Type{t.Type(), types.NewPointer(t.Type())} {
					ms := P.SSA.MethodSets.MethodSet(recvT)
					for i := 0; i < ms.Len(); i++ {
						if f := P.SSA.MethodValue(ms.At(i)); f != nil && f.Name() == name && f.Synthetic == "" {
							return f
						}
					}
				}
			}
		}
	}
	return nil
}

// runFixtures runs the named primitive positive controls (all when names is nil) and returns
// failure descriptions.
func runFixtures(names []string) (fails []string) {
	defer func() {
		if r := recover(); r != nil {
			fails = append(fails, fmt.Sprintf("fixture runner panicked: %v", r))
		}
	}()
	all := map[string]func(P *Program) []string{
		"guardcut":   fxGuardcut,
		"lockset":    fxLockset,
		"reentry":    fxReentry,
		"bounds":     fxBounds,
		"knownbits":  fxKnownBits,
		"bitprov":    fxBitProv,
		"wire":       fxWire,
		"errdisc":    fxErrDisc,
		"provenance": fxProvenance,
		"regex":      fxRegex,
		"table":      fxTable,
		"lockleak":   fxLockLeak,
		"strshape":   fxStrShape,
		"typednil":   fxTypedNil,
		"lockcycle":  fxLockCycle,
	}
	if names == nil {
		for n := range all {
			names = append(names, n)
		}
	}
	P, err := loadFixtures()
	if err != nil {
		return []string{"fixtures do not load: " + err.Error()}
	}
	for _, n := range names {
		f, ok := all[n]
		if !ok {
			fails = append(fails, "unknown fixture "+n)
			continue
		}
		for _, m := range f(P) {
			fails = append(fails, n+": "+m)
		}
	}
	return fails
}

func need(P *Program, names ...string) ([]*ssa.Function, []string) {
	var out []*ssa.Function
	for _, n := range names {
		f := fxFunc(P, n)
		if f == nil {
			return nil, []string{"fixture function " + n + " not found"}
		}
		out = append(out, f)
	}
	return out, nil
}

func fxGuardcut(P *Program) (fails []string) {
	fs, e := need(P, "guardGood", "guardBad")
	if e != nil {
		return e
	}
	for i, f := range fs {
		var site ssa.Instruction
		for _, ci := range callsIn(f, func(nm string, cc *ssa.CallCommon) bool { return strings.HasSuffix(nm, ".sink") }) {
			site = ci
		}
		if site == nil {
			return []string{"sink call not found in " + f.Name()}
		}
		g, n := MustCross(site, func(e Edge, cond ssa.Value, truth bool) bool {
			_, isP := strip(cond).(*ssa.Parameter)
			return isP && truth
		})
		guarded := g && n > 0
		if i == 0 && !guarded {
			fails = append(fails, "MustCross does not see the guard in guardGood")
		}
		if i == 1 && guarded {
			fails = append(fails, "MustCross reports guardBad as guarded")
		}
	}
	return
}

func fxLockset(P *Program) (fails []string) {
	fs, e := need(P, "lockGood", "lockBad")
	if e != nil {
		return e
	}
	for i, f := range fs {
		li := Locks(f, lockState{})
		var held bool
		eachInstr(f, func(in ssa.Instruction) {
			if ld, ok := in.(*ssa.UnOp); ok {
				if fa, isFA := ld.X.(*ssa.FieldAddr); isFA && fieldOfAddr(fa).Name() == "n" {
					held = len(li.At(in)) > 0
				}
			}
		})
		if i == 0 && !held {
			fails = append(fails, "lock set is empty at the guarded read in lockGood")
		}
		if i == 1 && held {
			fails = append(fails, "lock set is non-empty after RUnlock in lockBad")
		}
	}
	return
}

func fxReentry(P *Program) (fails []string) {
	fs, e := need(P, "reentryGood", "reentryBad")
	if e != nil {
		return e
	}
	if r := findReentry(fs[0], lockState{}, 4, nil, map[string]bool{}); len(r) != 0 {
		fails = append(fails, "findReentry reports reentryGood")
	}
	if r := findReentry(fs[1], lockState{}, 4, nil, map[string]bool{}); len(r) == 0 {
		fails = append(fails, "findReentry misses the self-deadlock in reentryBad")
	}
	return
}

func fxBounds(P *Program) (fails []string) {
	fs, e := need(P, "boundsGood", "boundsBad")
	if e != nil {
		return e
	}
	for i, f := range fs {
		var ms *ssa.MakeSlice
		eachInstr(f, func(in ssa.Instruction) {
			if m, ok := in.(*ssa.MakeSlice); ok {
				ms = m
			}
		})
		if ms == nil {
			return []string{"make not found in " + f.Name()}
		}
		core := strip(ms.Len)
		r := RangeAt(ms.Block(), func(v ssa.Value) bool { return strip(v) == core })
		both := r.HasLo() && r.Lo >= 0 && r.HasHi() && r.Hi <= 1024
		if i == 0 && !both {
			fails = append(fails, "RangeAt does not derive [0,1024] in boundsGood: "+r.String())
		}
		if i == 1 && r.HasLo() {
			fails = append(fails, "RangeAt invents a lower bound in boundsBad: "+r.String())
		}
	}
	return
}

func fxKnownBits(P *Program) (fails []string) {
	fs, e := need(P, "bitsGood", "bitsBad")
	if e != nil {
		return e
	}
	if len(bitContradictions(fs[0])) != 0 {
		fails = append(fails, "bitContradictions reports bitsGood")
	}
	if len(bitContradictions(fs[1])) == 0 {
		fails = append(fails, "bitContradictions misses the dead mask in bitsBad")
	}
	return
}

func fxBitProv(P *Program) (fails []string) {
	fs, e := need(P, "sliceGood", "sliceBad")
	if e != nil {
		return e
	}
	for i, f := range fs {
		p := newBitProv()
		var r *ssa.Return
		for _, x := range returnsOf(f) {
			r = x
		}
		v := p.bits(r.Results[0], nil, 12)
		clean := v[15] == (bitSrc{bSrc, f.Params[1], 0})
		if i == 0 && !clean {
			fails = append(fails, "bit 15 of sliceGood is not hi[0]: "+v[15].String())
		}
		if i == 1 && clean {
			fails = append(fails, "bit 15 of sliceBad is reported clean")
		}
	}
	return
}

func fxWire(P *Program) (fails []string) {
	fs, e := need(P, "wireWrite", "wireReadGood", "wireReadBad")
	if e != nil {
		return e
	}
	vt := &VersionTable{ByName: map[string]int64{}}
	auto := func(f *ssa.Function) wAuto {
		w := newWireCtx(P, vt, -1)
		s, e := w.build(f, map[ssa.Value]bool{f.Params[0]: true}, 0)
		return wAuto{w.nfa, s, e}
	}
	w := auto(fs[0])
	if ok, _, _, err := wireIncluded(w, auto(fs[1])); err != nil || !ok {
		fails = append(fails, "wireIncluded rejects the matching reader")
	}
	if ok, _, _, err := wireIncluded(w, auto(fs[2])); err == nil && ok {
		fails = append(fails, "wireIncluded accepts a reader that consumes 2 bytes where 4 are written")
	}
	// a loop over a three-element literal writes exactly three bytes
	ls, e := need(P, "wireWriteLoop3", "wireRead3", "wireRead2")
	if e != nil {
		return append(fails, e...)
	}
	lw := auto(ls[0])
	if ok, wit, _, err := wireIncluded(lw, auto(ls[1])); err != nil || !ok {
		fails = append(fails, fmt.Sprintf("a constant-trip loop of three one-byte writes is not read as exactly three bytes (witness %v)", wit))
	}
	if ok, _, _, err := wireIncluded(lw, auto(ls[2])); err == nil && ok {
		fails = append(fails, "a reader of two bytes is accepted for a loop that writes three")
	}
	return
}

func fxErrDisc(P *Program) (fails []string) {
	fs, e := need(P, "errGood", "errBad")
	if e != nil {
		return e
	}
	sel := func(nm string, cc *ssa.CallCommon) bool { return nm == "io.ReadFull" }
	if d, _ := droppedErrors(fs[0], sel); len(d) != 0 {
		fails = append(fails, "droppedErrors reports errGood")
	}
	if d, _ := droppedErrors(fs[1], sel); len(d) == 0 {
		fails = append(fails, "droppedErrors misses the discarded error in errBad")
	}
	return
}

func fxProvenance(P *Program) (fails []string) {
	fs, e := need(P, "spillNil")
	if e != nil {
		return e
	}
	nNil, nMake := 0, 0
	for _, r := range returnsOf(fs[0]) {
		if r.Block() == fs[0].Recover {
			continue
		}
		v := retVal(r, 0)
		if isNilConst(strip(v)) {
			nNil++
		}
		if cellHolds(v, isMakeSlice) {
			nMake++
		}
	}
	if nNil != 1 || nMake < 1 {
		fails = append(fails, fmt.Sprintf("retVal/cellHolds do not see through the defer-spilled result (nil returns=%d, make returns=%d)", nNil, nMake))
	}
	return
}

func fxRegex(P *Program) (fails []string) {
	if ok, _, err := RegexEquivalent("^[ab]$", "^(a|b)$"); err != nil || !ok {
		fails = append(fails, "RegexEquivalent rejects [ab] ≡ a|b")
	}
	if ok, w, err := RegexEquivalent("^a*$", "^a+$"); err != nil || ok || w != "" {
		fails = append(fails, fmt.Sprintf("RegexEquivalent(a*, a+): equal=%v witness=%q err=%v (expected the empty string as witness)", ok, w, err))
	}
	return
}

func fxLockLeak(P *Program) (fails []string) {
	fs, e := need(P, "leakGood", "leakBad", "leakTryGood")
	if e != nil {
		return e
	}
	if l := lockLeaks(fs[0]); len(l) != 0 {
		fails = append(fails, "lockLeaks reports leakGood")
	}
	if l := lockLeaks(fs[1]); len(l) != 1 {
		fails = append(fails, fmt.Sprintf("lockLeaks finds %d leaks in leakBad (expected the one early return)", len(l)))
	}
	if l := lockLeaks(fs[2]); len(l) != 0 {
		fails = append(fails, "lockLeaks reports the conditional try-lock/defer pair in leakTryGood")
	}
	return
}

func fxTable(P *Program) (fails []string) {
	// idAt replays the documented range semantics
	r := Registration{Mappings: []Mapping{{ID: 1, FromProto: 10}, {ID: 2, FromProto: 20}}}
	if id, ok := r.idAt(19, 30); !ok || id != 1 {
		fails = append(fails, "idAt(19) != 1")
	}
	if id, ok := r.idAt(20, 30); !ok || id != 2 {
		fails = append(fails, "idAt(20) != 2")
	}
	if _, ok := r.idAt(9, 30); ok {
		fails = append(fails, "idAt(9) defined before the first mapping")
	}
	return
}

func fxStrShape(P *Program) (fails []string) {
	fs, e := need(P, "cutGood", "cutBad", "joinBuilder", "joinLiteral", "joinConditional")
	if e != nil {
		return e
	}
	last := func(f *ssa.Function) *ssa.Return {
		var r *ssa.Return
		for _, x := range returnsOf(f) {
			r = x
		}
		return r
	}
	src, steps := strChain(retVal(last(fs[0]), 0), 2)
	if strip(src) != ssa.Value(fs[0].Params[0]) || !hasStep(steps, "cut", "\x00") || !hasStep(steps, "cut", "///") || !hasStep(steps, "trim", ".") {
		fails = append(fails, fmt.Sprintf("cutGood is not read as trim(.)∘cut(///)∘cut(NUL) of its parameter: %v", steps))
	}
	src, steps = strChain(retVal(last(fs[1]), 0), 2)
	if strip(src) == ssa.Value(fs[1].Params[0]) && hasStep(steps, "cut", "\x00") {
		fails = append(fails, "cutBad (keeps part [1]) is read as a prefix cut")
	}
	classify := func(v ssa.Value) string {
		if s, ok := constString(v); ok {
			return fmt.Sprintf("%q", s)
		}
		if p, ok := strip(v).(*ssa.Parameter); ok {
			return p.Name()
		}
		return "?"
	}
	for _, f := range fs[2:4] {
		k, ok := strKinds(retVal(last(f), 0), classify, 3)
		if got := strings.Join(k, " "); !ok || got != `a "\x00" b` {
			fails = append(fails, fmt.Sprintf("%s is not read as a NUL b: %q fixed=%v", f.Name(), got, ok))
		}
	}
	if _, ok := strKinds(retVal(last(fs[4]), 0), classify, 3); ok {
		fails = append(fails, "joinConditional (a conditional write) is read as a fixed sequence")
	}
	return
}

func fxTypedNil(P *Program) (fails []string) {
	fs, e := need(P, "providerBad", "providerGood")
	if e != nil {
		return e
	}
	for i, f := range fs {
		c := newCtx("FX", "quick", P)
		checkNoTypedNil(c, "typed-nil", []*ssa.Function{f}, "gatecheckfx")
		bad := 0
		for _, o := range c.Obl {
			if o.Verdict != "holds" {
				bad++
			}
		}
		if i == 0 && bad == 0 {
			fails = append(fails, "providerBad (returns wrap(n), a possibly-nil *T, as an interface) is not reported")
		}
		if i == 1 && bad != 0 {
			fails = append(fails, "providerGood (nil-checked before the conversion) is reported")
		}
	}
	return
}

func fxLockCycle(P *Program) (fails []string) {
	fs, e := need(P, "cycleEntry", "cycleA", "cycleB", "cycleC")
	if e != nil {
		return e
	}
	lc := NewLockCtx(P, fs)
	var store ssa.Instruction
	eachInstr(fs[3], func(in ssa.Instruction) {
		if st, ok := in.(*ssa.Store); ok {
			store = st
		}
	})
	if store == nil {
		return []string{"cycleC: store not found"}
	}
	held := lc.At(store)
	ok := false
	for p, m := range held {
		if strings.HasSuffix(p, ".mu") && m == 'W' {
			ok = true
		}
	}
	if !ok {
		fails = append(fails, fmt.Sprintf("the lock held by the only external entry of a three-function cycle is not seen inside it (held: %v)", held))
	}
	return
}
