package main

// runFixtures runs the named primitive positive controls (all when names is nil) and returns
// failure descriptions.
func runFixtures(names []string) []string {
	return nil
}
