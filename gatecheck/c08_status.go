package main

import (
	"go/token"
	"strings"

	"golang.org/x/tools/go/ssa"
)

// checkJoinConfirmedBy200: the session server confirms a join with HTTP 200 and the profile. The
// authenticator lets 401 (bad token) and 204 (no such session) through as "not online" results, so the
// value it reports as OnlineMode must be true only on the status == 200 edge — a 401 with a body must
// not count as an authenticated profile.
func checkJoinConfirmedBy200(c *Ctx) {
	fn := c.MustFunc(pkgAuth + ":(*authenticator).AuthenticateJoin")
	if fn == nil {
		return
	}
	c.Analysed(fn)
	is200 := func(e Edge, cond ssa.Value, truth bool) bool {
		bo, ok := cond.(*ssa.BinOp)
		if !ok || !strings.HasSuffix(PathOf(strip(bo.X)), ".StatusCode") {
			return false
		}
		k, isK := constInt(bo.Y)
		return isK && k == 200 && ((bo.Op == token.EQL && truth) || (bo.Op == token.NEQ && !truth))
	}
	var onlyIf200 func(v ssa.Value, at ssa.Instruction, d int) bool
	onlyIf200 = func(v ssa.Value, at ssa.Instruction, d int) bool {
		v = strip(v)
		if b, ok := constBool(v); ok {
			return !b
		}
		if d == 0 {
			return false
		}
		switch x := v.(type) {
		case *ssa.BinOp:
			if x.Op == token.EQL && strings.HasSuffix(PathOf(strip(x.X)), ".StatusCode") {
				k, isK := constInt(x.Y)
				return isK && k == 200
			}
			if x.Op == token.AND { // non-short-circuit & on bools
				return onlyIf200(x.X, at, d-1) || onlyIf200(x.Y, at, d-1)
			}
		case *ssa.Phi:
			for i, e := range x.Edges {
				if b, ok := constBool(strip(e)); ok && !b {
					continue
				}
				if phiEdgeGuarded(x, i, is200) {
					continue
				}
				if !onlyIf200(e, at, d-1) {
					return false
				}
			}
			return true
		}
		// the use site itself lies behind status == 200
		if at != nil {
			g, n := MustCross(at, is200)
			return g && n > 0
		}
		return false
	}
	n := 0
	eachInstr(fn, func(in ssa.Instruction) {
		st, ok := in.(*ssa.Store)
		if !ok {
			return
		}
		fa, isFA := st.Addr.(*ssa.FieldAddr)
		if !isFA || fieldOfAddr(fa).Name() != "onlineMode" {
			return
		}
		n++
		c.Check("join-confirmed", "onlineMode-only-if-status-200@AuthenticateJoin", st, onlyIf200(st.Val, st, 4),
			"the authenticator reports an authenticated (online-mode) result although the session server did not answer 200: a 401/204 reply that carries a body would be accepted as the player's verified profile")
	})
	if n == 0 {
		c.Undecided("join-confirmed", "AuthenticateJoin", "the result's onlineMode field is never set")
	}
}
