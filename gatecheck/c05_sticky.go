package main

import (
	"golang.org/x/tools/go/ssa"
)

// stickyBailouts: work-list decoders ("keep passing over the queue until it is empty; give up when a
// pass made no progress") hang on crafted input if the no-progress test can stop firing. The
// structural slip: the progress flag lives across iterations (a phi at the loop header) and is only
// ever set to true inside the loop — after the first productive pass the bail-out `if !flag { return }`
// is dead, and an input whose remaining items can never be processed spins forever. Reported: a
// conditional exit of a loop whose condition is such a sticky flag.
func stickyBailouts(fn *ssa.Function) []ssa.Instruction {
	var out []ssa.Instruction
	for _, h := range fn.Blocks {
		// natural loop of h
		body := map[*ssa.BasicBlock]bool{}
		for _, p := range h.Preds {
			if !h.Dominates(p) {
				continue
			}
			body[h] = true
			stack := []*ssa.BasicBlock{p}
			for len(stack) > 0 {
				b := stack[len(stack)-1]
				stack = stack[:len(stack)-1]
				if body[b] {
					continue
				}
				body[b] = true
				stack = append(stack, b.Preds...)
			}
		}
		if len(body) == 0 {
			continue
		}
		// boolean phis at the header that carry a flag around the loop
		for _, in := range h.Instrs {
			ph, ok := in.(*ssa.Phi)
			if !ok {
				break
			}
			if ph.Type().Underlying().String() != "bool" {
				continue
			}
			// sticky: every value arriving over a back edge is the flag itself or true (possibly merged)
			sticky := true
			hasBack := false
			for i, e := range ph.Edges {
				if !body[h.Preds[i]] {
					continue // loop entry
				}
				hasBack = true
				if !onlySelfOrTrue(e, ph, body, map[ssa.Value]bool{}) {
					sticky = false
				}
			}
			if !sticky || !hasBack {
				continue
			}
			// is the flag (or a merge of it) the condition of an exit from the loop taken when it is false?
			for b := range body {
				iff, ok := lastInstr(b).(*ssa.If)
				if !ok {
					continue
				}
				for s, succ := range b.Succs {
					if body[succ] {
						continue
					}
					cond, truth := Edge{b, s}.Cond()
					if !truth && flagDerived(cond, ph, body, map[ssa.Value]bool{}) {
						out = append(out, iff)
					}
				}
			}
		}
	}
	return out
}

func onlySelfOrTrue(v ssa.Value, flag *ssa.Phi, body map[*ssa.BasicBlock]bool, seen map[ssa.Value]bool) bool {
	if seen[v] {
		return true
	}
	seen[v] = true
	if v == ssa.Value(flag) {
		return true
	}
	if b, ok := constBool(v); ok {
		return b
	}
	if ph, ok := v.(*ssa.Phi); ok && body[ph.Block()] {
		for _, e := range ph.Edges {
			if !onlySelfOrTrue(e, flag, body, seen) {
				return false
			}
		}
		return true
	}
	return false
}

func flagDerived(v ssa.Value, flag *ssa.Phi, body map[*ssa.BasicBlock]bool, seen map[ssa.Value]bool) bool {
	if v == nil {
		return false
	}
	if seen[v] {
		return true // a cycle through inner-loop phis adds nothing new
	}
	seen[v] = true
	if v == ssa.Value(flag) {
		return true
	}
	if ph, ok := v.(*ssa.Phi); ok && body[ph.Block()] {
		// a merge of the flag with `true` assignments made during this pass
		all := true
		for _, e := range ph.Edges {
			if b, isC := constBool(e); isC && b {
				continue
			}
			if !flagDerived(e, flag, body, seen) {
				all = false
			}
		}
		return all
	}
	return false
}
