package main

import (
	"go/token"
	"go/types"
	"strings"

	"golang.org/x/tools/go/ssa"
)

// String shapes. Two small evaluators over string-valued SSA values that read *what a string is made
// of*, whatever the spelling: a chain of prefix cuts / trims / case folds back to its source
// (strChain), and the sequence of concatenated parts (strKinds). Both see through helpers of the module
// (parameters read as the call's arguments, activeSubst) so `firstPart(name, sep)`,
// `strings.Split(name, sep)[0]`, `strings.SplitN(name, sep, 2)[0]` and `before, _, _ := strings.Cut(...)`
// are one operation, and a strings.Builder, a `+` chain and `strings.Join([]string{...}, sep)` are one
// concatenation.

type strStep struct {
	Kind string // "cut" (keep the part before the first Arg), "trim", "trimleft", "trimright", "trimprefix", "trimsuffix", "lower", "upper"
	Arg  string
}

// withBinding runs f with callee's parameters bound to args (on top of the active binding).
func withBinding(callee *ssa.Function, args []ssa.Value, f func()) {
	saved := activeSubst
	merged := map[*ssa.Parameter]ssa.Value{}
	for k, v := range saved {
		merged[k] = v
	}
	for i, p := range callee.Params {
		if i < len(args) {
			// resolve the argument in the caller's binding now: the callee's binding must not capture it
			merged[p] = args[i]
		}
	}
	activeSubst = merged
	defer func() { activeSubst = saved }()
	f()
}

func moduleHelperWithBody(cc *ssa.CallCommon) *ssa.Function {
	if cc == nil || cc.IsInvoke() {
		return nil
	}
	g := staticCallee(cc)
	if g == nil || g.Blocks == nil || !(strings.HasPrefix(fnPkgPath(g), Mod) || strings.HasPrefix(fnPkgPath(g), "gatecheckfx")) {
		return nil
	}
	return g
}

func successReturns(g *ssa.Function) []*ssa.Return {
	var out []*ssa.Return
	for _, r := range returnsOf(g) {
		if r.Block() != g.Recover {
			out = append(out, r)
		}
	}
	return out
}

// strChain follows v backward through cuts, trims and case folds. The steps are listed outermost
// first (the last operation applied comes first). src is the value the chain starts from, resolved
// in the binding that was active when strChain was called.
func strChain(v ssa.Value, depth int) (ssa.Value, []strStep) {
	var steps []strStep
	for i := 0; i < 24; i++ {
		v = strip(v)
		switch x := v.(type) {
		case *ssa.UnOp:
			// strings.Split(s, sep)[0] / strings.SplitN(s, sep, n)[0]
			if x.Op != token.MUL {
				return v, steps
			}
			ia, ok := x.X.(*ssa.IndexAddr)
			if !ok {
				return v, steps
			}
			k, isK := constInt(ia.Index)
			cl := callValue(ia.X)
			if !isK || k != 0 || cl == nil {
				return v, steps
			}
			n := calleeName(&cl.Call)
			sep, isS := constString(cl.Call.Args[1])
			if !isS || (n != "strings.Split" && n != "strings.SplitN") {
				return v, steps
			}
			if n == "strings.SplitN" {
				if lim, isL := constInt(cl.Call.Args[2]); isL && lim == 1 {
					v = cl.Call.Args[0] // SplitN(s, sep, 1)[0] == s
					continue
				}
			}
			steps = append(steps, strStep{"cut", sep})
			v = cl.Call.Args[0]
		case *ssa.Extract:
			cl, ok := x.Tuple.(*ssa.Call)
			if !ok {
				return v, steps
			}
			if calleeName(&cl.Call) == "strings.Cut" && x.Index == 0 {
				sep, isS := constString(cl.Call.Args[1])
				if !isS {
					return v, steps
				}
				steps = append(steps, strStep{"cut", sep})
				v = cl.Call.Args[0]
				continue
			}
			if g := moduleHelperWithBody(&cl.Call); g != nil && depth > 0 {
				src, st, ok := chainThroughHelper(g, cl.Call.Args, x.Index, depth-1)
				if !ok {
					return v, steps
				}
				steps = append(steps, st...)
				v = src
				continue
			}
			return v, steps
		case *ssa.Call:
			n := calleeName(&x.Call)
			kind := map[string]string{"strings.Trim": "trim", "strings.TrimLeft": "trimleft", "strings.TrimRight": "trimright",
				"strings.TrimPrefix": "trimprefix", "strings.TrimSuffix": "trimsuffix"}[n]
			if kind != "" {
				a, isS := constString(x.Call.Args[1])
				if !isS {
					return v, steps
				}
				steps = append(steps, strStep{kind, a})
				v = x.Call.Args[0]
				continue
			}
			if n == "strings.ToLower" || n == "strings.ToUpper" {
				steps = append(steps, strStep{map[string]string{"strings.ToLower": "lower", "strings.ToUpper": "upper"}[n], ""})
				v = x.Call.Args[0]
				continue
			}
			if n == "strings.TrimSpace" {
				steps = append(steps, strStep{"trimspace", ""})
				v = x.Call.Args[0]
				continue
			}
			if g := moduleHelperWithBody(&x.Call); g != nil && depth > 0 && g.Signature.Results().Len() == 1 {
				src, st, ok := chainThroughHelper(g, x.Call.Args, 0, depth-1)
				if !ok {
					return v, steps
				}
				steps = append(steps, st...)
				v = src
				continue
			}
			return v, steps
		default:
			return v, steps
		}
	}
	return v, steps
}

// chainThroughHelper: every return of g yields result #idx by the same chain from the same source.
func chainThroughHelper(g *ssa.Function, args []ssa.Value, idx int, depth int) (ssa.Value, []strStep, bool) {
	if bt, ok := g.Signature.Results().At(idx).Type().Underlying().(*types.Basic); !ok || bt.Info()&types.IsString == 0 {
		return nil, nil, false
	}
	var src ssa.Value
	var steps []strStep
	first, same := true, true
	// resolve the arguments in the caller's binding before the callee's binding hides it
	res := make([]ssa.Value, len(args))
	for i, a := range args {
		res[i] = strip(a)
	}
	withBinding(g, res, func() {
		for _, r := range successReturns(g) {
			if idx >= len(r.Results) {
				same = false
				return
			}
			s, st := strChain(retVal(r, idx), depth)
			s = strip(s)
			if first {
				src, steps, first = s, st, false
				continue
			}
			if s != src || len(st) != len(steps) {
				same = false
				return
			}
			for i := range st {
				if st[i] != steps[i] {
					same = false
				}
			}
		}
	})
	if first || !same {
		return nil, nil, false
	}
	return src, steps, true
}

func hasStep(steps []strStep, kind, arg string) bool {
	for _, s := range steps {
		if s.Kind == kind && s.Arg == arg {
			return true
		}
	}
	return false
}

// sliceLiteralElems: the elements of a `[]T{e0, e1, ...}` literal (an array alloc, one store per
// index, sliced whole). nil if v is not such a literal or an index is missing / stored twice.
func sliceLiteralElems(v ssa.Value) []ssa.Value {
	sl, ok := strip(v).(*ssa.Slice)
	if !ok || sl.Low != nil || sl.High != nil {
		return nil
	}
	arr, ok := sl.X.(*ssa.Alloc)
	if !ok {
		return nil
	}
	pt, ok := arr.Type().Underlying().(*types.Pointer)
	if !ok {
		return nil
	}
	at, ok := pt.Elem().Underlying().(*types.Array)
	if !ok {
		return nil
	}
	elems := make([]ssa.Value, at.Len())
	for _, r := range *arr.Referrers() {
		ia, ok := r.(*ssa.IndexAddr)
		if !ok {
			continue
		}
		k, isK := constInt(ia.Index)
		if !isK || k < 0 || k >= at.Len() || ia.Referrers() == nil {
			return nil
		}
		for _, rr := range *ia.Referrers() {
			if st, ok := rr.(*ssa.Store); ok && st.Addr == ssa.Value(ia) {
				if elems[k] != nil {
					return nil
				}
				elems[k] = st.Val
			}
		}
	}
	for _, e := range elems {
		if e == nil {
			return nil
		}
	}
	return elems
}

// strKinds: the concatenated parts of the string v, each classified by classify (called while the
// binding of the function the part is written in is active). ok=false when the shape is not a fixed
// sequence (a conditional write, differing alternatives).
func strKinds(v ssa.Value, classify func(ssa.Value) string, depth int) ([]string, bool) {
	v = strip(v)
	switch x := v.(type) {
	case *ssa.Const:
		if s, isS := constString(x); isS && s == "" {
			return nil, true
		}
		return []string{classify(x)}, true
	case *ssa.BinOp:
		if x.Op == token.ADD {
			l, ok1 := strKinds(x.X, classify, depth)
			r, ok2 := strKinds(x.Y, classify, depth)
			return append(append([]string{}, l...), r...), ok1 && ok2
		}
	case *ssa.Phi:
		var first []string
		for i, e := range x.Edges {
			k, ok := strKinds(e, classify, depth)
			if !ok {
				return nil, false
			}
			if i == 0 {
				first = k
			} else if strings.Join(k, "\x01") != strings.Join(first, "\x01") {
				return nil, false
			}
		}
		return first, true
	case *ssa.Extract:
		if cl, ok := x.Tuple.(*ssa.Call); ok {
			if g := moduleHelperWithBody(&cl.Call); g != nil && depth > 0 {
				return kindsThroughHelper(g, cl.Call.Args, x.Index, classify, depth-1)
			}
		}
	case *ssa.Call:
		n := calleeName(&x.Call)
		switch n {
		case "(*strings.Builder).String":
			b := strip(x.Call.Args[0])
			fn := x.Parent()
			var writes []ssa.CallInstruction
			okAll := true
			eachInstr(fn, func(in ssa.Instruction) {
				ci, isC := in.(ssa.CallInstruction)
				if !isC {
					return
				}
				m := calleeName(ci.Common())
				if !strings.HasPrefix(m, "(*strings.Builder).Write") || strip(ci.Common().Args[0]) != b {
					return
				}
				if m != "(*strings.Builder).WriteString" || !domBefore(ci, x) {
					okAll = false // a conditional or non-string write: not a fixed sequence
				}
				writes = append(writes, ci)
			})
			for i := 0; i < len(writes); i++ {
				for j := i + 1; j < len(writes); j++ {
					if domBefore(writes[j], writes[i]) {
						writes[i], writes[j] = writes[j], writes[i]
					}
				}
			}
			for i := 0; i+1 < len(writes); i++ {
				if !domBefore(writes[i], writes[i+1]) {
					okAll = false
				}
			}
			var out []string
			for _, w := range writes {
				k, ok := strKinds(w.Common().Args[1], classify, depth)
				if !ok {
					okAll = false
				}
				out = append(out, k...)
			}
			return out, okAll
		case "strings.Join":
			elems := sliceLiteralElems(x.Call.Args[0])
			if elems == nil {
				return nil, false
			}
			var out []string
			okAll := true
			for i, e := range elems {
				if i > 0 {
					k, ok := strKinds(x.Call.Args[1], classify, depth)
					out, okAll = append(out, k...), okAll && ok
				}
				k, ok := strKinds(e, classify, depth)
				out, okAll = append(out, k...), okAll && ok
			}
			return out, okAll
		}
		if g := moduleHelperWithBody(&x.Call); g != nil && depth > 0 && g.Signature.Results().Len() == 1 {
			// only helpers that build the string: a helper that merely yields one part is a leaf
			if k, ok := kindsThroughHelper(g, x.Call.Args, 0, classify, depth-1); ok && len(k) > 1 {
				return k, true
			}
		}
	}
	return []string{classify(v)}, true
}

func kindsThroughHelper(g *ssa.Function, args []ssa.Value, idx int, classify func(ssa.Value) string, depth int) ([]string, bool) {
	res := make([]ssa.Value, len(args))
	for i, a := range args {
		res[i] = strip(a)
	}
	var first []string
	n, okAll := 0, true
	withBinding(g, res, func() {
		for _, r := range successReturns(g) {
			if idx >= len(r.Results) {
				okAll = false
				return
			}
			k, ok := strKinds(retVal(r, idx), classify, depth)
			if !ok {
				okAll = false
				return
			}
			if n == 0 {
				first = k
			} else if strings.Join(k, "\x01") != strings.Join(first, "\x01") {
				okAll = false
			}
			n++
		}
	})
	return first, okAll && n > 0
}
