package main

import (
	"strings"

	"golang.org/x/tools/go/ssa"
)

// boundParts returns root followed by the unexported same-package helpers it calls (to depth), and
// binds — until restore is called — the parameters of every helper that has exactly one call site to
// that call's arguments. Rules written against root's own values (parameters, access paths, calls) then
// read a block that was extracted into a helper as if it were still in place.
func boundParts(root *ssa.Function, depth int) (parts []*ssa.Function, restore func()) {
	parts = deepFuncs(root, depth)
	saved := activeSubst
	bind := map[*ssa.Parameter]ssa.Value{}
	for k, v := range saved {
		bind[k] = v
	}
	for _, f := range parts {
		if f == root || f.Parent() != nil {
			continue
		}
		if sites := staticCallersOf(f); len(sites) == 1 {
			for i, p := range f.Params {
				if i < len(sites[0].Common().Args) {
					bind[p] = sites[0].Common().Args[i]
				}
			}
		}
	}
	activeSubst = bind
	return parts, func() { activeSubst = saved }
}

// liftTo maps an instruction of a helper to the call instruction in root through which it runs (its
// single call site, transitively); an instruction of root (or of one of root's closures) is returned
// unchanged. nil when the helper has several call sites or is not reached from root.
func liftTo(root *ssa.Function, in ssa.Instruction) ssa.Instruction {
	for i := 0; i < 6 && in != nil; i++ {
		f := in.Parent()
		for g := f; g != nil; g = g.Parent() {
			if g == root {
				return in
			}
		}
		top := f
		for top.Parent() != nil {
			top = top.Parent()
		}
		sites := staticCallersOf(top)
		if len(sites) != 1 {
			return nil
		}
		in = sites[0]
	}
	return nil
}

// domBeforeIn / flowsToIn: ordering of two instructions that may sit in different helpers of root.
func domBeforeIn(root *ssa.Function, a, b ssa.Instruction) bool {
	if a == nil || b == nil {
		return false
	}
	if a.Parent() == b.Parent() {
		return domBefore(a, b)
	}
	la, lb := liftTo(root, a), liftTo(root, b)
	if la == nil || lb == nil || la.Parent() != lb.Parent() {
		return false
	}
	if la == lb {
		return false
	}
	return domBefore(la, lb)
}

func flowsToIn(root *ssa.Function, a, b ssa.Instruction) bool {
	if a == nil || b == nil {
		return false
	}
	if a.Parent() == b.Parent() {
		return flowsTo(a, b)
	}
	la, lb := liftTo(root, a), liftTo(root, b)
	if la == nil || lb == nil || la.Parent() != lb.Parent() || la == lb {
		return false
	}
	return flowsTo(la, lb)
}

// pathThroughFreeVars: PathOf(v), with a leading captured variable replaced by the access path of the
// value the enclosing function bound to it (`player := b.serverConn.player; func() { player.X }` reads
// as b.serverConn.player.X).
func pathThroughFreeVars(v ssa.Value, fn *ssa.Function) string {
	p := PathOf(v)
	for depth := 0; depth < 4 && fn != nil && fn.Parent() != nil; depth++ {
		replaced := false
		for i, fv := range fn.FreeVars {
			name := fv.Name()
			if p != name && !strings.HasPrefix(p, name+".") {
				continue
			}
			eachInstr(fn.Parent(), func(in ssa.Instruction) {
				mc, ok := in.(*ssa.MakeClosure)
				if !ok || mc.Fn != ssa.Value(fn) || i >= len(mc.Bindings) || replaced {
					return
				}
				b := mc.Bindings[i]
				// a captured variable that is assigned once: the cell's single store
				if al, isAl := b.(*ssa.Alloc); isAl {
					if sv := singleStore(al); sv != nil {
						b = sv
					}
				}
				p = PathOf(b) + p[len(name):]
				replaced = true
			})
			if replaced {
				break
			}
		}
		if !replaced {
			break
		}
		fn = fn.Parent()
	}
	return p
}
