package main

import (
	"fmt"
	"go/token"
	"strings"

	"golang.org/x/tools/go/ssa"
)

const pkgFuture = "pkg/internal/future"

func init() {
	register(&propDef{
		ID:       "C42",
		Title:    "Futures complete once and run every callback exactly once",
		Patterns: []string{"./pkg/internal/future"},
		Run:      runC42,
		Rule: "on the generic body of Future[T]: fields value/callback/completed are accessed under mu (P4); in Complete the value store, the completed=true store and the " +
			"callback loop are dominated by the !completed edge and lie in one critical section, and each registered callback is called with the completing value; " +
			"in ThenAccept the immediate call (with the stored value) and the append are on opposite edges of `completed`; ThenCompose completes its result only from the inner future's callback.",
		Explanation: "Decides: first-completion-wins, callbacks run at most once at completion and exactly once when registered after completion, registration and completion are " +
			"mutually exclusive (same mutex), composition order by construction. Does not decide: chain order across goroutines beyond what the single mutex and the nesting give.",
		Fixtures: []string{"lockset", "guardcut"},
		Variants: []Variant{
			{Name: "complete-twice", File: pkgFuture + "/future.go",
				Old: "\tif f.completed {\n\t\treturn f\n\t}\n", New: "", Expect: "complete-once"},
			{Name: "accept-unlocked", File: pkgFuture + "/future.go",
				Old:    "func (f *Future[T]) ThenAccept(callback func(T)) *Future[T] {\n\tf.mu.Lock()\n\tdefer f.mu.Unlock()\n",
				New:    "func (f *Future[T]) ThenAccept(callback func(T)) *Future[T] {\n",
				Expect: "guarded:Future."},
			{Name: "accept-call-and-append", File: pkgFuture + "/future.go",
				Old:    "\t\tcallback(f.value)\n\t} else {\n\t\t// Append the new callback to the slice of callbacks\n\t\tf.callback = append(f.callback, callback)\n\t}",
				New:    "\t\tcallback(f.value)\n\t}\n\tf.callback = append(f.callback, callback)\n",
				Expect: "accept-exclusive"},
			{Name: "forget-completed-flag", File: pkgFuture + "/future.go",
				Old: "\tf.completed = true\n", New: "", Expect: "complete-sets-flag"},
			{Name: "compose-completes-early", File: pkgFuture + "/future.go",
				Old:    "\t\tcallback(value).ThenAccept(func(value U) {\n\t\t\tout.Complete(value)\n\t\t})",
				New:    "\t\tvar zero U\n\t\tout.Complete(zero)\n\t\tcallback(value).ThenAccept(func(value U) {\n\t\t\tout.Complete(value)\n\t\t})",
				Expect: "compose-"},
		},
	})
}

func runC42(c *Ctx) {
	// generic bodies only (instantiations duplicate them)
	var scope []*ssa.Function
	for _, fn := range c.P.Funcs(Mod + "/" + pkgFuture) {
		if len(fn.TypeArgs()) == 0 {
			scope = append(scope, fn)
		}
	}
	lc := NewLockCtx(c.P, scope)
	checkGuarded(c, lc, scope, GuardSpec{Type: pkgFuture + ":Future", Mutex: "mu", Fields: []string{"*"}})
	c.Floor("guarded", 7)

	completedF := c.P.FieldVarLike(pkgFuture+":Future", "completed", "bool")
	valueF := c.P.FieldVar(pkgFuture+":Future", "value")
	cbF := c.P.FieldVarLike(pkgFuture+":Future", "callback", "[]func(")
	cbName := "callback"
	if cbF != nil {
		cbName = cbF.Name()
	}
	isFieldLoad := func(v ssa.Value, fv interface{}) bool {
		ld, ok := v.(*ssa.UnOp)
		if !ok || ld.Op != token.MUL {
			return false
		}
		fa, ok := ld.X.(*ssa.FieldAddr)
		if !ok {
			return false
		}
		switch fv {
		case "completed":
			return sameField(fieldOfAddr(fa), completedF)
		case "value":
			return sameField(fieldOfAddr(fa), valueF)
		case "callback":
			return sameField(fieldOfAddr(fa), cbF)
		}
		return false
	}
	completedEdge := func(want bool) EdgePred {
		return func(e Edge, cond ssa.Value, truth bool) bool { return isFieldLoad(cond, "completed") && truth == want }
	}
	storeTo := func(in ssa.Instruction, which string) (*ssa.Store, bool) {
		st, ok := in.(*ssa.Store)
		if !ok {
			return nil, false
		}
		fa, ok := st.Addr.(*ssa.FieldAddr)
		if !ok {
			return nil, false
		}
		f := fieldOfAddr(fa)
		switch which {
		case "completed":
			return st, sameField(f, completedF)
		case "value":
			return st, sameField(f, valueF)
		case "callback":
			return st, sameField(f, cbF)
		}
		return nil, false
	}

	if cp := c.P.Func(pkgFuture + ":(*Future).Complete"); cp == nil {
		// generic method names print with type params
		for _, fn := range scope {
			if fn.Name() == "Complete" {
				cp = fn
			}
		}
		runC42Complete(c, cp, completedEdge, storeTo, isFieldLoad)
	} else {
		runC42Complete(c, cp, completedEdge, storeTo, isFieldLoad)
	}
	var ta, tc *ssa.Function
	for _, fn := range scope {
		switch fn.Name() {
		case "ThenAccept":
			ta = fn
		case "ThenCompose":
			tc = fn
		}
	}
	if ta == nil {
		c.Undecided("anchor", "Future.ThenAccept", "not found")
	} else {
		c.Analysed(ta)
		var imm, app ssa.Instruction
		taParts, taRestore := boundParts(ta, 1)
		defer taRestore()
		for _, part := range taParts {
			c.Analysed(part)
			eachInstr(part, func(in ssa.Instruction) {
				if cc := callOf(in); cc != nil {
					if _, isP := cc.Value.(*ssa.Parameter); isP && strip(cc.Value) == ssa.Value(ta.Params[1]) {
						imm = in
					}
				}
				if st, ok := storeTo(in, "callback"); ok {
					app = st
				}
			})
		}
		ok := imm != nil && app != nil
		detail := "ThenAccept must call the callback immediately (completed) or append it (not completed), never both or neither"
		if ok {
			g1, n1 := MustCross(imm, completedEdge(true))
			g2, n2 := MustCross(app, completedEdge(false))
			ok = g1 && g2 && n1 > 0 && n2 > 0
			// appended value is the parameter
			if ok {
				ok = derivesFrom(app.(*ssa.Store).Val, 6, func(v ssa.Value) bool { return v == ta.Params[1] })
			}
			// immediate call gets the stored value
			if ok && !isFieldLoad(strip(imm.(ssa.CallInstruction).Common().Args[0]), "value") {
				ok, detail = false, "a callback registered after completion must receive the completed value"
			}
		}
		c.CheckAt("accept-exclusive", "call-xor-append@ThenAccept", c.P.Pos(ta.Pos()), ok, detail)
		checkRegisterDecidedUnderLock(c, lc, ta, cbName)
	}
	if tc == nil {
		c.Undecided("anchor", "future.ThenCompose", "not found")
	} else {
		c.Analysed(tc)
		// out.Complete is only called from the innermost closure (the inner future's callback) with its parameter
		n, okAll := 0, true
		for _, fn := range Closures(tc) {
			for _, ci := range callsIn(fn, func(nm string, cc *ssa.CallCommon) bool { return methodName(cc) == "Complete" }) {
				n++
				depth := 0
				for p := fn; p.Parent() != nil; p = p.Parent() {
					depth++
				}
				args := ci.Common().Args
				// the completing closure is a one-argument callback that passes its argument on, and it is
				// not the closure registered on f itself (that one only sees f's value, not the inner one)
				registeredOnF := false
				if fn.Parent() != nil {
					eachInstr(fn.Parent(), func(x ssa.Instruction) {
						rc := callOf(x)
						if rc == nil || methodName(rc) != "ThenAccept" || len(rc.Args) < 2 {
							return
						}
						if mc, isMC := rc.Args[len(rc.Args)-1].(*ssa.MakeClosure); isMC && mc.Fn == ssa.Value(fn) && strip(rc.Args[0]) == ssa.Value(tc.Params[0]) {
							registeredOnF = true
						}
					})
				}
				good := depth >= 1 && !registeredOnF && len(fn.Params) == 1 && args[len(args)-1] == fn.Params[0]
				if !good {
					okAll = false
				}
				c.Check("compose-completes-from-inner", fmt.Sprintf("Complete@%s", shortName(fn)), ci, good,
					"the composed future must be completed only by the inner future's callback, with the inner value (chain order)")
			}
		}
		if n == 0 {
			c.Undecided("compose-completes-from-inner", "ThenCompose", "no Complete call found")
		}
		_ = okAll
		// the outer registration is on f, the inner on callback(value)
		regs := 0
		for _, fn := range Closures(tc) {
			for _, ci := range callsIn(fn, func(nm string, cc *ssa.CallCommon) bool { return methodName(cc) == "ThenAccept" }) {
				regs++
				_ = ci
			}
		}
		c.CheckAt("compose-registers", "ThenAccept×2@ThenCompose", c.P.Pos(tc.Pos()), regs == 2, fmt.Sprintf("expected exactly two ThenAccept registrations (outer on f, inner on callback(value)), found %d", regs))
	}
	_ = strings.Contains
}

func runC42Complete(c *Ctx, cp *ssa.Function, completedEdge func(bool) EdgePred,
	storeTo func(ssa.Instruction, string) (*ssa.Store, bool), isFieldLoad func(ssa.Value, interface{}) bool) {
	if cp == nil {
		c.Undecided("anchor", "Future.Complete", "not found")
		return
	}
	c.Analysed(cp)
	var valSt, flagSt *ssa.Store
	var cbCalls []ssa.Instruction
	// Complete and the helper its body may have moved into (completeLocked(value)), parameters bound
	cpParts, cpRestore := boundParts(cp, 1)
	defer cpRestore()
	eachCP := func(f func(ssa.Instruction)) {
		for _, part := range cpParts {
			c.Analysed(part)
			eachInstr(part, f)
		}
	}
	eachCP(func(in ssa.Instruction) {
		if st, ok := storeTo(in, "value"); ok {
			valSt = st
		}
		if st, ok := storeTo(in, "completed"); ok {
			flagSt = st
		}
		if cc := callOf(in); cc != nil {
			if _, isB := cc.Value.(*ssa.Builtin); isB || cc.IsInvoke() || staticCallee(cc) != nil {
				return
			}
			// dynamic call of a function value taken from f.callback
			if derivesFrom(cc.Value, 6, func(v ssa.Value) bool { return isFieldLoad(v, "callback") }) {
				cbCalls = append(cbCalls, in)
			}
		}
	})
	for _, x := range []struct {
		name string
		in   ssa.Instruction
	}{{"value-store", valSt}, {"flag-store", flagSt}} {
		if x.in == nil || (x.name == "value-store" && valSt == nil) || (x.name == "flag-store" && flagSt == nil) {
			c.CheckAt("complete-sets-flag", x.name+"@Complete", c.P.Pos(cp.Pos()), false, "Complete must store the value and set completed=true")
			continue
		}
		g, n := MustCross(x.in, completedEdge(false))
		c.Check("complete-once", x.name+"@Complete", x.in, g && n > 0, "a second Complete must not overwrite the value (must be dominated by !completed)")
	}
	if flagSt != nil {
		v, ok := constBool(flagSt.Val)
		c.Check("complete-sets-flag", "completed=true@Complete", flagSt, ok && v, "Complete must set completed to true")
		// on every path from the value store to exit the flag is set
		if valSt != nil {
			miss := false
			if valSt.Parent() == flagSt.Parent() {
				miss, _ = MayReachExitWithout(valSt, func(in ssa.Instruction) bool { return in == flagSt })
			} else {
				miss = true
			}
			c.Check("complete-sets-flag", "flag-on-every-path@Complete", flagSt, !miss, "a path stores the value without setting completed (callbacks registered later would never run)")
		}
	}
	// the decision "not completed yet" and the stores that make it completed are one critical section:
	// if the mutex is released in between (value stored, callbacks run unlocked, flag set afterwards), a
	// ThenAccept in that window registers on a list that was already drained (runs 0 times) and a second
	// Complete still sees !completed and overwrites the value.
	if valSt != nil && flagSt != nil {
		var tests []ssa.Instruction
		for _, e := range IfEdges(cp) {
			cond, truth := e.Cond()
			if completedEdge(false)(e, cond, truth) {
				tests = append(tests, lastInstr(e.From))
			}
		}
		isTest := func(x ssa.Instruction) bool {
			for _, t := range tests {
				if t == x {
					return true
				}
			}
			return false
		}
		isMuOp := func(x ssa.Instruction) bool {
			if _, isDefer := x.(*ssa.Defer); isDefer {
				return false
			}
			if cc := callOf(x); cc != nil {
				if _, k, ok := lockOp(cc); ok && (k == "Unlock" || k == "Lock" || k == "RUnlock" || k == "RLock") {
					return true
				}
			}
			return false
		}
		ms := NewMustSince(cp, isTest, isMuOp)
		atomicOK := len(tests) > 0
		for _, st := range []*ssa.Store{flagSt, valSt} {
			at := liftTo(cp, st)
			if at == nil || !ms.At(at) {
				atomicOK = false
			}
			if st.Parent() != cp {
				// inside a helper: it must not touch the mutex itself
				eachInstr(st.Parent(), func(x ssa.Instruction) {
					if isMuOp(x) {
						atomicOK = false
					}
				})
			}
		}
		c.Check("complete-atomic", "test-and-set-one-section@Complete", flagSt, atomicOK,
			"the mutex is released between testing !completed and storing the value / setting completed=true: a ThenAccept or a second Complete in that window sees a future that has a value but is not completed (callback lost, or value overwritten)")
	}
	if len(cbCalls) == 0 {
		c.Undecided("complete-once", "callback-loop@Complete", "no call of registered callbacks found")
	}
	for _, cb := range cbCalls {
		g, n := MustCross(cb, completedEdge(false))
		c.Check("complete-once", "callback-loop@Complete", cb, g && n > 0, "callbacks must run only on the first completion")
		args := cb.(ssa.CallInstruction).Common().Args
		okArg := len(args) == 1 && (strip(args[0]) == ssa.Value(cp.Params[1]) || isFieldLoad(strip(args[0]), "value"))
		c.Check("complete-value", "callback-arg@Complete", cb, okArg, "callbacks must receive the completing value")
	}
}
