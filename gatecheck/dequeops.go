package main

import (
	"strings"

	"golang.org/x/tools/go/ssa"
)

// Operations on a queue field, seen through helpers. A call `popAll(&h.mu.pluginMessages)` or
// `h.clearLocked()` performs deque operations on the field just as a direct method call does; for
// locking, ordering and FIFO rules the operation is attributed to the call instruction in the
// function under analysis.

type dequeOp struct {
	At     ssa.Instruction // instruction in the analysed function (the direct call or the call of the helper)
	Method string          // PushBack, PopFront, Len, Clear, …
	Inner  *ssa.Call       // the actual deque method call (== At for direct calls)
}

// dequeOpsIn lists the operations fn performs on the deque whose access path ends in pathSuffix.
func dequeOpsIn(fn *ssa.Function, pathSuffix string) []dequeOp {
	var out []dequeOp
	isDequeRecv := func(cc *ssa.CallCommon) bool {
		if cc.IsInvoke() || len(cc.Args) == 0 {
			return false
		}
		f := staticCallee(cc)
		return f != nil && f.Signature.Recv() != nil && strings.Contains(f.Signature.Recv().Type().String(), "deque.Deque")
	}
	var opsOnParam func(f *ssa.Function, p *ssa.Parameter, depth int) []*ssa.Call
	opsOnParam = func(f *ssa.Function, p *ssa.Parameter, depth int) []*ssa.Call {
		var res []*ssa.Call
		if f == nil || f.Blocks == nil || depth < 0 {
			return nil
		}
		eachInstr(f, func(in ssa.Instruction) {
			cl, ok := in.(*ssa.Call)
			if !ok {
				return
			}
			if isDequeRecv(&cl.Call) && seeThrough(cl.Call.Args[0]) == ssa.Value(p) {
				res = append(res, cl)
				return
			}
			if g := staticCallee(&cl.Call); g != nil && strings.HasPrefix(fnPkgPath(g), Mod) {
				for i, a := range cl.Call.Args {
					if seeThrough(a) == ssa.Value(p) && i < len(g.Params) {
						res = append(res, opsOnParam(g, g.Params[i], depth-1)...)
					}
				}
			}
		})
		return res
	}
	// methods of the same receiver that touch the field (h.clearLocked()): ops inside them on <recv>.<suffix>
	var opsInMethod func(f *ssa.Function, depth int, seen map[*ssa.Function]bool) []*ssa.Call
	opsInMethod = func(f *ssa.Function, depth int, seen map[*ssa.Function]bool) []*ssa.Call {
		var res []*ssa.Call
		if f == nil || f.Blocks == nil || depth < 0 || seen[f] {
			return nil
		}
		seen[f] = true
		eachInstr(f, func(in ssa.Instruction) {
			cl, ok := in.(*ssa.Call)
			if !ok {
				return
			}
			if isDequeRecv(&cl.Call) && strings.HasSuffix(PathOf(cl.Call.Args[0]), pathSuffix) {
				res = append(res, cl)
			}
		})
		return res
	}
	eachInstr(fn, func(in ssa.Instruction) {
		cl, ok := in.(*ssa.Call)
		if !ok {
			return
		}
		if isDequeRecv(&cl.Call) {
			if strings.HasSuffix(PathOf(cl.Call.Args[0]), pathSuffix) {
				out = append(out, dequeOp{in, methodName(&cl.Call), cl})
			}
			return
		}
		g := staticCallee(&cl.Call)
		if g == nil || g.Blocks == nil || !strings.HasPrefix(fnPkgPath(g), Mod) {
			return
		}
		// the field's address handed to a helper
		for i, a := range cl.Call.Args {
			if strings.HasSuffix(PathOf(a), pathSuffix) && i < len(g.Params) {
				for _, inner := range opsOnParam(g, g.Params[i], 2) {
					out = append(out, dequeOp{in, methodName(&inner.Call), inner})
				}
			}
		}
		// a method of the same receiver that works on the field itself
		if g.Signature.Recv() != nil && fn.Signature.Recv() != nil && len(cl.Call.Args) > 0 && len(fn.Params) > 0 &&
			seeThrough(cl.Call.Args[0]) == ssa.Value(fn.Params[0]) {
			for _, inner := range opsInMethod(g, 1, map[*ssa.Function]bool{fn: true}) {
				out = append(out, dequeOp{in, methodName(&inner.Call), inner})
			}
		}
	})
	return out
}
