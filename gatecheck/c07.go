package main

import (
	"fmt"
	"go/token"
	"strings"

	"golang.org/x/tools/go/ssa"
)

const pkgPlayerinfo = "pkg/edition/java/proto/packet/tablist/playerinfo"
const pkgUtil = "pkg/edition/java/proto/util"

func init() {
	register(&propDef{
		ID:    "C07",
		Title: "Packets the proxy builds decode as intended by an independent vanilla decoder",
		Patterns: []string{"./pkg/edition/java/proto/packet/...", "./pkg/edition/java/proto/state", "./pkg/edition/java/proto/version", "./pkg/edition/java/proto/util",
			"./pkg/edition/java/proxy/crypto", "./pkg/edition/java/profile", "./pkg/gate/proto"},
		Run: runC07,
		Rule: "the two layout facts the property statement itself pins, no vanilla decoder being available: (1) canonical action order — in Upsert.Encode the per-entry action payloads are " +
			"emitted by ranging over the canonical table UpsertActions (filtered by membership in the packet's ActionSet on the ContainsAction==true edge), never over the caller-supplied " +
			"ActionSet; the canonical table is initialised in the protocol's order (add, init-chat, game-mode, listed, latency, display-name, list-order, hat); Upsert.Decode rebuilds ActionSet " +
			"from that table before ranging over it (sibling agreement); the action bit set is indexed by the same table; (2) the 1.7 byte-array length prefix is a 2-byte short on both the " +
			"writing and the reading side (shared with C03), and the extended Forge short places every value bit where the reader takes it from (P6b bit-slice provenance); " +
			"(3) reference layouts (P7+P8): for every registered packet type and every protocol it is registered for, the regular language of field-token sequences its Encode can emit " +
			"(determinised, minimised, canonically numbered) equals the one recorded in reference/packet_wire.json from the pinned tree — layouts of released protocol versions are immutable.",
		Explanation: "Decides: order of action data regardless of API order, reader/writer agreement on that order, the 1.7 array prefix width. " +
			"Reference layouts decide that no released (type, protocol) layout drifts (version-gate slips, added/dropped/reordered fields); they are as right as the pinned tree is — " +
			"no independent vanilla decoder exists on disk, so a layout that is already wrong at the pinned commit is not found by (3).",
		Fixtures: []string{"provenance", "bitprov", "wire", "table"},
		Variants: []Variant{
			{Name: "encode-api-order", File: pkgPlayerinfo + "/upsert.go",
				Old:    "\t\tfor _, action := range UpsertActions {\n\t\t\tif !ContainsAction(u.ActionSet, action) {\n\t\t\t\tcontinue\n\t\t\t}\n",
				New:    "\t\tfor _, action := range u.ActionSet {\n",
				Expect: "canonical-order"},
			{Name: "canonical-table-reordered", File: pkgPlayerinfo + "/upsert.go",
				Old: "\t\tUpdateListedAction,\n\t\tUpdateLatencyAction,\n", New: "\t\tUpdateLatencyAction,\n\t\tUpdateListedAction,\n", Expect: "canonical-table"},
			{Name: "decode-keeps-stale-set", File: pkgPlayerinfo + "/upsert.go",
				Old: "\tu.ActionSet = nil\n\tfor i, action := range UpsertActions {", New: "\tfor i, action := range UpsertActions {", Expect: "decode-rebuilds"},
			{Name: "login-success-flag-one-version-too-long", File: "pkg/edition/java/proto/packet/login.go",
				Old:    "c.Protocol == version.Minecraft_1_20_5.Protocol || c.Protocol == version.Minecraft_1_21.Protocol",
				New:    "c.Protocol >= version.Minecraft_1_20_5.Protocol && c.Protocol <= version.Minecraft_1_21_2.Protocol",
				Expect: "reference-wire:packet.ServerLoginSuccess"},
			{Name: "forge-short-reader-keeps-marker", File: "pkg/edition/java/proto/util/reader.go",
				Old: "\t\tlow = low & 0x7FFF\n", New: "", Expect: "forge-short-layout:value-bits-15-22"},
			{Name: "forge-short-writer-shift-16", File: "pkg/edition/java/proto/util/writer.go",
				Old: "\thigh := (toWrite & 0x7F8000) >> 15", New: "\thigh := (toWrite & 0x7F8000) >> 16", Expect: "forge-short-layout:third-byte-bits"},
			{Name: "forge-short-writer-flag-always", File: "pkg/edition/java/proto/util/writer.go",
				Old: "\tif high != 0 {\n\t\tlow = low | 0x8000\n\t}", New: "\tlow = low | 0x8000", Expect: "forge-short-layout:flag-iff-third-byte"},
			{Name: "forge-short-one-byte", File: "pkg/edition/java/proto/util/writer.go",
				Old: "WriteUint16(wr, uint16(low))", New: "WriteInt8(wr, int8(low))", Expect: "extended-short"},
			{Name: "forge-short-read-one-byte", File: "pkg/edition/java/proto/util/reader.go",
				Old: "\tulow, err := ReadUint16(rd)\n\tif err != nil {\n\t\treturn 0, err\n\t}\n\tlow := int(ulow)\n\tvar high int", New: "\tulow, err := ReadUint8(rd)\n\tif err != nil {\n\t\treturn 0, err\n\t}\n\tlow := int(ulow)\n\tvar high int", Expect: "extended-short"},
		},
	})
}

func isGlobalNamed(v ssa.Value, name string) bool {
	for _, o := range origins(v, 4) {
		if ld, ok := o.(*ssa.UnOp); ok && ld.Op == token.MUL {
			if g, ok := ld.X.(*ssa.Global); ok && g.Name() == name {
				return true
			}
		}
	}
	return false
}

// elemOf: v is an element loaded from a slice s (range/index loop): *(&s[i]); returns s.
func elemOf(v ssa.Value) ssa.Value {
	ld, ok := strip(v).(*ssa.UnOp)
	if !ok || ld.Op != token.MUL {
		return nil
	}
	ia, ok := ld.X.(*ssa.IndexAddr)
	if !ok {
		return nil
	}
	return ia.X
}

func runC07(c *Ctx) {
	enc := c.MustFunc(pkgPlayerinfo + ":(*Upsert).Encode")
	dec := c.MustFunc(pkgPlayerinfo + ":(*Upsert).Decode")
	isActionSet := func(v ssa.Value) bool { return strings.HasSuffix(PathOf(v), ".ActionSet") }
	if enc != nil {
		n := 0
		// Encode and the helpers it was split into (actionMask(set), encodeEntry(…, actions)), parameters bound
		encParts, encRestore := boundParts(enc, 1)
		defer encRestore()
		callsInEnc := func(m func(string, *ssa.CallCommon) bool) (out []ssa.CallInstruction) {
			for _, part := range encParts {
				c.Analysed(part)
				out = append(out, callsIn(part, m)...)
			}
			return
		}
		// canonicalFiltered: the slice is built by a helper that appends the elements of UpsertActions, in
		// table order, each behind ContainsAction(<this packet's ActionSet>, element)
		canonicalFiltered := func(v ssa.Value) bool {
			hc, isC := strip(v).(*ssa.Call)
			if !isC {
				return false
			}
			g := moduleHelperWithBody(&hc.Call)
			if g == nil {
				return false
			}
			c.Analysed(g)
			res := make([]ssa.Value, len(hc.Call.Args))
			for i, a := range hc.Call.Args {
				res[i] = strip(a)
			}
			nApp, all := 0, true
			withBinding(g, res, func() {
				for _, ap := range callsIn(g, func(nm string, cc *ssa.CallCommon) bool {
					b, isB := cc.Value.(*ssa.Builtin)
					return isB && b.Name() == "append"
				}) {
					args := callArgs(ap.Common())
					if len(args) != 2 {
						all = false
						continue
					}
					nApp++
					el := args[1]
					src := elemOf(el)
					if src == nil || !isGlobalNamed(src, "UpsertActions") {
						all = false
						continue
					}
					gd, ns := MustCross(ap, func(e Edge, cond ssa.Value, truth bool) bool {
						cl := callValue(cond)
						if cl == nil || !truth || !strings.HasSuffix(calleeName(&cl.Call), "playerinfo.ContainsAction") {
							return false
						}
						return isActionSet(cl.Call.Args[0]) && strip(cl.Call.Args[1]) == strip(el)
					})
					if !gd || ns == 0 {
						all = false
					}
				}
			})
			return all && nApp > 0
		}
		for _, ci := range callsInEnc(func(nm string, cc *ssa.CallCommon) bool {
			return cc.IsInvoke() && cc.Method.Name() == "Encode" && strings.HasSuffix(cc.Value.Type().String(), "playerinfo.UpsertAction")
		}) {
			n++
			src := elemOf(ci.Common().Value)
			if src != nil && canonicalFiltered(src) {
				c.Check("canonical-order", "action.Encode-receiver@Upsert.Encode", ci, true, "")
				continue
			}
			canon := src != nil && isGlobalNamed(src, "UpsertActions")
			detail := "the per-entry action payloads are emitted in the order of the caller-supplied ActionSet; e.g. ActionSet=[Latency, GameMode] puts latency before game mode on the wire, while a vanilla client reads game mode first"
			if src != nil && !isActionSet(src) && !canon {
				detail = "action payload order comes from " + PathOf(src)
			}
			okMember := false
			if canon {
				recv := strip(ci.Common().Value)
				g, ns := MustCross(ci, func(e Edge, cond ssa.Value, truth bool) bool {
					cl := callValue(cond)
					if cl == nil || !truth || !strings.HasSuffix(calleeName(&cl.Call), "playerinfo.ContainsAction") {
						return false
					}
					return isActionSet(cl.Call.Args[0]) && strip(cl.Call.Args[1]) == recv
				})
				okMember = g && ns > 0
				if !okMember {
					detail = "actions are taken from the canonical table but not filtered by membership in this packet's ActionSet"
				}
			}
			c.Check("canonical-order", "action.Encode-receiver@Upsert.Encode", ci, canon && okMember, detail)
		}
		if n == 0 {
			c.Undecided("canonical-order", "Upsert.Encode", "no UpsertAction.Encode dispatch found")
		}
		// the bit set is indexed by the canonical table too
		okBits := false
		for _, ci := range callsInEnc(func(nm string, cc *ssa.CallCommon) bool { return strings.HasSuffix(nm, "playerinfo.ContainsAction") }) {
			if isActionSet(ci.Common().Args[0]) {
				if s := elemOf(ci.Common().Args[1]); s != nil && isGlobalNamed(s, "UpsertActions") {
					for _, sb := range callsInEnc(func(nm string, cc *ssa.CallCommon) bool { return methodName(cc) == "SetBool" }) {
						if callValue(sb.Common().Args[len(sb.Common().Args)-1]) == ci.(*ssa.Call) {
							okBits = true
						}
					}
				}
			}
		}
		c.CheckAt("canonical-order", "bitset-by-canonical-index@Upsert.Encode", c.P.Pos(enc.Pos()), okBits, "the action bit i must say whether canonical action i is in the set")
	}
	if dec != nil {
		// ActionSet is reset and rebuilt from the canonical table before it is ranged
		var resets, appends int
		okStores := true
		eachInstr(dec, func(in ssa.Instruction) {
			st, ok := in.(*ssa.Store)
			if !ok || !isActionSet(st.Addr) {
				return
			}
			if isNilConst(strip(st.Val)) {
				resets++
				return
			}
			cl := callValue(st.Val)
			if cl != nil {
				if b, isB := cl.Call.Value.(*ssa.Builtin); isB && b.Name() == "append" {
					args := callArgs(&cl.Call)
					if isActionSet(args[0]) && len(args) == 2 {
						if s := elemOf(args[1]); s != nil && isGlobalNamed(s, "UpsertActions") {
							appends++
							return
						}
					}
				}
			}
			okStores = false
		})
		// the reset dominates the dispatch loop
		okOrder := false
		for _, ci := range callsIn(dec, func(nm string, cc *ssa.CallCommon) bool {
			return cc.IsInvoke() && cc.Method.Name() == "Decode" && strings.HasSuffix(cc.Value.Type().String(), "playerinfo.UpsertAction")
		}) {
			src := elemOf(ci.Common().Value)
			if src != nil && (isActionSet(src) || isGlobalNamed(src, "UpsertActions")) {
				okOrder = true
			}
			// the reset must dominate
			eachInstr(dec, func(in ssa.Instruction) {
				if st, ok := in.(*ssa.Store); ok && isActionSet(st.Addr) && isNilConst(strip(st.Val)) {
					if !domBefore(st, ci) {
						okOrder = false
					}
				}
			})
		}
		c.CheckAt("decode-rebuilds", "ActionSet=nil;append(canonical)…@Upsert.Decode", c.P.Pos(dec.Pos()), resets >= 1 && appends >= 1 && okStores && okOrder,
			fmt.Sprintf("Decode must rebuild ActionSet from the canonical table (resets=%d, canonical appends=%d, other stores ok=%v) before reading per-entry action data", resets, appends, okStores))
	}
	// canonical table order
	wantOrder := []string{"AddPlayerAction", "InitializeChatAction", "UpdateGameModeAction", "UpdateListedAction", "UpdateLatencyAction", "UpdateDisplayNameAction", "UpdateListOrderAction", "UpdateHatAction"}
	foundInit := false
	for _, fn := range c.P.Funcs(Mod + "/" + pkgPlayerinfo) {
		if fn.Name() != "init" {
			continue
		}
		eachInstr(fn, func(in ssa.Instruction) {
			st, ok := in.(*ssa.Store)
			if !ok {
				return
			}
			g, ok := st.Addr.(*ssa.Global)
			if !ok || g.Name() != "UpsertActions" {
				return
			}
			foundInit = true
			sl, ok := st.Val.(*ssa.Slice)
			var got []string
			if ok {
				if a, isA := sl.X.(*ssa.Alloc); isA {
					byIdx := map[int64]string{}
					for _, r := range *a.Referrers() {
						ia, isIA := r.(*ssa.IndexAddr)
						if !isIA {
							continue
						}
						k, _ := constInt(ia.Index)
						for _, sv := range storedInto(ia, 0) {
							if ld, isLd := strip(sv).(*ssa.UnOp); isLd {
								if gg, isG := ld.X.(*ssa.Global); isG {
									byIdx[k] = gg.Name()
								}
							}
						}
					}
					for i := 0; i < len(byIdx); i++ {
						got = append(got, byIdx[int64(i)])
					}
				}
			}
			c.Check("canonical-table", "UpsertActions-order", in, fmt.Sprint(got) == fmt.Sprint(wantOrder),
				fmt.Sprintf("the canonical action table must list the actions in the protocol's bit order %v, got %v", wantOrder, got))
		})
	}
	if !foundInit {
		c.Undecided("canonical-table", "UpsertActions", "initialiser not found")
	}

	// (2) extended Forge short: both sides 2 bytes (shared with C03)
	checkExtendedForgeShort(c, "extended-short")
	checkForgeShortLayout(c, "forge-short-layout")
	checkWireGolden(c, "reference-wire")
}

// checkExtendedForgeShort: the extended short's masks are 16-bit (low = v & 0x7FFF | 0x8000 on the
// writing side, low & 0x8000 on the reading side); P6 contradiction rules decide whether the bytes
// actually written/read can carry those bits. No callee name is matched.
func checkExtendedForgeShort(c *Ctx, rule string) {
	for _, name := range []string{"WriteExtendedForgeShort", "ReadExtendedForgeShort"} {
		fn := c.MustFunc(pkgUtil + ":" + name)
		if fn == nil {
			continue
		}
		fs := bitContradictions(fn)
		if len(fs) == 0 {
			c.CheckAt(rule, "mask-width-consistent@"+name, c.P.Pos(fn.Pos()), true, "")
			continue
		}
		for _, f := range fs {
			c.Check(rule, f.Kind+"@"+name, f.At, false,
				"1.7/Forge byte-array length prefix: "+f.Msg+" — arrays of 256 bytes or more get a truncated prefix / the continuation byte is never read")
		}
	}
}
