package main

import (
	"fmt"
	"go/token"
	"strings"

	"golang.org/x/tools/go/ssa"
)

const pkgProxy = "pkg/edition/java/proxy"

func init() {
	register(&propDef{
		ID:       "C12",
		Title:    "Listing players and servers is safe during concurrent joins and leaves",
		Patterns: []string{"./pkg/edition/java/proxy"},
		Run:      runC12,
		Rule: "P4 lock-set: every access to Proxy.playerIDs/playerNames (muP), Proxy.servers/configServers (muS) and players.list (mu) " +
			"holds the owning mutex (exclusive for writes); and no map reference loaded from such a field is ranged/indexed/len'd/returned " +
			"where the mutex is no longer held (snapshot must be copied inside the critical section).",
		Explanation: "Decides: (1) guarded-field access for the five registry maps over every function of package proxy (fields are unexported, so that is every " +
			"accessor in the program); (2) guarded-reference escape: a map loaded under RLock and iterated after RUnlock is reported. " +
			"Does not decide: absence of data races on other state, atomicity of multi-call listings, or anything about goroutine schedules as such — " +
			"only that the structural precondition (iteration and mutation share a lock) holds at every site.",
		Fixtures: []string{"lockset", "guardcut"},
		Variants: []Variant{
			{Name: "players-snapshot-outside-lock", File: pkgProxy + "/proxy.go",
				Old:    "func (p *Proxy) PlayerCount() int {\n\tp.muP.RLock()\n\tdefer p.muP.RUnlock()\n\treturn len(p.playerIDs)",
				New:    "func (p *Proxy) PlayerCount() int {\n\tp.muP.RLock()\n\tm := p.playerIDs\n\tp.muP.RUnlock()\n\treturn len(m)",
				Expect: "escape:Proxy.playerIDs@"},
			{Name: "servers-read-unlocked", File: pkgProxy + "/proxy.go",
				Old:    "\tp.muS.RLock()\n\ts := p.servers[name] // may be nil\n\tp.muS.RUnlock()",
				New:    "\ts := p.servers[name] // may be nil",
				Expect: "guarded:Proxy.servers@"},
			{Name: "players-add-rlock", File: pkgProxy + "/server.go",
				Old:    "func (p *players) add(players ...*connectedPlayer) {\n\tp.mu.Lock()",
				New:    "func (p *players) add(players ...*connectedPlayer) {\n\tp.mu.RLock()",
				Expect: "guarded:players.list@"},
		},
	})
	register(&propDef{
		ID:       "C11",
		Title:    "Player registry stays unique and consistent under any login/logout interleaving",
		Patterns: []string{"./pkg/edition/java/proxy"},
		Run:      runC11,
		Rule: "P4/P2 on Proxy.playerNames/playerIDs: all accesses under muP; insertions only in registerConnection, each dominated by the not-exists " +
			"edge of a lookup on playerIDs made in the same critical section; every delete is dominated by an identity test (m[k] == the player being removed); " +
			"on the kick path the flag store and Disconnect happen before retry with muP released; teardown unregisters its own receiver.",
		Explanation: "Decides: who writes the two registry maps, that test-and-insert share one critical section, that removal is identity-conditional " +
			"(a rejected duplicate's teardown cannot delete the original's entries), kick ordering, and that teardown passes its own receiver. " +
			"Does not decide: the global uniqueness invariant under all interleavings (that needs a model of the goroutines); these are the structural " +
			"conditions whose failure breaks it for a nameable schedule.",
		Fixtures: []string{"lockset", "guardcut"},
		Variants: []Variant{
			{Name: "duplicate-check-with-raw-name", File: pkgProxy + "/proxy.go",
				Old: "\t\t_, exists := p.playerNames[lowerName]", New: "\t\t_, exists := p.playerNames[player.Username()]", Expect: "key-agreement"},
			{Name: "rejected-duplicate-keeps-registry-locked", File: pkgProxy + "/proxy.go",
				Old: "\t\tif exists {\n\t\t\tp.muP.Unlock()\n\t\t\treturn false\n\t\t}\n\t\t_, exists = p.playerIDs", New: "\t\tif exists {\n\t\t\treturn false\n\t\t}\n\t\t_, exists = p.playerIDs", Expect: "lock-released"},
			{Name: "unconditional-delete", File: pkgProxy + "/proxy.go",
				Old:    "\tif cur, ok := p.playerIDs[player.ID()]; ok && cur == player {\n\t\tdelete(p.playerIDs, player.ID())",
				New:    "\tif _, ok := p.playerIDs[player.ID()]; ok {\n\t\tdelete(p.playerIDs, player.ID())",
				Expect: "identity-delete:"},
			{Name: "insert-after-unlock", File: pkgProxy + "/proxy.go",
				Old:    "\t\t_, exists = p.playerIDs[player.ID()]\n\t\tif exists {\n\t\t\treturn false\n\t\t}\n\t}\n",
				New:    "\t\t_, exists = p.playerIDs[player.ID()]\n\t\tif exists {\n\t\t\treturn false\n\t\t}\n\t}\n\tp.muP.Unlock()\n\tp.muP.Lock()\n",
				Expect: "test-and-insert:"},
			{Name: "kick-disconnect-under-lock", File: pkgProxy + "/proxy.go",
				Old:    "\t\t\tp.muP.Unlock()\n\t\t\texisting.disconnectDueToDuplicateConnection.Store(true)",
				New:    "\t\t\texisting.disconnectDueToDuplicateConnection.Store(true)",
				Expect: "kick-"},
		},
	})
}

func runC12(c *Ctx) {
	scope := c.P.Funcs(Mod + "/" + pkgProxy)
	lc := NewLockCtx(c.P, scope)
	n := 0
	n += checkGuarded(c, lc, scope, GuardSpec{Type: pkgProxy + ":Proxy", Mutex: "muP", Fields: []string{"playerIDs", "playerNames"}, NoEscape: true})
	n += checkGuarded(c, lc, scope, GuardSpec{Type: pkgProxy + ":Proxy", Mutex: "muS", Fields: []string{"servers", "configServers"}, NoEscape: true})
	n += checkGuarded(c, lc, scope, GuardSpec{Type: pkgProxy + ":players", Mutex: "mu", Fields: []string{"*"}, NoEscape: true})
	c.Floor("guarded", 30)
	c.Floor("escape", 15)
	c.Info["access_sites"] = n
}

func runC11(c *Ctx) {
	scope := c.P.Funcs(Mod + "/" + pkgProxy)
	lc := NewLockCtx(c.P, scope)
	checkGuarded(c, lc, scope, GuardSpec{Type: pkgProxy + ":Proxy", Mutex: "muP", Fields: []string{"playerIDs", "playerNames"}})
	c.Floor("guarded", 15)
	// names are case-insensitive: every access of the name map uses the same (lower-cased) key spelling
	{
		var own []*ssa.Function
		for _, f := range scope {
			if fnPkgPath(f) == Mod+"/"+pkgProxy {
				own = append(own, f)
			}
		}
		checkKeyAgreement(c, lc, own, pkgProxy+":Proxy", []string{"playerNames"})
	}

	idsF := c.P.FieldVar(pkgProxy+":Proxy", "playerIDs")
	namesF := c.P.FieldVar(pkgProxy+":Proxy", "playerNames")
	if idsF == nil || namesF == nil {
		return
	}
	isRegMap := func(v ssa.Value) string {
		for _, o := range origins(v, 4) {
			if ld, ok := o.(*ssa.UnOp); ok && ld.Op == token.MUL {
				if fa, ok := ld.X.(*ssa.FieldAddr); ok {
					f := fieldOfAddr(fa)
					if sameField(f, idsF) {
						return "playerIDs"
					}
					if sameField(f, namesF) {
						return "playerNames"
					}
				}
			}
		}
		return ""
	}
	reg := c.MustFunc(pkgProxy + ":(*Proxy).registerConnection")
	unreg := c.MustFunc(pkgProxy + ":(*Proxy).unregisterConnection")

	// (2) writers: insertions only in registerConnection, tested in the same critical section
	for _, fn := range scope {
		eachInstr(fn, func(in ssa.Instruction) {
			mu, ok := in.(*ssa.MapUpdate)
			if !ok {
				return
			}
			which := isRegMap(mu.Map)
			if which == "" {
				return
			}
			c.Check("writer", fmt.Sprintf("insert %s@%s", which, shortName(fn)), in, fn == reg,
				"insertion into the player registry outside registerConnection")
			if fn != reg {
				return
			}
			// (a) every path to the insertion crosses the not-exists edge of a playerIDs lookup
			g, nsel := MustCross(in, func(e Edge, cond ssa.Value, truth bool) bool {
				if truth {
					return false
				}
				for _, o := range origins(cond, 3) {
					if ex, ok := o.(*ssa.Extract); ok && ex.Index == 1 {
						if lk, ok := ex.Tuple.(*ssa.Lookup); ok && lk.CommaOk && isRegMap(lk.X) == "playerIDs" {
							return true
						}
					}
				}
				return false
			})
			c.Check("test-and-insert", fmt.Sprintf("not-exists-edge %s@registerConnection", which), in, g && nsel > 0,
				"insertion is reachable without passing the not-exists edge of a lookup in playerIDs (a duplicate UUID could be registered)")
			// (b) no Unlock/Lock of muP between that lookup and the insertion
			ms := NewMustSince(fn, func(x ssa.Instruction) bool {
				if lk, ok := x.(*ssa.Lookup); ok {
					return lk.CommaOk && isRegMap(lk.X) == "playerIDs"
				}
				// the existence test may live in an unexported helper called with the lock held
				if cl, ok := x.(*ssa.Call); ok {
					if h := staticCallee(&cl.Call); h != nil && isUnexportedHelper(h) {
						found := false
						eachInstr(h, func(y ssa.Instruction) {
							if lk, ok := y.(*ssa.Lookup); ok && lk.CommaOk {
								saved := activeSubst
								activeSubst = map[*ssa.Parameter]ssa.Value{}
								for i, p := range h.Params {
									if i < len(cl.Call.Args) {
										activeSubst[p] = cl.Call.Args[i]
									}
								}
								if isRegMap(lk.X) == "playerIDs" {
									found = true
								}
								activeSubst = saved
							}
						})
						return found
					}
				}
				return false
			}, func(x ssa.Instruction) bool {
				if call, ok := x.(*ssa.Call); ok {
					if p, _, ok := lockOp(&call.Call); ok && strings.HasSuffix(p, ".muP") {
						return true
					}
				}
				return false
			})
			c.Check("test-and-insert", fmt.Sprintf("same-critical-section %s@registerConnection", which), in, ms.At(in),
				"the existence test and the insertion are not in one muP critical section (check-then-act: two logins can both pass the test)")
		})
	}
	c.Floor("writer", 2)

	// (3) identity-conditional removal
	for _, fn := range scope {
		eachInstr(fn, func(in ssa.Instruction) {
			call, ok := in.(*ssa.Call)
			if !ok {
				return
			}
			b, ok := call.Call.Value.(*ssa.Builtin)
			if !ok || b.Name() != "delete" {
				return
			}
			which := isRegMap(call.Call.Args[0])
			if which == "" {
				return
			}
			g, nsel := MustCross(in, func(e Edge, cond ssa.Value, truth bool) bool {
				bo, ok := cond.(*ssa.BinOp)
				if !ok || (bo.Op != token.EQL && bo.Op != token.NEQ) {
					return false
				}
				if (bo.Op == token.EQL) != truth {
					return false
				}
				fromMap := func(v ssa.Value) bool {
					for _, o := range origins(v, 3) {
						switch x := o.(type) {
						case *ssa.Lookup:
							if isRegMap(x.X) == which {
								return true
							}
						case *ssa.Extract:
							if lk, ok := x.Tuple.(*ssa.Lookup); ok && x.Index == 0 && isRegMap(lk.X) == which {
								return true
							}
						}
					}
					return false
				}
				isPlayer := func(v ssa.Value) bool {
					_, ok := strip(v).(*ssa.Parameter)
					return ok
				}
				return (fromMap(bo.X) && isPlayer(bo.Y)) || (fromMap(bo.Y) && isPlayer(bo.X))
			})
			c.Check("identity-delete", fmt.Sprintf("%s@%s", which, shortName(fn)), in, g && nsel > 0,
				fmt.Sprintf("delete from %s is not dominated by `%s[key] == player`: the teardown of a rejected duplicate login (same name/UUID, never registered) removes the original player's registration", which, which))
		})
	}
	c.Floor("identity-delete", 2)
	_ = unreg

	// (4) kick path ordering in registerConnection
	if reg != nil {
		// disc/store: the instructions of registerConnection that disconnect the existing player and set its
		// duplicate flag — directly, or by calling an unexported helper that does both (then both denote
		// the helper call for guards and lock state, and the order is checked inside the helper)
		var disc, store ssa.Instruction
		eachInstr(reg, func(in ssa.Instruction) {
			cc := callOf(in)
			if cc == nil {
				return
			}
			switch {
			case methodName(cc) == "Disconnect":
				disc = in
			case methodName(cc) == "Store" && strings.Contains(PathOf(cc.Args[0]), "disconnectDueToDuplicateConnection"):
				store = in
			default:
				h := staticCallee(cc)
				if h == nil || !isUnexportedHelper(h) {
					return
				}
				var hd, hs ssa.Instruction
				eachInstr(h, func(x ssa.Instruction) {
					if c2 := callOf(x); c2 != nil {
						switch {
						case methodName(c2) == "Disconnect":
							hd = x
						case methodName(c2) == "Store" && strings.Contains(PathOf(c2.Args[0]), "disconnectDueToDuplicateConnection"):
							hs = x
						}
					}
				})
				if hd != nil {
					disc = in
					if hs != nil && domBefore(hs, hd) {
						store = in // set before the disconnect inside the helper
					}
				}
			}
		})
		if disc == nil {
			c.Undecided("kick-order", "Disconnect@registerConnection", "no Disconnect call found on the kick path")
		} else {
			g, _ := MustCross(disc, func(e Edge, cond ssa.Value, truth bool) bool {
				if !truth {
					return false
				}
				for _, o := range origins(cond, 3) {
					if ex, ok := o.(*ssa.Extract); ok && ex.Index == 1 {
						if lk, ok := ex.Tuple.(*ssa.Lookup); ok && isRegMap(lk.X) == "playerIDs" {
							return true
						}
					}
				}
				return false
			})
			c.Check("kick-order", "Disconnect-on-exists-edge@registerConnection", disc, g, "existing.Disconnect is not confined to the exists edge of the playerIDs lookup")
			held := lc.At(disc)
			_, locked := held["p.muP"]
			c.Check("kick-unlocked", "Disconnect@registerConnection", disc, !locked,
				"existing.Disconnect is called with muP held; its teardown calls unregisterConnection which locks muP (self-deadlock)")
			c.Check("kick-order", "flag-before-Disconnect@registerConnection", disc, store != nil && (store == disc || domBefore(store, disc)),
				"disconnectDueToDuplicateConnection must be set before the existing player is disconnected")
			// after the Disconnect the insertion must not be reachable without re-testing: covered by test-and-insert.
		}
	}

	// (5) teardown unregisters its own receiver
	if td := c.MustFunc(pkgProxy + ":(*connectedPlayer).teardown"); td != nil {
		found := false
		for _, ci := range callsIn(td, func(n string, cc *ssa.CallCommon) bool { return methodName(cc) == "unregisterConnection" }) {
			found = true
			args := ci.Common().Args
			arg := args[len(args)-1]
			c.Check("teardown-self", "unregisterConnection@teardown", ci, len(td.Params) > 0 && sameValue(arg, td.Params[0]),
				"teardown must unregister its own receiver")
		}
		if !found {
			c.Undecided("teardown-self", "unregisterConnection@teardown", "teardown no longer calls unregisterConnection")
		}
	}
}
