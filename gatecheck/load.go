package main

import (
	"fmt"
	"go/ast"
	"go/token"
	"go/types"
	"os"
	"sort"
	"strings"

	"golang.org/x/tools/go/packages"
	"golang.org/x/tools/go/ssa"
	"golang.org/x/tools/go/ssa/ssautil"
)

// RepoDir is the tree under analysis. Every run loads it afresh.
var RepoDir = envOr("GATECHECK_REPO", "/repo")

const Mod = "go.minekube.com/gate"

func init() {
	// go/packages resolves the `go` binary through this process's PATH
	os.Setenv("PATH", "/opt/veriftools/go1.26.8/bin:"+os.Getenv("PATH"))
	os.Unsetenv("GOWORK")
}

func envOr(k, d string) string {
	if v := os.Getenv(k); v != "" {
		return v
	}
	return d
}

// goEnv is the environment for the `go list` that go/packages runs.
func goEnv(extra ...string) []string {
	env := []string{}
	for _, e := range os.Environ() {
		k := e
		if i := strings.IndexByte(e, '='); i >= 0 {
			k = e[:i]
		}
		switch k {
		case "PATH", "GOFLAGS", "GOPROXY", "GOSUMDB", "GOTOOLCHAIN", "GOWORK", "GOOS", "GOARCH", "CGO_ENABLED":
			continue
		}
		env = append(env, e)
	}
	env = append(env,
		"PATH="+os.Getenv("PATH"),
		"GOFLAGS=-mod=mod", "GOPROXY=off", "GOSUMDB=off", "GOTOOLCHAIN=local", "GOWORK=off", "CGO_ENABLED=0",
	)
	env = append(env, extra...)
	return env
}

// Program is a loaded, type-checked and SSA-built slice of the repository.
type Program struct {
	Fset  *token.FileSet
	Pkgs  []*packages.Package          // root packages (with syntax)
	ByPth map[string]*packages.Package // all packages reachable, by import path
	SSA   *ssa.Program
	Whole bool // true when loaded with LoadAllSyntax over ./...

	funcsByName map[string]*ssa.Function
	allFuncs    []*ssa.Function
}

// Load type-checks the given package patterns of RepoDir. Roots get syntax + SSA bodies.
// whole=true loads all dependencies from source too (bodies for everything in the module).
func Load(patterns []string, whole bool, overlay map[string][]byte, extraEnv ...string) (*Program, error) {
	mode := packages.NeedName | packages.NeedFiles | packages.NeedCompiledGoFiles | packages.NeedImports |
		packages.NeedTypes | packages.NeedTypesSizes | packages.NeedSyntax | packages.NeedTypesInfo | packages.NeedModule
	if whole {
		mode |= packages.NeedDeps
	}
	cfg := &packages.Config{Mode: mode, Dir: RepoDir, Env: goEnv(extraEnv...), Overlay: overlay, Tests: false}
	pkgs, err := packages.Load(cfg, patterns...)
	if err != nil {
		return nil, fmt.Errorf("packages.Load: %w", err)
	}
	if len(pkgs) == 0 {
		return nil, fmt.Errorf("no packages matched %v", patterns)
	}
	var errs []string
	packages.Visit(pkgs, nil, func(p *packages.Package) {
		for _, e := range p.Errors {
			errs = append(errs, e.Error())
		}
	})
	if len(errs) > 0 {
		if len(errs) > 8 {
			errs = errs[:8]
		}
		return nil, fmt.Errorf("type-check errors: %s", strings.Join(errs, "; "))
	}
	P := &Program{Fset: pkgs[0].Fset, Pkgs: pkgs, ByPth: map[string]*packages.Package{}, Whole: whole}
	packages.Visit(pkgs, nil, func(p *packages.Package) { P.ByPth[p.PkgPath] = p })
	var prog *ssa.Program
	if whole {
		prog, _ = ssautil.AllPackages(pkgs, ssa.InstantiateGenerics)
	} else {
		prog, _ = ssautil.Packages(pkgs, ssa.InstantiateGenerics)
	}
	prog.Build()
	P.SSA = prog
	P.index()
	return P, nil
}

func (P *Program) index() {
	P.funcsByName = map[string]*ssa.Function{}
	all := ssautil.AllFunctions(P.SSA)
	for fn := range all {
		if fn.Blocks == nil {
			continue
		}
		if fn.Pkg == nil && fn.Origin() == nil {
			// wrappers/thunks
			continue
		}
		P.allFuncs = append(P.allFuncs, fn)
	}
	sort.Slice(P.allFuncs, func(i, j int) bool { return P.allFuncs[i].String() < P.allFuncs[j].String() })
	for _, fn := range P.allFuncs {
		P.funcsByName[fn.String()] = fn
	}
}

// Funcs returns every function with a body whose package path has the given prefix
// (closures included). Sorted by name.
func (P *Program) Funcs(pkgPrefix string) []*ssa.Function {
	var out []*ssa.Function
	for _, fn := range P.allFuncs {
		if strings.HasPrefix(fnPkgPath(fn), pkgPrefix) {
			out = append(out, fn)
		}
	}
	return out
}

// ModFuncs: every function of the gate module that has a body (non-synthetic).
func (P *Program) ModFuncs() []*ssa.Function {
	var out []*ssa.Function
	for _, fn := range P.allFuncs {
		if fn.Synthetic != "" && fn.Parent() == nil && fn.Origin() == nil {
			continue
		}
		if strings.HasPrefix(fnPkgPath(fn), Mod) {
			out = append(out, fn)
		}
	}
	return out
}

func fnPkgPath(fn *ssa.Function) string {
	for fn.Parent() != nil {
		fn = fn.Parent()
	}
	if fn.Pkg != nil {
		return fn.Pkg.Pkg.Path()
	}
	if o := fn.Origin(); o != nil && o.Pkg != nil {
		return o.Pkg.Pkg.Path()
	}
	if fn.Object() != nil && fn.Object().Pkg() != nil {
		return fn.Object().Pkg().Path()
	}
	return ""
}

// Func finds a function by its ssa String(), e.g.
// "(*go.minekube.com/gate/pkg/edition/java/proxy.Proxy).Players" or "go.minekube.com/gate/pkg/x.F".
// Short form: pkg relative path + ":" + name, e.g. "pkg/edition/java/proxy:(*Proxy).Players".
func (P *Program) Func(short string) *ssa.Function {
	i := strings.IndexByte(short, ':')
	if i < 0 {
		return P.funcsByName[short]
	}
	pkg, name := Mod+"/"+short[:i], short[i+1:]
	if short[:i] == "" || short[:i] == "." {
		pkg = Mod
	}
	if strings.HasPrefix(short[:i], "!") { // absolute import path
		pkg = short[1:i]
	}
	var full string
	if strings.HasPrefix(name, "(*") {
		j := strings.IndexByte(name, ')')
		full = "(*" + pkg + "." + name[2:j] + ")" + name[j+1:]
	} else if strings.HasPrefix(name, "(") {
		j := strings.IndexByte(name, ')')
		full = "(" + pkg + "." + name[1:j] + ")" + name[j+1:]
	} else {
		full = pkg + "." + name
	}
	return P.funcsByName[full]
}

// Closures returns fn and all functions nested in it.
func Closures(fn *ssa.Function) []*ssa.Function {
	out := []*ssa.Function{fn}
	for _, a := range fn.AnonFuncs {
		out = append(out, Closures(a)...)
	}
	return out
}

// Pkg returns the types.Package for a module-relative path.
func (P *Program) Pkg(rel string) *packages.Package {
	p := Mod
	if rel != "" && rel != "." {
		p = Mod + "/" + rel
	}
	if strings.HasPrefix(rel, "!") {
		p = rel[1:]
	}
	return P.ByPth[p]
}

// Named looks up a named type "pkg/rel:Name".
func (P *Program) Named(short string) *types.Named {
	i := strings.IndexByte(short, ':')
	pk := P.Pkg(short[:i])
	if pk == nil || pk.Types == nil {
		return nil
	}
	o := pk.Types.Scope().Lookup(short[i+1:])
	if o == nil {
		return nil
	}
	n, _ := o.Type().(*types.Named)
	return n
}

// FieldVar returns the *types.Var of field name in named struct type short ("pkg:Type").
func (P *Program) FieldVar(short, field string) *types.Var {
	n := P.Named(short)
	if n == nil {
		return nil
	}
	st, ok := n.Underlying().(*types.Struct)
	if !ok {
		return nil
	}
	for i := 0; i < st.NumFields(); i++ {
		if st.Field(i).Name() == field {
			return st.Field(i)
		}
	}
	return nil
}

// Pos renders a position relative to the repo.
func (P *Program) Pos(p token.Pos) string {
	if !p.IsValid() {
		return "?"
	}
	pp := P.Fset.Position(p)
	f := strings.TrimPrefix(pp.Filename, RepoDir+"/")
	return fmt.Sprintf("%s:%d", f, pp.Line)
}

// FileOf returns the AST file (and package) containing pos.
func (P *Program) FileOf(pos token.Pos) (*ast.File, *packages.Package) {
	for _, p := range P.Pkgs {
		for _, f := range p.Syntax {
			if f.FileStart <= pos && pos <= f.FileEnd {
				return f, p
			}
		}
	}
	return nil, nil
}

// ConstVal returns the constant object pkg:Name.
func (P *Program) Const(short string) *types.Const {
	i := strings.IndexByte(short, ':')
	pk := P.Pkg(short[:i])
	if pk == nil || pk.Types == nil {
		return nil
	}
	c, _ := pk.Types.Scope().Lookup(short[i+1:]).(*types.Const)
	return c
}
