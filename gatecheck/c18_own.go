package main

import (
	"strings"

	"golang.org/x/tools/go/ssa"
)

// checkKeepAliveRecordedOnOwnConnection: a backend handler that sees a keep-alive must record its id
// on the connection it belongs to (its own serverConn field). Recording it on "whatever server the
// player is connected to right now" files the id under a backend that never sent it when a switch races
// the keep-alive, and the client's reply is then delivered to that backend.
func checkKeepAliveRecordedOnOwnConnection(c *Ctx, scope []*ssa.Function) {
	n := 0
	for _, fn := range scope {
		for _, ci := range callsIn(fn, func(nm string, cc *ssa.CallCommon) bool { return strings.HasSuffix(nm, "proxy.recordBackendKeepAlive") }) {
			n++
			a := ci.Common().Args[0]
			own := false
			if ld, ok := strip(a).(*ssa.UnOp); ok {
				if fa, ok := ld.X.(*ssa.FieldAddr); ok && fieldOfAddr(fa).Name() == "serverConn" {
					root := fn
					for root.Parent() != nil {
						root = root.Parent()
					}
					if len(root.Params) > 0 && (strip(fa.X) == ssa.Value(root.Params[0]) || isFreeVarOf(fa.X, root.Params[0])) {
						own = true
					}
				}
			}
			c.Check("recorded-on-own-connection", "recordBackendKeepAlive(<handler>.serverConn)@"+shortName(fn), ci, own,
				"the keep-alive id is recorded on "+PathOf(a)+" instead of the handler's own backend connection: during a server switch it is filed under a backend that never sent it and the client's reply goes there")
		}
	}
	if n < 3 {
		c.Undecided("recorded-on-own-connection", "recordBackendKeepAlive", "expected the three backend handlers (config, transition, play) to record keep-alives")
	}
}

func isFreeVarOf(v ssa.Value, p *ssa.Parameter) bool {
	if ld, ok := v.(*ssa.UnOp); ok {
		v = ld.X
	}
	fv, ok := v.(*ssa.FreeVar)
	return ok && fv.Name() == p.Name()
}
