package main

import (
	"go/constant"
	"go/token"
	"strings"

	"golang.org/x/tools/go/ssa"
)

// checkConsumeMatchesWireType: in the unknown-field loop a principal field's payload is parsed with
// ConsumeVarint or ConsumeBytes. Each parse must lie behind the test that the tag's wire type is
// exactly that type: a varint field announced as fixed32/fixed64/group would otherwise be read as a
// varint and its leftover bytes re-parsed as further fields — forged values without an error.
func checkConsumeMatchesWireType(c *Ctx, fn *ssa.Function) {
	// typ: result #1 of protowire.ConsumeTag
	var typ ssa.Value
	eachInstr(fn, func(in ssa.Instruction) {
		if ex, ok := in.(*ssa.Extract); ok && ex.Index == 1 {
			if cl, ok := ex.Tuple.(*ssa.Call); ok && strings.HasSuffix(calleeName(&cl.Call), "protowire.ConsumeTag") {
				typ = ex
			}
		}
	})
	if typ == nil {
		c.Undecided("consume-matches-wiretype", "ExtractSessionPrincipalWire", "ConsumeTag's wire type result not found")
		return
	}
	wantConst := map[string]string{"protowire.ConsumeVarint": "VarintType", "protowire.ConsumeBytes": "BytesType"}
	n := 0
	for _, ci := range callsIn(fn, func(nm string, cc *ssa.CallCommon) bool {
		return strings.HasSuffix(nm, "protowire.ConsumeVarint") || strings.HasSuffix(nm, "protowire.ConsumeBytes")
	}) {
		name := calleeName(ci.Common())
		name = name[strings.LastIndex(name, "protowire."):]
		k := c.P.Const("!google.golang.org/protobuf/encoding/protowire:" + wantConst[name])
		if k == nil {
			c.Undecided("consume-matches-wiretype", name, "protowire constant not found")
			continue
		}
		n++
		facts := map[ssa.Value]bool{}
		for _, e := range EdgeDominators(ci.Block()) {
			if cond, truth := e.Cond(); cond != nil {
				facts[cond] = truth
			}
		}
		// isTyp: v is the comparison typ ==/!= K; returns whether it is the == form
		isTyp := func(v ssa.Value) (isEq bool, ok bool) {
			bo, isB := strip(v).(*ssa.BinOp)
			if !isB || (bo.Op != token.EQL && bo.Op != token.NEQ) {
				return false, false
			}
			var other ssa.Value
			switch {
			case strip(bo.X) == typ:
				other = bo.Y
			case strip(bo.Y) == typ:
				other = bo.X
			default:
				return false, false
			}
			kc, isC := strip(other).(*ssa.Const)
			if !isC || kc.Value == nil || !constant.Compare(kc.Value, token.EQL, k.Val()) {
				return false, false
			}
			return bo.Op == token.EQL, true
		}
		g, ns := MustCrossConsistent(ci, func(e Edge, cond ssa.Value, truth bool) bool {
			bo, ok := cond.(*ssa.BinOp)
			if !ok {
				return false
			}
			// compound form: (typ == K) ==/!= V with V decided at the site
			if bo.Op == token.EQL || bo.Op == token.NEQ {
				for _, side := range [][2]ssa.Value{{bo.X, bo.Y}, {bo.Y, bo.X}} {
					isEq, okT := isTyp(side[0])
					f, known := facts[side[1]]
					if !okT || !known {
						continue
					}
					consistent := func(x bool) bool {
						xv := x
						if !isEq {
							xv = !x
						}
						res := xv == f
						if bo.Op == token.NEQ {
							res = xv != f
						}
						return res == truth
					}
					if consistent(true) && !consistent(false) {
						return true
					}
				}
			}
			var other ssa.Value
			switch {
			case strip(bo.X) == typ:
				other = bo.Y
			case strip(bo.Y) == typ:
				other = bo.X
			default:
				return false
			}
			kc, isC := strip(other).(*ssa.Const)
			if !isC || kc.Value == nil || !constant.Compare(kc.Value, token.EQL, k.Val()) {
				return false
			}
			return (bo.Op == token.EQL && truth) || (bo.Op == token.NEQ && !truth)
		})
		c.Check("consume-matches-wiretype", name+"@ExtractSessionPrincipalWire", ci, g && ns > 0,
			"a principal field's payload is parsed with "+name+" on a path that has not established that the tag's wire type is "+wantConst[name]+
				": a field sent with another wire type (fixed32/fixed64/group) is mis-parsed and its remaining bytes are read as further fields instead of the proposal being rejected")
	}
	if n < 2 {
		c.Undecided("consume-matches-wiretype", "ExtractSessionPrincipalWire", "expected a ConsumeVarint and a ConsumeBytes parse")
	}
}
