package main

import (
	"fmt"
	"go/constant"
	"go/token"
	"strings"

	"golang.org/x/tools/go/ssa"
)

func init() {
	register(&propDef{
		ID:       "C17",
		Title:    "Initial and fallback server choice follows forced hosts, then the try list",
		Patterns: []string{"./pkg/edition/java/proxy", "./pkg/edition/java/lite", "./pkg/util/netutil", "./pkg/gate"},
		Run:      runC17,
		Rule: "P5 key provenance: the key of the ForcedHosts lookup in nextServerToTry is strings.ToLower(netutil.HostStr(lite.ClearVirtualHost(<virtual host>))) (the three normalisers, in that " +
			"nesting), ClearVirtualHost cuts at the Forge (NUL) and TCPShield (///) separators, and the config loader lower-cases the ForcedHosts keys; list precedence: the try list is " +
			"stored into the cursor only on the empty edge of the forced-hosts result; P2 skip conditions: the return of a candidate is cut off by (current server nil or name differs), " +
			"(in-flight nil or name differs) and (failed server nil or name differs); the candidate is element i of the list with i advancing by one from the saved cursor, and it is the " +
			"non-nil result of the proxy's server registry; kick result: DisconnectPlayerKickResult is built exactly on the nil edge of nextServerToTry(failed server) carrying the kick " +
			"reason, the redirect carries the chosen server, and handleKickEvent disconnects with the result's reason.",
		Explanation: "Decides: host normalisation used for the forced-hosts lookup, precedence forced hosts → try list, the three exclusions, list order, registered-only, disconnect with " +
			"reason when nothing remains. Does not decide: the outcome for whole configurations and event handlers that override the result.",
		Fixtures: []string{"provenance", "guardcut", "strshape"},
		Variants: []Variant{
			{Name: "forced-host-key-not-lowercased", File: pkgProxy + "/player.go",
				Old: "\treturn strings.ToLower(hostname)\n", New: "\treturn hostname\n", Expect: "host-key"},
			{Name: "forced-host-key-keeps-port", File: pkgProxy + "/player.go",
				Old: "\thostname := netutil.HostStr(cleanedHost)\n", New: "\thostname := cleanedHost\n", Expect: "host-key"},
			{Name: "tcpshield-suffix-kept", File: "pkg/edition/java/lite/util.go",
				Old: "\tname = strings.Split(name, tcpShieldRealIPSeparator)[0] // Remove real ip separator\n", New: "", Expect: "host-clean"},
			{Name: "inflight-not-skipped", File: pkgProxy + "/player.go",
				Old: "\t\t\t(p.connInFlight != nil && sameName(p.connInFlight.Server(), toTry)) ||\n", New: "", Expect: "skip:in-flight"},
			{Name: "failed-server-not-skipped", File: pkgProxy + "/player.go",
				Old: "\t\t\t(current != nil && sameName(current, toTry)) {", New: "\t\t\t(current == nil && toTry == \"\") {", Expect: "skip:failed"},
			{Name: "try-list-overrides-forced-hosts", File: pkgProxy + "/player.go",
				Old: "\tif len(p.serversToTry) == 0 {\n\t\tconnOrder := p.config().Try", New: "\t{\n\t\tconnOrder := p.config().Try", Expect: "precedence"},
			{Name: "kick-without-fallback-redirects", File: pkgProxy + "/switch.go",
				Old: "\t\tif next == nil {\n\t\t\tresult = &DisconnectPlayerKickResult{Reason: friendlyReason}", New: "\t\tif next != nil && kickReason != nil {\n\t\t\tresult = &DisconnectPlayerKickResult{Reason: friendlyReason}", Expect: "kick-result"},
			{Name: "config-keys-not-normalised", File: "pkg/gate/gate.go",
				Old: "\t\t\tnormalizedHost := strings.ToLower(host)\n", New: "\t\t\tnormalizedHost := strings.TrimSpace(host)\n", Expect: "config-keys-lowercased"},
		},
	})
}

// callNamed: v (through conversions and single-store cells) is a call to a function whose qualified name ends in suffix.
func callNamed(v ssa.Value, suffix string) *ssa.Call {
	cl, ok := seeThrough(v).(*ssa.Call)
	if !ok {
		return nil
	}
	if strings.HasSuffix(calleeName(&cl.Call), suffix) {
		return cl
	}
	return nil
}

func runC17(c *Ctx) {
	nx := c.MustFunc(pkgProxy + ":(*connectedPlayer).nextServerToTry")
	gv := c.MustFunc(pkgProxy + ":(*connectedPlayer).getVirtualHostname")
	if nx == nil || gv == nil {
		return
	}
	c.Analysed(nx, gv)

	// ---- (1) key of the forced-hosts lookup
	nLk := 0
	var forcedLookup *ssa.Lookup
	eachInstrDeep(nx, 2, func(in ssa.Instruction) {
		lk, ok := in.(*ssa.Lookup)
		if !ok || !strings.HasSuffix(PathOf(lk.X), ".ForcedHosts") {
			return
		}
		nLk++
		forcedLookup = lk
		cl := callNamed(lk.Index, "connectedPlayer).getVirtualHostname")
		c.Check("host-key", "ForcedHosts[key]@nextServerToTry", lk, cl != nil, "the forced-hosts table must be indexed with the normalised virtual host (getVirtualHostname)")
	})
	if nLk == 0 {
		c.Undecided("host-key", "nextServerToTry", "no ForcedHosts lookup found")
	}
	nRet := 0
	for _, r := range returnsOf(gv) {
		v := retVal(r, 0)
		if s, ok := constString(v); ok && s == "" {
			continue // no virtual host
		}
		nRet++
		ok := false
		detail := "returned value is not strings.ToLower(...)"
		if lo := callNamed(v, "strings.ToLower"); lo != nil {
			detail = "ToLower's argument is not netutil.HostStr(...) (the port stays in the key)"
			if hs := callNamed(lo.Call.Args[0], "netutil.HostStr"); hs != nil {
				detail = "HostStr's argument is not lite.ClearVirtualHost(...) (Forge / TCPShield suffixes stay in the key)"
				if cv := callNamed(hs.Call.Args[0], "lite.ClearVirtualHost"); cv != nil {
					detail = "ClearVirtualHost is not applied to the player's virtual host"
					if derivesFrom(cv.Call.Args[0], 4, func(x ssa.Value) bool { return strings.HasSuffix(PathOf(x), ".virtualHost") }) {
						ok = true
					}
				}
			}
		}
		c.Check("host-key", "ToLower(HostStr(ClearVirtualHost(vhost)))@getVirtualHostname", r, ok, "forced hosts are matched case-insensitively on the bare host: "+detail)
	}
	if nRet == 0 {
		c.Undecided("host-key", "getVirtualHostname", "no non-empty return")
	}
	// ClearVirtualHost cuts both suffix kinds
	if cv := c.MustFunc("pkg/edition/java/lite:ClearVirtualHost"); cv != nil {
		want := map[string]string{"\x00": "Forge marker (NUL)", "///": "TCPShield real-ip separator"}
		// what the returned string is: a chain of cuts/trims of the parameter (Split(..)[0], SplitN(..)[0],
		// Cut and helpers around them are one operation)
		got := map[string]bool{}
		first := true
		for _, r := range successReturns(cv) {
			src, steps := strChain(retVal(r, 0), 2)
			here := map[string]bool{}
			if strip(src) == ssa.Value(cv.Params[0]) {
				for _, st := range steps {
					if st.Kind == "cut" {
						here[st.Arg] = true
					}
				}
			}
			if first {
				got, first = here, false
				continue
			}
			for k := range got {
				if !here[k] {
					delete(got, k)
				}
			}
		}
		for sep, what := range want {
			c.CheckAt("host-clean", fmt.Sprintf("cut at %q@ClearVirtualHost", sep), c.P.Pos(cv.Pos()), got[sep], "the virtual host is not cut at the "+what)
		}
	}
	if hs := c.MustFunc("pkg/util/netutil:HostStr"); hs != nil {
		ok := false
		for range callsIn(hs, func(nm string, cc *ssa.CallCommon) bool {
			return strings.HasSuffix(nm, "netutil.splitHostPort") || nm == "net.SplitHostPort"
		}) {
			ok = true
		}
		c.CheckAt("host-clean", "port removed@HostStr", c.P.Pos(hs.Pos()), ok, "HostStr must split off the port")
	}
	// config keys lower-cased at load
	if fc := c.MustFunc("pkg/gate:finishConfigCandidate"); fc != nil {
		n := 0
		eachInstr(fc, func(in ssa.Instruction) {
			mu, ok := in.(*ssa.MapUpdate)
			if !ok {
				return
			}
			// the map that ends up in ForcedHosts
			stored := false
			eachInstr(fc, func(x ssa.Instruction) {
				if st, isSt := x.(*ssa.Store); isSt && strings.HasSuffix(PathOf(st.Addr), ".ForcedHosts") && seeThrough(st.Val) == seeThrough(mu.Map) {
					stored = true
				}
			})
			if !stored {
				return
			}
			n++
			c.Check("config-keys-lowercased", "ForcedHosts[ToLower(host)]@finishConfigCandidate", in, callNamed(mu.Key, "strings.ToLower") != nil,
				"forced-hosts keys from the config are not lower-cased although the lookup key is: a host configured with capitals never matches")
		})
		if n == 0 {
			c.Undecided("config-keys-lowercased", "finishConfigCandidate", "no rebuild of the ForcedHosts map found")
		}
	}

	// ---- (2) precedence: try list only when the forced-hosts result is empty
	isCursorAddr := func(v ssa.Value) bool { return strings.HasSuffix(PathOf(v), ".serversToTry") }
	lenZeroEdge := func(e Edge, cond ssa.Value, truth bool) bool {
		bo, ok := cond.(*ssa.BinOp)
		if !ok {
			return false
		}
		k, isK := constInt(bo.Y)
		cl := callValue(bo.X)
		if !isK || k != 0 || cl == nil {
			return false
		}
		if b, isB := cl.Call.Value.(*ssa.Builtin); !isB || b.Name() != "len" || !isCursorAddr(cl.Call.Args[0]) {
			return false
		}
		switch bo.Op {
		case token.EQL:
			return truth
		case token.NEQ, token.GTR:
			return !truth
		}
		return false
	}
	nTry, nForced := 0, 0
	eachInstrDeep(nx, 2, func(in ssa.Instruction) {
		st, ok := in.(*ssa.Store)
		if !ok {
			return
		}
		if fa, isFA := st.Addr.(*ssa.FieldAddr); !isFA || fieldOfAddr(fa).Name() != "serversToTry" {
			return
		}
		fromTry := derivesFrom(st.Val, 4, func(x ssa.Value) bool { return strings.HasSuffix(PathOf(x), ".Try") })
		fromForced := forcedLookup != nil && derivesFrom(st.Val, 4, func(x ssa.Value) bool { return x == ssa.Value(forcedLookup) })
		switch {
		case fromTry:
			nTry++
			g, ns := MustCross(st, lenZeroEdge)
			after := forcedLookup != nil && flowsTo(forcedLookup, st)
			// the emptiness test that guards it must come after the forced-hosts assignment
			afterForcedStore := false
			for _, e := range EdgeDominators(st.Block()) {
				cond, truth := e.Cond()
				if lenZeroEdge(e, cond, truth) && forcedLookup != nil && flowsTo(forcedLookup, lastInstr(e.From)) {
					afterForcedStore = true
				}
			}
			c.Check("precedence", "serversToTry=Try@nextServerToTry", st, g && ns > 0 && after && afterForcedStore,
				"the try list replaces the cursor list although forced hosts for this virtual host were found (it must be used only when the forced-hosts result is empty)")
		case fromForced:
			nForced++
			g, ns := MustCross(st, lenZeroEdge)
			c.Check("precedence", "serversToTry=ForcedHosts[host]@nextServerToTry", st, g && ns > 0, "the list is re-initialised although a cursor list exists")
		default:
			c.Check("precedence", "serversToTry=?@nextServerToTry", st, false, "the cursor list is set from something that is neither the forced hosts of the virtual host nor the try list")
		}
	})
	if nTry == 0 || nForced == 0 {
		c.Undecided("precedence", "nextServerToTry", fmt.Sprintf("stores into serversToTry: forced=%d try=%d", nForced, nTry))
	}

	// ---- (3) the candidate return and its three exclusions
	var cand *ssa.Return
	for _, r := range returnsOf(nx) {
		v := retVal(r, 0)
		if isNilConst(strip(v)) || r.Block() == nx.Recover {
			continue
		}
		if cand != nil {
			c.Undecided("skip", "nextServerToTry", "more than one non-nil return")
		}
		cand = r
	}
	if cand == nil {
		c.Undecided("skip", "nextServerToTry", "no candidate return")
		return
	}
	// registered: value is the result of <registry>.Server(toTry), non-nil
	rv := strip(retVal(cand, 0))
	var toTry ssa.Value
	regOK := false
	if cl, ok := rv.(*ssa.Call); ok && methodName(&cl.Call) == "Server" {
		as := callArgs(&cl.Call)
		toTry = as[len(as)-1]
		g, ns := MustCross(cand, func(e Edge, cond ssa.Value, truth bool) bool {
			v, isNil, okc := nilCmp(cond, truth)
			return okc && !isNil && strip(v) == rv
		})
		regOK = g && ns > 0
	}
	c.Check("registered", "return proxy.Server(name)!=nil@nextServerToTry", cand, regOK, "the chosen server must be the non-nil result of the registry lookup of the list entry")
	if toTry == nil {
		return
	}
	// list order
	ordOK, ordWhy := listOrder(nx, toTry, cand, isCursorAddr)
	c.Check("list-order", "serversToTry[i], i=tryIndex..@nextServerToTry", cand, ordOK,
		"candidates must be taken from the list in order, starting at the saved cursor and advancing by one, and the cursor must be saved as the absolute position of the candidate: "+ordWhy)

	mentions := func(cond ssa.Value, root func(ssa.Value) bool) bool {
		return derivesFrom(cond, 6, root)
	}
	excl := func(name string, root func(ssa.Value) bool, why string) {
		g, ns := MustCross(cand, func(e Edge, cond ssa.Value, truth bool) bool {
			if v, isNil, ok := nilCmp(cond, truth); ok {
				return isNil && root(strip(v)) || isNil && mentions(v, root)
			}
			if !mentions(cond, root) {
				return false
			}
			// a name comparison (helper call or ==) that came out false
			switch x := cond.(type) {
			case *ssa.Call:
				return !truth
			case *ssa.BinOp:
				if x.Op == token.EQL {
					return !truth
				}
				if x.Op == token.NEQ {
					return truth
				}
			}
			return false
		})
		c.Check("skip", name+"@nextServerToTry", cand, g && ns >= 1, why)
	}
	excl("current-server", func(v ssa.Value) bool { return strings.HasSuffix(PathOf(v), ".connectedServer_") },
		"a list entry naming the player's current server can be chosen")
	excl("in-flight", func(v ssa.Value) bool { return strings.HasSuffix(PathOf(v), ".connInFlight") },
		"a list entry naming the server of the connection in flight can be chosen")
	excl("failed", func(v ssa.Value) bool { p, ok := v.(*ssa.Parameter); return ok && p == nx.Params[1] },
		"the server that just failed (the argument) can be chosen again")

	// ---- (4) kick result
	h2 := c.MustFunc(pkgProxy + ":(*connectedPlayer).handleConnectionErr2")
	if h2 != nil {
		c.Analysed(h2)
		var call *ssa.Call
		// the selection may live in a helper of handleConnectionErr2: analyse the function that calls nextServerToTry
		for _, f := range deepFuncs(h2, 2) {
			for _, ci := range callsIn(f, func(nm string, cc *ssa.CallCommon) bool { return strings.HasSuffix(nm, "connectedPlayer).nextServerToTry") }) {
				if cl, ok := ci.(*ssa.Call); ok {
					call = cl
					h2 = f
					c.Analysed(f)
				}
			}
		}
		if call == nil {
			c.Undecided("kick-result", "handleConnectionErr2", "nextServerToTry is not called")
		} else {
			_, isPrm := strip(call.Call.Args[1]).(*ssa.Parameter)
			c.Check("kick-result", "nextServerToTry(failed)@handleConnectionErr2", call, isPrm, "the failed server must be passed as the server to exclude")
			nD, nR := 0, 0
			eachInstr(h2, func(in ssa.Instruction) {
				a, ok := in.(*ssa.Alloc)
				if !ok {
					return
				}
				switch {
				case typeIs(a.Type(), "java/proxy", "DisconnectPlayerKickResult"):
					nD++
					g, ns := MustCross(a, func(e Edge, cond ssa.Value, truth bool) bool {
						v, isNil, okc := nilCmp(cond, truth)
						return okc && isNil && strip(v) == ssa.Value(call)
					})
					reason := false
					for _, ref := range *a.Referrers() {
						if fa, isFA := ref.(*ssa.FieldAddr); isFA && fieldOfAddr(fa).Name() == "Reason" {
							for _, r2 := range *fa.Referrers() {
								if st, isSt := r2.(*ssa.Store); isSt {
									if _, isP := strip(st.Val).(*ssa.Parameter); isP {
										reason = true
									}
								}
							}
						}
					}
					c.Check("kick-result", "Disconnect-iff-no-next@handleConnectionErr2", a, g && ns > 0 && reason,
						"the disconnect result must be built exactly when no next server exists, carrying the kick reason")
				case typeIs(a.Type(), "java/proxy", "RedirectPlayerKickResult"):
					nR++
					g, ns := MustCross(a, func(e Edge, cond ssa.Value, truth bool) bool {
						v, isNil, okc := nilCmp(cond, truth)
						return okc && !isNil && strip(v) == ssa.Value(call)
					})
					srv := false
					for _, ref := range *a.Referrers() {
						if fa, isFA := ref.(*ssa.FieldAddr); isFA && fieldOfAddr(fa).Name() == "Server" {
							for _, r2 := range *fa.Referrers() {
								if st, isSt := r2.(*ssa.Store); isSt && strip(st.Val) == ssa.Value(call) {
									srv = true
								}
							}
						}
					}
					c.Check("kick-result", "Redirect-to-next@handleConnectionErr2", a, g && ns > 0 && srv, "the redirect must point at the server nextServerToTry chose, on its non-nil edge")
				}
			})
			if nD == 0 || nR == 0 {
				c.Undecided("kick-result", "handleConnectionErr2", fmt.Sprintf("results built: disconnect=%d redirect=%d", nD, nR))
			}
		}
	}
	if hk := c.MustFunc(pkgProxy + ":(*connectedPlayer).handleKickEvent"); hk != nil {
		ok := false
		for _, ci := range callsIn(hk, func(nm string, cc *ssa.CallCommon) bool { return methodName(cc) == "Disconnect" }) {
			as := callArgs(ci.Common())
			if derivesFrom(as[len(as)-1], 4, func(x ssa.Value) bool { return strings.HasSuffix(PathOf(x), ".Reason") }) {
				ok = true
			}
		}
		c.CheckAt("kick-result", "Disconnect(result.Reason)@handleKickEvent", c.P.Pos(hk.Pos()), ok, "a disconnect result must disconnect the player with the result's reason")
	}
	// initial choice uses the same cursor with nothing to exclude
	if ci := c.MustFunc(pkgProxy + ":(*authSessionHandler).connectToInitialServer"); ci != nil {
		ok := false
		for _, cs := range callsIn(ci, func(nm string, cc *ssa.CallCommon) bool { return strings.HasSuffix(nm, "connectedPlayer).nextServerToTry") }) {
			if isNilConst(strip(cs.Common().Args[1])) {
				ok = true
			}
		}
		c.CheckAt("initial", "nextServerToTry(nil)@connectToInitialServer", c.P.Pos(ci.Pos()), ok, "the initial server must come from the forced-hosts / try-list cursor")
	}
	_ = constant.MakeBool
	checkExclusionAlive(c)
}
