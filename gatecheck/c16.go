package main

import (
	"fmt"
	"strings"

	"golang.org/x/tools/go/ssa"
)

func init() {
	register(&propDef{
		ID:       "C16",
		Title:    "Server switches keep exactly one live backend and consistent server player lists",
		Patterns: []string{"./pkg/edition/java/proxy"},
		Run:      runC16,
		Rule: "P4: connectedPlayer.connInFlight and connectedServer_ are only accessed with connectedPlayer.mu held (helpers documented \"without locking\" through the caller-holds summary); " +
			"claim rule (check-then-act): every store of a possibly non-nil connection into connInFlight happens with mu held exclusively, is dominated by the nil edge of a connInFlight " +
			"test, and no lock operation on mu lies between that test and the store — a setter that only takes its own lock may be called with nil only; " +
			"release rule: the deferred reset in internalConnect and resetIfInFlightIs clear the slot only if it still holds the request's own connection (identity-conditional); " +
			"P10: in doSwitch and the transition handler's handleJoinGame every path after the previous connection was found non-nil calls disconnect() on it; " +
			"sibling pairing: the backend play handler's Activated adds and Disconnected removes the same (server.players, player) pair.",
		Explanation: "Decides: at most one attempt can own the in-flight slot (the test and the claim are one critical section), guarded state, the previous backend is closed on a switch, " +
			"player-list add/remove are paired on the same server object. Does not decide: outcomes of whole histories with refusing/kicking/slow backends (fallback order is C17).",
		Fixtures: []string{"lockset", "guardcut"},
		Variants: []Variant{
			{Name: "claim-after-separate-check", File: pkgProxy + "/switch.go",
				Old: "\tif status, ok = c.claimInFlight(newDest, conn); !ok {\n\t\treturn plainConnectionResult(status, newDest), nil\n\t}\n", New: "\tc.player.setInFlightConnection(conn)\n", Expect: "claim"},
			{Name: "claim-under-rlock-then-lock", File: pkgProxy + "/switch.go",
				Old: "\tc.player.mu.Lock()\n\tdefer c.player.mu.Unlock()\n\tif s, ok = c.checkServer0(server); ok {\n\t\tc.player.connInFlight = conn\n\t}\n\treturn s, ok",
				New: "\tc.player.mu.RLock()\n\ts, ok = c.checkServer0(server)\n\tc.player.mu.RUnlock()\n\tif ok {\n\t\tc.player.mu.Lock()\n\t\tc.player.connInFlight = conn\n\t\tc.player.mu.Unlock()\n\t}\n\treturn s, ok", Expect: "claim"},
			{Name: "reset-unconditional", File: pkgProxy + "/switch.go",
				Old: "\tif c.player.connInFlight == establishedConnection {\n\t\tc.player.connInFlight = nil\n\t}", New: "\tc.player.connInFlight = nil", Expect: "release-identity"},
			{Name: "switch-keeps-old-backend-open", File: pkgProxy + "/session_client_play.go",
				Old: "\t\tc.player.setConnectedServer(nil)\n\t\texistingConn.disconnect()\n", New: "\t\tc.player.setConnectedServer(nil)\n", Expect: "previous-closed"},
			{Name: "connected-server-unlocked-read", File: pkgProxy + "/player.go",
				Old: "func (p *connectedPlayer) connectedServer() *serverConnection {\n\tp.mu.RLock()\n\tdefer p.mu.RUnlock()\n", New: "func (p *connectedPlayer) connectedServer() *serverConnection {\n", Expect: "guarded"},
			{Name: "disconnected-removes-from-previous", File: pkgProxy + "/session_backend_play.go",
				Old: "\tb.serverConn.server.players.remove(b.serverConn.player)", New: "\tif prev := b.serverConn.previousServer; prev != nil {\n\t\tprev.players.remove(b.serverConn.player)\n\t}", Expect: "player-list-paired"},
		},
	})
}

func runC16(c *Ctx) {
	scope := c.P.Funcs(Mod + "/" + pkgProxy)
	lc := NewLockCtx(c.P, scope)

	// (a) guarded state
	checkGuarded(c, lc, scope, GuardSpec{Type: pkgProxy + ":connectedPlayer", Mutex: "mu", Fields: []string{"connInFlight", "connectedServer_"}})
	c.Floor("guarded", 20)

	inFlight := c.P.FieldVar(pkgProxy+":connectedPlayer", "connInFlight")
	if inFlight == nil {
		c.Undecided("anchor", "connectedPlayer.connInFlight", "field not found")
		return
	}
	isInFlightAddr := func(v ssa.Value) bool {
		fa, ok := v.(*ssa.FieldAddr)
		return ok && sameField(fieldOfAddr(fa), inFlight)
	}
	isMuOp := func(x ssa.Instruction) bool {
		if cc := callOf(x); cc != nil {
			if p, _, ok := lockOp(cc); ok && strings.HasSuffix(p, ".mu") {
				return true
			}
		}
		return false
	}
	// nil test of the slot: the cond of an If is (load connInFlight) ==/!= nil; selected edge = slot is nil
	slotNilEdge := func(e Edge, cond ssa.Value, truth bool) bool {
		for _, o := range origins(cond, 3) {
			bo, ok := o.(*ssa.BinOp)
			if !ok {
				continue
			}
			v, isNil, okc := nilCmp(bo, truth)
			if !okc || !isNil {
				continue
			}
			if ld, ok := strip(v).(*ssa.UnOp); ok && isInFlightAddr(ld.X) {
				return true
			}
		}
		return false
	}
	// does fn (transitively, static calls, same receiver player) test the slot and return ok only when nil?
	// Recognised directly: a call to a function whose bool result is true only past the slot-nil edge.
	okOnlyIfSlotNil := func(f *ssa.Function) bool {
		if f == nil || f.Blocks == nil {
			return false
		}
		res := f.Signature.Results()
		if res.Len() == 0 || res.At(res.Len()-1).Type().String() != "bool" {
			return false
		}
		n := 0
		for _, r := range returnsOf(f) {
			v := retVal(r, res.Len()-1)
			if b, isC := constBool(v); isC && !b {
				continue
			}
			n++
			g, ns := MustCross(r, slotNilEdge)
			if !g || ns == 0 {
				return false
			}
		}
		return n > 0
	}
	nClaims := 0
	claimSite := func(fn *ssa.Function, st *ssa.Store) {
		nClaims++
		key := "claim@" + shortName(fn)
		held := lc.At(st)
		excl := false
		for p, k := range held {
			if strings.HasSuffix(p, ".mu") && k == 'W' {
				excl = true
			}
		}
		if !excl {
			c.Check("claim", key, st, false, "a connection is put into the in-flight slot without holding connectedPlayer.mu exclusively")
			return
		}
		// the test: either a direct nil test of the slot, or the ok result of a helper that only says ok past that test
		var testInstr func(ssa.Instruction) bool
		g, ns := MustCross(st, slotNilEdge)
		if g && ns > 0 {
			testInstr = func(x ssa.Instruction) bool {
				ld, ok := x.(*ssa.UnOp)
				return ok && isInFlightAddr(ld.X)
			}
		} else {
			g, ns = MustCross(st, func(e Edge, cond ssa.Value, truth bool) bool {
				if !truth {
					return false
				}
				for _, o := range origins(cond, 3) {
					if ex, ok := o.(*ssa.Extract); ok {
						if cl, ok := ex.Tuple.(*ssa.Call); ok && okOnlyIfSlotNil(staticCallee(&cl.Call)) {
							return true
						}
					}
					if cl, ok := o.(*ssa.Call); ok && okOnlyIfSlotNil(staticCallee(&cl.Call)) {
						return true
					}
				}
				return false
			})
			if g && ns > 0 {
				testInstr = func(x ssa.Instruction) bool {
					cl, ok := x.(*ssa.Call)
					return ok && okOnlyIfSlotNil(staticCallee(&cl.Call))
				}
			}
		}
		if testInstr == nil {
			c.Check("claim", key, st, false,
				"a connection is put into the in-flight slot on a path that has not seen the slot empty in this function (check-then-act: two concurrent connection requests can both pass an earlier check and both dial a backend)")
			return
		}
		ms := NewMustSince(fn, testInstr, isMuOp)
		c.Check("claim", key, st, ms.At(st),
			"the emptiness test of the in-flight slot and the store that claims it are not in one critical section of connectedPlayer.mu (the lock is released or re-taken in between)")
	}
	for _, fn := range scope {
		eachInstr(fn, func(in ssa.Instruction) {
			st, ok := in.(*ssa.Store)
			if !ok || !isInFlightAddr(st.Addr) {
				return
			}
			if isNilConst(strip(st.Val)) {
				return
			}
			if prm, isP := strip(st.Val).(*ssa.Parameter); isP {
				// setter: every call site must pass nil, otherwise the call site is a claim without a test
				idx := -1
				for i, q := range fn.Params {
					if q == prm {
						idx = i
					}
				}
				sites := lc.Callers[fn]
				nonNil := 0
				for _, cs := range sites {
					a := cs.Instr.Common().Args[idx]
					if isNilConst(strip(a)) {
						continue
					}
					nonNil++
				}
				if nonNil == 0 && len(sites) > 0 {
					c.Check("claim", "setter-nil-only@"+shortName(fn), st, true, "")
					return
				}
				if nonNil > 0 {
					// the setter stores whatever it is given: judge it as a claim inside the setter
					claimSite(fn, st)
					return
				}
			}
			claimSite(fn, st)
		})
	}
	if nClaims == 0 {
		c.Undecided("claim", "connInFlight", "no store of a connection into the in-flight slot found")
	}

	// (b) release is identity-conditional: whatever internalConnect defers to give the slot back
	// (followed through static calls) may clear it only after comparing it with the request's own connection
	if ic := c.MustFunc(pkgProxy + ":(*connectionRequest).internalConnect"); ic != nil {
		checkReleaseIdentity(c, ic, isInFlightAddr)
	}
	{
		var own []*ssa.Function
		for _, f := range scope {
			if fnPkgPath(f) == Mod+"/"+pkgProxy {
				own = append(own, f)
			}
		}
		checkServerEquality(c, own)
	}

	// (c) the previous backend connection is closed on a switch
	for _, spec := range []struct{ fn, what string }{
		{pkgProxy + ":(*clientPlaySessionHandler).doSwitch", "doSwitch"},
		{pkgProxy + ":(*backendTransitionSessionHandler).handleJoinGame", "handleJoinGame"},
	} {
		fn := c.MustFunc(spec.fn)
		if fn == nil {
			continue
		}
		n := 0
		for _, e := range IfEdges(fn) {
			cond, truth := e.Cond()
			v, isNil, ok := nilCmp(cond, truth)
			if !ok || isNil {
				continue
			}
			if !typeIs(v.Type(), "java/proxy", "serverConnection") {
				continue
			}
			n++
			first := e.To().Instrs[0]
			isDisc := func(x ssa.Instruction) bool {
				cc := callOf(x)
				return cc != nil && methodName(cc) == "disconnect" && len(cc.Args) > 0 && sameValue(cc.Args[0], v)
			}
			miss, at := MayReachExitWithout(first, isDisc)
			if isDisc(first) {
				miss = false
			}
			if at == nil {
				at = first
			}
			c.Check("previous-closed", "existing.disconnect()@"+spec.what, at, !miss,
				"a path through the switch leaves the previous backend connection open although it was found connected (two live backends for one player)")
		}
		if n == 0 {
			c.Undecided("previous-closed", spec.what, "no `existing connection != nil` branch found")
		}
	}

	// (d) player-list pairing
	act := c.MustFunc(pkgProxy + ":(*backendPlaySessionHandler).Activated")
	dis := c.MustFunc(pkgProxy + ":(*backendPlaySessionHandler).Disconnected")
	if act != nil && dis != nil {
		site := func(fn *ssa.Function, m string) (recv, arg string, n int, at ssa.Instruction) {
			for _, ci := range callsIn(fn, func(nm string, cc *ssa.CallCommon) bool {
				return methodName(cc) == m && len(cc.Args) > 0 && typeIs(cc.Args[0].Type(), "java/proxy", "players")
			}) {
				n++
				at = ci
				recv = PathOf(ci.Common().Args[0])
				if as := callArgs(ci.Common()); len(as) > 1 {
					arg = PathOf(as[1])
				}
			}
			return
		}
		ar, aa, an, aat := site(act, "add")
		dr, da, dn, dat := site(dis, "remove")
		c.Check("player-list-paired", "players.add@Activated", aat, an == 1 && strings.HasSuffix(ar, ".serverConn.server.players") && strings.HasSuffix(aa, ".serverConn.player"),
			fmt.Sprintf("Activated must add the connection's player to the connection's own server list (found %d add calls: %s ← %s)", an, ar, aa))
		c.Check("player-list-paired", "players.remove@Disconnected", dat, dn == 1 && dr == ar && da == aa,
			fmt.Sprintf("Disconnected must remove exactly what Activated added (add: %s ← %s; remove: %s ← %s)", ar, aa, dr, da))
		// the removal is unconditional (first thing the handler does)
		if dat != nil {
			g, _ := MustCross(dat, func(e Edge, cond ssa.Value, truth bool) bool { return true })
			c.Check("player-list-paired", "remove-unconditional@Disconnected", dat, !g, "the removal from the server's player list must not depend on a condition")
		}
	}
}
