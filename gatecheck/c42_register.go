package main

import (
	"go/token"
	"strings"

	"golang.org/x/tools/go/ssa"
)

// checkRegisterDecidedUnderLock: ThenAccept decides between "call now" and "register for later" by
// reading `completed`. The registration (append to `callback`) must happen in the very critical
// section in which `completed` was read as false, with the mutex held exclusively: if the lock is
// released in between (read lock, then upgrade), Complete can drain the callback list in the gap and
// the callback registered afterwards is never run — a ThenCompose chain built on it never completes.
func checkRegisterDecidedUnderLock(c *Ctx, lc *LockCtx, taRoot *ssa.Function, cbName string) {
	// the registration may live in a helper of ThenAccept that runs under its lock (acceptLocked)
	for _, ta := range deepFuncs(taRoot, 1) {
		if checkRegisterIn(c, lc, ta, cbName) {
			return
		}
	}
	c.Undecided("register-atomic", "ThenAccept", "no registration (store to callback) found")
}

func checkRegisterIn(c *Ctx, lc *LockCtx, ta *ssa.Function, cbName string) bool {
	isCompletedLoad := func(x ssa.Instruction) bool {
		ld, ok := x.(*ssa.UnOp)
		if !ok || ld.Op != token.MUL {
			return false
		}
		fa, ok := ld.X.(*ssa.FieldAddr)
		return ok && fieldOfAddr(fa).Name() == "completed"
	}
	isMuOp := func(x ssa.Instruction) bool {
		if cc := callOf(x); cc != nil {
			if p, _, ok := lockOp(cc); ok && strings.HasSuffix(p, ".mu") {
				return true
			}
		}
		return false
	}
	n := 0
	eachInstr(ta, func(in ssa.Instruction) {
		st, ok := in.(*ssa.Store)
		if !ok {
			return
		}
		fa, isFA := st.Addr.(*ssa.FieldAddr)
		if !isFA || fieldOfAddr(fa).Name() != cbName {
			return
		}
		n++
		// behind completed == false
		g, ns := MustCross(st, func(e Edge, cond ssa.Value, truth bool) bool {
			in2, isIn := strip(cond).(ssa.Instruction)
			return isIn && isCompletedLoad(in2) && !truth
		})
		ms := NewMustSince(ta, isCompletedLoad, isMuOp)
		excl := false
		for p, k := range lc.At(st) {
			if strings.HasSuffix(p, ".mu") && k == 'W' {
				excl = true
			}
		}
		c.Check("register-atomic", "completed-read+append-one-critical-section@ThenAccept", st, g && ns > 0 && ms.At(st) && excl,
			"the callback is registered in a different critical section than the one in which the future was seen incomplete (or without the exclusive lock): a Complete that runs in between drains the list first and this callback is never called")
	})
	return n > 0
}
