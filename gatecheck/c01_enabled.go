package main

import (
	"go/token"

	"golang.org/x/tools/go/ssa"
)

// checkCompressionEnableAgreement: the writer and the reader of one connection are told the same
// threshold and must agree on what it means. Both switch the compressed frame envelope on for
// threshold >= 0 (0 = compress everything, as vanilla does); if one side used > 0 the other would read
// the first payload byte as the data-length VarInt at threshold 0.
func checkCompressionEnableAgreement(c *Ctx) {
	type side struct {
		fn, field string
	}
	rel := map[string]string{}
	for _, s := range []side{{":(*Encoder).SetCompression", "enabled"}, {":(*Decoder).SetCompressionThreshold", "compression"}} {
		fn := c.MustFunc(pkgCodec + s.fn)
		if fn == nil {
			continue
		}
		c.Analysed(fn)
		thr := fn.Params[1]
		found := ""
		eachInstr(fn, func(in ssa.Instruction) {
			st, ok := in.(*ssa.Store)
			if !ok {
				return
			}
			fa, isFA := st.Addr.(*ssa.FieldAddr)
			if !isFA || fieldOfAddr(fa).Name() != s.field {
				return
			}
			if _, isBool := constBool(st.Val); isBool {
				return
			}
			bo, isB := strip(st.Val).(*ssa.BinOp)
			if !isB {
				found = "?"
				return
			}
			op, x, y := bo.Op, bo.X, bo.Y
			if strip(y) == ssa.Value(thr) {
				op, x, y = flipOp(op), y, x
			}
			k, isK := constInt(y)
			if strip(x) != ssa.Value(thr) || !isK {
				found = "?"
				return
			}
			// normalise to "threshold >= k"
			switch op {
			case token.GEQ:
			case token.GTR:
				k++
			default:
				found = "?"
				return
			}
			found = "threshold >= " + itoa(k)
		})
		rel[s.fn] = found
		c.CheckAt("enable-agreement", "enabled⇔threshold>=0@"+s.fn[1:], c.P.Pos(fn.Pos()), found == "threshold >= 0",
			"compression must be on exactly for threshold >= 0 on both the writing and the reading side of a connection (derived: "+found+"); a side that differs mis-frames every packet at the boundary value")
	}
}

func itoa(k int64) string {
	neg := k < 0
	if neg {
		k = -k
	}
	s := ""
	if k == 0 {
		s = "0"
	}
	for k > 0 {
		s = string(rune('0'+k%10)) + s
		k /= 10
	}
	if neg {
		s = "-" + s
	}
	return s
}
