package main

import (
	"go/token"

	"golang.org/x/tools/go/ssa"
)

// Constant-trip-count loops. The wire grammar reads a loop as "zero or more repetitions of its body",
// which is right for loops over data (one element per entry) and wrong for a loop that is only a
// compact spelling of a fixed sequence — `for _, h := range [...]int{a, b, c, d} { WriteVarInt(wr, h) }`
// writes exactly four VarInts. Such loops are unrolled: the states of the header and of the body are
// replicated once per iteration (layers), the back edge leads to the next layer, the body edge of the
// header exists in every layer but the last and the exit edge only in the last.
type constLoop struct {
	header  *ssa.BasicBlock
	body    map[*ssa.BasicBlock]bool // natural loop without the header
	trips   int
	bodyIdx int // index of the header's successor that enters the body
}

const maxUnroll = 16

// constLoops finds the innermost-free constant-trip loops of fn: header ends in `i < K` (or
// `i+1 < K`, the range form) on an induction variable that starts at a constant and grows by one.
func constLoops(fn *ssa.Function) map[*ssa.BasicBlock]*constLoop {
	out := map[*ssa.BasicBlock]*constLoop{}
	for _, h := range fn.Blocks {
		iff, ok := lastInstr(h).(*ssa.If)
		if !ok || len(h.Succs) != 2 {
			continue
		}
		back := false
		for _, p := range h.Preds {
			if h.Dominates(p) {
				back = true
			}
		}
		if !back {
			continue
		}
		bo, ok := iff.Cond.(*ssa.BinOp)
		if !ok || bo.Op != token.LSS {
			continue
		}
		kc, isK := bo.Y.(*ssa.Const)
		if !isK {
			continue
		}
		k, isInt := constInt(kc)
		if !isInt {
			continue
		}
		// the induction variable
		var phi *ssa.Phi
		plusOne := false
		switch x := bo.X.(type) {
		case *ssa.Phi:
			phi = x
		case *ssa.BinOp:
			if p, isP := x.X.(*ssa.Phi); isP && x.Op == token.ADD {
				if one, is1 := constInt(x.Y); is1 && one == 1 {
					phi, plusOne = p, true
				}
			}
		}
		if phi == nil || phi.Block() != h {
			continue
		}
		start, haveStart, stepOK := int64(0), false, true
		for i, e := range phi.Edges {
			pred := h.Preds[i]
			if h.Dominates(pred) {
				// back edge: phi + 1
				inc, isB := e.(*ssa.BinOp)
				if !isB || inc.Op != token.ADD || inc.X != ssa.Value(phi) {
					stepOK = false
					continue
				}
				if one, is1 := constInt(inc.Y); !is1 || one != 1 {
					stepOK = false
				}
				if plusOne && e != bo.X {
					stepOK = false
				}
			} else {
				s, isS := constInt(e)
				if !isS || (haveStart && s != start) {
					stepOK = false
					continue
				}
				start, haveStart = s, true
			}
		}
		if !stepOK || !haveStart {
			continue
		}
		trips := k - start
		if plusOne {
			trips = k - (start + 1)
		}
		if trips < 1 || trips > maxUnroll {
			continue
		}
		body := map[*ssa.BasicBlock]bool{}
		for _, b := range fn.Blocks {
			if b != h && h.Dominates(b) && reach(b, nil)[h] {
				body[b] = true
			}
		}
		// the true successor enters the body
		if !body[h.Succs[0]] || body[h.Succs[1]] {
			continue
		}
		out[h] = &constLoop{header: h, body: body, trips: int(trips), bodyIdx: 0}
	}
	// no nesting of unrolled loops: drop a loop whose body holds another candidate's header, and a
	// loop that sits inside another candidate
	for h, l := range out {
		for h2 := range out {
			if h2 != h && l.body[h2] {
				delete(out, h)
				delete(out, h2)
			}
		}
	}
	return out
}
