package main

import (
	"sort"

	"golang.org/x/tools/go/ssa"
)

// Lock pairing ("every acquire is released on all exits"). A forward MAY analysis: the set of mutexes
// that can still be held at an instruction on some path. At a return, a mutex acquired in this function
// that may be held, and for which no dominating `defer Unlock` exists, is leaked: the next Lock on it
// blocks forever. Exempt by construction: a function that returns a closure releasing the mutex
// (lock-and-return-unlock helpers).

type LockLeak struct {
	Fn    *ssa.Function
	At    *ssa.Return
	Mutex string
}

func lockLeaks(fn *ssa.Function) []LockLeak {
	if len(fn.Blocks) == 0 {
		return nil
	}
	type state map[string]byte
	clone := func(s state) state {
		o := state{}
		for k, v := range s {
			o[k] = v
		}
		return o
	}
	apply := func(st state, in ssa.Instruction) {
		if cl, ok := in.(*ssa.Call); ok {
			if p, k, ok := lockOp(&cl.Call); ok {
				switch k {
				case "Lock":
					st[p] = 'W'
				case "RLock":
					if st[p] != 'W' {
						st[p] = 'R'
					}
				case "Unlock", "RUnlock":
					delete(st, p)
				}
			}
		}
		if d, ok := in.(*ssa.Defer); ok {
			if p, k, ok := lockOp(&d.Call); ok && (k == "Unlock" || k == "RUnlock") {
				if _, held := st[p]; held {
					st[p] = 'D' // will be released when the function returns
				}
				return
			}
			// defer func() { … mu.Unlock() … }()
			if mc, ok := d.Call.Value.(*ssa.MakeClosure); ok {
				if f, ok := mc.Fn.(*ssa.Function); ok {
					unlocks := false
					eachInstr(f, func(y ssa.Instruction) {
						if cl, ok := y.(*ssa.Call); ok {
							if _, k, ok := lockOp(&cl.Call); ok && (k == "Unlock" || k == "RUnlock") {
								unlocks = true
							}
						}
					})
					if unlocks {
						for p := range st {
							st[p] = 'D'
						}
					}
				}
			}
		}
	}
	in := map[*ssa.BasicBlock]state{fn.Blocks[0]: {}}
	work := []*ssa.BasicBlock{fn.Blocks[0]}
	for len(work) > 0 {
		b := work[0]
		work = work[1:]
		st := clone(in[b])
		for _, x := range b.Instrs {
			apply(st, x)
		}
		for i, s := range b.Succs {
			out := st
			if _, ok := lastInstr(b).(*ssa.If); ok {
				c, truth := Edge{b, i}.Cond()
				if call := callValue(c); call != nil {
					if p, k, ok := lockOp(&call.Call); ok && (k == "TryLock" || k == "TryRLock") && truth {
						out = clone(st)
						out[p] = 'W'
					}
				}
			}
			old, had := in[s]
			changed := !had
			nw := state{}
			if had {
				nw = clone(old)
			}
			for k, v := range out {
				cur, ok := nw[k]
				if !ok || (cur == 'D' && v != 'D') {
					nw[k] = v
					changed = true
				}
			}
			if changed {
				in[s] = nw
				work = append(work, s)
			}
		}
	}
	// a function that hands back the unlock is a lock helper
	returnsUnlocker := false
	eachInstr(fn, func(x ssa.Instruction) {
		mc, ok := x.(*ssa.MakeClosure)
		if !ok {
			return
		}
		f, ok := mc.Fn.(*ssa.Function)
		if !ok {
			return
		}
		unlocks := false
		eachInstr(f, func(y ssa.Instruction) {
			if cc := callOf(y); cc != nil {
				if _, k, ok := lockOp(cc); ok && (k == "Unlock" || k == "RUnlock") {
					unlocks = true
				}
			}
		})
		if unlocks && mc.Referrers() != nil {
			for _, r := range *mc.Referrers() {
				if _, isRet := r.(*ssa.Return); isRet {
					returnsUnlocker = true
				}
			}
		}
	})
	if returnsUnlocker {
		return nil
	}
	var out []LockLeak
	for _, r := range returnsOf(fn) {
		if r.Block() == fn.Recover {
			continue
		}
		st, ok := in[r.Block()]
		if !ok {
			continue
		}
		st = clone(st)
		for _, x := range r.Block().Instrs {
			if x == ssa.Instruction(r) {
				break
			}
			apply(st, x)
		}
		var ms []string
		for m := range st {
			ms = append(ms, m)
		}
		sort.Strings(ms)
		for _, m := range ms {
			if st[m] != 'D' {
				out = append(out, LockLeak{fn, r, m})
			}
		}
	}
	return out
}

// checkLockBalanced reports leaked mutexes in scope (functions that take a lock themselves).
func checkLockBalanced(c *Ctx, scope []*ssa.Function) {
	n := 0
	for _, fn := range scope {
		takes := false
		eachInstr(fn, func(in ssa.Instruction) {
			if cl, ok := in.(*ssa.Call); ok {
				if _, k, ok := lockOp(&cl.Call); ok && (k == "Lock" || k == "RLock" || k == "TryLock" || k == "TryRLock") {
					takes = true
				}
			}
		})
		if !takes {
			continue
		}
		n++
		leaks := lockLeaks(fn)
		if len(leaks) == 0 {
			c.CheckAt("lock-released", shortName(fn), c.P.Pos(fn.Pos()), true, "")
			continue
		}
		for _, l := range leaks {
			c.Check("lock-released", shortName(fn), l.At, false,
				"this return leaves "+l.Mutex+" locked (no Unlock on this path and no deferred one): the next goroutine that needs the mutex blocks forever")
		}
	}
	c.Info["lock_taking_functions_checked_for_release"] = n
}
