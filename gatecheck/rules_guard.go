package main

import (
	"fmt"
	"go/token"
	"go/types"
	"strings"

	"golang.org/x/tools/go/ssa"
)

// GuardSpec: fields of a struct type that must only be touched with a mutex field of the same
// struct held.
type GuardSpec struct {
	Type   string   // "pkg/rel:TypeName"
	Sub    string   // optional: name of an anonymous-struct field of Type that holds both the mutex and the fields
	Mutex  string   // mutex field name (embedded mutexes: "RWMutex"/"Mutex")
	Fields []string // guarded fields
	// Exempt: function short names (shortName) that may touch the field without the lock, each with
	// a reason. One named symbol per entry.
	Exempt map[string]string
	// NoEscape: additionally demand that reference values loaded from these fields are only used
	// while the lock is held (C12-style snapshot rule).
	NoEscape bool
	// ReadsNeedLock: if false only writes are checked.
	WritesOnly bool
}

// checkGuarded evaluates a GuardSpec over scope. Returns the number of access sites seen.
func checkGuarded(c *Ctx, lc *LockCtx, scope []*ssa.Function, spec GuardSpec) int {
	n := 0
	tn := spec.Type[strings.IndexByte(spec.Type, ':')+1:]
	lookup := func(name string) *types.Var {
		if spec.Sub == "" {
			return c.P.FieldVar(spec.Type, name)
		}
		sub := c.P.FieldVar(spec.Type, spec.Sub)
		if sub == nil {
			return nil
		}
		st, ok := sub.Type().Underlying().(*types.Struct)
		if !ok {
			return nil
		}
		for i := 0; i < st.NumFields(); i++ {
			if st.Field(i).Name() == name {
				return st.Field(i)
			}
		}
		return nil
	}
	if spec.Sub != "" {
		tn += "." + spec.Sub
	}
	fields := spec.Fields
	if len(fields) == 1 && fields[0] == "*" && spec.Sub == "" {
		// every field the mutex sits in front of: all fields of the struct but the mutex itself and
		// other synchronisation primitives (a renamed field stays covered)
		fields = nil
		if mv := c.P.FieldVar(spec.Type, spec.Mutex); mv != nil {
			if st := structOfField(c.P, spec.Type); st != nil {
				for i := 0; i < st.NumFields(); i++ {
					fld := st.Field(i)
					if fld.Name() == spec.Mutex || strings.HasPrefix(fld.Type().String(), "sync.") || strings.HasPrefix(fld.Type().String(), "sync/atomic.") {
						continue
					}
					fields = append(fields, fld.Name())
				}
			}
		}
		if len(fields) == 0 {
			c.Undecided("anchor", spec.Type+".*", "no guarded fields resolve")
		}
	}
	for _, f := range fields {
		fv := lookup(f)
		if fv == nil {
			c.Undecided("anchor", spec.Type+"."+f, "guarded field does not resolve")
			continue
		}
		if lookup(spec.Mutex) == nil {
			c.Undecided("anchor", spec.Type+"."+spec.Mutex, "mutex field does not resolve")
			continue
		}
		for _, a := range fieldAccesses(scope, fv) {
			c.Analysed(a.Fn)
			fnn := shortName(a.Fn)
			if _, ok := spec.Exempt[fnn]; ok {
				continue
			}
			if freshBase(a.Base) {
				continue // object under construction, not yet shared
			}
			if unreachableHelper(lc, a.Fn) {
				continue // left-over helper nothing calls: no execution to judge
			}
			if spec.WritesOnly && !a.Write {
				continue
			}
			n++
			mpath := PathOf(a.Base) + "." + spec.Mutex
			held := lc.At(a.Instr)
			mode, ok := held[mpath]
			good := ok && (!a.Write || mode == 'W')
			kind := "read"
			if a.Write {
				kind = "write"
			}
			c.Check("guarded", fmt.Sprintf("%s.%s@%s/%s", tn, f, fnn, kind), a.Instr, good,
				fmt.Sprintf("%s of %s.%s requires %s (%s); held here: %s", kind, tn, f, mpath, map[bool]string{true: "exclusive", false: "shared or exclusive"}[a.Write], held))
			if !spec.NoEscape {
				continue
			}
			// snapshot rule: the reference loaded from the field must not be used after the unlock
			fa, isAddr := a.Instr.(*ssa.FieldAddr)
			if !isAddr {
				continue
			}
			for _, r := range *fa.Referrers() {
				ld, ok := r.(*ssa.UnOp)
				if !ok || ld.Op != token.MUL || !isRefType(ld.Type()) {
					continue
				}
				esc := ""
				var escAt ssa.Instruction
				for _, u := range usesOf(ld) {
					if _, isRet := u.(*ssa.Return); isRet {
						esc, escAt = "returned to the caller", u
						break
					}
					if u.Parent() != a.Fn {
						continue
					}
					h := lc.At(u)
					if _, ok := h[mpath]; !ok {
						esc, escAt = fmt.Sprintf("used by `%s` with %s not held", u.String(), mpath), u
						break
					}
				}
				if escAt == nil {
					escAt = ld
				}
				c.Check("escape", fmt.Sprintf("%s.%s@%s", tn, f, fnn), escAt, esc == "",
					fmt.Sprintf("reference loaded from guarded field %s.%s is %s: callers iterate a live map/slice that writers mutate (must copy inside the critical section)", tn, f, esc))
			}
		}
	}
	return n
}

func isRefType(t types.Type) bool {
	switch t.Underlying().(type) {
	case *types.Map, *types.Slice:
		return true
	}
	return false
}

// checkNoCallUnderLock: in fn, no call matching m happens while a lock with the given path suffix
// is held ("callback under lock").
func checkNoCallUnderLock(c *Ctx, lc *LockCtx, fn *ssa.Function, mutexSuffix string, rule string, m func(name string, cc *ssa.CallCommon) bool) {
	for _, ci := range callsIn(fn, m) {
		if _, isDefer := ci.(*ssa.Defer); isDefer {
			continue
		}
		held := lc.At(ci)
		bad := ""
		for k := range held {
			if strings.HasSuffix(k, mutexSuffix) {
				bad = k
			}
		}
		c.Check(rule, fmt.Sprintf("%s@%s", methodName(ci.Common()), shortName(fn)), ci, bad == "",
			fmt.Sprintf("call to %s while %s is held (callback/IO under lock)", calleeName(ci.Common()), bad))
	}
}

// structOfField: the struct type named by "pkg/rel:TypeName".
func structOfField(P *Program, typ string) *types.Struct {
	i := strings.IndexByte(typ, ':')
	pkg := P.Pkg(typ[:i])
	if pkg == nil || pkg.Types == nil {
		return nil
	}
	obj := pkg.Types.Scope().Lookup(typ[i+1:])
	if obj == nil {
		return nil
	}
	st, _ := obj.Type().Underlying().(*types.Struct)
	return st
}
