package main

import (
	"golang.org/x/tools/go/ssa"
)

// checkRecoverConvertsAllErrors: inside util.Recover every re-panic must lie behind the failed
// `r.(error)` assertion. Runtime errors (negative make, index out of range, nil dereference) are
// error values; several packet decoders rely on their conversion as the only guard, so a Recover
// that lets any class of error value through ends the process on crafted input.
func checkRecoverConvertsAllErrors(c *Ctx, rc *ssa.Function) {
	n := 0
	stores := 0
	eachInstr(rc, func(in ssa.Instruction) {
		if st, ok := in.(*ssa.Store); ok && len(rc.Params) > 0 && st.Addr == ssa.Value(rc.Params[0]) {
			stores++
		}
		p, ok := in.(*ssa.Panic)
		if !ok {
			return
		}
		n++
		g, nsel := MustCross(p, func(e Edge, cond ssa.Value, truth bool) bool {
			if truth {
				return false
			}
			ex, ok := cond.(*ssa.Extract)
			if !ok || ex.Index != 1 {
				return false
			}
			ta, ok := ex.Tuple.(*ssa.TypeAssert)
			return ok && isErrorType(ta.AssertedType)
		})
		c.Check("recover-converts-errors", "re-panic@util.Recover", p, g && nsel > 0,
			"util.Recover re-panics a value that is an error (e.g. runtime.Error from a negative make or an index out of range in a packet decoder): the panic escapes the decoder and ends the process")
	})
	c.CheckAt("recover-converts-errors", "store(*err)@util.Recover", c.P.Pos(rc.Pos()), stores > 0, "util.Recover must hand the recovered error to the caller")
	_ = n
}
