package main

import (
	"fmt"
	"go/constant"
	"go/token"
	"go/types"
	"strings"

	"golang.org/x/tools/go/ssa"
)

const pkgAuth = "pkg/edition/java/auth"

func init() {
	register(&propDef{
		ID:       "C08",
		Title:    "Online-mode players are admitted only after verified encryption and session auth",
		Patterns: []string{"./pkg/edition/java/proxy", "./pkg/edition/java/auth"},
		Run:      runC08,
		Rule: "P2/P5: every creation of the auth session handler with onlineMode=true is dominated, in this order, by: assertState(encryptionRequestSent)==true; the verify-token gate " +
			"(Authenticator.Verify(resp token, stored token) valid && err==nil, or IdentifiedKey.VerifyDataSignature(resp token, stored token, …)==true); DecryptSharedSecret(resp secret) " +
			"err==nil; EnableEncryption(that secret) err==nil; GenerateServerID(that secret) err==nil; AuthenticateJoin(ctx, that id, stored login's username, …) err==nil; " +
			"OnlineMode()==true and GameProfile() err==nil on that response; the handler receives that profile and id. Offline admission (onlineMode=false) is only reachable through the " +
			"ForceOffline / OnlineMode==false edges, never from the ForceOnline edge (one frozen exception: connections that already carry a verified profile — GameProfileProvider). " +
			"Who-may-admit: auth handlers are only built by newAuthSessionHandler, which only the login handler calls; registerConnection, newConnectedPlayer and ServerLoginSuccess only in " +
			"authSessionHandler methods, the success packet after registerConnection succeeded and the login event allowed it. Typestate: each login packet handler starts with assertState(k), " +
			"returns on its false edge (which closes), and advances currentState before any other effect; HandlePacket dispatches or closes. The verify token is ≥4 fresh crypto/rand " +
			"bytes, stored as a distinct copy. GenerateServerID hashes the secret, then the public key, nothing else.",
		Explanation: "Decides: the admission chain with argument provenance, absence of other doors, single admission site, replay/out-of-order rejection by typestate, token freshness, server-id hash input. " +
			"Does not decide: RSA/SHA-1/HTTP correctness or the session server's behaviour.",
		Fixtures: []string{"guardcut", "provenance"},
		Variants: []Variant{
			{Name: "online-mode-without-status-200", File: pkgAuth + "/authenticator.go",
				Old: "onlineMode := resp.StatusCode == http.StatusOK && len(body) != 0", New: "onlineMode := len(body) != 0", Expect: "join-confirmed"},
			{Name: "token-check-skipped-for-keyed", File: pkgProxy + "/session_client_initial_login.go",
				Old:    "\t\tif !valid {\n\t\t\tl.log.Info(\"invalid client public signature\")\n\t\t\t_ = l.conn.Close()\n\t\t\treturn\n\t\t}",
				New:    "\t\tif !valid {\n\t\t\tl.log.Info(\"invalid client public signature\")\n\t\t}",
				Expect: "chain:verify-token"},
			{Name: "verify-against-own-token", File: pkgProxy + "/session_client_initial_login.go",
				Old: "l.auth().Verify(resp.VerifyToken, l.verify)", New: "l.auth().Verify(resp.VerifyToken, resp.VerifyToken)", Expect: "chain:verify-token"},
			{Name: "encryption-other-secret", File: pkgProxy + "/session_client_initial_login.go",
				Old: "l.conn.EnableEncryption(decryptedSharedSecret)", New: "l.conn.EnableEncryption(resp.SharedSecret)", Expect: "chain:EnableEncryption"},
			{Name: "auth-username-from-response", File: pkgProxy + "/session_client_initial_login.go",
				Old: "authn.AuthenticateJoin(ctx, serverID, l.login.Username, optionalUserIP)", New: "authn.AuthenticateJoin(ctx, serverID, string(resp.VerifyToken), optionalUserIP)", Expect: "chain:AuthenticateJoin"},
			{Name: "offline-response-admitted", File: pkgProxy + "/session_client_initial_login.go",
				Old:    "\tif !authResp.OnlineMode() {\n\t\tlog.Info(\"disconnect offline mode player\")",
				New:    "\tif !authResp.OnlineMode() && l.config().Debug {\n\t\tlog.Info(\"disconnect offline mode player\")",
				Expect: "chain:OnlineMode"},
			{Name: "replay-not-rejected", File: pkgProxy + "/session_client_initial_login.go",
				Old:    "\tif !l.assertState(encryptionRequestSentLoginState) {\n\t\treturn\n\t}\n\tl.currentState = encryptionResponseReceivedLoginState\n",
				New:    "\t_ = l.assertState\n",
				Expect: "chain:assertState"},
			{Name: "state-not-advanced", File: pkgProxy + "/session_client_initial_login.go",
				Old: "\tl.currentState = encryptionResponseReceivedLoginState\n", New: "", Expect: "typestate"},
			{Name: "online-falls-to-offline", File: pkgProxy + "/session_client_initial_login.go",
				Old:    "\t\t\terr := l.conn.WritePacket(request)\n\t\t\tif err != nil {\n\t\t\t\treturn err\n\t\t\t}\n\t\t\tl.currentState = encryptionRequestSentLoginState\n\t\t\t// Wait for EncryptionResponse packet\n\t\t\treturn nil",
				New:    "\t\t\terr := l.conn.WritePacket(request)\n\t\t\tif err == nil {\n\t\t\t\tl.currentState = encryptionRequestSentLoginState\n\t\t\t\treturn nil\n\t\t\t}",
				Expect: "no-other-door"},
			{Name: "success-before-register", File: pkgProxy + "/session_client_auth.go",
				Old:    "\tif !a.registrar.registerConnection(player) {\n\t\tplayer.Disconnect(alreadyConnected)\n\t\treturn\n\t}\n",
				New:    "\tif !a.registrar.registerConnection(player) {\n\t\tplayer.Disconnect(alreadyConnected)\n\t}\n",
				Expect: "success-after-register"},
			{Name: "static-verify-token", File: pkgProxy + "/session_client_initial_login.go",
				Old: "\t_, _ = rand.Read(verify)\n", New: "\t_ = rand.Reader\n", Expect: "verify-token-fresh"},
			{Name: "serverid-key-first", File: pkgAuth + "/authenticator.go",
				Old:    "\t\t_, err = h.Write(decryptedSharedSecret)\n\t\tif err != nil {\n\t\t\treturn nil, err\n\t\t}\n\t\t_, err = h.Write(a.public)",
				New:    "\t\t_, err = h.Write(a.public)\n\t\tif err != nil {\n\t\t\treturn nil, err\n\t\t}\n\t\t_, err = h.Write(decryptedSharedSecret)",
				Expect: "server-id-input"},
			{Name: "second-admission-site", File: pkgProxy + "/session_client_handshake.go",
				Old:    "\thandler := newInitialLoginSessionHandler(h.conn, lic, h.sessionHandlerDeps)\n",
				New:    "\tif h.config().Debug {\n\t\th.conn.SetActiveSessionHandler(state.Login, newAuthSessionHandler(lic, nil, true, \"\", h.sessionHandlerDeps))\n\t\treturn\n\t}\n\thandler := newInitialLoginSessionHandler(h.conn, lic, h.sessionHandlerDeps)\n",
				Expect: "who-may-admit"},
		},
	})
}

func runC08(c *Ctx) {
	checkJoinConfirmedBy200(c)
	scope := c.P.Funcs(Mod + "/" + pkgProxy)
	her := c.MustFunc(pkgProxy + ":(*initialLoginSessionHandler).handleEncryptionResponse")
	hsl := c.MustFunc(pkgProxy + ":(*initialLoginSessionHandler).handleServerLogin")
	wrapper := c.MustFunc(pkgProxy + ":(*initialLoginSessionHandler).newAuthSessionHandler")
	nash := c.MustFunc(pkgProxy + ":newAuthSessionHandler")
	if her == nil || hsl == nil || wrapper == nil || nash == nil {
		return
	}
	stateConst := func(name string) string {
		k := c.P.Const(pkgProxy + ":" + name)
		if k == nil {
			c.Undecided("anchor", name, "login state constant does not resolve")
			return "?"
		}
		return constant.StringVal(k.Val())
	}
	order := []string{stateConst("loginPacketExpectedLoginState"), stateConst("loginPacketReceivedLoginState"),
		stateConst("encryptionRequestSentLoginState"), stateConst("encryptionResponseReceivedLoginState")}
	idx := func(s string) int {
		for i, x := range order {
			if x == s {
				return i
			}
		}
		return -1
	}

	// ---- (1) admission chain -------------------------------------------------------------------
	var onlineSites, offlineSites []ssa.CallInstruction
	for _, fn := range scope {
		for _, ci := range callsIn(fn, func(nm string, cc *ssa.CallCommon) bool { f := staticCallee(cc); return f == wrapper || f == nash }) {
			if fn == wrapper {
				continue
			}
			args := ci.Common().Args
			om := args[len(args)-2]
			if staticCallee(ci.Common()) == nash {
				om = args[2]
			}
			v, isK := constBool(om)
			switch {
			case isK && v:
				onlineSites = append(onlineSites, ci)
			case isK && !v:
				offlineSites = append(offlineSites, ci)
			default:
				c.Check("chain", "onlineMode-constant@"+shortName(fn), ci, false, "onlineMode argument is not a literal; cannot decide which gate applies")
			}
		}
	}
	if len(onlineSites) == 0 {
		c.Undecided("chain", "online-admission", "no online-mode admission site found")
	}
	for _, site := range onlineSites {
		fn := site.Parent()
		c.Analysed(fn)
		sn := shortName(fn)
		find := func(m func(*ssa.Call) bool) *ssa.Call {
			var out *ssa.Call
			eachInstr(fn, func(in ssa.Instruction) {
				if cl, ok := in.(*ssa.Call); ok && m(cl) {
					out = cl
				}
			})
			return out
		}
		dom := func(p EdgePred) bool { g, n := MustCross(site, p); return g && n > 0 }
		rule := func(name string, ok bool, detail string) {
			c.Check("chain", name+"@"+sn, site, ok, "online-mode admission is reachable without: "+detail)
		}
		// assertState
		as := find(func(cl *ssa.Call) bool {
			if methodName(&cl.Call) != "assertState" {
				return false
			}
			s, ok := constString(cl.Call.Args[len(cl.Call.Args)-1])
			return ok && s == order[2]
		})
		rule("assertState(encryptionRequestSent)", as != nil && dom(func(e Edge, cond ssa.Value, truth bool) bool {
			return truth && callValue(cond) == as
		}), "the login-substate assertion (a repeated or early EncryptionResponse must close the connection)")
		// verify token
		isTok := func(v ssa.Value) bool {
			return strings.HasSuffix(PathOf(v), ".VerifyToken") && strings.HasPrefix(PathOf(v), fn.Params[1].Name()+".")
		}
		isStored := func(v ssa.Value) bool { return PathOf(v) == fn.Params[0].Name()+".verify" }
		verify := find(func(cl *ssa.Call) bool {
			return cl.Call.IsInvoke() && cl.Call.Method.Name() == "Verify" && len(cl.Call.Args) == 2 && isTok(cl.Call.Args[0]) && isStored(cl.Call.Args[1])
		})
		vds := find(func(cl *ssa.Call) bool {
			return cl.Call.IsInvoke() && cl.Call.Method.Name() == "VerifyDataSignature" && len(cl.Call.Args) >= 2 && isTok(cl.Call.Args[0]) &&
				func() bool {
					for _, a := range callArgs(&cl.Call)[1:] {
						if isStored(a) {
							return true
						}
					}
					return false
				}()
		})
		sigTrue := func(e Edge, cond ssa.Value, truth bool) bool { return vds != nil && truth && callValue(cond) == vds }
		okValid := verify != nil && dom(func(e Edge, cond ssa.Value, truth bool) bool {
			if sigTrue(e, cond, truth) {
				return true
			}
			ex, ok := cond.(*ssa.Extract)
			return ok && truth && ex.Tuple == ssa.Value(verify) && ex.Index == 0
		})
		okErr := verify != nil && dom(func(e Edge, cond ssa.Value, truth bool) bool {
			if sigTrue(e, cond, truth) {
				return true
			}
			return errNilEdge(cond, truth, func(x *ssa.Call) bool { return x == verify })
		})
		rule("verify-token", okValid && okErr, "a successful comparison of the client's verify token with the token the proxy issued (Verify(resp.VerifyToken, l.verify) valid && err==nil, or a valid key signature over it)")
		// decrypt
		dec := find(func(cl *ssa.Call) bool {
			return cl.Call.IsInvoke() && cl.Call.Method.Name() == "DecryptSharedSecret" && strings.HasSuffix(PathOf(cl.Call.Args[0]), ".SharedSecret")
		})
		rule("DecryptSharedSecret", dec != nil && dom(func(e Edge, cond ssa.Value, truth bool) bool {
			return errNilEdge(cond, truth, func(x *ssa.Call) bool { return x == dec })
		}), "successful decryption of the client's shared secret")
		isSecret := func(v ssa.Value) bool {
			ex, ok := strip(v).(*ssa.Extract)
			return ok && dec != nil && ex.Tuple == ssa.Value(dec) && ex.Index == 0
		}
		enc := find(func(cl *ssa.Call) bool {
			return cl.Call.IsInvoke() && cl.Call.Method.Name() == "EnableEncryption" && isSecret(cl.Call.Args[0])
		})
		rule("EnableEncryption", enc != nil && dom(func(e Edge, cond ssa.Value, truth bool) bool {
			return errNilEdge(cond, truth, func(x *ssa.Call) bool { return x == enc })
		}), "encryption enabled on the connection with exactly the decrypted shared secret")
		gsi := find(func(cl *ssa.Call) bool {
			return cl.Call.IsInvoke() && cl.Call.Method.Name() == "GenerateServerID" && isSecret(cl.Call.Args[0])
		})
		rule("GenerateServerID", gsi != nil && dom(func(e Edge, cond ssa.Value, truth bool) bool {
			return errNilEdge(cond, truth, func(x *ssa.Call) bool { return x == gsi })
		}), "a server id derived from that same secret")
		isID := func(v ssa.Value) bool {
			ex, ok := strip(v).(*ssa.Extract)
			return ok && gsi != nil && ex.Tuple == ssa.Value(gsi) && ex.Index == 0
		}
		aj := find(func(cl *ssa.Call) bool {
			return cl.Call.IsInvoke() && cl.Call.Method.Name() == "AuthenticateJoin" && len(cl.Call.Args) >= 3 && isID(cl.Call.Args[1]) &&
				PathOf(cl.Call.Args[2]) == fn.Params[0].Name()+".login.Username"
		})
		rule("AuthenticateJoin", aj != nil && dom(func(e Edge, cond ssa.Value, truth bool) bool {
			return errNilEdge(cond, truth, func(x *ssa.Call) bool { return x == aj })
		}), "the session server confirming the join for that server id and the username of the stored login packet")
		isResp := func(v ssa.Value) bool {
			ex, ok := strip(v).(*ssa.Extract)
			return ok && aj != nil && ex.Tuple == ssa.Value(aj) && ex.Index == 0
		}
		om := find(func(cl *ssa.Call) bool {
			return cl.Call.IsInvoke() && cl.Call.Method.Name() == "OnlineMode" && isResp(cl.Call.Value)
		})
		rule("OnlineMode", om != nil && dom(func(e Edge, cond ssa.Value, truth bool) bool { return truth && callValue(cond) == om }),
			"the session server's response saying the account is an online-mode account")
		gp := find(func(cl *ssa.Call) bool {
			return cl.Call.IsInvoke() && cl.Call.Method.Name() == "GameProfile" && isResp(cl.Call.Value)
		})
		rule("GameProfile", gp != nil && dom(func(e Edge, cond ssa.Value, truth bool) bool {
			return errNilEdge(cond, truth, func(x *ssa.Call) bool { return x == gp })
		}), "a game profile extracted from that response")
		// order
		seq := []*ssa.Call{as, verifyOr(verify, vds), dec, enc, gsi, aj, om, gp}
		okOrder := true
		for i := 1; i < len(seq); i++ {
			if seq[i-1] == nil || seq[i] == nil || !(domBefore(seq[i-1], seq[i]) || flowsTo(seq[i-1], seq[i]) && !flowsTo(seq[i], seq[i-1])) {
				okOrder = false
			}
		}
		rule("order", okOrder, "the checks in protocol order (state, token, secret, encryption, server id, session server, profile)")
		// what is handed to the auth handler
		args := site.Common().Args
		prof, sid := args[len(args)-3], args[len(args)-1]
		okProf := false
		if ex, ok := strip(prof).(*ssa.Extract); ok && gp != nil && ex.Tuple == ssa.Value(gp) && ex.Index == 0 {
			okProf = true
		}
		rule("profile+id-passed", okProf && isID(sid), "passing the authenticated profile and the server id to the session")
		// login present
		rule("login-present", dom(func(e Edge, cond ssa.Value, truth bool) bool {
			v, isNil, ok := nilCmp(cond, truth)
			return ok && !isNil && PathOf(v) == fn.Params[0].Name()+".login"
		}), "a stored login packet")
	}

	// ---- (2) no other door ---------------------------------------------------------------------
	forceOff, forceOn := c.P.Const(pkgProxy+":ForceOfflineModePreLogin"), c.P.Const(pkgProxy+":ForceOnlineModePreLogin")
	if forceOff == nil || forceOn == nil {
		c.Undecided("anchor", "PreLoginResult constants", "do not resolve")
	} else {
		offV, _ := constant.Int64Val(forceOff.Val())
		onV, _ := constant.Int64Val(forceOn.Val())
		resultCmp := func(cond ssa.Value, truth bool, val int64) (isEq bool, ok bool) {
			bo, isB := cond.(*ssa.BinOp)
			if !isB || (bo.Op != token.EQL && bo.Op != token.NEQ) {
				return false, false
			}
			cl := callValue(bo.X)
			k, isK := constInt(bo.Y)
			if cl == nil || methodName(&cl.Call) != "Result" || !isK || k != val {
				return false, false
			}
			return (bo.Op == token.EQL) == truth, true
		}
		for _, site := range offlineSites {
			fn := site.Parent()
			c.Analysed(fn)
			// frozen exception: a connection that already carries a verified profile
			gpp, ngpp := MustCross(site, func(e Edge, cond ssa.Value, truth bool) bool {
				ex, ok := cond.(*ssa.Extract)
				if !ok || !truth || ex.Index != 1 {
					return false
				}
				cl, ok := ex.Tuple.(*ssa.Call)
				return ok && strings.Contains(calleeName(&cl.Call), "netmc.Assert") && strings.Contains(calleeName(&cl.Call), "GameProfileProvider") ||
					ok && strings.HasSuffix(calleeName(&cl.Call), "netmc.Assert") && strings.Contains(cl.Type().String(), "GameProfileProvider")
			})
			if gpp && ngpp > 0 {
				c.Note("frozen exception: offline-flagged admission at %s for connections implementing GameProfileProvider (tunnel connections that already carry a verified profile)", c.site(site))
				// its profile must be the provider's
				args := site.Common().Args
				cl := callValue(args[len(args)-3])
				c.Check("no-other-door", "GameProfileProvider-profile@"+shortName(fn), site, cl != nil && methodName(&cl.Call) == "GameProfile",
					"the GameProfileProvider exception must admit with the provider's profile")
				continue
			}
			okCut, n := MustCross(site, func(e Edge, cond ssa.Value, truth bool) bool {
				if isEq, ok := resultCmp(cond, truth, offV); ok && isEq {
					return true // Result() == ForceOffline
				}
				return !truth && strings.HasSuffix(PathOf(cond), ".OnlineMode") // cfg.OnlineMode == false
			})
			fromOn := false
			for _, e := range IfEdges(fn) {
				cond, truth := e.Cond()
				if isEq, ok := resultCmp(cond, truth, onV); ok && isEq {
					if reach(e.To(), nil)[site.Block()] {
						fromOn = true
					}
				}
			}
			c.Check("no-other-door", "offline-admission@"+shortName(fn), site, okCut && n > 0 && !fromOn,
				"an offline-mode admission (no encryption, no session server) is reachable although the proxy is in online mode and no pre-login handler forced offline mode")
			// offline profile comes from the login name
			args := site.Common().Args
			cl := callValue(args[len(args)-3])
			c.Check("no-other-door", "offline-profile@"+shortName(fn), site, cl != nil && strings.HasSuffix(calleeName(&cl.Call), "profile.NewOffline") &&
				strings.HasSuffix(PathOf(cl.Call.Args[0]), ".login.Username"), "offline admission must use the offline profile of the login's username")
		}
		c.Floor("no-other-door", 3)
	}

	// ---- (3) who may admit ------------------------------------------------------------------------
	all := scope
	if c.P.Whole {
		all = c.P.ModFuncs()
	}
	isAuthMethod := func(fn *ssa.Function) bool {
		for f := fn; f != nil; f = f.Parent() {
			if strings.Contains(shortName(f), "proxy.authSessionHandler).") {
				return true
			}
		}
		return false
	}
	for _, fn := range all {
		eachInstr(fn, func(in ssa.Instruction) {
			switch x := in.(type) {
			case *ssa.Alloc:
				if typeIs(x.Type(), "java/proxy", "authSessionHandler") {
					c.Check("who-may-admit", "authSessionHandler{}@"+shortName(fn), in, fn == nash, "auth session handlers may only be built by newAuthSessionHandler")
				}
				if typeIs(x.Type(), "proto/packet", "ServerLoginSuccess") && strings.HasPrefix(fnPkgPath(fn), Mod+"/"+pkgProxy) && !strings.Contains(fnPkgPath(fn), "/proxy/") {
					c.Check("who-may-admit", "ServerLoginSuccess{}@"+shortName(fn), in, isAuthMethod(fn), "a login success packet for a client is built outside the auth session handler")
				}
			}
			cc := callOf(in)
			if cc == nil {
				return
			}
			if f := staticCallee(cc); f != nil {
				switch {
				case f == nash:
					c.Check("who-may-admit", "newAuthSessionHandler@"+shortName(fn), in, fn == wrapper, "newAuthSessionHandler is called outside the login handler's wrapper (admission without the login checks)")
				case f == wrapper:
					okp := fn == her
					for p := fn; p != nil; p = p.Parent() {
						if p == hsl {
							okp = true
						}
					}
					c.Check("who-may-admit", "login.newAuthSessionHandler@"+shortName(fn), in, okp, "auth session created outside the two login packet handlers")
				case strings.HasSuffix(f.String(), "proxy.newConnectedPlayer"):
					c.Check("who-may-admit", "newConnectedPlayer@"+shortName(fn), in, isAuthMethod(fn), "a connected player is created outside the auth session handler")
				}
			}
			if cc.IsInvoke() && cc.Method.Name() == "registerConnection" {
				c.Check("who-may-admit", "registerConnection@"+shortName(fn), in, isAuthMethod(fn), "a player is registered outside the auth session handler")
			}
		})
	}
	c.Floor("who-may-admit", 7)

	// success packet only after registration and an allowed login event
	if cl := c.MustFunc(pkgProxy + ":(*authSessionHandler).completeLoginProtocolPhaseAndInitialize"); cl != nil {
		regTrue := func(e Edge, cond ssa.Value, truth bool) bool {
			cv := callValue(cond)
			return cv != nil && truth && cv.Call.IsInvoke() && cv.Call.Method.Name() == "registerConnection"
		}
		allowed := func(e Edge, cond ssa.Value, truth bool) bool {
			return boolCallEdge(cond, truth, true, callMethod("Allowed"))
		}
		n := 0
		eachInstr(cl, func(in ssa.Instruction) {
			cc := callOf(in)
			if cc == nil {
				return
			}
			m := methodName(cc)
			isSuccessWrite := m == "WritePacket" && func() bool {
				a, ok := strip(lastArg(cc)).(*ssa.Alloc)
				return ok && typeIs(a.Type(), "proto/packet", "ServerLoginSuccess")
			}()
			if !(isSuccessWrite || m == "newModernForgeLoginRelay") {
				return
			}
			n++
			g1, n1 := MustCross(in, regTrue)
			g2, n2 := MustCross(in, allowed)
			c.Check("success-after-register", m+"@completeLoginProtocolPhaseAndInitialize", in, g1 && g2 && n1 > 0 && n2 > 0,
				"login success is sent (or handed to the Forge relay) on a path where the player was not registered or the login event denied the login")
		})
		if n == 0 {
			c.Undecided("success-after-register", "completeLoginProtocolPhaseAndInitialize", "no login success write found")
		}
		// the registered player is the one the success describes
	}

	// ---- (4) typestate ------------------------------------------------------------------------------
	stFieldStore := func(in ssa.Instruction) (string, bool) {
		st, ok := in.(*ssa.Store)
		if !ok || !strings.HasSuffix(PathOf(st.Addr), ".currentState") {
			return "", false
		}
		s, isS := constString(st.Val)
		if !isS {
			return "?", true
		}
		return s, true
	}
	for _, h := range []struct {
		fn     *ssa.Function
		expect string
	}{{hsl, order[0]}, {her, order[2]}} {
		fn := h.fn
		var as *ssa.Call
		eachInstr(fn, func(in ssa.Instruction) {
			if cl, ok := in.(*ssa.Call); ok && methodName(&cl.Call) == "assertState" && as == nil {
				as = cl
			}
		})
		okFirst := as != nil && as.Block() == fn.Blocks[0]
		if okFirst {
			// nothing but the assertion before it
			for _, in := range fn.Blocks[0].Instrs {
				if in == ssa.Instruction(as) {
					break
				}
				if cc := callOf(in); cc != nil {
					okFirst = false
				}
			}
			s, _ := constString(as.Call.Args[len(as.Call.Args)-1])
			if s != h.expect {
				okFirst = false
			}
		}
		c.CheckAt("typestate", "assert-first@"+shortName(fn), c.P.Pos(fn.Pos()), okFirst, "the handler must begin with assertState("+h.expect+")")
		if as == nil {
			continue
		}
		for _, e := range IfEdges(fn) {
			cond, truth := e.Cond()
			if callValue(cond) != as {
				continue
			}
			if !truth {
				// false edge: return without effects
				okRet := true
				for _, in := range e.To().Instrs {
					if cc := callOf(in); cc != nil {
						okRet = false
					}
					if _, isSt := in.(*ssa.Store); isSt {
						okRet = false
					}
				}
				_, isRet := lastInstr(e.To()).(*ssa.Return)
				c.Check("typestate", "wrong-state-returns@"+shortName(fn), e.To().Instrs[0], okRet && isRet, "on a wrong login substate the handler must return without any other effect")
				continue
			}
			// true edge: the state store comes before any call
			adv := false
			for _, in := range e.To().Instrs {
				if s, ok := stFieldStore(in); ok {
					adv = idx(s) > idx(h.expect)
					break
				}
				if cc := callOf(in); cc != nil {
					break
				}
			}
			c.Check("typestate", "advance-before-effects@"+shortName(fn), e.To().Instrs[0], adv,
				"the login substate must move forward before any other effect, so that a repeated packet takes the wrong-state edge")
		}
	}
	// all stores are declared states; assertState closes on mismatch
	nSt := 0
	for _, fn := range scope {
		eachInstr(fn, func(in ssa.Instruction) {
			if s, ok := stFieldStore(in); ok {
				if freshBase(in.(*ssa.Store).Addr) {
					return
				}
				nSt++
				c.Check("typestate", "declared-state@"+shortName(fn), in, idx(s) > 0, "currentState is set to something other than a later declared login state: "+s)
			}
		})
	}
	if nSt < 3 {
		c.Undecided("typestate", "stores", fmt.Sprintf("expected ≥3 state transitions, found %d", nSt))
	}
	if as := c.MustFunc(pkgProxy + ":(*initialLoginSessionHandler).assertState"); as != nil {
		okTrue, okFalse := false, false
		for _, r := range returnsOf(as) {
			v, isK := constBool(r.Results[0])
			if !isK {
				continue
			}
			eq := func(e Edge, cond ssa.Value, truth bool) bool {
				bo, ok := cond.(*ssa.BinOp)
				return ok && bo.Op == token.EQL && truth && (strings.HasSuffix(PathOf(bo.X), ".currentState") || strings.HasSuffix(PathOf(bo.Y), ".currentState"))
			}
			g, n := MustCross(r, eq)
			if v {
				okTrue = g && n > 0
			} else {
				// closes before returning false
				closed := false
				for _, in := range r.Block().Instrs {
					if cc := callOf(in); cc != nil && methodName(cc) == "Close" {
						closed = true
					}
				}
				okFalse = closed && !g
			}
		}
		c.CheckAt("typestate", "assertState-semantics", c.P.Pos(as.Pos()), okTrue && okFalse, "assertState must return true only when currentState equals the expected state and close the connection otherwise")
	}
	if hp := c.MustFunc(pkgProxy + ":(*initialLoginSessionHandler).HandlePacket"); hp != nil {
		hit := func(in ssa.Instruction) bool {
			cc := callOf(in)
			if cc == nil {
				return false
			}
			switch methodName(cc) {
			case "Close", "handleServerLogin", "handleEncryptionResponse", "handleLoginPluginResponse":
				return true
			}
			return false
		}
		first := hp.Blocks[0].Instrs[0]
		miss := false
		if !hit(first) {
			miss, _ = MayReachExitWithout(first, hit)
		}
		c.CheckAt("typestate", "dispatch-or-close@HandlePacket", c.P.Pos(hp.Pos()), !miss, "an unknown or unexpected login packet must close the connection")
	}

	// ---- (5) verify token -----------------------------------------------------------------------------
	if ge := c.MustFunc(pkgProxy + ":(*initialLoginSessionHandler).generateEncryptionRequest"); ge != nil {
		var tokVal ssa.Value
		eachInstr(ge, func(in ssa.Instruction) {
			if fa, ok := in.(*ssa.FieldAddr); ok && fieldOfAddr(fa).Name() == "VerifyToken" {
				for _, sv := range storedInto(fa, 0) {
					tokVal = sv
				}
			}
		})
		ok := false
		if sl, isSl := strip(tokVal).(*ssa.Slice); isSl {
			// make([]byte, const) is lowered to new [N]byte + slice
			if a, isA := sl.X.(*ssa.Alloc); isA {
				if arr, isArr := derefType(a.Type()).Underlying().(*types.Array); isArr && arr.Len() >= 4 {
					for _, r := range *sl.Referrers() {
						if cl, isC := r.(*ssa.Call); isC && calleeName(&cl.Call) == "crypto/rand.Read" && cl.Call.Args[0] == ssa.Value(sl) {
							ok = true
						}
					}
				}
			}
		}
		if ms, isMS := strip(tokVal).(*ssa.MakeSlice); isMS {
			if n, isK := constInt(ms.Len); isK && n >= 4 {
				for _, r := range *ms.Referrers() {
					if cl, isC := r.(*ssa.Call); isC && calleeName(&cl.Call) == "crypto/rand.Read" && cl.Call.Args[0] == ssa.Value(ms) {
						ok = true
					}
				}
			}
		}
		c.CheckAt("verify-token-fresh", "rand.Read(make(≥4))@generateEncryptionRequest", c.P.Pos(ge.Pos()), ok,
			"the verify token must be at least 4 bytes freshly read from crypto/rand for every login")
	}
	// stored copy
	okCopy := false
	for _, fn := range Closures(hsl) {
		eachInstr(fn, func(in ssa.Instruction) {
			cl, ok := in.(*ssa.Call)
			if !ok {
				return
			}
			if b, isB := cl.Call.Value.(*ssa.Builtin); isB && b.Name() == "copy" {
				if strings.HasSuffix(PathOf(cl.Call.Args[0]), ".verify") && strings.HasSuffix(PathOf(cl.Call.Args[1]), ".VerifyToken") {
					okCopy = true
				}
			}
		})
	}
	c.CheckAt("verify-token-fresh", "stored-copy@handleServerLogin", c.P.Pos(hsl.Pos()), okCopy, "the issued verify token must be kept as the proxy's own copy for the comparison")
	gEmpty, nEmpty := false, 0
	if len(onlineSites) > 0 {
		gEmpty, nEmpty = MustCross(onlineSites[0], func(e Edge, cond ssa.Value, truth bool) bool {
			bo, ok := cond.(*ssa.BinOp)
			if !ok {
				return false
			}
			cl := callValue(bo.X)
			if cl == nil {
				return false
			}
			b, isB := cl.Call.Value.(*ssa.Builtin)
			k, isK := constInt(bo.Y)
			if !isB || b.Name() != "len" || !isK || k != 0 || !strings.HasSuffix(PathOf(cl.Call.Args[0]), ".verify") {
				return false
			}
			switch bo.Op {
			case token.EQL:
				return !truth
			case token.NEQ, token.GTR:
				return truth
			}
			return false
		})
	}
	c.CheckAt("verify-token-fresh", "non-empty-stored-token@handleEncryptionResponse", c.P.Pos(her.Pos()), gEmpty && nEmpty > 0, "admission must require that a verify token was issued")

	// ---- (6) server id hash input -----------------------------------------------------------------------
	if gs := c.MustFunc(pkgAuth + ":(*authenticator).GenerateServerID"); gs != nil {
		var writes []ssa.Instruction
		var hv ssa.Value
		for _, fn := range Closures(gs) {
			eachInstr(fn, func(in ssa.Instruction) {
				cc := callOf(in)
				if cc == nil {
					return
				}
				if calleeName(cc) == "crypto/sha1.New" {
					hv = in.(ssa.Value)
				}
				if cc.IsInvoke() && cc.Method.Name() == "Write" && strings.HasSuffix(cc.Value.Type().String(), "hash.Hash") {
					writes = append(writes, in)
				}
			})
		}
		ok := hv != nil && len(writes) == 2
		detail := fmt.Sprintf("expected sha1 with exactly two writes, found %d", len(writes))
		if ok {
			a0 := callOf(writes[0]).Args[0]
			a1 := callOf(writes[1]).Args[0]
			first, second := writes[0], writes[1]
			if !domBefore(first, second) {
				first, second = second, first
				a0, a1 = a1, a0
			}
			secretOK := strings.HasSuffix(PathOf(a0), gs.Params[1].Name())
			keyOK := strings.HasSuffix(PathOf(a1), ".public")
			ok = secretOK && keyOK && domBefore(first, second)
			detail = fmt.Sprintf("first write %s, second write %s", PathOf(a0), PathOf(a1))
		}
		c.CheckAt("server-id-input", "sha1(secret‖publicKey)@GenerateServerID", c.P.Pos(gs.Pos()), ok,
			"the server id must hash the shared secret followed by the proxy's public key and nothing else: "+detail)
	}
}

func verifyOr(a, b *ssa.Call) *ssa.Call {
	if a != nil {
		return a
	}
	return b
}
