package main

import (
	"fmt"
	"strings"

	"golang.org/x/tools/go/ssa"
)

// checkTrustedMembership: every netip.Prefix.Contains in package netutil tests an address that was
// unmapped and zone-stripped — wherever the test lives (ContainsStr itself or a helper it and other
// entry points delegate to): a parameter is followed to every call site of the helper.
func checkTrustedMembership(c *Ctx) {
	fns := c.P.Funcs(Mod + "/" + pkgNetutil)
	var normalised func(v ssa.Value) (bool, []string)
	normalised = func(v ssa.Value) (bool, []string) {
		var chain []string
		cur := strip(v)
		zoneEmpty := false
		for i := 0; i < 8; i++ {
			cl := callValue(cur)
			if cl == nil {
				break
			}
			// a normalising helper of the module (normalizeAddr(ip)): judged by what it returns
			if g := moduleHelperWithBody(&cl.Call); g != nil {
				if rets := successReturns(g); len(rets) == 1 && len(rets[0].Results) == 1 {
					if ok, ch := normalised(rets[0].Results[0]); ok {
						return true, append(chain, ch...)
					}
				}
			}
			m := methodName(&cl.Call)
			chain = append(chain, m)
			if m == "WithZone" && len(cl.Call.Args) == 2 {
				if s, ok := constString(cl.Call.Args[1]); ok && s == "" {
					zoneEmpty = true
				}
			}
			if len(cl.Call.Args) == 0 {
				break
			}
			cur = strip(cl.Call.Args[0])
		}
		hasUnmap := false
		for _, x := range chain {
			if x == "Unmap" {
				hasUnmap = true
			}
		}
		return hasUnmap && zoneEmpty, chain
	}
	var checkArg func(fn *ssa.Function, v ssa.Value, depth int) (bool, string)
	checkArg = func(fn *ssa.Function, v ssa.Value, depth int) (bool, string) {
		if ok, chain := normalised(v); ok {
			return true, fmt.Sprint(chain)
		} else if p, isP := strip(v).(*ssa.Parameter); isP && depth > 0 {
			idx := -1
			for i, q := range fn.Params {
				if q == p {
					idx = i
				}
			}
			if fn.Object() != nil && fn.Object().Exported() {
				return false, "exported function takes the address as a parameter (callers outside the package are unchecked)"
			}
			n := 0
			for _, caller := range fns {
				for _, ci := range callsIn(caller, func(nm string, cc *ssa.CallCommon) bool { return staticCallee(cc) == fn }) {
					n++
					if idx < 0 || idx >= len(ci.Common().Args) {
						return false, "cannot map argument"
					}
					if ok, why := checkArg(caller, ci.Common().Args[idx], depth-1); !ok {
						return false, "via " + shortName(caller) + ": " + why
					}
				}
			}
			if n == 0 {
				return false, "helper has no callers"
			}
			return true, "all callers normalise"
		} else {
			return false, fmt.Sprintf("call chain %v lacks Unmap()/WithZone(\"\")", chain)
		}
	}
	nC := 0
	var holder *ssa.Function
	for _, fn := range fns {
		for _, ci := range callsIn(fn, func(nm string, cc *ssa.CallCommon) bool { return strings.HasSuffix(nm, "netip.Prefix).Contains") }) {
			nC++
			holder = fn
			c.Analysed(fn)
			ok, why := checkArg(fn, ci.Common().Args[1], 2)
			c.Check("contains-normalised", "Unmap+WithZone(\"\")@"+shortName(fn), ci, ok,
				"the peer address must be unmapped (::ffff:a.b.c.d → a.b.c.d) and zone-stripped before the CIDR test on every way into it: "+why)
		}
	}
	if nC == 0 {
		c.Undecided("contains-normalised", "netutil", "no Prefix.Contains call")
		return
	}
	// in the function holding the membership loop: true only right after a hit
	for _, r := range returnsOf(holder) {
		if len(r.Results) != 1 {
			continue
		}
		v, isK := constBool(r.Results[0])
		if !isK {
			c.Check("contains-parse-failure", "constant-returns@"+shortName(holder), r, false, "the membership loop must return literal true/false")
			continue
		}
		if v {
			g, ns := MustCross(r, func(e Edge, cond ssa.Value, truth bool) bool {
				return boolCallEdge(cond, truth, true, callSuffix("netip.Prefix).Contains"))
			})
			c.Check("contains-parse-failure", "true-only-on-hit@"+shortName(holder), r, g && ns > 0, "membership returns true without a matching prefix")
		}
	}
	// ContainsStr: parse failure → false; otherwise the membership result
	if cs := c.MustFunc(pkgNetutil + ":(TrustedNetworks).ContainsStr"); cs != nil {
		nParse := 0
		for _, e := range IfEdges(cs) {
			cond, truth := e.Cond()
			if !errNonNilEdge(cond, truth, callSuffix("netip.ParseAddr")) {
				continue
			}
			nParse++
			ok := false
			for _, in := range e.To().Instrs {
				if r, isR := in.(*ssa.Return); isR {
					if v, isK := constBool(r.Results[0]); isK && !v {
						ok = true
					}
				}
			}
			c.Check("contains-parse-failure", "parse-error→false@ContainsStr", e.To().Instrs[0], ok, "an unparsable peer address must never be trusted")
		}
		if nParse == 0 {
			c.Undecided("contains-parse-failure", "ContainsStr", "no ParseAddr error test found")
		}
		// the membership test (here or in the helper) happens only after a successful parse
		for _, ci := range callsIn(cs, func(nm string, cc *ssa.CallCommon) bool {
			return strings.HasSuffix(nm, "netip.Prefix).Contains") || (holder != cs && staticCallee(cc) == holder)
		}) {
			g, ns := MustCross(ci, func(e Edge, cond ssa.Value, truth bool) bool {
				return errNilEdge(cond, truth, callSuffix("netip.ParseAddr"))
			})
			c.Check("contains-parse-failure", "membership-after-parse-ok@ContainsStr", ci, g && ns > 0, "membership is tested although the host did not parse")
		}
	}
}
