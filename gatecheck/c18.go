package main

import (
	"fmt"
	"go/token"
	"strings"

	"golang.org/x/tools/go/ssa"
)

func init() {
	register(&propDef{
		ID:       "C18",
		Title:    "Keep-alive replies reach only the backend that asked, once",
		Patterns: []string{"./pkg/edition/java/proxy"},
		Run:      runC18,
		Rule: "P4: every operation on serverConnection.pendingPings runs with serverConnection.mu held exclusively; consume = Get + Delete of the same id in one " +
			"critical section on every path after a hit; P2: the backend write is dominated by the hit edge of that consume and by state ∈ {Config, Play}, " +
			"goes to the connection of the serverConnection whose id was consumed and carries the packet whose id was consumed; pending ids are recorded only by backend keep-alive handlers.",
		Explanation: "Decides: atomic consume (at-most-once per id under concurrent handlers), drop on miss, state gate, right backend, right packet, who may record ids. " +
			"Does not decide: LRU eviction behaviour of the cache library or timing.",
		Fixtures: []string{"lockset", "guardcut"},
		Variants: []Variant{
			{Name: "consume-not-atomic", File: pkgProxy + "/session_client_play.go",
				Old:    "\tserverConn.mu.Lock()\n\tdefer serverConn.mu.Unlock()\n\n\tsentTime, ok := serverConn.pendingPings.Get(randomID)",
				New:    "\tsentTime, ok := serverConn.pendingPings.Get(randomID)",
				Expect: "pings-locked:"},
			{Name: "no-delete", File: pkgProxy + "/session_client_play.go",
				Old: "\tserverConn.pendingPings.Delete(randomID)\n", New: "", Expect: "consume-deletes"},
			{Name: "forward-on-miss", File: pkgProxy + "/session_client_play.go",
				Old: "\tif !ok {\n\t\treturn false\n\t}\n\t// A matching pending ID", New: "\t_ = ok\n\t// A matching pending ID", Expect: "write-after-hit"},
			{Name: "state-gate-dropped", File: pkgProxy + "/session_client_play.go",
				Old: "if backendState == state.Config || backendState == state.Play {", New: "if backendState != state.Login {", Expect: "write-state-gate"},
		},
	})
}

func runC18(c *Ctx) {
	scope := c.P.Funcs(Mod + "/" + pkgProxy)
	lc := NewLockCtx(c.P, scope)
	// the pending keep-alive table (pendingPings; by type if it was renamed)
	ppVar := c.P.FieldVarLike(pkgProxy+":serverConnection", "pendingPings", "SyncCache[int64")
	pp := "pendingPings"
	if ppVar != nil {
		pp = ppVar.Name()
	}
	isPings := func(cc *ssa.CallCommon) bool {
		return !cc.IsInvoke() && len(cc.Args) > 0 && strings.HasSuffix(PathOf(cc.Args[0]), "."+pp)
	}
	if ppVar == nil {
		c.Undecided("anchor", "serverConnection.pendingPings", "field does not resolve")
		return
	}
	var getCalls, setCalls []ssa.CallInstruction
	for _, fn := range scope {
		for _, ci := range callsIn(fn, func(n string, cc *ssa.CallCommon) bool { return isPings(cc) }) {
			c.Analysed(fn)
			base := strings.TrimSuffix(PathOf(ci.Common().Args[0]), "."+pp)
			held := lc.At(ci)
			c.Check("pings-locked", fmt.Sprintf("%s@%s", methodName(ci.Common()), shortName(fn)), ci, held[base+".mu"] == 'W',
				fmt.Sprintf("pendingPings.%s must run under %s.mu (exclusive) so that lookup+delete is atomic; held: %s", methodName(ci.Common()), base, held))
			switch methodName(ci.Common()) {
			case "Get":
				getCalls = append(getCalls, ci)
			case "Set":
				setCalls = append(setCalls, ci)
			case "Delete":
			default:
				c.Check("pings-ops", fmt.Sprintf("%s@%s", methodName(ci.Common()), shortName(fn)), ci, false, "unexpected operation on pendingPings (only Get/Set/Delete are modelled)")
			}
		}
	}
	c.Floor("pings-locked", 3)
	checkKeepAliveRecordedOnOwnConnection(c, scope)

	// consume: after a hit every path deletes the same id before leaving the critical section
	for _, g := range getCalls {
		fn := g.Parent()
		key := g.Common().Args[1]
		isDel := func(in ssa.Instruction) bool {
			cc := callOf(in)
			return cc != nil && isPings(cc) && methodName(cc) == "Delete" && sameValue(cc.Args[1], key)
		}
		bad := false
		n := 0
		for _, e := range IfEdges(fn) {
			cond, truth := e.Cond()
			if !boolCallEdge(cond, truth, true, func(cl *ssa.Call) bool { return cl == g.(*ssa.Call) }) {
				continue
			}
			n++
			// from the hit edge: a path to exit (or to an Unlock) without Delete?
			first := e.To().Instrs[0]
			if isDel(first) {
				continue
			}
			miss, _ := MayReachExitWithout(first, func(in ssa.Instruction) bool {
				return isDel(in)
			})
			if miss {
				bad = true
			}
			// and no unlock between
			for b := range reach(e.To(), nil) {
				for _, in := range b.Instrs {
					if cc := callOf(in); cc != nil {
						if _, isDefer := in.(*ssa.Defer); isDefer {
							continue
						}
						if p, k, ok := lockOp(cc); ok && (k == "Unlock") && strings.HasSuffix(p, ".mu") {
							// an unlock that can precede the delete
							for _, d := range callsIn(fn, func(_ string, cc2 *ssa.CallCommon) bool { return isPings(cc2) && methodName(cc2) == "Delete" }) {
								if flowsTo(in, d) {
									bad = true
								}
							}
						}
					}
				}
			}
		}
		c.Check("consume-deletes", "Get-then-Delete@"+shortName(fn), g, n > 0 && !bad,
			"after pendingPings.Get hits, every path must Delete the same id inside the same critical section (else the id is forwarded twice / to two backends)")
	}
	c.Floor("consume-deletes", 1)

	// who records ids
	for _, s := range setCalls {
		fn := s.Parent()
		okCallers := true
		var who []string
		for _, cs := range lc.Callers[fn] {
			n := shortName(cs.Caller)
			who = append(who, n)
			if !(strings.Contains(n, "backend") && strings.HasSuffix(n, ".handleKeepAlive")) {
				okCallers = false
			}
		}
		c.Check("who-records", "Set@"+shortName(fn), s, okCallers && len(who) > 0 && !lc.addrTaken[fn],
			fmt.Sprintf("pending keep-alive ids may only be recorded by backend keep-alive handlers; callers: %v", who))
	}
	c.Floor("who-records", 1)

	// the forward
	send := c.MustFunc(pkgProxy + ":sendKeepAliveToBackend")
	if send == nil {
		return
	}
	isConsume := callSuffix("proxy.consumePendingKeepAlive")
	nw := 0
	for _, ci := range callsIn(send, func(n string, cc *ssa.CallCommon) bool {
		return methodName(cc) == "WritePacket" || methodName(cc) == "BufferPacket" || methodName(cc) == "Write"
	}) {
		nw++
		g, n := MustCross(ci, func(e Edge, cond ssa.Value, truth bool) bool { return boolCallEdge(cond, truth, true, isConsume) })
		c.Check("write-after-hit", "WritePacket@sendKeepAliveToBackend", ci, g && n > 0,
			"the backend write must be dominated by the hit edge of consumePendingKeepAlive (replies matching no pending id are dropped)")
		// state gate
		allowed := true
		g2, n2 := MustCross(ci, func(e Edge, cond ssa.Value, truth bool) bool {
			bo, ok := cond.(*ssa.BinOp)
			if !ok || bo.Op != token.EQL || !truth {
				return false
			}
			for _, side := range []ssa.Value{bo.X, bo.Y} {
				if ld, ok := side.(*ssa.UnOp); ok {
					if gl, ok := ld.X.(*ssa.Global); ok && strings.HasSuffix(gl.Pkg.Pkg.Path(), "proto/state") {
						if gl.Name() != "Config" && gl.Name() != "Play" {
							allowed = false
						}
						return true
					}
				}
			}
			return false
		})
		c.Check("write-state-gate", "WritePacket@sendKeepAliveToBackend", ci, g2 && n2 > 0 && allowed,
			"the backend write must be dominated by backendState == Config || backendState == Play")
		// right backend: receiver derives from <serverConn>.conn() of the consumed serverConn
		var consumeCall *ssa.Call
		for _, x := range callsIn(send, func(n string, cc *ssa.CallCommon) bool { return strings.HasSuffix(n, "proxy.consumePendingKeepAlive") }) {
			consumeCall, _ = x.(*ssa.Call)
		}
		if consumeCall == nil {
			c.Undecided("write-right-backend", "consume@sendKeepAliveToBackend", "no consumePendingKeepAlive call")
			continue
		}
		recv := ci.Common().Value
		if !ci.Common().IsInvoke() && len(ci.Common().Args) > 0 {
			recv = ci.Common().Args[0]
		}
		sc := PathOf(consumeCall.Call.Args[0])
		c.Check("write-right-backend", "WritePacket@sendKeepAliveToBackend", ci, strings.HasPrefix(PathOf(recv), sc+"."),
			fmt.Sprintf("the reply must be written to the connection of the serverConnection whose pending id was consumed (%s), got %s", sc, PathOf(recv)))
		// right packet: the packet written is the one whose RandomID was looked up
		pk := ci.Common().Args[len(ci.Common().Args)-1]
		idPath := PathOf(consumeCall.Call.Args[1])
		c.Check("write-right-packet", "WritePacket@sendKeepAliveToBackend", ci, strings.HasPrefix(idPath, PathOf(pk)+"."),
			fmt.Sprintf("the forwarded packet (%s) must be the one whose id (%s) was consumed", PathOf(pk), idPath))
	}
	if nw == 0 {
		c.Undecided("write-after-hit", "WritePacket@sendKeepAliveToBackend", "no backend write found")
	}
}
