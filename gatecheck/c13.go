package main

import (
	"fmt"
	"go/token"
	"strings"

	"golang.org/x/tools/go/ssa"
)

func init() {
	register(&propDef{
		ID:       "C13",
		Title:    "Login plugin messages are answered exactly once by the matching consumer",
		Patterns: []string{"./pkg/edition/java/proxy"},
		Run:      runC13,
		Rule: "P4: loginInboundConn.{outstandingResponses,loginMessagesToSend,isLoginEventFired,onAllMessagesHandled} only under loginInboundConn.mu; the lookup of a response id and " +
			"its delete share one critical section and the delete happens on every hit path; the consumer invoked is the value of that lookup, on the hit edge only; consumer, completion " +
			"callback and connection I/O are never called with mu held; the consumer is registered before the message can be written; P5: the Forge relay answers the backend with the " +
			"backend's message id captured at relay time and the client's body.",
		Explanation: "Decides: at-most-once delivery per id (atomic take), only-to-the-registered-consumer, unknown ids ignored, no callback under the lock (re-entrant deadlock), register-before-send, " +
			"relay id/body provenance. Does not decide: exactly-once *completion* of the login step over all histories (the all-handled callback is deliberately re-armed, as in Velocity).",
		Fixtures: []string{"lockset", "guardcut"},
		Variants: []Variant{
			{Name: "take-not-atomic", File: pkgProxy + "/login_inbound.go",
				Old:    "\t\treturn nil\n\t}\n\tdelete(l.outstandingResponses, res.ID)\n\tl.mu.Unlock()",
				New:    "\t\treturn nil\n\t}\n\tl.mu.Unlock()\n\tl.mu.Lock()\n\tdelete(l.outstandingResponses, res.ID)\n\tl.mu.Unlock()",
				Expect: "take-atomic"},
			{Name: "no-delete", File: pkgProxy + "/login_inbound.go",
				Old: "\tdelete(l.outstandingResponses, res.ID)\n", New: "", Expect: "take-"},
			{Name: "consumer-under-lock", File: pkgProxy + "/login_inbound.go",
				Old:    "\tdelete(l.outstandingResponses, res.ID)\n\tl.mu.Unlock()\n",
				New:    "\tdelete(l.outstandingResponses, res.ID)\n\tdefer l.mu.Unlock()\n",
				Expect: "callback-unlocked"},
			{Name: "relay-wrong-id", File: pkgProxy + "/forge_login_relay.go",
				Old: "\t\tbackendMsgID: msg.ID,\n", New: "\t\tbackendMsgID: len(data),\n", Expect: "relay-"},
			{Name: "send-before-register", File: pkgProxy + "/login_inbound.go",
				Old:    "\tl.mu.Lock()\n\tl.outstandingResponses[id] = consumer\n\tfired := l.isLoginEventFired",
				New:    "\tl.mu.Lock()\n\tfired := l.isLoginEventFired\n\tif fired {\n\t\tl.mu.Unlock()\n\t\t_ = l.delegate.WritePacket(msg)\n\t\tl.mu.Lock()\n\t}\n\tl.outstandingResponses[id] = consumer",
				Expect: "register-before-send"},
		},
	})
}

func runC13(c *Ctx) {
	scope := c.P.Funcs(Mod + "/" + pkgProxy)
	lc := NewLockCtx(c.P, scope)
	checkGuarded(c, lc, scope, GuardSpec{Type: pkgProxy + ":loginInboundConn", Mutex: "mu",
		Fields: []string{"outstandingResponses", "loginMessagesToSend", "isLoginEventFired", "onAllMessagesHandled"}})
	c.Floor("guarded", 14)
	checkFiredFlagWithDrain(c, lc)

	orF := c.P.FieldVar(pkgProxy+":loginInboundConn", "outstandingResponses")
	isOR := func(v ssa.Value) bool {
		for _, o := range origins(v, 3) {
			if ld, ok := o.(*ssa.UnOp); ok && ld.Op == token.MUL {
				if fa, ok := ld.X.(*ssa.FieldAddr); ok && sameField(fieldOfAddr(fa), orF) {
					return true
				}
			}
		}
		return false
	}
	h := c.MustFunc(pkgProxy + ":(*loginInboundConn).handleLoginPluginResponse")
	if h != nil {
		var lk *ssa.Lookup
		var del *ssa.Call
		eachInstr(h, func(in ssa.Instruction) {
			if x, ok := in.(*ssa.Lookup); ok && x.CommaOk && isOR(x.X) {
				lk = x
			}
			if x, ok := in.(*ssa.Call); ok {
				if b, ok := x.Call.Value.(*ssa.Builtin); ok && b.Name() == "delete" && isOR(x.Call.Args[0]) {
					del = x
				}
			}
		})
		if lk == nil {
			c.Undecided("take-atomic", "lookup@handleLoginPluginResponse", "no comma-ok lookup in outstandingResponses")
		} else {
			okDel := del != nil && sameValue(del.Call.Args[1], lk.Index)
			c.Check("take-deletes", "delete-same-id@handleLoginPluginResponse", lk, okDel, "a hit must delete the same id it looked up (else the consumer can be invoked twice)")
			if okDel {
				ms := NewMustSince(h, func(x ssa.Instruction) bool { return x == lk }, func(x ssa.Instruction) bool {
					if cc := callOf(x); cc != nil {
						if _, isDefer := x.(*ssa.Defer); !isDefer {
							if _, k, ok := lockOp(cc); ok && (k == "Unlock" || k == "Lock") {
								return true
							}
						}
					}
					return false
				})
				c.Check("take-atomic", "lookup+delete-one-critical-section@handleLoginPluginResponse", del, ms.At(del) && lc.At(lk)["l.mu"] == 'W' && lc.At(del)["l.mu"] == 'W',
					"lookup and delete of the response id are not in one critical section: two concurrent responses with the same id both reach the consumer")
				// every hit path deletes: from the ok-true edge, no exit without the delete
				for _, e := range IfEdges(h) {
					cond, truth := e.Cond()
					ex, ok := cond.(*ssa.Extract)
					if !ok || ex.Tuple != lk || ex.Index != 1 || !truth {
						continue
					}
					first := e.To().Instrs[0]
					miss := false
					if first != ssa.Instruction(del) {
						miss, _ = MayReachExitWithout(first, func(in ssa.Instruction) bool { return in == ssa.Instruction(del) })
					}
					c.Check("take-deletes", "every-hit-path@handleLoginPluginResponse", del, !miss, "a hit path leaves without deleting the id")
				}
			}
			// consumer invocations
			n := 0
			for _, ci := range callsIn(h, func(nm string, cc *ssa.CallCommon) bool {
				return cc.IsInvoke() && cc.Method.Name() == "OnMessageResponse"
			}) {
				n++
				recv := ci.Common().Value
				ex, ok := strip(recv).(*ssa.Extract)
				c.Check("consumer-is-lookup", "OnMessageResponse@handleLoginPluginResponse", ci, ok && ex.Tuple == lk && ex.Index == 0,
					"the consumer invoked must be the one registered for this id")
				g, ns := MustCross(ci, func(e Edge, cond ssa.Value, truth bool) bool {
					ex, ok := cond.(*ssa.Extract)
					return ok && ex.Tuple == lk && ex.Index == 1 && truth
				})
				c.Check("unknown-id-ignored", "OnMessageResponse@handleLoginPluginResponse", ci, g && ns > 0, "responses with unknown ids must not reach any consumer")
			}
			if n == 0 {
				c.Undecided("consumer-is-lookup", "handleLoginPluginResponse", "no consumer invocation found")
			}
		}
	}

	// completion decision: "nothing outstanding" must be evaluated after the consumer ran (the consumer
	// may send further login plugin messages); a snapshot taken before it completes the login early and
	// then a second time when the follow-up message is answered.
	if h != nil {
		isConsumer := func(in ssa.Instruction) bool {
			cc := callOf(in)
			return cc != nil && cc.IsInvoke() && cc.Method.Name() == "OnMessageResponse"
		}
		ms := NewMustSince(h, isConsumer, nil)
		n := 0
		eachInstr(h, func(in ssa.Instruction) {
			cc := callOf(in)
			if cc == nil || cc.IsInvoke() || staticCallee(cc) != nil {
				return
			}
			if _, isB := cc.Value.(*ssa.Builtin); isB {
				return
			}
			// dynamic call of the all-handled callback
			n++
			// every len(outstandingResponses) the call is control-dependent on must be read after the consumer
			okAfter := true
			seenLen := false
			for _, e := range EdgeDominators(in.Block()) {
				cond, _ := e.Cond()
				derivesFrom(cond, 6, func(v ssa.Value) bool {
					cl, ok := v.(*ssa.Call)
					if !ok {
						return false
					}
					if b, isB := cl.Call.Value.(*ssa.Builtin); isB && b.Name() == "len" && isOR(cl.Call.Args[0]) {
						seenLen = true
						if !ms.At(cl) {
							okAfter = false
						}
					}
					return false
				})
			}
			// and the callback value itself is read after the consumer
			if ld, ok := seeThrough(cc.Value).(*ssa.UnOp); ok {
				if !ms.At(ld) {
					okAfter = false
				}
			}
			c.Check("completion-after-consumer", "onAllMessagesHandled@handleLoginPluginResponse", in, seenLen && okAfter,
				"the 'all messages handled' decision is taken before the consumer ran: a consumer that sends another login plugin message makes the login-completion step run early and then again")
		})
		if n == 0 {
			c.Undecided("completion-after-consumer", "handleLoginPluginResponse", "no completion callback invocation found")
		}
	}

	// callbacks and I/O never under l.mu — every function of the type
	for _, fn := range scope {
		if !strings.Contains(shortName(fn), "loginInboundConn)") {
			continue
		}
		checkNoCallUnderLock(c, lc, fn, "l.mu", "callback-unlocked", func(nm string, cc *ssa.CallCommon) bool {
			if cc.IsInvoke() && cc.Method.Name() == "OnMessageResponse" {
				return true
			}
			switch methodName(cc) {
			case "WritePacket", "BufferPacket", "Flush", "disconnect":
				return true
			}
			// dynamic call of a func value (onAllMessagesHandled)
			if !cc.IsInvoke() && staticCallee(cc) == nil {
				if _, isB := cc.Value.(*ssa.Builtin); !isB {
					return true
				}
			}
			return false
		})
	}
	c.Floor("callback-unlocked", 6)

	// register before send
	if s := c.MustFunc(pkgProxy + ":(*loginInboundConn).SendLoginPluginMessage"); s != nil {
		var reg ssa.Instruction
		eachInstr(s, func(in ssa.Instruction) {
			if mu, ok := in.(*ssa.MapUpdate); ok && isOR(mu.Map) {
				reg = in
			}
		})
		if reg == nil {
			c.Undecided("register-before-send", "SendLoginPluginMessage", "no registration found")
		} else {
			for _, ci := range callsIn(s, func(nm string, cc *ssa.CallCommon) bool {
				m := methodName(cc)
				return m == "WritePacket" || m == "PushBack" || m == "BufferPacket"
			}) {
				c.Check("register-before-send", methodName(ci.Common())+"@SendLoginPluginMessage", ci, domBefore(reg, ci),
					"the consumer must be registered before the message can reach the client (else a fast reply finds no consumer and is ignored)")
			}
			// id is fresh: from the atomic sequence counter
			mu := reg.(*ssa.MapUpdate)
			fresh := derivesFrom(mu.Key, 4, func(v ssa.Value) bool {
				cl, ok := v.(*ssa.Call)
				return ok && methodName(&cl.Call) == "Inc" && strings.HasSuffix(PathOf(cl.Call.Args[0]), ".sequenceCounter")
			})
			c.Check("fresh-id", "sequenceCounter.Inc@SendLoginPluginMessage", reg, fresh, "message ids must come from the atomic sequence counter (unique per connection)")
		}
	}

	// relay: backend reply carries the backend's id and the client's body
	if om := c.MustFunc(pkgProxy + ":(*forgeRelayConsumer).OnMessageResponse"); om != nil {
		n := 0
		for _, ci := range callsIn(om, func(nm string, cc *ssa.CallCommon) bool { return methodName(cc) == "WritePacket" }) {
			n++
			pk := ci.Common().Args[len(ci.Common().Args)-1]
			var idOK, dataOK, connOK bool
			if a, ok := strip(pk).(*ssa.Alloc); ok {
				for _, r := range *a.Referrers() {
					fa, ok := r.(*ssa.FieldAddr)
					if !ok {
						continue
					}
					f := fieldOfAddr(fa)
					for _, sv := range storedInto(fa, 0) {
						switch f.Name() {
						case "ID":
							idOK = strings.HasSuffix(PathOf(sv), "c.backendMsgID")
						case "Data":
							dataOK = strip(sv) == ssa.Value(om.Params[1])
						}
					}
				}
			}
			recv := ci.Common().Value
			connOK = strings.HasSuffix(PathOf(recv), "c.backendConn")
			c.Check("relay-reply", "id+body+conn@forgeRelayConsumer.OnMessageResponse", ci, idOK && dataOK && connOK,
				fmt.Sprintf("the backend reply must carry the backend's message id (ok=%v), the client's body (ok=%v) and go to the relayed backend connection (ok=%v)", idOK, dataOK, connOK))
		}
		if n == 0 {
			c.Undecided("relay-reply", "forgeRelayConsumer.OnMessageResponse", "no backend write found")
		}
	}
	if rt := c.MustFunc(pkgProxy + ":(*modernForgeLoginRelay).relayToClient"); rt != nil {
		okID, okConn := false, false
		eachInstr(rt, func(in ssa.Instruction) {
			a, ok := in.(*ssa.Alloc)
			if !ok || !typeIs(a.Type(), "java/proxy", "forgeRelayConsumer") {
				return
			}
			for _, r := range *a.Referrers() {
				fa, ok := r.(*ssa.FieldAddr)
				if !ok {
					continue
				}
				for _, sv := range storedInto(fa, 0) {
					switch fieldOfAddr(fa).Name() {
					case "backendMsgID":
						okID = PathOf(sv) == rt.Params[2].Name()+".ID"
					case "backendConn":
						okConn = strip(sv) == ssa.Value(rt.Params[1])
					}
				}
			}
		})
		c.CheckAt("relay-capture", "backendMsgID=msg.ID@relayToClient", c.P.Pos(rt.Pos()), okID && okConn,
			"the relay consumer must capture the backend message's own id and connection")
	}
}
