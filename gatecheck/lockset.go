package main

import (
	"go/token"
	"go/types"
	"sort"
	"strings"

	"golang.org/x/tools/go/ssa"
)

// P4 — lock-set analysis: forward must-analysis of which mutexes are held at each instruction.
// A mutex is identified by the access path of its receiver ("p.muP", "h.RWMutex").
// Modes: 'W' exclusive, 'R' shared.

type lockState map[string]byte // path -> 'W' | 'R'

func (s lockState) clone() lockState {
	o := make(lockState, len(s))
	for k, v := range s {
		o[k] = v
	}
	return o
}

func meet(a, b lockState) lockState {
	o := lockState{}
	for k, va := range a {
		if vb, ok := b[k]; ok {
			if va == 'R' || vb == 'R' {
				o[k] = 'R'
			} else {
				o[k] = 'W'
			}
		}
	}
	return o
}

func eqState(a, b lockState) bool {
	if len(a) != len(b) {
		return false
	}
	for k, v := range a {
		if b[k] != v {
			return false
		}
	}
	return true
}

func (s lockState) String() string {
	var ks []string
	for k, v := range s {
		ks = append(ks, k+":"+string(v))
	}
	sort.Strings(ks)
	return "{" + strings.Join(ks, ",") + "}"
}

// lockOp classifies a call as a mutex operation. kind: "Lock","RLock","Unlock","RUnlock","TryLock","TryRLock".
func lockOp(c *ssa.CallCommon) (path string, kind string, ok bool) {
	if c.IsInvoke() {
		// sync.Locker interface
		if n := c.Method.Name(); (n == "Lock" || n == "Unlock") && strings.HasSuffix(c.Value.Type().String(), "sync.Locker") {
			return PathOf(c.Value), n, true
		}
		return "", "", false
	}
	f := staticCallee(c)
	if f == nil || f.Signature.Recv() == nil || len(c.Args) == 0 {
		return "", "", false
	}
	rt := namedOf(f.Signature.Recv().Type())
	if rt == nil || rt.Obj().Pkg() == nil || rt.Obj().Pkg().Path() != "sync" {
		return "", "", false
	}
	if rt.Obj().Name() != "Mutex" && rt.Obj().Name() != "RWMutex" {
		return "", "", false
	}
	switch f.Name() {
	case "Lock", "RLock", "Unlock", "RUnlock", "TryLock", "TryRLock":
		return PathOf(c.Args[0]), f.Name(), true
	}
	return "", "", false
}

// LockInfo is the result for one function.
type LockInfo struct {
	Fn    *ssa.Function
	in    map[*ssa.BasicBlock]lockState
	Entry lockState
}

// Locks runs the analysis for fn assuming `entry` is held on entry.
func Locks(fn *ssa.Function, entry lockState) *LockInfo {
	li := &LockInfo{Fn: fn, in: map[*ssa.BasicBlock]lockState{}, Entry: entry}
	if len(fn.Blocks) == 0 {
		return li
	}
	if entry == nil {
		entry = lockState{}
	}
	li.in[fn.Blocks[0]] = entry.clone()
	work := []*ssa.BasicBlock{fn.Blocks[0]}
	inWork := map[*ssa.BasicBlock]bool{fn.Blocks[0]: true}
	for len(work) > 0 {
		b := work[0]
		work = work[1:]
		inWork[b] = false
		st := li.in[b].clone()
		for _, in := range b.Instrs {
			applyLock(st, in)
		}
		for i, s := range b.Succs {
			out := st
			// TryLock as conditional acquire on the true edge
			if iff, ok := lastInstr(b).(*ssa.If); ok {
				c, truth := Edge{b, i}.Cond()
				_ = iff
				if call := callValue(c); call != nil {
					if p, k, ok := lockOp(&call.Call); ok && (k == "TryLock" || k == "TryRLock") && truth {
						out = st.clone()
						if k == "TryLock" {
							out[p] = 'W'
						} else {
							out[p] = 'R'
						}
					}
				}
			}
			old, had := li.in[s]
			var nw lockState
			if !had {
				nw = out.clone()
			} else {
				nw = meet(old, out)
			}
			if !had || !eqState(old, nw) {
				li.in[s] = nw
				if !inWork[s] {
					inWork[s] = true
					work = append(work, s)
				}
			}
		}
	}
	return li
}

func applyLock(st lockState, in ssa.Instruction) {
	switch x := in.(type) {
	case *ssa.Call:
		if p, k, ok := lockOp(&x.Call); ok {
			switch k {
			case "Lock":
				st[p] = 'W'
			case "RLock":
				if st[p] != 'W' {
					st[p] = 'R'
				}
			case "Unlock", "RUnlock":
				delete(st, p)
			}
		}
	case *ssa.Defer:
		// defer mu.Unlock(): stays held to the end of the function — nothing to do.
	}
}

// At returns the locks held immediately before instruction in.
func (li *LockInfo) At(in ssa.Instruction) lockState {
	b := in.Block()
	st, ok := li.in[b]
	if !ok {
		return lockState{} // unreachable block
	}
	st = st.clone()
	for _, x := range b.Instrs {
		if x == in {
			break
		}
		applyLock(st, x)
	}
	return st
}

// Reachable reports whether the analysis reached the block of in.
func (li *LockInfo) Reachable(in ssa.Instruction) bool {
	_, ok := li.in[in.Block()]
	return ok
}

// ---------- call-site index & caller-holds summaries ---------------------------------------------

type CallSite struct {
	Caller *ssa.Function
	Instr  ssa.CallInstruction
}

// callersIndex maps a function to the static call sites that invoke it (call, defer, go).
func callersIndex(fns []*ssa.Function) map[*ssa.Function][]CallSite {
	idx := map[*ssa.Function][]CallSite{}
	for _, fn := range fns {
		eachInstr(fn, func(in ssa.Instruction) {
			ci, ok := in.(ssa.CallInstruction)
			if !ok {
				return
			}
			if f := staticCallee(ci.Common()); f != nil {
				if o := f.Origin(); o != nil {
					idx[o] = append(idx[o], CallSite{fn, ci})
				}
				idx[f] = append(idx[f], CallSite{fn, ci})
			}
		})
	}
	return idx
}

// LockCtx computes, with memoisation, the locks held at any instruction including what callers
// are known to hold (caller-holds summaries for functions whose every static call site holds a
// lock on the path passed as the corresponding argument).
type LockCtx struct {
	P       *Program
	Callers map[*ssa.Function][]CallSite
	memo    map[*ssa.Function]*LockInfo
	busy    map[*ssa.Function]bool
	hit     map[*ssa.Function]bool
	prov    map[*ssa.Function]lockState
	order   []*ssa.Function
	// escapes: functions whose value is taken (used as a func value, method value or interface
	// method) — their entry lock set cannot be derived from call sites.
	addrTaken map[*ssa.Function]bool
}

func NewLockCtx(P *Program, scope []*ssa.Function) *LockCtx {
	lc := &LockCtx{P: P, Callers: callersIndex(scope), memo: map[*ssa.Function]*LockInfo{}, busy: map[*ssa.Function]bool{}, hit: map[*ssa.Function]bool{}, prov: map[*ssa.Function]lockState{}, addrTaken: map[*ssa.Function]bool{}}
	for _, fn := range scope {
		eachInstr(fn, func(in ssa.Instruction) {
			for _, op := range in.Operands(nil) {
				if *op == nil {
					continue
				}
				switch v := (*op).(type) {
				case *ssa.Function:
					if ci, ok := in.(ssa.CallInstruction); ok && ci.Common().Value == v {
						continue
					}
					lc.addrTaken[v] = true
				case *ssa.MakeClosure:
					if ci, ok := in.(ssa.CallInstruction); ok && ci.Common().Value == v {
						continue
					}
					lc.addrTaken[v.Fn.(*ssa.Function)] = true
				}
			}
		})
	}
	return lc
}

// exportedEntry: can fn be entered from outside the analysed scope with no lock held?
func (lc *LockCtx) openEntry(fn *ssa.Function) bool {
	if fn.Parent() != nil {
		// closure: open unless it is only applied/deferred in place
		return lc.addrTaken[fn] || len(lc.Callers[fn]) == 0
	}
	if lc.addrTaken[fn] {
		return true
	}
	if fn.Object() != nil && fn.Object().Exported() {
		return true
	}
	// unexported method that may satisfy an interface: treat as open only if it has no static callers
	return len(lc.Callers[fn]) == 0
}

// Info returns the lock analysis of fn with its derived entry state. Cycles in the static call
// graph are solved as a greatest fixpoint: a recursive call site contributes what it holds under
// the current assumption about fn's own entry, iterated until stable.
func (lc *LockCtx) Info(fn *ssa.Function) *LockInfo {
	if li, ok := lc.memo[fn]; ok {
		return li
	}
	if lc.busy[fn] {
		lc.hit[fn] = true
		if prov, ok := lc.prov[fn]; ok {
			return Locks(fn, prov)
		}
		return nil // TOP: no information yet, the caller skips this site
	}
	lc.busy[fn] = true
	var entry lockState
	top := false
	for iter := 0; iter < 8; iter++ {
		lc.hit[fn] = false
		mark := len(lc.order)
		entry, top = lc.entryOf(fn)
		if top {
			break
		}
		if !lc.hit[fn] {
			break
		}
		if prov, ok := lc.prov[fn]; ok && eqState(prov, entry) {
			break
		}
		lc.prov[fn] = entry
		for _, g := range lc.order[mark:] {
			delete(lc.memo, g)
		}
		lc.order = lc.order[:mark]
	}
	lc.busy[fn] = false
	delete(lc.prov, fn)
	if top && len(lc.busy) > 0 && lc.anyBusy() {
		// inside somebody else's cycle and nothing known yet: TOP, not memoised (asked again in the
		// next round, when the cycle's head has a provisional entry)
		return nil
	}
	li := Locks(fn, entry)
	lc.memo[fn] = li
	lc.order = append(lc.order, fn)
	return li
}

// entryOf: the locks held at every call of fn. top reports that nothing is known yet — every caller
// is itself waiting for fn's cycle to be solved: in the greatest-fixpoint iteration that is "all locks"
// (the caller's site is skipped), not "no lock".
func (lc *LockCtx) entryOf(fn *ssa.Function) (entry lockState, top bool) {
	entry = lockState{}
	if lc.openEntry(fn) {
		return entry, false
	}
	first := true
	for _, cs := range lc.Callers[fn] {
		var tr lockState
		if _, isGo := cs.Instr.(*ssa.Go); isGo {
			tr = lockState{}
		} else if _, isDefer := cs.Instr.(*ssa.Defer); isDefer {
			// a deferred call runs at function exit; be conservative — nothing held.
			tr = lockState{}
		} else {
			ci := lc.Info(cs.Caller)
			if ci == nil {
				continue // TOP
			}
			tr = translate(ci.At(cs.Instr), cs.Instr.Common(), fn)
		}
		if first {
			entry, first = tr, false
		} else {
			entry = meet(entry, tr)
		}
	}
	return entry, first && len(lc.Callers[fn]) > 0
}

// translate rewrites caller paths into callee paths: a caller lock "x.y.mu" where argument i has
// path "x.y" becomes "<param_i>.mu" in the callee. For closures, free variables bind likewise.
func translate(held lockState, c *ssa.CallCommon, callee *ssa.Function) lockState {
	out := lockState{}
	type bind struct{ from, to string }
	var binds []bind
	args := c.Args
	params := callee.Params
	if len(args) == len(params) {
		for i, a := range args {
			binds = append(binds, bind{PathOf(a), params[i].Name()})
		}
	}
	if mc, ok := c.Value.(*ssa.MakeClosure); ok {
		for i, b := range mc.Bindings {
			if i < len(callee.FreeVars) {
				binds = append(binds, bind{PathOf(b), callee.FreeVars[i].Name()})
			}
		}
	}
	for lk, mode := range held {
		for _, b := range binds {
			if strings.HasPrefix(b.from, "?") {
				continue
			}
			if lk == b.from {
				out[b.to] = mode
			} else if strings.HasPrefix(lk, b.from+".") {
				out[b.to+lk[len(b.from):]] = mode
			}
		}
	}
	return out
}

// At: locks held before `in`, including caller-held ones.
func (lc *LockCtx) At(in ssa.Instruction) lockState {
	li := lc.Info(in.Parent())
	if li == nil {
		return lockState{}
	}
	return li.At(in)
}

func (lc *LockCtx) anyBusy() bool {
	for _, b := range lc.busy {
		if b {
			return true
		}
	}
	return false
}

// ---------- field access enumeration -------------------------------------------------------------

// Access is one read or write of a struct field.
type Access struct {
	Instr ssa.Instruction // the FieldAddr / Field
	Base  ssa.Value       // the struct (pointer) value
	Write bool            // the field itself is assigned, or the map/slice it holds is mutated
	Fn    *ssa.Function
}

// fieldAccesses finds all accesses to field fv (a *types.Var struct field) in fns.
func fieldAccesses(fns []*ssa.Function, fv *types.Var) []Access {
	var out []Access
	for _, fn := range fns {
		eachInstr(fn, func(in ssa.Instruction) {
			switch x := in.(type) {
			case *ssa.FieldAddr:
				if sameField(fieldOfAddr(x), fv) {
					out = append(out, Access{Instr: x, Base: x.X, Write: addrWritten(x), Fn: fn})
				}
			case *ssa.Field:
				if sameField(fieldOfVal(x), fv) {
					out = append(out, Access{Instr: x, Base: x.X, Write: false, Fn: fn})
				}
			}
		})
	}
	return out
}

func sameField(a, b *types.Var) bool {
	if a == nil || b == nil {
		return false
	}
	if a == b {
		return true
	}
	// instantiated generics produce distinct Var objects: compare origin
	return a.Origin() == b.Origin()
}

// addrWritten: the address is stored to, or a map/slice loaded from it is mutated in place.
func addrWritten(addr ssa.Value) bool {
	for _, r := range *addr.Referrers() {
		switch x := r.(type) {
		case *ssa.Store:
			if x.Addr == addr {
				return true
			}
		case *ssa.UnOp:
			if x.Op == token.MUL && valueMutated(x) {
				return true
			}
		}
	}
	return false
}

// valueMutated: a map value is updated/deleted from, or a slice element is stored to.
func valueMutated(v ssa.Value) bool {
	refs := v.Referrers()
	if refs == nil {
		return false
	}
	for _, r := range *refs {
		switch x := r.(type) {
		case *ssa.MapUpdate:
			if x.Map == v {
				return true
			}
		case *ssa.Call:
			if b, ok := x.Call.Value.(*ssa.Builtin); ok && (b.Name() == "delete" || b.Name() == "clear") && len(x.Call.Args) > 0 && x.Call.Args[0] == v {
				return true
			}
		case *ssa.IndexAddr:
			if x.X == v && addrWritten(x) {
				return true
			}
		}
	}
	return false
}

// freshBase: the struct is being constructed in this function (composite literal / new), so it
// is not yet shared and needs no lock.
func freshBase(v ssa.Value) bool {
	switch x := v.(type) {
	case *ssa.Alloc:
		return true
	case *ssa.UnOp:
		if x.Op == token.MUL {
			// load of a pointer from a local variable: fresh only if everything ever stored in that
			// variable is itself fresh (a spilled parameter is not)
			if a, ok := x.X.(*ssa.Alloc); ok {
				if _, isPtr := derefType(a.Type()).Underlying().(*types.Pointer); isPtr {
					st := storesTo(a)
					if len(st) == 0 {
						return false
					}
					for _, sv := range st {
						if !freshBase(sv) {
							return false
						}
					}
					return true
				}
			}
			return freshBase(x.X)
		}
	case *ssa.FieldAddr:
		return freshBase(x.X)
	case *ssa.Phi:
		for _, e := range x.Edges {
			if !freshBase(e) {
				return false
			}
		}
		return len(x.Edges) > 0
	}
	return false
}

// usesOf follows a loaded reference value through value-preserving instructions and returns every
// instruction that uses it (range, lookup, len, index, call argument, store …).
func usesOf(v ssa.Value) []ssa.Instruction {
	seen := map[ssa.Value]bool{}
	var out []ssa.Instruction
	var walk func(v ssa.Value)
	walk = func(v ssa.Value) {
		if seen[v] {
			return
		}
		seen[v] = true
		refs := v.Referrers()
		if refs == nil {
			return
		}
		for _, r := range *refs {
			out = append(out, r)
			switch x := r.(type) {
			case *ssa.Phi:
				walk(x)
			case *ssa.ChangeType:
				walk(x)
			case *ssa.Range:
				walk(x)
			case *ssa.Next:
				// iteration step: a use of the map at this point
			case *ssa.Slice:
				walk(x)
			case *ssa.MakeInterface:
				walk(x)
			}
		}
	}
	walk(v)
	return out
}

// ---------- re-entrancy ---------------------------------------------------------------------------

// Reentry is a lock acquisition of a mutex that the same goroutine already holds (self-deadlock
// for sync.Mutex / RWMutex when either side is exclusive).
type Reentry struct {
	At    ssa.Instruction
	Mutex string
	Chain []string // call chain from the root
}

// findReentry walks fn with `entry` held and reports acquisitions of an already held mutex,
// following static callees (bodies available) up to depth.
func findReentry(fn *ssa.Function, entry lockState, depth int, chain []string, seen map[string]bool) []Reentry {
	key := fn.String() + entry.String()
	if seen[key] || depth < 0 {
		return nil
	}
	seen[key] = true
	var out []Reentry
	li := Locks(fn, entry)
	chain = append(append([]string{}, chain...), shortName(fn))
	for _, b := range fn.Blocks {
		if _, ok := li.in[b]; !ok {
			continue
		}
		st := li.in[b].clone()
		for _, in := range b.Instrs {
			if call, ok := in.(*ssa.Call); ok {
				if p, k, ok := lockOp(&call.Call); ok {
					if mode, held := st[p]; held && (k == "Lock" || (k == "RLock" && mode == 'W')) {
						out = append(out, Reentry{At: in, Mutex: p, Chain: chain})
					}
				} else if g := staticCallee(&call.Call); g != nil && g.Blocks != nil && len(st) > 0 {
					tr := translate(st, &call.Call, g)
					if len(tr) > 0 {
						out = append(out, findReentry(g, tr, depth-1, chain, seen)...)
					}
				}
			}
			applyLock(st, in)
		}
	}
	return out
}
