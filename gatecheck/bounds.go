package main

import (
	"fmt"
	"go/token"
	"math"

	"golang.org/x/tools/go/ssa"
)

// P3 — guard range: the constraints on an integer value that hold at a program point because a
// comparison edge dominates it. Dominance-based (not path enumeration): a constraint is reported
// only if every path from the entry to the block crosses that comparison edge.

// SymCons is a constraint against a non-constant value: v OP Other.
type SymCons struct {
	Op    token.Token // LSS LEQ GTR GEQ EQL NEQ, read as "v Op Other"
	Other ssa.Value
	Edge  Edge
}

type Range struct {
	Lo, Hi int64 // inclusive; math.MinInt64 / math.MaxInt64 when unbounded
	Sym    []SymCons
	Neq    []int64 // excluded constants (v != c)
}

// tighten moves the bounds past excluded constants (v >= 0 && v != 0 ⇒ v >= 1).
func (r *Range) tighten() {
	for changed := true; changed; {
		changed = false
		for _, c := range r.Neq {
			if r.HasLo() && r.Lo == c {
				r.Lo++
				changed = true
			}
			if r.HasHi() && r.Hi == c {
				r.Hi--
				changed = true
			}
		}
	}
}

func (r Range) HasLo() bool { return r.Lo != math.MinInt64 }
func (r Range) HasHi() bool { return r.Hi != math.MaxInt64 }
func (r Range) String() string {
	lo, hi := "-inf", "+inf"
	if r.HasLo() {
		lo = fmt.Sprint(r.Lo)
	}
	if r.HasHi() {
		hi = fmt.Sprint(r.Hi)
	}
	s := "[" + lo + "," + hi + "]"
	for _, c := range r.Sym {
		s += fmt.Sprintf(" v%s%s", c.Op, c.Other.Name())
	}
	return s
}

func negateOp(op token.Token) token.Token {
	switch op {
	case token.LSS:
		return token.GEQ
	case token.LEQ:
		return token.GTR
	case token.GTR:
		return token.LEQ
	case token.GEQ:
		return token.LSS
	case token.EQL:
		return token.NEQ
	case token.NEQ:
		return token.EQL
	}
	return token.ILLEGAL
}

func flipOp(op token.Token) token.Token {
	switch op {
	case token.LSS:
		return token.GTR
	case token.LEQ:
		return token.GEQ
	case token.GTR:
		return token.LSS
	case token.GEQ:
		return token.LEQ
	}
	return op
}

// RangeAt computes the range of any value satisfying is() at block b from dominating comparison edges.
func RangeAt(b *ssa.BasicBlock, is func(ssa.Value) bool) Range {
	r := Range{Lo: math.MinInt64, Hi: math.MaxInt64}
	for _, e := range EdgeDominators(b) {
		cond, truth := e.Cond()
		applyCmp(&r, e, cond, truth, is)
	}
	r.tighten()
	return r
}

// RangeOnEdge computes the constraint a single edge puts on a value satisfying is().
func RangeOnEdge(e Edge, is func(ssa.Value) bool) Range {
	r := Range{Lo: math.MinInt64, Hi: math.MaxInt64}
	cond, truth := e.Cond()
	applyCmp(&r, e, cond, truth, is)
	return r
}

func applyCmp(r *Range, e Edge, cond ssa.Value, truth bool, is func(ssa.Value) bool) {
	bo, ok := cond.(*ssa.BinOp)
	if !ok {
		// a boolean helper / boolean variable: apply the comparisons that necessarily held inside it
		if !applyCmpExpanding {
			applyCmpExpanding = true
			impliedConds(cond, truth, 2, func(c2 ssa.Value, t2 bool) {
				if _, isB := c2.(*ssa.BinOp); isB {
					applyCmp(r, e, c2, t2, is)
				}
			})
			applyCmpExpanding = false
		}
		return
	}
	op := bo.Op
	switch op {
	case token.LSS, token.LEQ, token.GTR, token.GEQ, token.EQL, token.NEQ:
	default:
		return
	}
	var other, matched ssa.Value
	switch {
	case is(strip(bo.X)) || is(bo.X):
		other, matched = bo.Y, bo.X
	case is(strip(bo.Y)) || is(bo.Y):
		other, matched = bo.X, bo.Y
		op = flipOp(op)
	default:
		return
	}
	if !truth {
		op = negateOp(op)
	}
	// len(x) != 0 on a length means len(x) >= 1
	if op == token.NEQ {
		if c, ok := constInt(other); ok {
			r.Neq = append(r.Neq, c)
			if c == 0 && isLenCall(matched) && r.Lo < 1 {
				r.Lo = 1
			}
		}
	}
	if c, ok := constInt(other); ok {
		switch op {
		case token.LSS:
			if c-1 < r.Hi {
				r.Hi = c - 1
			}
		case token.LEQ:
			if c < r.Hi {
				r.Hi = c
			}
		case token.GTR:
			if c+1 > r.Lo {
				r.Lo = c + 1
			}
		case token.GEQ:
			if c > r.Lo {
				r.Lo = c
			}
		case token.EQL:
			if c > r.Lo {
				r.Lo = c
			}
			if c < r.Hi {
				r.Hi = c
			}
		}
		return
	}
	r.Sym = append(r.Sym, SymCons{Op: op, Other: other, Edge: e})
}

// isLenCall: v is len(…) / cap(…) (never negative).
func isLenCall(v ssa.Value) bool {
	cl, ok := strip(v).(*ssa.Call)
	if !ok {
		return false
	}
	b, ok := cl.Call.Value.(*ssa.Builtin)
	return ok && (b.Name() == "len" || b.Name() == "cap")
}

// isVal returns a matcher for "the same value as v modulo conversions".
func isVal(v ssa.Value) func(ssa.Value) bool {
	v = strip(v)
	return func(x ssa.Value) bool { return strip(x) == v }
}

// constSet evaluates v to a finite set of integer constants (Const, Phi of consts).
func constSet(v ssa.Value) ([]int64, bool) {
	var out []int64
	for _, o := range origins(v, 4) {
		c, ok := constInt(o)
		if !ok {
			return nil, false
		}
		out = append(out, c)
	}
	return out, len(out) > 0
}
