package main

import (
	"fmt"
	"go/token"
	"strings"

	"golang.org/x/tools/go/ssa"
)

const pkgUUID = "pkg/util/uuid"
const pkgProfile = "pkg/edition/java/profile"

func init() {
	register(&propDef{
		ID:       "C10",
		Title:    "Offline identities match vanilla and only valid usernames are admitted",
		Patterns: []string{"./pkg/edition/java/proxy", "./pkg/util/uuid", "./pkg/edition/java/profile"},
		Run:      runC10,
		Rule: "P9: the constant compiled into playerNameRegex denotes exactly the language ^[A-Za-z0-9_]{2,16}$ under MatchString semantics (decided by determinising both regexp/syntax " +
			"programs over a common alphabet and exploring the product; equal languages in any spelling pass); P2: storing the login and every admission is dominated by the true edge of " +
			"playerNameRegex.MatchString(login.Username) on that login; OfflinePlayerUUID hashes exactly \"OfflinePlayer:\"+name with crypto/md5 and (P6 known bits) forces byte 6's high " +
			"nibble to 0011 and byte 8's top bits to 10 on the returned array; profile.NewOffline takes its id from OfflinePlayerUUID(name); with forwarding disabled the id used at login " +
			"completion is OfflinePlayerUUID(player.Username()).",
		Explanation: "Decides: the accepted username language (exactly), that the filter gates the login, the offline UUID's input and version/variant bits, and its use by offline profiles. " +
			"Does not decide: MD5 itself.",
		Fixtures: []string{"regex", "guardcut", "knownbits"},
		Variants: []Variant{
			{Name: "regex-one-char", File: pkgProxy + "/session_client_initial_login.go",
				Old: "regexp.MustCompile(`^[A-Za-z0-9_]{2,16}$`)", New: "regexp.MustCompile(`^[A-Za-z0-9_]{1,16}$`)", Expect: "username-language"},
			{Name: "regex-unanchored", File: pkgProxy + "/session_client_initial_login.go",
				Old: "regexp.MustCompile(`^[A-Za-z0-9_]{2,16}$`)", New: "regexp.MustCompile(`^[A-Za-z0-9_]{2,16}`)", Expect: "username-language"},
			{Name: "regex-multiline", File: pkgProxy + "/session_client_initial_login.go",
				Old: "regexp.MustCompile(`^[A-Za-z0-9_]{2,16}$`)", New: "regexp.MustCompile(`(?m)^[A-Za-z0-9_]{2,16}$`)", Expect: "username-language"},
			{Name: "regex-dot-allowed", File: pkgProxy + "/session_client_initial_login.go",
				Old: "regexp.MustCompile(`^[A-Za-z0-9_]{2,16}$`)", New: "regexp.MustCompile(`^[A-Za-z0-9_.]{2,16}$`)", Expect: "username-language"},
			{Name: "name-check-not-gating", File: pkgProxy + "/session_client_initial_login.go",
				Old:    "\tif !playerNameRegex.MatchString(login.Username) {\n\t\t_ = l.inbound.disconnect(invalidPlayerName)\n\t\treturn\n\t}",
				New:    "\tif !playerNameRegex.MatchString(login.Username) {\n\t\t_ = l.inbound.disconnect(invalidPlayerName)\n\t}",
				Expect: "name-gate"},
			{Name: "uuid-version-4", File: pkgUUID + "/uuid.go",
				Old: "const version = 3 // UUID v3", New: "const version = 4 // UUID v3", Expect: "uuid-bits"},
			{Name: "uuid-variant-dropped", File: pkgUUID + "/uuid.go",
				Old: "\tuuid[8] = (uuid[8] & 0x3f) | 0x80 // RFC 4122 variant\n", New: "", Expect: "uuid-bits"},
			{Name: "uuid-prefix-changed", File: pkgUUID + "/uuid.go",
				Old: `md5.Sum([]byte("OfflinePlayer:" + username))`, New: `md5.Sum([]byte("OfflinePlayer" + username))`, Expect: "uuid-input"},
			{Name: "uuid-lowercased", File: pkgUUID + "/uuid.go",
				Old: `md5.Sum([]byte("OfflinePlayer:" + username))`, New: `md5.Sum([]byte("OfflinePlayer:" + username[:len(username)/2]))`, Expect: "uuid-input"},
			{Name: "offline-profile-random-id", File: pkgProfile + "/gameprofile.go",
				Old: "ID:   uuid.OfflinePlayerUUID(username),", New: "ID:   uuid.New(),", Expect: "offline-profile"},
		},
	})
}

// known bits of an 8-bit value
type kbits struct{ ones, zeros uint8 }

func knownBits(v ssa.Value, depth int) kbits {
	if depth < 0 {
		return kbits{}
	}
	v = strip(v)
	if k, ok := constInt(v); ok {
		return kbits{ones: uint8(k), zeros: ^uint8(k)}
	}
	bo, ok := v.(*ssa.BinOp)
	if !ok {
		return kbits{}
	}
	x, y := knownBits(bo.X, depth-1), knownBits(bo.Y, depth-1)
	switch bo.Op {
	case token.AND:
		return kbits{ones: x.ones & y.ones, zeros: x.zeros | y.zeros}
	case token.OR:
		return kbits{ones: x.ones | y.ones, zeros: x.zeros & y.zeros}
	case token.SHL:
		if k, ok := constInt(bo.Y); ok && k >= 0 && k < 8 {
			return kbits{ones: x.ones << uint(k), zeros: x.zeros<<uint(k) | (1<<uint(k) - 1)}
		}
	case token.SHR:
		if k, ok := constInt(bo.Y); ok && k >= 0 && k < 8 {
			return kbits{ones: x.ones >> uint(k), zeros: x.zeros>>uint(k) | ^(uint8(0xff) >> uint(k))}
		}
	}
	return kbits{}
}

const specUsername = `^[A-Za-z0-9_]{2,16}$`

func runC10(c *Ctx) {
	// (1) regex language
	var pat string
	found := false
	for _, fn := range c.P.Funcs(Mod + "/" + pkgProxy) {
		if fn.Name() != "init" {
			continue
		}
		eachInstr(fn, func(in ssa.Instruction) {
			st, ok := in.(*ssa.Store)
			if !ok {
				return
			}
			g, ok := st.Addr.(*ssa.Global)
			if !ok || g.Name() != "playerNameRegex" {
				return
			}
			cl := callValue(st.Val)
			if cl == nil || !(strings.HasSuffix(calleeName(&cl.Call), "regexp.MustCompile") || strings.HasSuffix(calleeName(&cl.Call), "regexp.Compile")) {
				c.Check("username-language", "playerNameRegex-init", in, false, "playerNameRegex is not initialised from regexp.MustCompile")
				return
			}
			s, isS := constString(cl.Call.Args[0])
			if !isS {
				c.Check("username-language", "playerNameRegex-constant", in, false, "playerNameRegex pattern is not a constant")
				return
			}
			pat, found = s, true
			eq, w, err := RegexEquivalent(s, specUsername)
			detail := ""
			if err != nil {
				detail = err.Error()
			} else if !eq {
				detail = fmt.Sprintf("pattern %q and the specified %q differ on the string %q", s, specUsername, w)
			}
			c.Check("username-language", "playerNameRegex=^[A-Za-z0-9_]{2,16}$", in, err == nil && eq, "the username filter does not accept exactly 2–16 characters of A-Z a-z 0-9 _: "+detail)
		})
	}
	if !found {
		c.Undecided("username-language", "playerNameRegex", "initialisation of playerNameRegex not found")
	}
	c.Info["username_pattern"] = pat
	// other stores to the regex
	for _, fn := range c.P.Funcs(Mod + "/" + pkgProxy) {
		if fn.Name() == "init" {
			continue
		}
		eachInstr(fn, func(in ssa.Instruction) {
			if st, ok := in.(*ssa.Store); ok {
				if g, ok := st.Addr.(*ssa.Global); ok && g.Name() == "playerNameRegex" {
					c.Check("username-language", "reassigned@"+shortName(fn), in, false, "playerNameRegex is reassigned at run time")
				}
			}
		})
	}

	// (2) the filter gates the login
	if hsl := c.MustFunc(pkgProxy + ":(*initialLoginSessionHandler).handleServerLogin"); hsl != nil {
		login := hsl.Params[1]
		matchTrue := func(e Edge, cond ssa.Value, truth bool) bool {
			if !truth {
				return false
			}
			cl := callValue(cond)
			if cl == nil || methodName(&cl.Call) != "MatchString" || len(cl.Call.Args) < 2 {
				return false
			}
			recvOK := false
			if ld, ok := cl.Call.Args[0].(*ssa.UnOp); ok {
				if g, ok := ld.X.(*ssa.Global); ok && g.Name() == "playerNameRegex" {
					recvOK = true
				}
			}
			a := PathOf(cl.Call.Args[1])
			return recvOK && (a == login.Name()+".Username")
		}
		n := 0
		for _, fn := range Closures(hsl) {
			eachInstr(fn, func(in ssa.Instruction) {
				isSite := false
				if st, ok := in.(*ssa.Store); ok && strings.HasSuffix(PathOf(st.Addr), ".login") && fn == hsl {
					isSite = true
				}
				if cc := callOf(in); cc != nil && (methodName(cc) == "newAuthSessionHandler" || methodName(cc) == "loginEventFired" || methodName(cc) == "WritePacket") && fn == hsl {
					isSite = true
				}
				if !isSite {
					return
				}
				n++
				g, ns := MustCross(in, matchTrue)
				what := "store of the login"
				if cc := callOf(in); cc != nil {
					what = methodName(cc)
				}
				c.Check("name-gate", what+"@handleServerLogin", in, g && ns > 0, "login processing continues for a username that did not pass playerNameRegex.MatchString(login.Username)")
			})
		}
		if n < 2 {
			c.Undecided("name-gate", "handleServerLogin", "login store / continuation not found")
		}
	}

	// (3) OfflinePlayerUUID
	if ou := c.MustFunc(pkgUUID + ":OfflinePlayerUUID"); ou != nil {
		var sum *ssa.Call
		eachInstr(ou, func(in ssa.Instruction) {
			if cl, ok := in.(*ssa.Call); ok && calleeName(&cl.Call) == "crypto/md5.Sum" {
				sum = cl
			}
		})
		okIn := false
		detail := "no crypto/md5.Sum call"
		if sum != nil {
			arg := strip(sum.Call.Args[0])
			detail = "hashed value is " + arg.String()
			if bo, ok := arg.(*ssa.BinOp); ok && bo.Op == token.ADD {
				s, isS := constString(bo.X)
				if isS && s == "OfflinePlayer:" && bo.Y == ssa.Value(ou.Params[0]) {
					okIn = true
				}
				detail = fmt.Sprintf("hashed value is %q + %s", s, bo.Y.Name())
			}
		}
		c.CheckAt("uuid-input", "md5(\"OfflinePlayer:\"+name)@OfflinePlayerUUID", c.P.Pos(ou.Pos()), okIn, "the offline UUID must be the MD5 of exactly \"OfflinePlayer:\" followed by the name: "+detail)
		// version / variant bits on the returned array
		var st6, st8 *ssa.Store
		// OfflinePlayerUUID and the helper the bit stamping may have moved into (its parameters read as
		// the call's arguments: stamp(digest, 3))
		ouParts, ouRestore := boundParts(ou, 1)
		defer ouRestore()
		eachOU := func(f func(ssa.Instruction)) {
			for _, part := range ouParts {
				eachInstr(part, f)
			}
		}
		eachOU(func(in ssa.Instruction) {
			st, ok := in.(*ssa.Store)
			if !ok {
				return
			}
			ia, ok := st.Addr.(*ssa.IndexAddr)
			if !ok {
				return
			}
			k, isK := constInt(ia.Index)
			if !isK {
				return
			}
			switch k {
			case 6:
				st6 = st
			case 8:
				st8 = st
			}
		})
		ok6, ok8 := false, false
		if st6 != nil {
			kb := knownBits(st6.Val, 6)
			ok6 = kb.ones&0xf0 == 0x30 && kb.zeros&0xf0 == 0xc0
		}
		if st8 != nil {
			kb := knownBits(st8.Val, 6)
			ok8 = kb.ones&0xc0 == 0x80 && kb.zeros&0xc0 == 0x40
		}
		// the array returned is the one the stores went to and the one md5 filled; the stores precede the return
		okRet := false
		if st6 != nil && st8 != nil && st6.Parent() == st8.Parent() {
			okRet = true
			for _, r := range returnsOf(st6.Parent()) {
				if !(domBefore(st6, r) && domBefore(st8, r)) {
					okRet = false
				}
			}
			if st6.Parent() != ou && liftTo(ou, st6) == nil {
				okRet = false
			}
		}
		c.CheckAt("uuid-bits", "version=3,variant=RFC4122@OfflinePlayerUUID", c.P.Pos(ou.Pos()), ok6 && ok8 && okRet,
			fmt.Sprintf("byte 6 must be forced to 0011xxxx (ok=%v) and byte 8 to 10xxxxxx (ok=%v) before returning (ok=%v)", ok6, ok8, okRet))
		// no randomness / time
		pure := true
		eachInstr(ou, func(in ssa.Instruction) {
			if cc := callOf(in); cc != nil {
				n := calleeName(cc)
				if strings.Contains(n, "rand") || strings.HasPrefix(n, "time.") || strings.Contains(n, "uuid.New") {
					pure = false
				}
			}
		})
		c.CheckAt("uuid-input", "deterministic@OfflinePlayerUUID", c.P.Pos(ou.Pos()), pure, "the offline UUID must be a pure function of the name")
	}

	// (4) offline profile
	if no := c.MustFunc(pkgProfile + ":NewOffline"); no != nil {
		idOK, nameOK := false, false
		eachInstr(no, func(in ssa.Instruction) {
			fa, ok := in.(*ssa.FieldAddr)
			if !ok {
				return
			}
			for _, sv := range storedInto(fa, 0) {
				switch fieldOfAddr(fa).Name() {
				case "ID":
					cl := callValue(sv)
					idOK = cl != nil && strings.HasSuffix(calleeName(&cl.Call), "uuid.OfflinePlayerUUID") && cl.Call.Args[0] == ssa.Value(no.Params[0])
				case "Name":
					nameOK = strip(sv) == ssa.Value(no.Params[0])
				}
			}
		})
		c.CheckAt("offline-profile", "ID=OfflinePlayerUUID(name)@NewOffline", c.P.Pos(no.Pos()), idOK && nameOK, "an offline profile must carry the name and the offline UUID of that same name")
	}

	// (5) forwarding disabled: login completion uses the offline UUID of the player's name
	if sl := c.MustFunc(pkgProxy + ":(*authSessionHandler).startLoginCompletion"); sl != nil {
		n := 0
		for _, ci := range callsIn(sl, func(nm string, cc *ssa.CallCommon) bool { return strings.HasSuffix(nm, "uuid.OfflinePlayerUUID") }) {
			n++
			a := callValue(ci.Common().Args[0])
			argOK := a != nil && methodName(&a.Call) == "Username"
			g, ns := MustCross(ci, func(e Edge, cond ssa.Value, truth bool) bool {
				bo, ok := cond.(*ssa.BinOp)
				if !ok || bo.Op != token.EQL || !truth {
					return false
				}
				s, isS := constString(bo.Y)
				return isS && s == "none" && strings.HasSuffix(PathOf(bo.X), ".Forwarding.Mode")
			})
			c.Check("forwarding-none-id", "OfflinePlayerUUID(player.Username())@startLoginCompletion", ci, argOK && g && ns > 0,
				"with forwarding disabled the identity used must be the offline UUID of the player's username (what the backend will compute)")
		}
		if n == 0 {
			c.Undecided("forwarding-none-id", "startLoginCompletion", "no OfflinePlayerUUID call")
		}
	}
}
