package main

import (
	"go/types"
	"strings"

	"golang.org/x/tools/go/ssa"
)

// checkNoTypedNil: a provider function that returns an interface of package ifacePkg must not wrap a
// possibly-nil concrete pointer into it: `return b.wrap(x)` where wrap returns a nil *T for "not found"
// yields a non-nil interface holding a nil pointer, so every `s == nil` test of the consumer (the
// "unknown server ⇒ no response" checks of the responder) is false and execution carries on with a
// value whose methods dereference nil or answer with zero data.
//
// Reported: a conversion to the interface (MakeInterface) of a pointer value that may be nil — a nil
// constant, a phi with one, or the result of a module function one of whose returns is a nil pointer —
// that reaches such a return without a dominating test of the pointer against nil.
func checkNoTypedNil(c *Ctx, rule string, scope []*ssa.Function, ifacePkgSuffix string) {
	var mayBeNil func(v ssa.Value, depth int) (bool, string)
	mayBeNil = func(v ssa.Value, depth int) (bool, string) {
		if depth <= 0 {
			return false, ""
		}
		v = stripNoSubst(v)
		if _, isPtr := v.Type().Underlying().(*types.Pointer); !isPtr {
			return false, ""
		}
		switch x := v.(type) {
		case *ssa.Const:
			return x.Value == nil, "a nil pointer constant"
		case *ssa.Phi:
			for _, e := range x.Edges {
				if ok, why := mayBeNil(e, depth-1); ok {
					return true, why
				}
			}
		case *ssa.Call:
			g := moduleHelperWithBody(&x.Call)
			if g == nil {
				return false, ""
			}
			for _, r := range successReturns(g) {
				if len(r.Results) != 1 {
					continue
				}
				if ok, _ := mayBeNil(r.Results[0], depth-1); ok {
					return true, g.Name() + " can return a nil " + types.TypeString(v.Type(), func(p *types.Package) string { return p.Name() })
				}
			}
		}
		return false, ""
	}
	n := 0
	for _, fn := range scope {
		res := fn.Signature.Results()
		for i := 0; i < res.Len(); i++ {
			nt, ok := res.At(i).Type().(*types.Named)
			if !ok || nt.Obj().Pkg() == nil || !strings.HasSuffix(nt.Obj().Pkg().Path(), ifacePkgSuffix) {
				continue
			}
			if _, isI := nt.Underlying().(*types.Interface); !isI {
				continue
			}
			for _, r := range successReturns(fn) {
				if i >= len(r.Results) {
					continue
				}
				// the interface values that can reach this return
				var visit func(v ssa.Value, d int)
				seen := map[ssa.Value]bool{}
				visit = func(v ssa.Value, d int) {
					if d <= 0 || seen[v] {
						return
					}
					seen[v] = true
					switch x := v.(type) {
					case *ssa.Phi:
						for _, e := range x.Edges {
							visit(e, d-1)
						}
					case *ssa.ChangeInterface:
						visit(x.X, d-1)
					case *ssa.MakeInterface:
						n++
						c.Analysed(fn)
						nilable, why := mayBeNil(x.X, 4)
						ok := true
						if nilable {
							g, ns := MustCross(x, func(e Edge, cond ssa.Value, truth bool) bool {
								p, isNil, isCmp := nilCmp(cond, truth)
								return isCmp && !isNil && stripNoSubst(p) == stripNoSubst(x.X)
							})
							ok = g && ns > 0
						}
						c.Check(rule, "interface-not-typed-nil@"+shortName(fn), x, ok,
							"a possibly-nil pointer ("+why+") is converted to "+nt.Obj().Name()+" and returned: the interface is then non-nil although it holds nil, so the caller's `== nil` test for 'not found' never fires")
					}
				}
				visit(r.Results[i], 6)
			}
		}
	}
	if n == 0 {
		c.Undecided(rule, "interface-not-typed-nil", "no provider function returning an interface of "+ifacePkgSuffix+" found")
	}
}
