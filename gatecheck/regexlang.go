package main

import (
	"fmt"
	"regexp/syntax"
	"sort"
	"strings"
)

// P9 — regex language: decide whether two regular expressions accept exactly the same strings under
// Go's regexp.MatchString semantics (unanchored search, anchors and word boundaries honoured), by
// determinising both compiled programs over a common alphabet partition and exploring the product.
// The result is exact for the regexp/syntax programs (which is what the regexp package executes).

type rxProg struct {
	p *syntax.Prog
}

func compileRx(pat string) (*rxProg, error) {
	re, err := syntax.Parse(pat, syntax.Perl)
	if err != nil {
		return nil, err
	}
	p, err := syntax.Compile(re.Simplify())
	if err != nil {
		return nil, err
	}
	return &rxProg{p}, nil
}

const eof = rune(-1)

func isWordRune(r rune) bool {
	return r == '_' || (r >= '0' && r <= '9') || (r >= 'a' && r <= 'z') || (r >= 'A' && r <= 'Z')
}

func emptyFlags(prev, next rune) syntax.EmptyOp {
	var f syntax.EmptyOp
	if prev == eof {
		f |= syntax.EmptyBeginText | syntax.EmptyBeginLine
	} else if prev == '\n' {
		f |= syntax.EmptyBeginLine
	}
	if next == eof {
		f |= syntax.EmptyEndText | syntax.EmptyEndLine
	} else if next == '\n' {
		f |= syntax.EmptyEndLine
	}
	pw := prev != eof && isWordRune(prev)
	nw := next != eof && isWordRune(next)
	if pw != nw {
		f |= syntax.EmptyWordBoundary
	} else {
		f |= syntax.EmptyNoWordBoundary
	}
	return f
}

// closure of a pc set under ε-moves with the given empty-width context; reports whether Match is reachable.
func (x *rxProg) closure(set []int, flags syntax.EmptyOp) ([]int, bool) {
	seen := map[int]bool{}
	var out []int
	matched := false
	var add func(pc int)
	add = func(pc int) {
		if seen[pc] {
			return
		}
		seen[pc] = true
		in := &x.p.Inst[pc]
		switch in.Op {
		case syntax.InstAlt, syntax.InstAltMatch:
			add(int(in.Out))
			add(int(in.Arg))
		case syntax.InstCapture, syntax.InstNop:
			add(int(in.Out))
		case syntax.InstEmptyWidth:
			if syntax.EmptyOp(in.Arg)&^flags == 0 {
				add(int(in.Out))
			}
		case syntax.InstMatch:
			matched = true
		case syntax.InstFail:
		default:
			out = append(out, pc)
		}
	}
	for _, pc := range set {
		add(pc)
	}
	sort.Ints(out)
	return out, matched
}

func (x *rxProg) step(set []int, r rune) []int {
	var out []int
	for _, pc := range set {
		in := &x.p.Inst[pc]
		if in.MatchRune(r) {
			out = append(out, int(in.Out))
		}
	}
	return out
}

// boundaries collects the rune interval boundaries a program distinguishes.
func (x *rxProg) boundaries(b map[rune]bool) {
	for i := range x.p.Inst {
		in := &x.p.Inst[i]
		switch in.Op {
		case syntax.InstRune, syntax.InstRune1:
			rs := in.Rune
			if len(rs) == 1 {
				b[rs[0]] = true
				b[rs[0]+1] = true
				if syntax.Flags(in.Arg)&syntax.FoldCase != 0 {
					// folding: add simple ASCII counterparts
					for _, f := range []rune{rs[0] ^ 0x20} {
						b[f] = true
						b[f+1] = true
					}
				}
				continue
			}
			for j := 0; j+1 < len(rs); j += 2 {
				b[rs[j]] = true
				b[rs[j+1]+1] = true
			}
		}
	}
}

// RegexEquivalent decides L(a) == L(b) under MatchString semantics. On inequality it returns a
// witness string accepted by exactly one of them.
func RegexEquivalent(a, b string) (bool, string, error) {
	pa, err := compileRx(a)
	if err != nil {
		return false, "", fmt.Errorf("parse %q: %w", a, err)
	}
	pb, err := compileRx(b)
	if err != nil {
		return false, "", fmt.Errorf("parse %q: %w", b, err)
	}
	bd := map[rune]bool{0: true, '\n': true, '\n' + 1: true, '0': true, '9' + 1: true, 'A': true, 'Z' + 1: true, '_': true, '_' + 1: true, 'a': true, 'z' + 1: true, 0x80: true, 0x10000: true}
	pa.boundaries(bd)
	pb.boundaries(bd)
	var cuts []rune
	for r := range bd {
		if r >= 0 && r <= 0x10FFFF {
			cuts = append(cuts, r)
		}
	}
	sort.Slice(cuts, func(i, j int) bool { return cuts[i] < cuts[j] })
	// representatives: first rune of each interval (skip surrogates)
	var reps []rune
	for _, r := range cuts {
		if r >= 0xD800 && r <= 0xDFFF {
			r = 0xE000
		}
		reps = append(reps, r)
	}
	type half struct {
		set  []int
		done bool // a match has been seen (absorbing)
	}
	type state struct {
		a, b half
		prev rune
	}
	key := func(s state) string {
		return fmt.Sprint(s.a.set, s.a.done, "|", s.b.set, s.b.done, "|", classOfPrev(s.prev))
	}
	start := state{prev: eof}
	type qi struct {
		s state
		w []rune
	}
	seen := map[string]bool{}
	queue := []qi{{start, nil}}
	seen[key(start)] = true
	advance := func(x *rxProg, h half, prev, next rune) (half, []int) {
		if h.done {
			return h, nil
		}
		// unanchored search: a new thread may start at every position
		cl, m := x.closure(append(append([]int{}, h.set...), x.p.Start), emptyFlags(prev, next))
		if m {
			return half{done: true}, nil
		}
		return half{}, cl
	}
	steps := 0
	for len(queue) > 0 {
		cur := queue[0]
		queue = queue[1:]
		steps++
		if steps > 200000 {
			return false, "", fmt.Errorf("state space too large")
		}
		// acceptance at end of text
		ha, _ := advance(pa, cur.s.a, cur.s.prev, eof)
		hb, _ := advance(pb, cur.s.b, cur.s.prev, eof)
		if ha.done != hb.done {
			return false, string(cur.w), nil
		}
		for _, r := range reps {
			na, cla := advance(pa, cur.s.a, cur.s.prev, r)
			nb, clb := advance(pb, cur.s.b, cur.s.prev, r)
			if !na.done {
				na.set = pa.step(cla, r)
			}
			if !nb.done {
				nb.set = pb.step(clb, r)
			}
			ns := state{a: na, b: nb, prev: r}
			k := key(ns)
			if !seen[k] {
				seen[k] = true
				queue = append(queue, qi{ns, append(append([]rune{}, cur.w...), r)})
			}
		}
	}
	return true, "", nil
}

func classOfPrev(r rune) string {
	switch {
	case r == eof:
		return "^"
	case r == '\n':
		return "n"
	case isWordRune(r):
		return "w"
	}
	return "o"
}

var _ = strings.Contains
