package main

import (
	"fmt"
	"sort"
	"strings"

	"golang.org/x/tools/go/ssa"
)

// checkExclusionAlive: nextServerToTry skips "the current server" and "the in-flight one" by reading
// connectedServer_ and connInFlight. The skip is only worth anything while those fields still say
// what the player is connected / connecting to: a caller that clears one of them on a path BEFORE it
// asks for the next server (the kick path clears both, but afterwards, in handleKickEvent) makes the
// exclusion dead — the fallback can then be the very server a connection is already in flight to, and
// a second, parallel request is opened to it.
//
// Rule: in every function that calls nextServerToTry (or a single-caller unexported helper that does),
// no instruction that may store nil into one of the exclusion fields — directly or through a callee,
// with nil-ness of arguments propagated — flows to that call.
func checkExclusionAlive(c *Ctx) {
	next := c.MustFunc(pkgProxy + ":(*connectedPlayer).nextServerToTry")
	if next == nil {
		return
	}
	fields := []string{"connInFlight", "connectedServer_"}
	// which exclusion fields does nextServerToTry actually read?
	reads := map[string]bool{}
	for _, f := range deepFuncs(next, 1) {
		eachInstr(f, func(in ssa.Instruction) {
			if fa, ok := in.(*ssa.FieldAddr); ok {
				for _, fl := range fields {
					if fieldName(fa) == fl {
						reads[fl] = true
					}
				}
			}
		})
	}
	type summary struct {
		always  map[string]bool
		byParam map[int]map[string]bool
	}
	memo := map[*ssa.Function]*summary{}
	var sum func(fn *ssa.Function, depth int) *summary
	clearsAt := func(in ssa.Instruction, self *ssa.Function, out *summary, depth int) map[string]bool {
		got := map[string]bool{}
		if st, ok := in.(*ssa.Store); ok {
			if fa, isFA := st.Addr.(*ssa.FieldAddr); isFA && reads[fieldName(fa)] {
				v := stripNoSubst(st.Val)
				if isNilConst(v) {
					got[fieldName(fa)] = true
				} else if p, isP := v.(*ssa.Parameter); isP && out != nil {
					for i, q := range self.Params {
						if q == p {
							if out.byParam[i] == nil {
								out.byParam[i] = map[string]bool{}
							}
							out.byParam[i][fieldName(fa)] = true
						}
					}
				}
			}
			return got
		}
		cc := callOf(in)
		if cc == nil || cc.IsInvoke() {
			return got
		}
		g := staticCallee(cc)
		if g == nil || g.Blocks == nil || !strings.HasPrefix(fnPkgPath(g), Mod) || depth <= 0 {
			return got
		}
		gs := sum(g, depth-1)
		for f := range gs.always {
			got[f] = true
		}
		for i, fs := range gs.byParam {
			if i >= len(cc.Args) {
				continue
			}
			a := stripNoSubst(cc.Args[i])
			if isNilConst(a) {
				for f := range fs {
					got[f] = true
				}
			} else if p, isP := a.(*ssa.Parameter); isP && out != nil {
				for j, q := range self.Params {
					if q == p {
						if out.byParam[j] == nil {
							out.byParam[j] = map[string]bool{}
						}
						for f := range fs {
							out.byParam[j][f] = true
						}
					}
				}
			}
		}
		return got
	}
	sum = func(fn *ssa.Function, depth int) *summary {
		if s, ok := memo[fn]; ok {
			return s
		}
		s := &summary{always: map[string]bool{}, byParam: map[int]map[string]bool{}}
		memo[fn] = s // cycle guard: a recursive call contributes nothing new
		eachInstr(fn, func(in ssa.Instruction) {
			for f := range clearsAt(in, fn, s, depth) {
				s.always[f] = true
			}
		})
		return s
	}

	// R: nextServerToTry and single-caller unexported helpers that call into R
	inR := map[*ssa.Function]bool{next: true}
	for changed := true; changed; {
		changed = false
		for fn := range inR {
			for _, cs := range staticCallersOf(fn) {
				h := cs.Parent()
				if h.Parent() != nil { // closure: judge the enclosing function's helper status
					continue
				}
				if !inR[h] && isUnexportedHelper(h) && len(staticCallersOf(h)) == 1 {
					inR[h] = true
					changed = true
				}
			}
		}
	}
	nSites := 0
	var rs []*ssa.Function
	for fn := range inR {
		rs = append(rs, fn)
	}
	sort.Slice(rs, func(i, j int) bool { return rs[i].String() < rs[j].String() })
	for _, r := range rs {
		for _, cs := range staticCallersOf(r) {
			F := cs.Parent()
			c.Analysed(F)
			nSites++
			bad := map[string]ssa.Instruction{}
			eachInstr(F, func(in ssa.Instruction) {
				if in == ssa.Instruction(cs) {
					return
				}
				got := clearsAt(in, F, nil, 3)
				if len(got) == 0 || !flowsTo(in, cs) {
					return
				}
				for f := range got {
					if _, dup := bad[f]; !dup {
						bad[f] = in
					}
				}
			})
			for _, fl := range fields {
				if !reads[fl] {
					continue
				}
				k, isBad := bad[fl]
				var at ssa.Instruction = cs
				if isBad {
					at = k
				}
				c.Check("exclusion-alive", fmt.Sprintf("%s-not-cleared-before-%s@%s", fl, r.Name(), shortName(F)), at, !isBad,
					fmt.Sprintf("%s is (or may be) set to nil on a path before %s is asked for the next server: the 'skip the %s server' exclusion it implements is dead there and the fallback can be the server the player is already on / connecting to",
						fl, r.Name(), map[string]string{"connInFlight": "in-flight", "connectedServer_": "current"}[fl]))
			}
		}
	}
	if nSites < 2 || len(reads) < 2 {
		c.Undecided("exclusion-alive", "nextServerToTry", fmt.Sprintf("expected >=2 call sites and both exclusion fields read, found %d sites, fields %v", nSites, reads))
	}
}

func fieldName(fa *ssa.FieldAddr) string {
	if v := fieldOfAddr(fa); v != nil {
		return v.Name()
	}
	return ""
}
