package main

import (
	"strings"

	"golang.org/x/tools/go/ssa"
)

// checkQueueReconciledOnStateChange: the play-packet queue can be switched on ahead of the state
// change (EnablePlayPacketQueue during a server switch, while the state is still Play). Whether it has
// to be released is therefore decided from the *new* state alone, on every SetState/SetOutboundState —
// not only when the registry object differs from the previous one: otherwise re-entering Play with the
// same registry leaves the queue armed, nothing queued is ever delivered and every later play packet is
// held until the cap closes the connection.
func checkQueueReconciledOnStateChange(c *Ctx, lc *LockCtx) {
	for _, name := range []string{"SetState", "SetOutboundState"} {
		fn := c.MustFunc(pkgNetmc + ":(*minecraftConn)." + name)
		if fn == nil {
			continue
		}
		c.Analysed(fn)
		n := 0
		for _, ci := range callsIn(fn, func(nm string, cc *ssa.CallCommon) bool { return strings.HasSuffix(nm, "minecraftConn).ensurePlayPacketQueue") }) {
			n++
			// unconditional: no conditional edge has to be crossed to reach it
			cond, _ := MustCross(ci, func(e Edge, c2 ssa.Value, truth bool) bool { return true })
			// argument is the new state's State field
			arg := ci.Common().Args[1]
			fromNew := derivesFrom(arg, 3, func(x ssa.Value) bool { return x == ssa.Value(fn.Params[1]) })
			held := false
			for p, k := range lc.At(ci) {
				if strings.HasSuffix(p, ".mu") && k == 'W' {
					held = true
				}
			}
			c.Check("queue-reconciled", "ensurePlayPacketQueue(new.State)@"+name, ci, !cond && fromNew && held,
				"the play-packet queue must be reconciled with the new state on every "+name+" (unconditionally, from the new state, under c.mu): it can have been armed in advance while the state object stays the same")
		}
		if n == 0 {
			c.CheckAt("queue-reconciled", "ensurePlayPacketQueue(new.State)@"+name, c.P.Pos(fn.Pos()), false, name+" does not reconcile the play-packet queue with the new state")
		}
	}
}
