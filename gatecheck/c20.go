package main

import (
	"fmt"
	"go/token"
	"strings"

	"golang.org/x/tools/go/ssa"
)

const pkgVelocity = "pkg/edition/java/internal/velocity"

func init() {
	register(&propDef{
		ID:       "C20",
		Title:    "Velocity modern forwarding data is authentic and negotiated like Velocity",
		Patterns: []string{"./pkg/edition/java/internal/velocity", "./pkg/edition/java/proxy"},
		Run:      runC20,
		Rule: "CreateForwardingData: the MAC is hmac.New(sha256.New, <secret parameter>), fed exactly the bytes of the payload buffer, no write to that buffer can follow the MAC " +
			"computation, the output is MAC-first then the same buffer; the payload fields are written in the order version, address, UUID, username, properties with those provenances; " +
			"handleLoginPluginMessage answers only in velocity mode on the forwarding channel, with the request's id, the configured secret, and sets informationForwarded only after the " +
			"response write succeeded; handleServerLoginSuccess proceeds (sets a session handler / acknowledges login) only on the edge where mode != velocity or informationForwarded is true, " +
			"and the refusing edge disconnects the backend.",
		Explanation: "Decides: HMAC construction and coverage, field order of the signed payload, response provenance, refuse-if-not-forwarded gate. " +
			"Does not decide: findForwardingVersion against Velocity's table (no reference on disk) or Paper's parser.",
		Fixtures: []string{"guardcut", "provenance"},
		Variants: []Variant{
			{Name: "mac-over-partial-payload", File: pkgVelocity + "/data_forwarding.go",
				Old:    "\tmac := hmac.New(sha256.New, hmacSecret)\n\t_, err = mac.Write(forwarded.Bytes())\n\tif err != nil {\n\t\treturn nil, err\n\t}\n",
				New:    "\tmac := hmac.New(sha256.New, hmacSecret)\n\t_, err = mac.Write(forwarded.Bytes())\n\tif err != nil {\n\t\treturn nil, err\n\t}\n\t_ = protoutil.WriteBool(forwarded, true)\n",
				Expect: "mac-covers-payload"},
			{Name: "mac-wrong-key", File: pkgVelocity + "/data_forwarding.go",
				Old: "hmac.New(sha256.New, hmacSecret)", New: "hmac.New(sha256.New, []byte(address))", Expect: "mac-construction"},
			{Name: "payload-first", File: pkgVelocity + "/data_forwarding.go",
				Old:    "\t_, err = data.Write(mac.Sum(nil))\n\tif err != nil {\n\t\treturn nil, err\n\t}\n\t_, err = data.Write(forwarded.Bytes())\n\tif err != nil {\n\t\treturn nil, err\n\t}",
				New:    "\t_, err = data.Write(forwarded.Bytes())\n\tif err != nil {\n\t\treturn nil, err\n\t}\n\t_, err = data.Write(mac.Sum(nil))\n\tif err != nil {\n\t\treturn nil, err\n\t}",
				Expect: "mac-first"},
			{Name: "fields-swapped", File: pkgVelocity + "/data_forwarding.go",
				Old:    "\terr = protoutil.WriteUUID(forwarded, player.ID())\n\tif err != nil {\n\t\treturn nil, err\n\t}\n\terr = protoutil.WriteString(forwarded, player.Username())\n\tif err != nil {\n\t\treturn nil, err\n\t}",
				New:    "\terr = protoutil.WriteString(forwarded, player.Username())\n\tif err != nil {\n\t\treturn nil, err\n\t}\n\terr = protoutil.WriteUUID(forwarded, player.ID())\n\tif err != nil {\n\t\treturn nil, err\n\t}",
				Expect: "payload-layout"},
			{Name: "forwarded-flag-early", File: pkgProxy + "/session_backend_login.go",
				Old:    "\t\t}) != nil {\n\t\t\treturn\n\t\t}\n\t\tb.informationForwarded.Store(true)",
				New:    "\t\t}) != nil {\n\t\t\tb.informationForwarded.Store(true)\n\t\t\treturn\n\t\t}\n\t\tb.informationForwarded.Store(true)",
				Expect: "forwarded-after-write"},
			{Name: "no-refusal", File: pkgProxy + "/session_backend_login.go",
				Old:    "\tif b.config().Forwarding.Mode == config.VelocityForwardingMode && !b.informationForwarded.Load() {\n\t\tb.requestCtx.result(disconnectResult(velocityIpForwardingFailure, b.serverConn.server, true), nil)\n\t\tb.serverConn.disconnect()\n\t\treturn\n\t}",
				New:    "\tif b.config().Forwarding.Mode == config.VelocityForwardingMode && !b.informationForwarded.Load() {\n\t\tb.log.Info(\"backend did not request forwarding\")\n\t}",
				Expect: "refuse-unforwarded"},
			{Name: "response-wrong-id", File: pkgProxy + "/session_backend_login.go",
				Old: "\t\t\tID:      p.ID,\n\t\t\tSuccess: true,\n\t\t\tData:    forwardingData,", New: "\t\t\tID:      len(p.Data),\n\t\t\tSuccess: true,\n\t\t\tData:    forwardingData,", Expect: "response-fields"},
		},
	})
}

func runC20(c *Ctx) {
	cf := c.MustFunc(pkgVelocity + ":CreateForwardingData")
	if cf != nil {
		// CreateForwardingData and the unexported helpers it was split into (writeKey(buf, …),
		// sign(secret, buf.Bytes()) …), their parameters read as the call's arguments
		cfParts, cfRestore := boundParts(cf, 1)
		for _, f := range cfParts {
			c.Analysed(f)
		}
		eachCF := func(f func(ssa.Instruction)) {
			for _, part := range cfParts {
				eachInstr(part, f)
			}
		}
		var macNew, macWrite, sumWrite, payWrite ssa.Instruction
		var macVal ssa.Value
		var payloadBuf ssa.Value
		eachCF(func(in ssa.Instruction) {
			cc := callOf(in)
			if cc == nil {
				return
			}
			nm := calleeName(cc)
			switch {
			case nm == "crypto/hmac.New":
				macNew = in
				macVal = in.(ssa.Value)
			}
		})
		if macNew == nil {
			c.Undecided("mac-construction", "hmac.New@CreateForwardingData", "no hmac.New call")
		} else {
			cc := callOf(macNew)
			h, isFn := cc.Args[0].(*ssa.Function)
			hashOK := isFn && h.String() == "crypto/sha256.New"
			keyOK := strip(cc.Args[1]) == ssa.Value(cf.Params[0])
			c.Check("mac-construction", "hmac.New(sha256.New, secret)@CreateForwardingData", macNew, hashOK && keyOK,
				fmt.Sprintf("the forwarding MAC must be HMAC-SHA256 keyed with the secret parameter (hash ok=%v, key ok=%v)", hashOK, keyOK))
			// mac.Write(<buf>.Bytes())
			eachCF(func(in ssa.Instruction) {
				cc := callOf(in)
				if cc == nil || !cc.IsInvoke() || strip(cc.Value) != macVal {
					return
				}
				if cc.Method.Name() == "Write" {
					macWrite = in
					if bc := callValue(strip(cc.Args[0])); bc != nil && methodName(&bc.Call) == "Bytes" {
						payloadBuf = bc.Call.Args[0]
					}
				}
			})
			// streaming form: the payload is written through io.MultiWriter(buf, mac), so every byte
			// that reaches the buffer reaches the MAC
			var multiW ssa.Value
			if macWrite == nil {
				eachCF(func(in ssa.Instruction) {
					cc := callOf(in)
					if cc == nil || calleeName(cc) != "io.MultiWriter" || len(cc.Args) != 1 {
						return
					}
					el := sliceLiteralElems(cc.Args[0])
					if len(el) != 2 {
						return
					}
					for i := range el {
						if strip(el[i]) == macVal {
							payloadBuf = strip(el[1-i])
							multiW = in.(ssa.Value)
						}
					}
				})
			}
			isPayloadStream := func(v ssa.Value) bool {
				return payloadBuf != nil && (strip(v) == strip(payloadBuf) || (multiW != nil && strip(v) == multiW))
			}
			if (macWrite == nil && multiW == nil) || payloadBuf == nil {
				c.Undecided("mac-covers-payload", "mac.Write(buf.Bytes())@CreateForwardingData", "MAC is neither fed from a buffer's Bytes() nor through an io.MultiWriter over the payload buffer and the MAC")
			} else {
				// no write into payloadBuf can happen after mac.Write
				late := ""
				eachCF(func(in ssa.Instruction) {
					cc := callOf(in)
					if cc == nil || in == macWrite {
						return
					}
					if multiW != nil {
						// streaming: a write that goes to the buffer alone (or to the MAC alone) is not covered
						direct := false
						for _, a := range cc.Args {
							if strip(a) == strip(payloadBuf) || strip(a) == macVal {
								direct = true
							}
						}
						if cc.IsInvoke() && strip(cc.Value) == macVal && cc.Method.Name() == "Write" {
							direct = true
						}
						m := methodName(cc)
						if direct && !(m == "Bytes" || m == "Len" || m == "String" || m == "Cap" || m == "Sum" || m == "Size" || calleeName(cc) == "io.MultiWriter") {
							late = calleeName(cc) + " (bypasses the MultiWriter)"
						}
						return
					}
					touches := false
					for _, a := range cc.Args {
						if strip(a) == strip(payloadBuf) {
							touches = true
						}
					}
					if !touches {
						return
					}
					m := methodName(cc)
					if m == "Bytes" || m == "Len" || m == "String" || m == "Cap" {
						return
					}
					if flowsToIn(cf, macWrite, in) {
						late = calleeName(cc)
					}
				})
				at := macWrite
				if at == nil {
					at = multiW.(ssa.Instruction)
				}
				c.Check("mac-covers-payload", "no-write-after-mac@CreateForwardingData", at, late == "",
					"the payload buffer is written ("+late+") after the MAC was computed over it: the signature does not cover what is sent")
				// output: data.Write(mac.Sum(nil)) then data.Write(payloadBuf.Bytes()), return data.Bytes()
				var outBuf ssa.Value
				eachCF(func(in ssa.Instruction) {
					cc := callOf(in)
					if cc == nil || methodName(cc) != "Write" || cc.IsInvoke() || len(cc.Args) < 2 {
						return
					}
					arg := callValue(strip(cc.Args[1]))
					if arg == nil {
						return
					}
					if arg.Call.IsInvoke() && arg.Call.Method.Name() == "Sum" && strip(arg.Call.Value) == macVal {
						sumWrite = in
						outBuf = cc.Args[0]
					}
					if methodName(&arg.Call) == "Bytes" && !arg.Call.IsInvoke() && strip(arg.Call.Args[0]) == strip(payloadBuf) {
						payWrite = in
					}
				})
				fedBeforeSum := macWrite != nil && sumWrite != nil && domBeforeIn(cf, macWrite, sumWrite)
				if multiW != nil && sumWrite != nil {
					// streaming: nothing is written through the MultiWriter once the sum was taken
					fedBeforeSum = true
					eachCF(func(in ssa.Instruction) {
						if cc := callOf(in); cc != nil {
							for _, a := range cc.Args {
								if strip(a) == multiW && flowsToIn(cf, sumWrite, in) {
									fedBeforeSum = false
								}
							}
						}
					})
				}
				okOrder := sumWrite != nil && payWrite != nil && domBeforeIn(cf, sumWrite, payWrite) &&
					strip(callOf(payWrite).Args[0]) == strip(outBuf) && fedBeforeSum
				c.CheckAt("mac-first", "Sum-then-payload@CreateForwardingData", c.P.Pos(cf.Pos()), okOrder,
					"the output must be the MAC followed by the signed payload, both written to the same output buffer, the MAC taken after it was fed")
				okRet := false
				var succ []*ssa.Return
				for _, part := range cfParts {
					if part.Parent() != nil {
						continue
					}
					for _, r := range returnsOf(part) {
						// a return that hands on a helper's (result, error) pair is judged at the helper's returns
						if ex, isEx := r.Results[0].(*ssa.Extract); isEx && len(r.Results) == 2 {
							if hc, isC := ex.Tuple.(*ssa.Call); isC && moduleHelperWithBody(&hc.Call) != nil {
								continue
							}
						}
						if part != cf && outBuf != nil && part != outBuf.(ssa.Instruction).Parent() {
							continue // a helper that does not build the output
						}
						succ = append(succ, r)
					}
				}
				for _, r := range succ {
					if len(r.Results) == 2 && isNilConst(r.Results[1]) {
						if bc := callValue(r.Results[0]); bc != nil && methodName(&bc.Call) == "Bytes" && outBuf != nil && strip(bc.Call.Args[0]) == strip(outBuf) {
							okRet = true
						} else {
							okRet = false
						}
					}
				}
				c.CheckAt("mac-first", "returns-output-buffer@CreateForwardingData", c.P.Pos(cf.Pos()), okRet, "the success return must be the MAC||payload buffer")
				// layout: ordered writer calls on payloadBuf
				type w struct {
					name string
					arg  string
					in   ssa.Instruction
				}
				var ws []w
				eachCF(func(in ssa.Instruction) {
					cc := callOf(in)
					if cc == nil || cc.IsInvoke() || len(cc.Args) < 2 || !isPayloadStream(cc.Args[0]) {
						return
					}
					f := staticCallee(cc)
					if f == nil || !strings.HasPrefix(f.Name(), "Write") {
						return
					}
					ws = append(ws, w{f.Name(), describeArg(cf, cc.Args[1]), in})
				})
				want := []struct{ name, arg string }{
					{"WriteVarInt", "call:findForwardingVersion"},
					{"WriteString", "param:address"},
					{"WriteUUID", "player.ID()"},
					{"WriteString", "player.Username()"},
					{"WriteProperties", "player.GameProfile().Properties"},
				}
				ok := len(ws) >= len(want)
				var got []string
				for i, x := range ws {
					got = append(got, x.name+"("+x.arg+")")
					if i < len(want) {
						if x.name != want[i].name || x.arg != want[i].arg {
							ok = false
						}
						if i > 0 && !domBeforeIn(cf, ws[i-1].in, x.in) {
							ok = false
						}
					}
				}
				c.CheckAt("payload-layout", "version,address,uuid,name,properties@CreateForwardingData", c.P.Pos(cf.Pos()), ok,
					fmt.Sprintf("the signed payload must start with version, address, UUID, username, properties in that order; got %v", got))
			}
		}
		cfRestore()
	}

	// forwarding version negotiation: every return is one of the four version constants, and each
	// non-default constant is tied to the guards Velocity's negotiation uses (frozen table):
	//   4 (lazy session)  ⇐ protocol >= 1.19.3 and requested >= 4
	//   2 (with key)      ⇐ protocol <  1.19.3 and key revision == GenericV1
	//   3 (with key v2)   ⇐ protocol <  1.19.3 and key revision == LinkedV2 and requested >= 3
	//   1 (default)       otherwise; nothing above 1 unless requested > 1
	if fv := c.MustFunc(pkgVelocity + ":findForwardingVersion"); fv != nil {
		req := fv.Params[0]
		// requested after clipping: min(requested, max)
		isReq := func(v ssa.Value) bool {
			v = strip(v)
			if v == ssa.Value(req) {
				return true
			}
			if cl, ok := v.(*ssa.Call); ok {
				if b, isB := cl.Call.Value.(*ssa.Builtin); isB && b.Name() == "min" {
					for _, a := range cl.Call.Args {
						if strip(a) == ssa.Value(req) {
							return true
						}
					}
				}
			}
			return false
		}
		protoGE := func(want bool) EdgePred {
			return func(e Edge, cond ssa.Value, truth bool) bool {
				cl := callValue(cond)
				if cl == nil || methodName(&cl.Call) != "GreaterEqual" || len(cl.Call.Args) != 2 {
					return false
				}
				ld, ok := cl.Call.Args[1].(*ssa.UnOp)
				if !ok {
					return false
				}
				g, ok := ld.X.(*ssa.Global)
				return ok && g.Name() == "Minecraft_1_19_3" && truth == want
			}
		}
		revIs := func(name string) EdgePred {
			return func(e Edge, cond ssa.Value, truth bool) bool {
				bo, ok := cond.(*ssa.BinOp)
				if !ok || bo.Op != token.EQL || !truth {
					return false
				}
				for _, side := range []ssa.Value{bo.X, bo.Y} {
					if ld, ok := strip(side).(*ssa.UnOp); ok {
						if g, ok := ld.X.(*ssa.Global); ok && g.Name() == name {
							return true
						}
					}
				}
				return false
			}
		}
		nRet := 0
		fvParts, fvRestore := boundParts(fv, 1)
		var fvReturns []*ssa.Return
		for _, part := range fvParts {
			c.Analysed(part)
			fvReturns = append(fvReturns, returnsOf(part)...)
		}
		for _, r := range fvReturns {
			if len(r.Results) != 1 {
				continue
			}
			// the version picked by a helper is judged at the helper's own returns
			if hc, isC := r.Results[0].(*ssa.Call); isC {
				if g := moduleHelperWithBody(&hc.Call); g != nil {
					isPart := false
					for _, part := range fvParts {
						if part == g {
							isPart = true
						}
					}
					if isPart {
						continue
					}
				}
			}
			nRet++
			k, isK := constInt(r.Results[0])
			if !isK {
				c.Check("forwarding-version", "constant-return@findForwardingVersion", r, false,
					"the negotiated forwarding version is computed ("+r.Results[0].String()+") instead of being one of the version constants under Velocity's guards (e.g. a LinkedV2 key with requested=2 must fall back to 1, the V2 key is not backwards compatible)")
				continue
			}
			dom := func(p EdgePred) bool { g, n := MustCross(r, p); return g && n > 0 }
			rr := RangeAt(r.Block(), isReq)
			if r.Parent() != fv {
				// a return inside a helper: what held for the request at the helper's call also holds here
				if at := liftTo(fv, r); at != nil {
					if outer := RangeAt(at.Block(), isReq); outer.HasLo() && (!rr.HasLo() || outer.Lo > rr.Lo) {
						rr = outer
					}
				}
			}
			ok := true
			why := ""
			switch k {
			case 1:
			case 4:
				ok = dom(protoGE(true)) && rr.HasLo() && rr.Lo >= 4
				why = "version 4 requires protocol >= 1.19.3 and requested >= 4"
			case 2:
				ok = dom(protoGE(false)) && dom(revIs("GenericV1")) && rr.HasLo() && rr.Lo >= 2
				why = "version 2 requires protocol < 1.19.3, a GenericV1 key and requested > 1"
			case 3:
				ok = dom(protoGE(false)) && dom(revIs("LinkedV2")) && rr.HasLo() && rr.Lo >= 3
				why = "version 3 requires protocol < 1.19.3, a LinkedV2 key and requested >= 3"
			default:
				ok, why = false, "unknown forwarding version constant"
			}
			c.Check("forwarding-version", fmt.Sprintf("return-%d@findForwardingVersion", k), r, ok, why+fmt.Sprintf(" (requested range here: %s)", rr))
		}
		if nRet < 5 {
			c.Undecided("forwarding-version", "findForwardingVersion", fmt.Sprintf("expected ≥5 returns, found %d", nRet))
		}
		// the request is clipped to the maximum version
		clipped := false
		eachInstrDeep(fv, 1, func(in ssa.Instruction) {
			if cl, ok := in.(*ssa.Call); ok {
				if b, isB := cl.Call.Value.(*ssa.Builtin); isB && b.Name() == "min" {
					for _, a := range cl.Call.Args {
						if k, isK := constInt(a); isK && k == 4 {
							clipped = true
						}
					}
				}
			}
		})
		c.CheckAt("forwarding-version", "requested-clipped-to-4@findForwardingVersion", c.P.Pos(fv.Pos()), clipped, "requested version must be clipped to the maximum forwarding version (4)")
		fvRestore()
	}

	// proxy side
	hlFuncs := map[*ssa.Function]bool{} // handleLoginPluginMessage and the helpers it was split into
	if hl := c.MustFunc(pkgProxy + ":(*backendLoginSessionHandler).handleLoginPluginMessage"); hl != nil {
		isCreate := callSuffix("velocity.CreateForwardingData")
		var create *ssa.Call
		hlParts, hlRestore := boundParts(hl, 1)
		defer hlRestore()
		callsInHL := func(m func(string, *ssa.CallCommon) bool) (out []ssa.CallInstruction) {
			for _, part := range hlParts {
				out = append(out, callsIn(part, m)...)
			}
			return
		}
		for _, part := range hlParts {
			c.Analysed(part)
			hlFuncs[part] = true
		}
		for _, ci := range callsInHL(func(nm string, cc *ssa.CallCommon) bool {
			return strings.HasSuffix(nm, "velocity.CreateForwardingData")
		}) {
			create = ci.(*ssa.Call)
		}
		if create == nil {
			c.Undecided("response-fields", "CreateForwardingData@handleLoginPluginMessage", "call not found")
		} else {
			// gate: mode == velocity && channel == forwarding channel
			g1, n1 := MustCross(create, func(e Edge, cond ssa.Value, truth bool) bool {
				bo, ok := cond.(*ssa.BinOp)
				return ok && bo.Op == token.EQL && truth && (strings.HasSuffix(PathOf(bo.X), ".Forwarding.Mode") || strings.HasSuffix(PathOf(bo.Y), ".Forwarding.Mode"))
			})
			g2, n2 := MustCross(create, func(e Edge, cond ssa.Value, truth bool) bool {
				bo, ok := cond.(*ssa.BinOp)
				if !ok || bo.Op != token.EQL || !truth {
					return false
				}
				s, isS := constString(bo.Y)
				return isS && s == "velocity:player_info" && strings.HasSuffix(PathOf(bo.X), ".Channel")
			})
			c.Check("answer-gated", "mode+channel@handleLoginPluginMessage", create, g1 && g2 && n1 > 0 && n2 > 0,
				"forwarding data is produced outside (mode == velocity && channel == velocity:player_info)")
			secOK := derivesFrom(create.Call.Args[0], 4, func(v ssa.Value) bool { return strings.HasSuffix(PathOf(v), ".Forwarding.VelocitySecret") })
			c.Check("response-fields", "secret=cfg.Forwarding.VelocitySecret@handleLoginPluginMessage", create, secOK, "the MAC key must be the configured velocity secret")
			plOK := strings.HasSuffix(PathOf(create.Call.Args[2]), ".serverConn.player")
			c.Check("response-fields", "player=serverConn.player@handleLoginPluginMessage", create, plOK, "forwarding data must describe the connecting player")
			// the response write
			for _, ci := range callsInHL(func(nm string, cc *ssa.CallCommon) bool { return methodName(cc) == "WritePacket" }) {
				pk := lastArg(ci.Common())
				a, ok := strip(pk).(*ssa.Alloc)
				if !ok || !typeIs(a.Type(), "proto/packet", "LoginPluginResponse") {
					continue
				}
				if !derivesFrom(a, 4, func(v ssa.Value) bool { return v == ssa.Value(create) || callValue(v) == create }) {
					continue
				}
				var idOK, okOK, dataOK bool
				for _, r := range *a.Referrers() {
					fa, isFA := r.(*ssa.FieldAddr)
					if !isFA {
						continue
					}
					for _, sv := range storedInto(fa, 0) {
						switch fieldOfAddr(fa).Name() {
						case "ID":
							idOK = PathOf(sv) == hl.Params[1].Name()+".ID"
						case "Success":
							b, isB := constBool(sv)
							okOK = isB && b
						case "Data":
							dataOK = callValue(sv) == create
						}
					}
				}
				c.Check("response-fields", "ID=p.ID,Success,Data@handleLoginPluginMessage", ci, idOK && okOK && dataOK,
					fmt.Sprintf("the forwarding response must carry the request's id (%v), Success=true (%v) and the forwarding data (%v)", idOK, okOK, dataOK))
				g, n := MustCross(ci, func(e Edge, cond ssa.Value, truth bool) bool { return errNilEdge(cond, truth, isCreate) })
				c.Check("response-fields", "only-if-data-created@handleLoginPluginMessage", ci, g && n > 0, "a response is written although creating the forwarding data failed")
				// flag after successful write
				nSt := 0
				for _, st := range callsInHL(func(nm string, cc *ssa.CallCommon) bool {
					return methodName(cc) == "Store" && len(cc.Args) > 0 && strings.HasSuffix(PathOf(cc.Args[0]), ".informationForwarded")
				}) {
					nSt++
					wc := ci.(*ssa.Call)
					g, n := MustCross(st, func(e Edge, cond ssa.Value, truth bool) bool {
						return errNilEdge(cond, truth, func(x *ssa.Call) bool { return x == wc })
					})
					v, isB := constBool(st.Common().Args[1])
					c.Check("forwarded-after-write", "informationForwarded.Store@handleLoginPluginMessage", st, g && n > 0 && isB && v,
						"informationForwarded is set on a path where the forwarding response was not written successfully (a backend that never got the data would be accepted)")
				}
				if nSt == 0 {
					c.Undecided("forwarded-after-write", "handleLoginPluginMessage", "informationForwarded is never set")
				}
			}
		}
	}
	// who else sets the flag
	for _, fn := range c.P.Funcs(Mod + "/" + pkgProxy) {
		for _, st := range callsIn(fn, func(nm string, cc *ssa.CallCommon) bool {
			return methodName(cc) == "Store" && len(cc.Args) > 0 && strings.HasSuffix(PathOf(cc.Args[0]), ".informationForwarded")
		}) {
			c.Check("forwarded-writers", "Store@"+shortName(fn), st, strings.HasSuffix(shortName(fn), "backendLoginSessionHandler).handleLoginPluginMessage") || hlFuncs[fn],
				"informationForwarded may only be set by the forwarding responder")
		}
	}

	if hs := c.MustFunc(pkgProxy + ":(*backendLoginSessionHandler).handleServerLoginSuccess"); hs != nil {
		proceed := func(e Edge, cond ssa.Value, truth bool) bool {
			// mode != velocity
			if bo, ok := cond.(*ssa.BinOp); ok && (bo.Op == token.EQL || bo.Op == token.NEQ) {
				if strings.HasSuffix(PathOf(bo.X), ".Forwarding.Mode") || strings.HasSuffix(PathOf(bo.Y), ".Forwarding.Mode") {
					other := bo.Y
					if strings.HasSuffix(PathOf(bo.Y), ".Forwarding.Mode") {
						other = bo.X
					}
					if s, isS := constString(other); isS && s == "velocity" {
						return (bo.Op == token.NEQ) == truth
					}
				}
			}
			// informationForwarded.Load() == true
			if cl := callValue(cond); cl != nil && methodName(&cl.Call) == "Load" && len(cl.Call.Args) > 0 && strings.HasSuffix(PathOf(cl.Call.Args[0]), ".informationForwarded") {
				return truth
			}
			return false
		}
		n := 0
		for _, ci := range callsIn(hs, func(nm string, cc *ssa.CallCommon) bool {
			m := methodName(cc)
			return m == "SetActiveSessionHandler" || m == "WritePacket" || m == "complete"
		}) {
			n++
			g, ns := MustCross(ci, proceed)
			c.Check("refuse-unforwarded", methodName(ci.Common())+"@handleServerLoginSuccess", ci, g && ns > 0,
				"in velocity mode the backend login proceeds although the backend never requested forwarding data (player would join without identity forwarding)")
		}
		if n == 0 {
			c.Undecided("refuse-unforwarded", "handleServerLoginSuccess", "no proceed action found")
		}
		// refusing edge disconnects
		for _, e := range IfEdges(hs) {
			cond, truth := e.Cond()
			cl := callValue(cond)
			if cl == nil || methodName(&cl.Call) != "Load" || truth || len(cl.Call.Args) == 0 || !strings.HasSuffix(PathOf(cl.Call.Args[0]), ".informationForwarded") {
				continue
			}
			first := e.To().Instrs[0]
			isDisc := func(in ssa.Instruction) bool { cc := callOf(in); return cc != nil && methodName(cc) == "disconnect" }
			miss := false
			if !isDisc(first) {
				miss, _ = MayReachExitWithout(first, isDisc)
			}
			c.Check("refuse-unforwarded", "disconnect-on-refusal@handleServerLoginSuccess", first, !miss, "the refusing path must disconnect the backend connection")
		}
	}
}

// describeArg renders the provenance of a writer argument in CreateForwardingData.
func describeArg(fn *ssa.Function, v ssa.Value) string {
	v = strip(v)
	switch x := v.(type) {
	case *ssa.Parameter:
		return "param:" + x.Name()
	case *ssa.Call:
		if f := staticCallee(&x.Call); f != nil {
			return "call:" + f.Name()
		}
		return PathOf(x)
	}
	return PathOf(v)
}
