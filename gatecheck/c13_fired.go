package main

import (
	"strings"

	"golang.org/x/tools/go/ssa"
)

// checkFiredFlagWithDrain: loginEventFired switches the connection from "queue login plugin messages"
// to "write them directly". The switch (isLoginEventFired = true) and the drain of the queue must be
// one critical section: if the flag is raised later, a message sent in between still sees "not fired",
// is put on a queue nobody drains again, its consumer never runs and the login never completes.
func checkFiredFlagWithDrain(c *Ctx, lc *LockCtx) {
	fn := c.MustFunc(pkgProxy + ":(*loginInboundConn).loginEventFired")
	if fn == nil {
		return
	}
	isMuOp := func(x ssa.Instruction) bool {
		if cc := callOf(x); cc != nil {
			if _, isDefer := x.(*ssa.Defer); isDefer {
				return false
			}
			if p, _, ok := lockOp(cc); ok && strings.HasSuffix(p, ".mu") {
				return true
			}
		}
		return false
	}
	var stores []*ssa.Store
	eachInstr(fn, func(in ssa.Instruction) {
		if st, ok := in.(*ssa.Store); ok {
			if fa, isFA := st.Addr.(*ssa.FieldAddr); isFA && fieldOfAddr(fa).Name() == "isLoginEventFired" {
				stores = append(stores, st)
			}
		}
	})
	var pops []ssa.Instruction
	eachInstr(fn, func(in ssa.Instruction) {
		cl, ok := in.(*ssa.Call)
		if !ok {
			return
		}
		if methodName(&cl.Call) == "PopFront" || methodName(&cl.Call) == "Clear" {
			pops = append(pops, in)
			return
		}
		// a helper that drains the queue
		if h := staticCallee(&cl.Call); h != nil && isUnexportedHelper(h) {
			drains := false
			eachInstr(h, func(y ssa.Instruction) {
				if cc := callOf(y); cc != nil && methodName(cc) == "PopFront" {
					drains = true
				}
			})
			if drains {
				pops = append(pops, in)
			}
		}
	})
	if len(stores) == 0 || len(pops) == 0 {
		c.Undecided("fired-with-drain", "loginEventFired", "flag store or queue drain not found")
		return
	}
	for _, st := range stores {
		b, isC := constBool(st.Val)
		ok := isC && b
		held := false
		for p, k := range lc.At(st) {
			if strings.HasSuffix(p, ".mu") && k == 'W' {
				held = true
			}
		}
		same := true
		for _, p := range pops {
			p := p
			a := NewMustSince(fn, func(x ssa.Instruction) bool { return x == ssa.Instruction(st) }, isMuOp).At(p)
			bb := NewMustSince(fn, func(x ssa.Instruction) bool { return x == p }, isMuOp).At(st)
			if !a && !bb {
				same = false
			}
		}
		c.Check("fired-with-drain", "isLoginEventFired=true+drain-one-critical-section@loginEventFired", st, ok && held && same && len(stores) == 1,
			"the 'login event fired' flag must be raised (to true, once) in the same l.mu critical section that drains the queued login plugin messages: a message sent between the drain and a later flag flip is queued for good and its consumer never runs")
	}
}
