package main

import (
	"fmt"
	"strings"

	"golang.org/x/tools/go/ssa"
)

// checkFullReader: the frame decoder reads a frame body with one Read and therefore relies on its
// reader always being the fullReader wrapper (shared by C01 and C15: a short read zero-pads the
// relayed payload and desynchronises the stream).
func checkFullReader(c *Ctx, codecFns []*ssa.Function, lc *LockCtx) {
	// (1) fullReader
	rdF := c.P.FieldVar(pkgCodec+":Decoder", "rd")
	nSt := 0
	for _, fn := range codecFns {
		eachInstr(fn, func(in ssa.Instruction) {
			st, ok := in.(*ssa.Store)
			if !ok {
				return
			}
			fa, ok := st.Addr.(*ssa.FieldAddr)
			if !ok || !sameField(fieldOfAddr(fa), rdF) {
				return
			}
			nSt++
			a, isA := strip(st.Val).(*ssa.Alloc)
			c.Check("full-reader", "Decoder.rd=@"+shortName(fn), in, isA && typeIs(a.Type(), "proto/codec", "fullReader"),
				"the decoder's reader is not wrapped in fullReader: the frame body is read with a single Read, so payloads depend on how the TCP stream is chunked")
		})
	}
	if nSt < 2 {
		c.Undecided("full-reader", "Decoder.rd", fmt.Sprintf("expected ≥2 stores (constructor, SetReader), found %d", nSt))
	}
	if fr := c.MustFunc(pkgCodec + ":(*fullReader).Read"); fr != nil {
		ok := false
		for range callsIn(fr, func(nm string, cc *ssa.CallCommon) bool { return nm == "io.ReadFull" }) {
			ok = true
		}
		c.CheckAt("full-reader", "fullReader.Read=io.ReadFull", c.P.Pos(fr.Pos()), ok, "fullReader.Read must read the whole buffer")
	}
	if rf := c.MustFunc(pkgCodec + ":readVarIntFrame"); rf != nil {
		for _, cs := range lc.Callers[rf] {
			a := cs.Instr.Common().Args[0]
			c.Check("full-reader", "readVarIntFrame(d.rd)@"+shortName(cs.Caller), cs.Instr, strings.HasSuffix(PathOf(a), ".rd"),
				"the frame reader must be fed the decoder's (full) reader")
		}
	}
}
