package main

import (
	"strings"

	"golang.org/x/tools/go/ssa"
)

// deepFuncs returns fn followed by the functions of the same package it statically calls (transitively
// up to depth, closures included): the code a maintainer may have factored the mechanism into. Rules
// that look for an anchor instruction search this set, not just the body of the named function.
func deepFuncs(fn *ssa.Function, depth int) []*ssa.Function {
	if fn == nil {
		return nil
	}
	seen := map[*ssa.Function]bool{}
	var out []*ssa.Function
	var walk func(f *ssa.Function, d int)
	walk = func(f *ssa.Function, d int) {
		if f == nil || f.Blocks == nil || seen[f] {
			return
		}
		seen[f] = true
		out = append(out, f)
		for _, a := range f.AnonFuncs {
			walk(a, d)
		}
		if d == 0 {
			return
		}
		eachInstr(f, func(in ssa.Instruction) {
			cc := callOf(in)
			if cc == nil || cc.IsInvoke() {
				return
			}
			g := staticCallee(cc)
			if g != nil && g.Synthetic != "" {
				g = origin(g) // instantiation wrapper of a generic helper: the generic body
			}
			if g == nil || fnPkgPath(g) != fnPkgPath(fn) || !strings.HasPrefix(fnPkgPath(g), Mod) {
				return
			}
			// only unexported helpers: an exported function is API with its own contract
			if g.Object() != nil && g.Object().Exported() {
				return
			}
			walk(g, d-1)
		})
	}
	walk(fn, depth)
	return out
}

func eachInstrDeep(fn *ssa.Function, depth int, f func(ssa.Instruction)) {
	for _, g := range deepFuncs(fn, depth) {
		eachInstr(g, f)
	}
}
