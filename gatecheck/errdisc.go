package main

import (
	"go/types"

	"golang.org/x/tools/go/ssa"
)

// Error discipline (Engler-style "result must be consumed"): the error result of a call is consumed
// when it reaches a comparison, a return, a store, a call argument or an interface conversion —
// possibly through phis. An error whose SSA value has no such use was dropped: `_ =`, a shadowed
// variable that dies at the end of its scope, or an assignment that is overwritten before any test.

func errResultIndex(sig *types.Signature) int {
	rs := sig.Results()
	for i := rs.Len() - 1; i >= 0; i-- {
		if isErrorType(rs.At(i).Type()) {
			return i
		}
	}
	return -1
}

func valueConsumed(v ssa.Value, seen map[ssa.Value]bool) bool {
	if seen[v] {
		return false
	}
	seen[v] = true
	refs := v.Referrers()
	if refs == nil {
		return false
	}
	for _, r := range *refs {
		switch x := r.(type) {
		case *ssa.DebugRef:
		case *ssa.Phi:
			if valueConsumed(x, seen) {
				return true
			}
		case *ssa.ChangeInterface:
			if valueConsumed(x, seen) {
				return true
			}
		case *ssa.ChangeType:
			if valueConsumed(x, seen) {
				return true
			}
		case *ssa.Store:
			// a store into a local cell that is never loaded is not a use
			if a, ok := x.Addr.(*ssa.Alloc); ok && !a.Heap {
				loaded := false
				for _, ar := range *a.Referrers() {
					if u, isU := ar.(*ssa.UnOp); isU && u.X == a {
						loaded = true
					}
					if _, isRet := ar.(*ssa.Return); isRet {
						loaded = true
					}
				}
				if loaded {
					return true
				}
				continue
			}
			return true
		default:
			return true
		}
	}
	return false
}

// droppedErrors lists the calls in fn matching sel whose error result is not consumed.
func droppedErrors(fn *ssa.Function, sel func(name string, cc *ssa.CallCommon) bool) (dropped []ssa.CallInstruction, total int) {
	for _, ci := range callsIn(fn, sel) {
		cl, ok := ci.(*ssa.Call)
		if !ok {
			continue // go/defer: result not observable
		}
		sig := cl.Call.Signature()
		idx := errResultIndex(sig)
		if idx < 0 {
			continue
		}
		total++
		if sig.Results().Len() == 1 {
			if !valueConsumed(cl, map[ssa.Value]bool{}) {
				dropped = append(dropped, ci)
			}
			continue
		}
		used := false
		if cl.Referrers() != nil {
			for _, r := range *cl.Referrers() {
				if ex, isEx := r.(*ssa.Extract); isEx && ex.Index == idx && valueConsumed(ex, map[ssa.Value]bool{}) {
					used = true
				}
			}
		}
		if !used {
			dropped = append(dropped, ci)
		}
	}
	return
}
