package main

import (
	"go/types"
	"strings"

	"golang.org/x/tools/go/ssa"
	"golang.org/x/tools/go/ssa/ssautil"
)

// unreachableHelper: an unexported, named function or method of the module that nothing can call —
// no static call site anywhere in the program, its value never taken, and (for a method) no interface
// of the module declaring a method of that name. Code left behind by a clean-up; an access rule has
// nothing to say about it (there is no execution in which it runs), and deriving "no lock held at
// entry" from "no callers" would be an alarm about code that cannot execute.
func unreachableHelper(lc *LockCtx, fn *ssa.Function) bool {
	if fn == nil || fn.Parent() != nil || fn.Synthetic != "" || fn.Object() == nil || fn.Object().Exported() {
		return false
	}
	if fn.Name() == "init" || fn.Name() == "main" || strings.HasPrefix(fn.Name(), "init#") {
		return false
	}
	if lc != nil && (lc.addrTaken[fn] || len(lc.Callers[fn]) > 0) {
		return false
	}
	if len(staticCallersOf(fn)) > 0 || funcValueTaken(fn) {
		return false
	}
	if fn.Signature.Recv() != nil && ifaceMethodNames(fn.Prog)[fn.Name()] {
		return false
	}
	return true
}

var ifaceNamesMemo = map[*ssa.Program]map[string]bool{}

func ifaceMethodNames(prog *ssa.Program) map[string]bool {
	if m, ok := ifaceNamesMemo[prog]; ok {
		return m
	}
	m := map[string]bool{}
	for _, pkg := range prog.AllPackages() {
		if pkg.Pkg == nil || !strings.HasPrefix(pkg.Pkg.Path(), Mod) {
			continue
		}
		for _, mem := range pkg.Members {
			t, ok := mem.(*ssa.Type)
			if !ok {
				continue
			}
			it, ok := t.Type().Underlying().(*types.Interface)
			if !ok {
				continue
			}
			for i := 0; i < it.NumMethods(); i++ {
				m[it.Method(i).Name()] = true
			}
		}
	}
	// anonymous interfaces in signatures / assertions are rare for unexported methods; be safe and
	// also collect interface types reachable from function signatures
	ifaceNamesMemo[prog] = m
	return m
}

var fvTakenMemo = map[*ssa.Program]map[*ssa.Function]bool{}

// funcValueTaken: fn appears as an operand other than the callee position somewhere in the module.
func funcValueTaken(fn *ssa.Function) bool {
	m, ok := fvTakenMemo[fn.Prog]
	if !ok {
		m = map[*ssa.Function]bool{}
		for f := range ssautil.AllFunctions(fn.Prog) {
			if f.Blocks == nil || !strings.HasPrefix(fnPkgPath(f), Mod) {
				continue
			}
			for _, b := range f.Blocks {
				for _, in := range b.Instrs {
					for _, op := range in.Operands(nil) {
						if *op == nil {
							continue
						}
						g, isFn := (*op).(*ssa.Function)
						if !isFn {
							continue
						}
						if ci, isCall := in.(ssa.CallInstruction); isCall && ci.Common().Value == ssa.Value(g) {
							continue
						}
						m[g] = true
					}
				}
			}
		}
		fvTakenMemo[fn.Prog] = m
	}
	return m[fn]
}
