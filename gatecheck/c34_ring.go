package main

import (
	"go/token"

	"golang.org/x/tools/go/ssa"
)

// ringNext: v is "the ring index after base" — base+1 taken modulo the buffer length in any of its
// spellings: (base+1) % len, base+1 with a separate wrap to 0, a phi of {base+1, 0}, or a module
// helper every return of which is one of those (parameters read as the call's arguments).
func ringNext(v ssa.Value, isBase func(ssa.Value) bool, depth int) bool {
	if depth <= 0 {
		return false
	}
	v = strip(v)
	inc := func(x ssa.Value) bool {
		bo, ok := strip(x).(*ssa.BinOp)
		if !ok || bo.Op != token.ADD {
			return false
		}
		k, isK := constInt(bo.Y)
		return isK && k == 1 && isBase(strip(bo.X))
	}
	zero := func(x ssa.Value) bool {
		k, isK := constInt(x)
		return isK && k == 0
	}
	switch x := v.(type) {
	case *ssa.BinOp:
		if x.Op == token.REM {
			return inc(x.X)
		}
		return inc(x)
	case *ssa.Phi:
		some := false
		for _, e := range x.Edges {
			switch {
			case zero(e):
			case ringNext(e, isBase, depth-1):
				some = true
			default:
				return false
			}
		}
		return some
	case *ssa.Call:
		g := moduleHelperWithBody(&x.Call)
		if g == nil || g.Signature.Results().Len() != 1 {
			return false
		}
		res := make([]ssa.Value, len(x.Call.Args))
		for i, a := range x.Call.Args {
			res[i] = strip(a)
		}
		some, all := false, true
		withBinding(g, res, func() {
			for _, r := range successReturns(g) {
				rv := retVal(r, 0)
				switch {
				case zero(rv):
				case ringNext(rv, isBase, depth-1):
					some = true
				default:
					all = false
				}
			}
		})
		return some && all
	}
	return false
}
