package main

import (
	"fmt"
	"go/token"
	"strings"

	"golang.org/x/tools/go/ssa"
)

func init() {
	register(&propDef{
		ID:       "C21",
		Title:    "Secure-chat packets keep client order and conserve acknowledgements",
		Patterns: []string{"./pkg/edition/java/proxy", "./pkg/internal/future"},
		Run:      runC21,
		Rule: "order: chatQueue.queueTask replaces head by ThenCompose(head, …) with the read and the replacement in one internalLock critical section, every other chatQueue entry point " +
			"(QueuePacket, QueuePacketWithFunction, HandleAcknowledgement) goes through queueTask, writePacket is only called from chatQueue methods, and the 1.19.3+ chat/command handlers " +
			"contain no direct backend write; the client play handler reaches the chat, command and acknowledgement handlers by plain calls (no go statement); " +
			"non-nil continuation: every function value passed as nextPacket to QueuePacket returns a non-nil future on every path (QueuePacket composes on it unconditionally); " +
			"conservation: AccumulateAckCount forwards delayed−K only when that is ≥ the window size and leaves exactly K held (same constant), HandleAcknowledgement writes an acknowledgement " +
			"with exactly the returned count on its >0 edge; UpdateFromMessage swaps the held count to zero only on the lastSeen != nil edge and adds it to the forwarded offset; " +
			"unsigned commands: the lastSeen argument handleSessionCommand passes on is non-nil only on the !unsigned edge, and the consumed-command acknowledgement carries the packet's " +
			"offset and is gated on hasLastSeen, offset != 0 and protocol ≥ 1.19.3.",
		Explanation: "Decides: chain order = program order of the read loop, no broken chain link, acknowledgement arithmetic conserves the count (never more than acknowledged, lag bounded by " +
			"the window constants, full catch-up on the next last-seen update), unsigned commands do not touch held acknowledgements. Does not decide: the order in which asynchronously " +
			"completed command futures finish (they are composed, not raced) nor the numeric bound as a run-time quantity.",
		Fixtures: []string{"lockset", "provenance"},
		Variants: []Variant{
			{Name: "nil-future-on-rejected-change", File: pkgProxy + "/handle_chat.go",
				Old: "\t\t\tif packet.Signed && c.invalidChange(c.log, c.player) {\n\t\t\t\treturn asFuture(nil)\n\t\t\t}", New: "\t\t\tif packet.Signed && c.invalidChange(c.log, c.player) {\n\t\t\t\treturn nil\n\t\t\t}", Expect: "non-nil-continuation"},
			{Name: "denied-command-acks-before-adopting-fixed-last-seen", File: pkgProxy + "/handle_cmd.go",
				Old: "\t\tif newLastSeenMessages != nil {\n\t\t\tpacket.LastSeenMessages = *newLastSeenMessages // fixed packet\n\t\t}\n\n\t\tif !e.Allowed() {\n\t\t\treturn consumeCommand(packet, newLastSeenMessages != nil)\n\t\t}\n",
				New: "\t\tif !e.Allowed() {\n\t\t\treturn consumeCommand(packet, newLastSeenMessages != nil)\n\t\t}\n\t\tif newLastSeenMessages != nil {\n\t\t\tpacket.LastSeenMessages = *newLastSeenMessages // fixed packet\n\t\t}\n", Expect: "last-seen-adopted"},
			{Name: "unsigned-command-flushes-acks", File: pkgProxy + "/handle_cmd.go",
				Old: "\tvar lastSeenMessages *chat.LastSeenMessages\n\tif !unsigned {\n\t\tlastSeenMessages = &packet.LastSeenMessages\n\t}\n", New: "\tlastSeenMessages := &packet.LastSeenMessages\n", Expect: "unsigned-no-last-seen"},
			{Name: "consumed-ack-gated-on-bitset", File: pkgProxy + "/handle_cmd.go",
				Old: "packet.LastSeenMessages.Offset != 0 {", New: "!packet.LastSeenMessages.Empty() {", Expect: "consumed-ack"},
			{Name: "ack-threshold-remainder-lost", File: pkgProxy + "/chat_queue.go",
				Old: "\t\tcs.delayedAckCount.Store(minimumDelayedAckCount)\n", New: "\t\tcs.delayedAckCount.Store(0)\n", Expect: "ack-conserved"},
			{Name: "flush-drops-held-acks", File: pkgProxy + "/chat_queue.go",
				Old: "\t\t\tOffset:       lastSeenMessages.Offset + int(delayedAckCount),", New: "\t\t\tOffset:       lastSeenMessages.Offset + int(delayedAckCount)*0,", Expect: "ack-conserved"},
			{Name: "head-replaced-outside-lock", File: pkgProxy + "/chat_queue.go",
				Old: "\tcq.internalLock.Lock()\n\tdefer cq.internalLock.Unlock()\n\n\tsmc, ok := cq.player.ensureBackendConnection()", New: "\tcq.internalLock.Lock()\n\tcq.internalLock.Unlock()\n\n\tsmc, ok := cq.player.ensureBackendConnection()", Expect: "chain"},
			{Name: "ack-bypasses-queue", File: pkgProxy + "/chat_queue.go",
				Old: "func (cq *chatQueue) HandleAcknowledgement(offset int) {\n\tcq.queueTask(func(chatState *ChatState, smc netmc.MinecraftConn) *future.Future[any] {",
				New: "func (cq *chatQueue) HandleAcknowledgement(offset int) {\n\tsmc0, ok0 := cq.player.ensureBackendConnection()\n\tif !ok0 {\n\t\treturn\n\t}\n\tfunc(task func(chatState *ChatState, smc netmc.MinecraftConn) *future.Future[any]) { task(cq.chatState, smc0) }(func(chatState *ChatState, smc netmc.MinecraftConn) *future.Future[any] {", Expect: "chain"},
		},
	})
}

func runC21(c *Ctx) {
	scope := c.P.Funcs(Mod + "/" + pkgProxy)
	lc := NewLockCtx(c.P, scope)

	// ---- (1) the chain
	checkGuarded(c, lc, scope, GuardSpec{Type: pkgProxy + ":chatQueue", Mutex: "internalLock", Fields: []string{"head"},
		Exempt: map[string]string{"pkg/edition/java/proxy.newChatQueue": "constructor: the queue is not shared yet"}})
	qt := c.MustFunc(pkgProxy + ":(*chatQueue).queueTask")
	if qt != nil {
		c.Analysed(qt)
		n := 0
		eachInstr(qt, func(in ssa.Instruction) {
			st, ok := in.(*ssa.Store)
			if !ok || !strings.HasSuffix(PathOf(st.Addr), ".head") {
				return
			}
			n++
			cl := callValue(st.Val)
			okCompose := cl != nil && strings.Contains(calleeName(&cl.Call), "future.ThenCompose") && strings.HasSuffix(PathOf(cl.Call.Args[0]), ".head")
			c.Check("chain", "head=ThenCompose(head,task)@queueTask", st, okCompose, "a task must be composed onto the current head so that it runs after everything queued before it")
			ms := NewMustSince(qt, func(x ssa.Instruction) bool {
				ld, ok := x.(*ssa.UnOp)
				return ok && strings.HasSuffix(PathOf(ld.X), ".head") && ld.Op == token.MUL
			}, func(x ssa.Instruction) bool {
				if cc := callOf(x); cc != nil {
					if p, _, ok := lockOp(cc); ok && strings.HasSuffix(p, ".internalLock") {
						return true
					}
				}
				return false
			})
			held := lc.At(st)
			excl := false
			for p, k := range held {
				if strings.HasSuffix(p, ".internalLock") && k == 'W' {
					excl = true
				}
			}
			c.Check("chain", "read-and-replace-one-critical-section@queueTask", st, excl && ms.At(st),
				"the head is read and replaced in different critical sections: two packets can compose onto the same head and run concurrently (order lost)")
		})
		if n == 0 {
			c.Undecided("chain", "queueTask", "head is never replaced")
		}
	}
	// entry points go through queueTask; tasks never run outside it
	for _, name := range []string{"QueuePacket", "QueuePacketWithFunction", "HandleAcknowledgement"} {
		fn := c.MustFunc(pkgProxy + ":(*chatQueue)." + name)
		if fn == nil {
			continue
		}
		c.Analysed(fn)
		n := 0
		for _, ci := range callsIn(fn, func(nm string, cc *ssa.CallCommon) bool { return strings.HasSuffix(nm, "chatQueue).queueTask") }) {
			if _, isCall := ci.(*ssa.Call); isCall {
				n++
			}
		}
		other := 0
		eachInstr(fn, func(in ssa.Instruction) {
			cc := callOf(in)
			if cc == nil || cc.IsInvoke() {
				return
			}
			if strings.HasSuffix(calleeName(cc), "chatQueue).queueTask") {
				return
			}
			// any other call made directly by the entry point that can write or run a task
			if _, isB := cc.Value.(*ssa.Builtin); isB {
				return
			}
			other++
		})
		c.CheckAt("chain", "via-queueTask@"+name, c.P.Pos(fn.Pos()), n == 1 && other == 0,
			fmt.Sprintf("the entry point must do nothing but hand one task to queueTask (queueTask calls: %d, other direct calls: %d)", n, other))
	}
	// writePacket callers
	if wp := c.MustFunc(pkgProxy + ":(*chatQueue).writePacket"); wp != nil {
		for _, cs := range lc.Callers[wp] {
			root := cs.Caller
			for root.Parent() != nil {
				root = root.Parent()
			}
			isCQ := root.Signature.Recv() != nil && typeIs(root.Signature.Recv().Type(), "java/proxy", "chatQueue")
			c.Check("chain", "writePacket-caller@"+shortName(cs.Caller), cs.Instr, isCQ, "chatQueue.writePacket is called from outside the queue (a write that is not ordered by the chain)")
		}
	}
	// the 1.19.3+ handlers do not write to the backend themselves
	for _, name := range []string{"handleSessionChat", "handleSessionCommand"} {
		fn := c.MustFunc(pkgProxy + ":(*chatHandler)." + name)
		if fn == nil {
			continue
		}
		var all []*ssa.Function
		var collect func(f *ssa.Function)
		collect = func(f *ssa.Function) {
			all = append(all, f)
			for _, a := range f.AnonFuncs {
				collect(a)
			}
		}
		collect(fn)
		bad := 0
		var at ssa.Instruction
		for _, f := range all {
			c.Analysed(f)
			eachInstr(f, func(in ssa.Instruction) {
				cc := callOf(in)
				if cc == nil {
					return
				}
				m := methodName(cc)
				if m != "WritePacket" && m != "BufferPacket" && m != "Write" && m != "BufferPayload" {
					return
				}
				// writes to the player itself (messages) are not backend writes
				recv := cc.Value
				if !cc.IsInvoke() && len(cc.Args) > 0 {
					recv = cc.Args[0]
				}
				if typeIs(recv.Type(), "java/proxy", "connectedPlayer") {
					return
				}
				bad++
				at = in
			})
		}
		if at == nil {
			c.CheckAt("chain", "no-direct-backend-write@"+name, c.P.Pos(fn.Pos()), true, "")
		} else {
			c.Check("chain", "no-direct-backend-write@"+name, at, bad == 0, "a 1.19.3+ chat/command handler writes to the backend directly instead of through the chat queue")
		}
	}
	// dispatch is synchronous
	if hp := c.MustFunc(pkgProxy + ":(*clientPlaySessionHandler).HandlePacket"); hp != nil {
		targets := map[string]int{"chatHandler).handleChat": 0, "chatHandler).handleCommand": 0, "clientPlaySessionHandler).handleChatAcknowledgement": 0}
		var scan func(f *ssa.Function, d int, seen map[*ssa.Function]bool)
		scan = func(f *ssa.Function, d int, seen map[*ssa.Function]bool) {
			if f == nil || f.Blocks == nil || seen[f] || d > 2 {
				return
			}
			seen[f] = true
			eachInstr(f, func(in ssa.Instruction) {
				cc := callOf(in)
				if cc == nil {
					return
				}
				n := calleeName(cc)
				for t := range targets {
					if strings.HasSuffix(n, t) {
						if _, isCall := in.(*ssa.Call); isCall {
							targets[t]++
						} else {
							c.Check("chain", "sync-dispatch:"+t, in, false, "the handler is started with go/defer: packets of one client are no longer processed in arrival order")
						}
					}
				}
				if cl, isCall := in.(*ssa.Call); isCall {
					if sf := staticCallee(&cl.Call); sf != nil && strings.HasPrefix(fnPkgPath(sf), Mod+"/"+pkgProxy) && strings.Contains(sf.Name(), "handle") {
						scan(sf, d+1, seen)
					}
				}
			})
		}
		scan(hp, 0, map[*ssa.Function]bool{})
		for t, n := range targets {
			c.CheckAt("chain", "sync-dispatch:"+t, c.P.Pos(hp.Pos()), n > 0, "the client play handler must call this handler directly from the read loop")
		}
	}

	// ---- (2) non-nil continuation
	qp := c.P.Func(pkgProxy + ":(*chatQueue).QueuePacket")
	nCont := 0
	if qp != nil {
		for _, cs := range lc.Callers[qp] {
			args := cs.Instr.Common().Args
			fv := args[1]
			fns := resolveFuncValue(fv)
			if len(fns) == 0 {
				c.Undecided("non-nil-continuation", "nextPacket@"+shortName(cs.Caller), "the continuation passed to QueuePacket does not resolve to a local closure")
				continue
			}
			for _, f := range fns {
				nCont++
				c.Analysed(f)
				okAll, why, at := returnsNonNilFuture(f, 0)
				var site ssa.Instruction = cs.Instr
				if at != nil {
					site = at
				}
				c.Check("non-nil-continuation", "nextPacket="+shortName(f), site, okAll,
					"the continuation can return a nil future ("+why+"): QueuePacket calls ThenCompose on it unconditionally — a nil dereference in the completion goroutine of the previous write, and the chain is never completed again")
			}
		}
	}
	if nCont < 3 {
		c.Undecided("non-nil-continuation", "QueuePacket", fmt.Sprintf("expected ≥3 continuations, resolved %d", nCont))
	}

	// ---- (3) conservation
	checkAckArithmetic(c)
	checkLastSeenAdopted(c, lc)

	// ---- (4) unsigned commands
	if hs := c.MustFunc(pkgProxy + ":(*chatHandler).handleSessionCommand"); hs != nil {
		unsignedPrm := hs.Params[2]
		isUnsignedEdge := func(want bool) EdgePred {
			return func(e Edge, cond ssa.Value, truth bool) bool { return isParamOrItsCell(cond, unsignedPrm) && truth == want }
		}
		n := 0
		for _, ci := range callsIn(hs, func(nm string, cc *ssa.CallCommon) bool { return strings.HasSuffix(nm, "chatHandler).queueCommandResult") }) {
			n++
			a := strip(ci.Common().Args[3])
			ok := false
			why := "the argument is " + a.String()
			switch x := a.(type) {
			case *ssa.Const:
				ok = x.Value == nil
			case *ssa.Phi:
				ok = true
				for i, e := range x.Edges {
					if isNilConst(strip(e)) {
						continue
					}
					if !phiEdgeGuarded(x, i, isUnsignedEdge(false)) {
						ok = false
						why = "a non-nil last-seen update reaches the queue on a path where the command may be unsigned"
					}
				}
			default:
				g, ns := MustCross(ci, isUnsignedEdge(false))
				ok = g && ns > 0
				why = "the packet's last-seen update is passed on regardless of the unsigned flag"
			}
			c.Check("unsigned-no-last-seen", "queueCommandResult(lastSeen)@handleSessionCommand", ci, ok,
				"an unsigned command (1.20.5+) must not feed a last-seen update into the chat queue — it would flush the held acknowledgements and then drop them: "+why)
		}
		if n == 0 {
			c.Undecided("unsigned-no-last-seen", "handleSessionCommand", "queueCommandResult not called")
		}
		// consumed-command acknowledgement
		nAck := 0
		for _, f := range hs.AnonFuncs {
			eachInstr(f, func(in ssa.Instruction) {
				a, ok := in.(*ssa.Alloc)
				if !ok || !typeIs(a.Type(), "packet/chat", "ChatAcknowledgement") {
					return
				}
				nAck++
				offNZ, n1 := MustCross(a, func(e Edge, cond ssa.Value, truth bool) bool {
					bo, ok := cond.(*ssa.BinOp)
					if !ok {
						return false
					}
					k, isK := constInt(bo.Y)
					if !isK || k != 0 || !strings.HasSuffix(PathOf(bo.X), ".LastSeenMessages.Offset") {
						return false
					}
					return (bo.Op == token.NEQ && truth) || (bo.Op == token.EQL && !truth)
				})
				has, n2 := MustCross(a, func(e Edge, cond ssa.Value, truth bool) bool {
					p, ok := strip(cond).(*ssa.Parameter)
					return ok && truth && p.Type().String() == "bool"
				})
				proto, n3 := MustCross(a, func(e Edge, cond ssa.Value, truth bool) bool {
					cl := callValue(cond)
					return cl != nil && truth && methodName(&cl.Call) == "GreaterEqual" && strings.Contains(PathOf(cl.Call.Args[len(cl.Call.Args)-1]), "Minecraft_1_19_3")
				})
				offStored := false
				for _, ref := range *a.Referrers() {
					if fa, isFA := ref.(*ssa.FieldAddr); isFA && fieldOfAddr(fa).Name() == "Offset" {
						for _, r2 := range *fa.Referrers() {
							if st, isSt := r2.(*ssa.Store); isSt && strings.HasSuffix(PathOf(st.Val), ".LastSeenMessages.Offset") {
								offStored = true
							}
						}
					}
				}
				c.Check("consumed-ack", "ChatAcknowledgement@"+shortName(f), a, offNZ && n1 > 0 && has && n2 > 0 && proto && n3 > 0 && offStored,
					fmt.Sprintf("a command consumed by the proxy must pass on exactly the packet's acknowledgement offset, gated on a last-seen update being present, offset != 0 and protocol ≥ 1.19.3 (offset-gate=%v has-last-seen=%v protocol-gate=%v carries-offset=%v)", offNZ && n1 > 0, has && n2 > 0, proto && n3 > 0, offStored))
			})
		}
		if nAck == 0 {
			c.Undecided("consumed-ack", "handleSessionCommand", "no ChatAcknowledgement is built for consumed commands")
		}
	}
}

// returnsNonNilFuture: every return of f yields a value that cannot be nil: an allocation, the result
// of future.New / a method that returns its receiver (Complete, ThenAccept), ThenCompose, or a call
// to a local closure for which the same holds.
func returnsNonNilFuture(f *ssa.Function, depth int) (bool, string, ssa.Instruction) {
	if depth > 3 {
		return false, "closure nesting too deep", nil
	}
	var nonNil func(v ssa.Value, d int) (bool, string)
	nonNil = func(v ssa.Value, d int) (bool, string) {
		v = strip(v)
		switch x := v.(type) {
		case *ssa.Const:
			if x.Value == nil {
				return false, "returns the nil constant"
			}
		case *ssa.Alloc, *ssa.MakeClosure:
			return true, ""
		case *ssa.Phi:
			for _, e := range x.Edges {
				if ok, why := nonNil(e, d); !ok {
					return false, why
				}
			}
			return true, ""
		case *ssa.UnOp:
			if a, ok := x.X.(*ssa.Alloc); ok && d > 0 {
				for _, sv := range storesTo(a) {
					if ok, why := nonNil(sv, d-1); !ok {
						return false, why
					}
				}
				return true, ""
			}
		case *ssa.Call:
			n := calleeName(&x.Call)
			switch {
			case strings.Contains(n, "internal/future.New"), strings.Contains(n, "internal/future.ThenCompose"):
				return true, ""
			case strings.Contains(n, "internal/future.Future") && (strings.HasSuffix(n, ").Complete") || strings.HasSuffix(n, ").ThenAccept")):
				return nonNil(x.Call.Args[0], d)
			}
			if fns := resolveFuncValue(x.Call.Value); len(fns) > 0 {
				for _, g := range fns {
					if ok, why, _ := returnsNonNilFuture(g, depth+1); !ok {
						return false, "via " + shortName(g) + ": " + why
					}
				}
				return true, ""
			}
			if sf := staticCallee(&x.Call); sf != nil && sf.Blocks != nil && strings.HasPrefix(fnPkgPath(sf), Mod) {
				ok, why, _ := returnsNonNilFuture(sf, depth+1)
				return ok, why
			}
			return false, "result of " + n + " is not known to be non-nil"
		}
		return false, "returns " + v.String()
	}
	for _, r := range returnsOf(f) {
		if r.Block() == f.Recover || len(r.Results) == 0 {
			continue
		}
		if ok, why := nonNil(retVal(r, 0), 3); !ok {
			return false, why, r
		}
	}
	return true, "", nil
}

// checkAckArithmetic: the held-acknowledgement counter conserves what the client acknowledged.
func checkAckArithmetic(c *Ctx) {
	acc := c.MustFunc(pkgProxy + ":(*ChatState).AccumulateAckCount")
	upd := c.MustFunc(pkgProxy + ":(*ChatState).UpdateFromMessage")
	hack := c.MustFunc(pkgProxy + ":(*chatQueue).HandleAcknowledgement")
	isCounter := func(v ssa.Value) bool { return strings.HasSuffix(PathOf(v), ".delayedAckCount") }
	if acc != nil {
		c.Analysed(acc)
		// delayed := counter.Add(int32(ack)); fwd := delayed - K; if fwd >= W { counter.Store(K'); return int(fwd) }; return 0
		var add *ssa.Call
		for _, ci := range callsIn(acc, func(nm string, cc *ssa.CallCommon) bool { return nm == "(*sync/atomic.Int32).Add" && isCounter(cc.Args[0]) }) {
			add, _ = ci.(*ssa.Call)
		}
		if add == nil {
			c.Undecided("ack-conserved", "AccumulateAckCount", "the counter is not advanced with atomic Add")
		} else {
			okArg := strip(add.Call.Args[1]) == ssa.Value(acc.Params[1])
			c.Check("ack-conserved", "Add(ackCount)@AccumulateAckCount", add, okArg, "exactly the client's acknowledgement count must be added to the held counter")
			nFwd := 0
			for _, r := range returnsOf(acc) {
				v := strip(retVal(r, 0))
				if k, isK := constInt(v); isK && k == 0 {
					continue
				}
				nFwd++
				sub, isSub := v.(*ssa.BinOp)
				var K int64 = -1
				if isSub && sub.Op == token.SUB && strip(sub.X) == ssa.Value(add) {
					K, _ = constInt(sub.Y)
				}
				// the store that dominates this return leaves K held
				var kept int64 = -2
				for _, ci := range callsIn(acc, func(nm string, cc *ssa.CallCommon) bool { return nm == "(*sync/atomic.Int32).Store" && isCounter(cc.Args[0]) }) {
					if domBefore(ci, r) {
						kept, _ = constInt(ci.Common().Args[1])
					}
				}
				// threshold: forwarded only if fwd >= W with W >= 1
				thr, nt := MustCross(r, func(e Edge, cond ssa.Value, truth bool) bool {
					bo, ok := cond.(*ssa.BinOp)
					if !ok || strip(bo.X) != v {
						return false
					}
					w, isW := constInt(bo.Y)
					if !isW || w < 1 {
						return false
					}
					return (bo.Op == token.GEQ && truth) || (bo.Op == token.LSS && !truth) || (bo.Op == token.GTR && truth)
				})
				c.Check("ack-conserved", "forward=delayed-K,keep=K@AccumulateAckCount", r, K >= 0 && kept == K && thr && nt > 0,
					fmt.Sprintf("forwarded + still-held must equal the accumulated count: forwards delayed-%d, keeps %d (must be the same constant), threshold-gated=%v", K, kept, thr && nt > 0))
			}
			if nFwd == 0 {
				c.Undecided("ack-conserved", "AccumulateAckCount", "no forwarding return")
			}
		}
	}
	if upd != nil {
		c.Analysed(upd)
		var swap *ssa.Call
		for _, ci := range callsIn(upd, func(nm string, cc *ssa.CallCommon) bool { return nm == "(*sync/atomic.Int32).Swap" && isCounter(cc.Args[0]) }) {
			swap, _ = ci.(*ssa.Call)
		}
		if swap == nil {
			c.Undecided("ack-conserved", "UpdateFromMessage", "the held counter is not flushed with Swap")
		} else {
			z, isZ := constInt(swap.Call.Args[1])
			g, ns := MustCross(swap, func(e Edge, cond ssa.Value, truth bool) bool {
				v, isNil, ok := nilCmp(cond, truth)
				return ok && !isNil && strip(v) == ssa.Value(upd.Params[2])
			})
			c.Check("ack-conserved", "Swap(0)-only-with-last-seen@UpdateFromMessage", swap, isZ && z == 0 && g && ns > 0,
				"the held acknowledgements are flushed although the packet carries no last-seen update (they would be dropped)")
			// offset = in.Offset + int(swapped)
			okOff := false
			eachInstr(upd, func(in ssa.Instruction) {
				st, ok := in.(*ssa.Store)
				if !ok {
					return
				}
				fa, isFA := st.Addr.(*ssa.FieldAddr)
				if !isFA || fieldOfAddr(fa).Name() != "Offset" {
					return
				}
				bo, isB := strip(st.Val).(*ssa.BinOp)
				if !isB || bo.Op != token.ADD {
					return
				}
				for _, side := range [][2]ssa.Value{{bo.X, bo.Y}, {bo.Y, bo.X}} {
					if strings.HasSuffix(PathOf(side[0]), ".Offset") && strip(side[1]) == ssa.Value(swap) {
						okOff = true
					}
				}
			})
			c.CheckAt("ack-conserved", "Offset=in.Offset+held@UpdateFromMessage", c.P.Pos(upd.Pos()), okOff,
				"the forwarded last-seen update must carry the packet's offset plus all held acknowledgements (complete catch-up)")
		}
	}
	if hack != nil {
		var task *ssa.Function
		for _, a := range hack.AnonFuncs {
			task = a
		}
		if task == nil {
			c.Undecided("ack-conserved", "HandleAcknowledgement", "no task closure")
			return
		}
		c.Analysed(task)
		var accCall *ssa.Call
		for _, ci := range callsIn(task, func(nm string, cc *ssa.CallCommon) bool { return strings.HasSuffix(nm, "ChatState).AccumulateAckCount") }) {
			accCall, _ = ci.(*ssa.Call)
		}
		ok := false
		if accCall != nil {
			offArg := false
			av := strip(accCall.Call.Args[1])
			if ld, isLd := av.(*ssa.UnOp); isLd {
				av = ld.X
			}
			if fv, isFV := av.(*ssa.FreeVar); isFV && fv.Name() == hack.Params[1].Name() {
				offArg = true
			}
			eachInstr(task, func(in ssa.Instruction) {
				a, isA := in.(*ssa.Alloc)
				if !isA || !typeIs(a.Type(), "packet/chat", "ChatAcknowledgement") {
					return
				}
				// on every path to the acknowledgement the returned count is known to be >= 1 (any spelling of the test)
				g, ns := MustCross(a, func(e Edge, cond ssa.Value, truth bool) bool {
					r := RangeOnEdge(e, func(v ssa.Value) bool { return strip(v) == ssa.Value(accCall) })
					return r.HasLo() && r.Lo >= 1
				})
				carries := false
				for _, ref := range *a.Referrers() {
					if fa, isFA := ref.(*ssa.FieldAddr); isFA && fieldOfAddr(fa).Name() == "Offset" {
						for _, r2 := range *fa.Referrers() {
							if st, isSt := r2.(*ssa.Store); isSt && strip(st.Val) == ssa.Value(accCall) {
								carries = true
							}
						}
					}
				}
				ok = g && ns > 0 && carries && offArg
			})
		}
		c.CheckAt("ack-conserved", "ack{Offset: forwarded}@HandleAcknowledgement", c.P.Pos(hack.Pos()), ok,
			"an explicit acknowledgement must be accumulated with the client's offset and, when something is to be forwarded, written with exactly the returned count")
	}
}

// isParamOrItsCell: v is the parameter prm, or a load from the cell prm was spilled into because a
// closure captures it.
func isParamOrItsCell(v ssa.Value, prm *ssa.Parameter) bool {
	v = strip(v)
	if v == ssa.Value(prm) {
		return true
	}
	ld, ok := v.(*ssa.UnOp)
	if !ok || ld.Op != token.MUL {
		return false
	}
	a, ok := ld.X.(*ssa.Alloc)
	if !ok {
		return false
	}
	sv := storesTo(a)
	return len(sv) == 1 && sv[0] == ssa.Value(prm)
}
