package main

import (
	"go/token"
	"strings"

	"golang.org/x/tools/go/ssa"
)

// checkServerEquality: whether two RegisteredServer values denote the same server is decided by
// RegisteredServerEqual (name and address), as every site in the package does: a server can be
// unregistered and registered again while a player is on it, after which the registry hands out a new
// handle for the same server. Comparing handles with == then lets a request to the player's current
// server pass the "already connected" check and dial a second backend connection.
func checkServerEquality(c *Ctx, scope []*ssa.Function) {
	nEq, nCall := 0, 0
	for _, fn := range scope {
		eachInstr(fn, func(in ssa.Instruction) {
			switch x := in.(type) {
			case *ssa.BinOp:
				if x.Op != token.EQL && x.Op != token.NEQ {
					return
				}
				isRS := func(v ssa.Value) bool {
					return strings.HasSuffix(v.Type().String(), "java/proxy.RegisteredServer") && !isNilConst(strip(v))
				}
				if isRS(x.X) && isRS(x.Y) {
					nEq++
					c.Check("server-equality", "RegisteredServer==@"+shortName(fn), in, false,
						"two RegisteredServer values are compared by handle identity; every other site uses RegisteredServerEqual (name and address): after a server is re-registered its new handle differs, so a request to the player's current server is no longer recognised as such")
				}
			case *ssa.Call:
				if strings.HasSuffix(calleeName(&x.Call), "proxy.RegisteredServerEqual") {
					nCall++
				}
			}
		})
	}
	c.CheckAt("server-equality", "RegisteredServerEqual-sites", pkgProxy, nCall >= 2 && nEq == 0, "server identity is decided by RegisteredServerEqual at every site (vacuity floor: the comparator must be in use)")
}
