package main

import (
	"fmt"
	"go/token"
	"strings"

	"golang.org/x/tools/go/ssa"
)

const pkgGate = "pkg/gate"

func init() {
	register(&propDef{
		ID:       "C35",
		Title:    "Live config changes are atomic, validated and versioned by content",
		Patterns: []string{"./pkg/gate", "./pkg/edition/java/proxy"},
		Run:      runC35,
		Rule: "P4: every Gate.currentConfig.Store / Proxy.currentCfg.Store after construction holds reloadMu / liveConfigMu; P2: the store in applyLiveConfigLocked is dominated by " +
			"candidate != nil, Validate() without errors, onlyLiveLiteRoutesChanged true and javaProxy.ApplyLiveConfig err == nil; the conditional apply compares the version of the " +
			"snapshot loaded under the same lock with the caller's expected version and applies only on the equal edge; all callers of applyLiveConfigLocked hold the lock; " +
			"P5 whole-scope: no store/map-update/delete through memory reachable from a pointer obtained by currentConfig.Load()/currentCfg.Load() (immutable snapshots, " +
			"followed through parameters, returns and shallow struct copies); the API handler rejects an empty if_match before calling ApplyLiveConfigIfVersion and never calls " +
			"the unconditional apply; configVersion depends only on its argument.",
		Explanation: "Decides: serialisation of publish, validation/narrowness gates dominating the publish, compare-and-swap shape of the conditional apply, immutability of published " +
			"snapshots (nobody mutates a published config in place, so every reader sees one complete accepted candidate), API precondition. " +
			"Does not decide: that JSON/SHA-256 equality equals semantic equality of configurations, nor what Validate accepts (C37).",
		Fixtures: []string{"lockset", "guardcut", "provenance"},
		Variants: []Variant{
			{Name: "publish-before-validate", File: pkgGate + "/gate.go",
				Old:    "\tif _, errs := candidate.Validate(); len(errs) != 0 {\n\t\treturn LiveConfigResult{Code: \"invalid\"}\n\t}\n\tif !onlyLiveLiteRoutesChanged",
				New:    "\tif !onlyLiveLiteRoutesChanged",
				Expect: "publish-gated:Validate"},
			{Name: "cas-outside-lock", File: pkgGate + "/gate.go",
				Old:    "func (g *Gate) ApplyLiveConfigIfVersion(candidate *config.Config, expectedVersion string) LiveConfigResult {\n\tg.reloadMu.Lock()\n\tdefer g.reloadMu.Unlock()\n\n\tversion, err := configVersion(g.currentConfig.Load())",
				New:    "func (g *Gate) ApplyLiveConfigIfVersion(candidate *config.Config, expectedVersion string) LiveConfigResult {\n\tversion, err := configVersion(g.currentConfig.Load())\n\tg.reloadMu.Lock()\n\tdefer g.reloadMu.Unlock()\n",
				Expect: "cas:"},
			{Name: "mutate-snapshot-in-place", File: pkgGate + "/gate.go",
				Old:    "\tpublished := *current\n\tpublished.Config = current.Config",
				New:    "\tcurrent.Config.Lite.Routes = routes\n\tpublished := *current\n\tpublished.Config = current.Config",
				Expect: "immutable-snapshot:"},
			{Name: "proxy-mutates-config", File: pkgProxy + "/proxy.go",
				Old:    "func (p *Proxy) configSnapshot() (*config.Config, uint64) {\n\tif current := p.currentCfg.Load(); current != nil {",
				New:    "func (p *Proxy) configSnapshot() (*config.Config, uint64) {\n\tif current := p.currentCfg.Load(); current != nil {\n\t\tcurrent.cfg.Lite.Routes = nil",
				Expect: "immutable-snapshot:"},
			{Name: "api-unconditional", File: pkgGate + "/api_handlers.go",
				Old: "result := h.gate.ApplyLiveConfigIfVersion(candidate, req.GetIfMatch())", New: "result := h.gate.ApplyLiveConfig(candidate)", Expect: "api-"},
			{Name: "proxy-publish-unlocked", File: pkgProxy + "/proxy.go",
				Old:    "func (p *Proxy) ApplyLiveConfig(candidate *config.Config) error {\n\tp.liveConfigMu.Lock()\n\tdefer p.liveConfigMu.Unlock()\n",
				New:    "func (p *Proxy) ApplyLiveConfig(candidate *config.Config) error {\n",
				Expect: "publish-locked:"},
		},
	})
}

func runC35(c *Ctx) {
	gateFns := c.P.Funcs(Mod + "/" + pkgGate)
	proxyFns := c.P.Funcs(Mod + "/" + pkgProxy)
	// restrict gate scope to the package itself (not pkg/gate/config etc. that share the prefix)
	var gf []*ssa.Function
	for _, f := range gateFns {
		if fnPkgPath(f) == Mod+"/"+pkgGate {
			gf = append(gf, f)
		}
	}
	gateFns = gf
	lcG := NewLockCtx(c.P, gateFns)
	lcP := NewLockCtx(c.P, proxyFns)

	isStoreOn := func(cc *ssa.CallCommon, field string) bool {
		if cc.IsInvoke() || len(cc.Args) == 0 {
			return false
		}
		f := staticCallee(cc)
		return f != nil && (f.Name() == "Store" || f.Name() == "Swap" || f.Name() == "CompareAndSwap") && strings.HasSuffix(PathOf(cc.Args[0]), "."+field)
	}
	// (1) publishes are serialised
	type pub struct {
		fns         []*ssa.Function
		lc          *LockCtx
		field, lock string
	}
	nPub := 0
	for _, p := range []pub{{gateFns, lcG, "currentConfig", "reloadMu"}, {proxyFns, lcP, "currentCfg", "liveConfigMu"}} {
		for _, fn := range p.fns {
			for _, ci := range callsIn(fn, func(n string, cc *ssa.CallCommon) bool { return isStoreOn(cc, p.field) }) {
				recv := ci.Common().Args[0]
				base := recv
				if fa, ok := recv.(*ssa.FieldAddr); ok {
					base = fa.X
				}
				if freshBase(base) || isConstructor(fn) {
					c.Check("publish-locked", fmt.Sprintf("%s.Store@%s(constructor)", p.field, shortName(fn)), ci, true, "")
					continue
				}
				nPub++
				c.Analysed(fn)
				want := strings.TrimSuffix(PathOf(recv), "."+p.field) + "." + p.lock
				held := p.lc.At(ci)
				c.Check("publish-locked", fmt.Sprintf("%s.Store@%s", p.field, shortName(fn)), ci, held[want] == 'W',
					fmt.Sprintf("publishing a configuration snapshot must hold %s; held: %s", want, held))
			}
		}
	}
	if nPub < 2 {
		c.Undecided("publish-locked", "sites", fmt.Sprintf("expected ≥2 publish sites after construction, found %d", nPub))
	}

	// (2) gates dominating the publish in applyLiveConfigLocked
	if al := c.MustFunc(pkgGate + ":(*Gate).applyLiveConfigLocked"); al != nil {
		for _, ci := range callsIn(al, func(n string, cc *ssa.CallCommon) bool { return isStoreOn(cc, "currentConfig") }) {
			gates := []struct {
				name string
				pred EdgePred
			}{
				{"candidate!=nil", func(e Edge, cond ssa.Value, truth bool) bool {
					v, isNil, ok := nilCmp(cond, truth)
					if !ok || isNil {
						return false
					}
					p, isP := strip(v).(*ssa.Parameter)
					return isP && p.Name() == "candidate"
				}},
				{"Validate-no-errors", func(e Edge, cond ssa.Value, truth bool) bool {
					bo, ok := cond.(*ssa.BinOp)
					if !ok {
						return false
					}
					isLenErrs := func(v ssa.Value) bool {
						call, ok := v.(*ssa.Call)
						if !ok {
							return false
						}
						b, ok := call.Call.Value.(*ssa.Builtin)
						if !ok || b.Name() != "len" {
							return false
						}
						ex, ok := call.Call.Args[0].(*ssa.Extract)
						if !ok || ex.Index != 1 {
							return false
						}
						vc, ok := ex.Tuple.(*ssa.Call)
						return ok && methodName(&vc.Call) == "Validate" && strings.HasSuffix(PathOf(vc.Call.Args[0]), "candidate")
					}
					if !isLenErrs(bo.X) {
						return false
					}
					k, ok := constInt(bo.Y)
					if !ok || k != 0 {
						return false
					}
					switch bo.Op {
					case token.NEQ, token.GTR:
						return !truth
					case token.EQL, token.LEQ:
						return truth
					}
					return false
				}},
				{"onlyLiveLiteRoutesChanged", func(e Edge, cond ssa.Value, truth bool) bool {
					return boolCallEdge(cond, truth, true, callSuffix("gate.onlyLiveLiteRoutesChanged"))
				}},
				{"javaProxy.ApplyLiveConfig-ok", func(e Edge, cond ssa.Value, truth bool) bool {
					return errNilEdge(cond, truth, callSuffix("proxy.Proxy).ApplyLiveConfig"))
				}},
			}
			for _, g := range gates {
				ok, n := MustCross(ci, g.pred)
				c.Check("publish-gated", g.name+"@applyLiveConfigLocked", ci, ok && n > 0,
					"the snapshot is published on a path that did not pass this gate (an invalid or restart-requiring candidate could become the running configuration)")
			}
			// what is published: current's copy with the candidate's cloned routes
			stored := ci.Common().Args[1]
			fromCurrent := derivesFrom(stored, 8, func(v ssa.Value) bool {
				call, ok := v.(*ssa.Call)
				return ok && atomicLoadOn("currentConfig")(&call.Call)
			})
			routesFromCandidate := derivesFrom(stored, 10, func(v ssa.Value) bool {
				call := callValue(v)
				return call != nil && strings.HasSuffix(calleeName(&call.Call), "gate.cloneLiveLiteRoutes") && strings.Contains(PathOf(call.Call.Args[0]), "candidate")
			})
			checkDeepClone(c, "publish-owned", c.MustFunc("pkg/gate:cloneLiveLiteRoutes"))
			c.Check("publish-content", "current+candidate-routes@applyLiveConfigLocked", ci, fromCurrent && routesFromCandidate,
				"the published snapshot must be a copy of the current one with a private clone of the candidate's routes")
		}
		// all callers hold the lock
		n := 0
		for _, cs := range lcG.Callers[al] {
			n++
			held := lcG.At(cs.Instr)
			c.Check("apply-callers-locked", "applyLiveConfigLocked@"+shortName(cs.Caller), cs.Instr, held["g.reloadMu"] == 'W',
				"applyLiveConfigLocked must be called with reloadMu held")
		}
		c.Floor("apply-callers-locked", 2)
	}

	// (3) compare-and-swap shape
	if cv := c.MustFunc(pkgGate + ":(*Gate).ApplyLiveConfigIfVersion"); cv != nil {
		for _, ci := range callsIn(cv, func(n string, cc *ssa.CallCommon) bool {
			return strings.HasSuffix(n, "Gate).applyLiveConfigLocked") || strings.HasSuffix(n, "Gate).ApplyLiveConfig")
		}) {
			var loadInstr ssa.Instruction
			ok, n := MustCross(ci, func(e Edge, cond ssa.Value, truth bool) bool {
				bo, ok := cond.(*ssa.BinOp)
				if !ok || (bo.Op != token.NEQ && bo.Op != token.EQL) {
					return false
				}
				if (bo.Op == token.EQL) != truth {
					return false
				}
				isVer := func(v ssa.Value) bool {
					cl := callValue(v)
					if cl == nil || !strings.HasSuffix(calleeName(&cl.Call), "gate.configVersion") {
						return false
					}
					ld, ok := cl.Call.Args[0].(*ssa.Call)
					if ok && atomicLoadOn("currentConfig")(&ld.Call) {
						loadInstr = ld
						return true
					}
					return false
				}
				isExp := func(v ssa.Value) bool { p, ok := v.(*ssa.Parameter); return ok && p.Name() != "candidate" }
				return (isVer(bo.X) && isExp(bo.Y)) || (isVer(bo.Y) && isExp(bo.X))
			})
			good := ok && n > 0 && loadInstr != nil
			detail := "the conditional apply must be dominated by configVersion(currentConfig.Load()) == expectedVersion"
			if good {
				if lcG.At(loadInstr)["g.reloadMu"] != 'W' || lcG.At(ci)["g.reloadMu"] != 'W' {
					good = false
					detail = "the version read and the apply are not inside one reloadMu critical section (compare-and-swap is not atomic)"
				}
			}
			c.Check("cas", "version-check+apply@ApplyLiveConfigIfVersion", ci, good, detail)
		}
		c.Floor("cas", 1)
	}

	// (4) proxy-level gates
	if pa := c.MustFunc(pkgProxy + ":(*Proxy).ApplyLiveConfig"); pa != nil {
		for _, ci := range callsIn(pa, func(n string, cc *ssa.CallCommon) bool { return isStoreOn(cc, "currentCfg") }) {
			ok1, n1 := MustCross(ci, func(e Edge, cond ssa.Value, truth bool) bool {
				// len(errs) != 0 false edge of candidate.Validate()
				bo, ok := cond.(*ssa.BinOp)
				if !ok || truth != (bo.Op == token.EQL) {
					return false
				}
				return derivesFrom(bo.X, 3, func(v ssa.Value) bool {
					cl, ok := v.(*ssa.Call)
					return ok && methodName(&cl.Call) == "Validate"
				})
			})
			c.Check("publish-gated", "Validate-no-errors@Proxy.ApplyLiveConfig", ci, ok1 && n1 > 0, "the Java proxy publishes a configuration that did not pass Validate")
			// routes-only: second DeepEqual (on the copies without routes) must be true
			ok2, n2 := MustCross(ci, func(e Edge, cond ssa.Value, truth bool) bool {
				if !truth {
					return false
				}
				cl := callValue(cond)
				if cl == nil || !strings.HasSuffix(calleeName(&cl.Call), "reflect.DeepEqual") {
					return false
				}
				// operands are local copies (allocs), not the snapshots themselves
				a0 := origins(cl.Call.Args[0], 2)
				_, isAlloc := strip(a0[0]).(*ssa.Alloc)
				_, isLoad := strip(a0[0]).(*ssa.UnOp)
				return isAlloc || isLoad
			})
			c.Check("publish-gated", "routes-only@Proxy.ApplyLiveConfig", ci, ok2 && n2 > 0, "the Java proxy publishes a candidate that differs in more than Lite routes")
		}
	}

	// (5) immutable snapshots
	scope := append(append([]*ssa.Function{}, gateFns...), proxyFns...)
	if c.P.Whole {
		scope = c.P.ModFuncs()
	}
	sa := runSnapshotAnalysis(scope, atomicLoadOn("currentConfig", "currentCfg"))
	c.Info["snapshot_sources"] = sa.Sources
	c.Info["snapshot_functions_touched"] = len(sa.FnsTouched)
	for fn := range sa.FnsTouched {
		c.Analysed(fn)
	}
	for _, fn := range scope {
		if !sa.FnsTouched[fn] {
			continue
		}
		var mine []SnapWrite
		for _, w := range sa.sortedWrites() {
			if w.Fn == fn {
				mine = append(mine, w)
			}
		}
		if len(mine) == 0 {
			c.CheckAt("immutable-snapshot", shortName(fn), c.P.Pos(fn.Pos()), true, "")
			continue
		}
		for _, w := range mine {
			c.Check("immutable-snapshot", shortName(fn), w.At, false,
				"write through memory reachable from a published configuration snapshot ("+w.What+"): readers concurrently see a half-modified configuration")
		}
	}
	c.Floor("immutable-snapshot", 20)

	// (6) API handler
	if ah := c.MustFunc(pkgGate + ":(*ConfigHandlerImpl).ApplyConfig"); ah != nil {
		n := 0
		for _, ci := range callsIn(ah, func(nm string, cc *ssa.CallCommon) bool {
			return strings.HasSuffix(nm, "Gate).ApplyLiveConfigIfVersion")
		}) {
			n++
			isIfMatch := func(v ssa.Value) bool {
				cl, ok := v.(*ssa.Call)
				return ok && methodName(&cl.Call) == "GetIfMatch"
			}
			ok, ns := MustCross(ci, func(e Edge, cond ssa.Value, truth bool) bool {
				bo, ok := cond.(*ssa.BinOp)
				if !ok || (bo.Op != token.EQL && bo.Op != token.NEQ) {
					return false
				}
				s, isS := constString(bo.Y)
				if !isIfMatch(bo.X) || !isS || s != "" {
					return false
				}
				return (bo.Op == token.NEQ) == truth
			})
			c.Check("api-if-match-required", "ApplyLiveConfigIfVersion@ApplyConfig", ci, ok && ns > 0, "the API applies a configuration without requiring a non-empty if_match")
			c.Check("api-if-match-passed", "ApplyLiveConfigIfVersion@ApplyConfig", ci, isIfMatch(ci.Common().Args[2]), "the expected version passed to the conditional apply must be the request's if_match")
		}
		if n == 0 {
			c.Check("api-conditional", "ApplyConfig", nil, false, "the API handler no longer applies through ApplyLiveConfigIfVersion")
		}
	}
	for _, fn := range gateFns {
		if !strings.Contains(shortName(fn), "ConfigHandlerImpl") {
			continue
		}
		for _, ci := range callsIn(fn, func(nm string, cc *ssa.CallCommon) bool { return strings.HasSuffix(nm, "Gate).ApplyLiveConfig") }) {
			c.Check("api-conditional", "ApplyLiveConfig@"+shortName(fn), ci, false, "API handlers must use the conditional apply (if_match), not the unconditional one")
		}
	}

	// (7) version is a function of content
	if cv := c.MustFunc(pkgGate + ":configVersion"); cv != nil {
		pure := true
		var why string
		eachInstr(cv, func(in ssa.Instruction) {
			if cc := callOf(in); cc != nil {
				n := calleeName(cc)
				for _, bad := range []string{"time.", "math/rand", "crypto/rand", "os.", "runtime."} {
					if strings.HasPrefix(n, bad) || strings.Contains(n, "/"+bad) {
						pure, why = false, n
					}
				}
			}
			if ld, ok := in.(*ssa.UnOp); ok && ld.Op == token.MUL {
				if _, isG := ld.X.(*ssa.Global); isG {
					pure, why = false, "reads global "+ld.X.Name()
				}
			}
		})
		dep := false
		for _, r := range returnsOf(cv) {
			if len(r.Results) > 0 && derivesFrom(r.Results[0], 12, func(v ssa.Value) bool { return len(cv.Params) > 0 && v == cv.Params[0] }) {
				dep = true
			}
		}
		c.CheckAt("version-by-content", "configVersion", c.P.Pos(cv.Pos()), pure && dep, "configVersion must depend only on the configuration content ("+why+")")
	}
}

func isConstructor(fn *ssa.Function) bool {
	n := fn.Name()
	return strings.HasPrefix(n, "New") || strings.HasPrefix(n, "new") || n == "init"
}
