package main

import (
	"fmt"
	"strings"

	"golang.org/x/tools/go/ssa"
)

// checkPoolHandsOutEmpty: the frame encoder builds a relayed frame (size prefix + deflated or raw
// payload) by appending to a scratch buffer it takes from the buffer pool, and sends the buffer's
// whole content. That is only the frame if the buffer it was handed is empty: a pooled buffer must
// have been Reset before it was put back, and a freshly allocated one must have length 0 (capacity is
// free). `bytes.NewBuffer(make([]byte, n))` — len n instead of cap n — prepends n zero bytes to every
// frame built in it, and only once the pool has calibrated a non-zero default size.
func checkPoolHandsOutEmpty(c *Ctx, rule string) {
	const pkgPool = "pkg/internal/bufpool"
	get := c.MustFunc(pkgPool + ":(*Pool).Get")
	if get == nil {
		return
	}
	c.Analysed(get)
	n := 0
	fromPool := false
	for _, r := range successReturns(get) {
		if len(r.Results) != 1 {
			continue
		}
		for _, o := range origins(retVal(r, 0), 5) {
			o = strip(o)
			switch x := o.(type) {
			case *ssa.Call:
				nm := calleeName(&x.Call)
				switch {
				case nm == "bytes.NewBuffer":
					n++
					ok, how := false, "its argument is not a fresh slice"
					if isNilConst(x.Call.Args[0]) {
						ok = true
					}
					if ms, isMS := strip(x.Call.Args[0]).(*ssa.MakeSlice); isMS {
						k, isK := constInt(ms.Len)
						ok, how = isK && k == 0, fmt.Sprintf("the slice is made with length %s", ms.Len)
						if ok {
							how = ""
						}
					}
					c.Check(rule, "fresh-buffer-empty@(*Pool).Get", x, ok,
						"a buffer allocated on a pool miss must start empty (make([]byte, 0, n)): "+how+" — its content is sent in front of every frame built in it")
				case nm == "bytes.NewBufferString":
					n++
					s, isS := constString(x.Call.Args[0])
					c.Check(rule, "fresh-buffer-empty@(*Pool).Get", x, isS && s == "", "a buffer allocated on a pool miss must start empty")
				case strings.HasSuffix(nm, "sync.Pool).Get"):
					fromPool = true
				}
			case *ssa.Alloc:
				if typeIs(x.Type(), "bytes", "Buffer") {
					n++
					c.Check(rule, "fresh-buffer-empty@(*Pool).Get", x, true, "")
				}
			case *ssa.TypeAssert:
				if cl := callValue(x.X); cl != nil && strings.HasSuffix(calleeName(&cl.Call), "sync.Pool).Get") {
					fromPool = true
				}
			case *ssa.Extract:
				if ta, ok := x.Tuple.(*ssa.TypeAssert); ok {
					if cl := callValue(ta.X); cl != nil && strings.HasSuffix(calleeName(&cl.Call), "sync.Pool).Get") {
						fromPool = true
					}
				}
			}
		}
	}
	if n == 0 {
		c.Undecided(rule, "fresh-buffer-empty@(*Pool).Get", "no allocation of a fresh buffer recognised in Get")
	}
	if !fromPool {
		return
	}
	// every buffer that enters the sync.Pool was Reset first (or Get resets what it takes out)
	resetInGet := false
	eachInstr(get, func(in ssa.Instruction) {
		if cc := callOf(in); cc != nil && calleeName(cc) == "(*bytes.Buffer).Reset" {
			resetInGet = true
		}
	})
	nPut := 0
	for _, fn := range c.P.Funcs(Mod + "/" + pkgPool) {
		for _, ci := range callsIn(fn, func(nm string, cc *ssa.CallCommon) bool { return strings.HasSuffix(nm, "sync.Pool).Put") }) {
			nPut++
			c.Analysed(fn)
			buf := strip(ci.Common().Args[1])
			ok := resetInGet
			for _, rc := range callsIn(fn, func(nm string, cc *ssa.CallCommon) bool { return nm == "(*bytes.Buffer).Reset" }) {
				if strip(rc.Common().Args[0]) == buf && domBefore(rc, ci) {
					ok = true
				}
			}
			c.Check(rule, "reset-before-put@"+shortName(fn), ci, ok,
				"a buffer goes back into the pool without Reset(): the next frame built in it starts with the previous one's bytes")
		}
	}
	if nPut == 0 {
		c.Undecided(rule, "reset-before-put", "Get takes buffers from a sync.Pool nothing puts into")
	}
}
