package main

import (
	"strings"

	"golang.org/x/tools/go/ssa"
)

// Buffer aliasing. (*bytes.Buffer).Bytes() returns the buffer's backing array, not a copy. A slice
// obtained this way may outlive the function only if the buffer itself is fresh (allocated in the
// function and not handed back to a pool): a buffer kept in a struct field and Reset per call, or one
// returned to a pool with Put, is overwritten by the next user while the escaped slice is still in use
// (queued in a packet, captured by a sender goroutine) — the bytes that reach the peer are then the
// next request's, not this one's.

type bufEscape struct {
	At   ssa.Instruction
	Kind string // "pooled" | "field"
	How  string
}

func reusedBufferEscapes(fn *ssa.Function) (found []bufEscape, nBytes int) {
	classify := func(b ssa.Value) string {
		b = seeThrough(b)
		switch x := b.(type) {
		case *ssa.Alloc:
			return "fresh"
		case *ssa.Call:
			n := calleeName(&x.Call)
			if strings.Contains(n, "bufpool") && strings.HasSuffix(n, "Get") {
				return "pooled"
			}
			if strings.HasPrefix(n, "bytes.NewBuffer") {
				return "fresh"
			}
		case *ssa.TypeAssert:
			if cl, ok := x.X.(*ssa.Call); ok && strings.HasSuffix(calleeName(&cl.Call), "sync.Pool).Get") {
				return "pooled"
			}
		case *ssa.Extract:
			if ta, ok := x.Tuple.(*ssa.TypeAssert); ok {
				if cl, ok := ta.X.(*ssa.Call); ok && strings.HasSuffix(calleeName(&cl.Call), "sync.Pool).Get") {
					return "pooled"
				}
			}
		case *ssa.UnOp:
			if fa, ok := x.X.(*ssa.FieldAddr); ok {
				if !freshBase(fa.X) {
					return "field"
				}
			}
		case *ssa.FieldAddr: // embedded bytes.Buffer value field: &r.fwd
			if !freshBase(x.X) {
				return "field"
			}
		}
		return "other"
	}
	putBack := func(b ssa.Value) bool {
		b = seeThrough(b)
		done := false
		eachInstr(fn, func(in ssa.Instruction) {
			cc := callOf(in)
			if cc == nil {
				return
			}
			n := calleeName(cc)
			if !(strings.HasSuffix(n, "Put") && (strings.Contains(n, "bufpool") || strings.Contains(n, "sync.Pool"))) {
				return
			}
			for _, a := range cc.Args {
				if seeThrough(a) == b {
					done = true
				}
			}
		})
		return done
	}
	for _, ci := range callsIn(fn, func(nm string, cc *ssa.CallCommon) bool { return nm == "(*bytes.Buffer).Bytes" || nm == "(*bytes.Buffer).Next" }) {
		nBytes++
		v, isV := ci.(ssa.Value)
		if !isV {
			continue
		}
		kind := classify(ci.Common().Args[0])
		if kind == "pooled" && !putBack(ci.Common().Args[0]) {
			continue
		}
		if kind != "pooled" && kind != "field" {
			continue
		}
		// does the slice escape?
		seen := map[ssa.Value]bool{}
		var escapes func(x ssa.Value) (bool, ssa.Instruction, string)
		escapes = func(x ssa.Value) (bool, ssa.Instruction, string) {
			if seen[x] || x.Referrers() == nil {
				return false, nil, ""
			}
			seen[x] = true
			for _, r := range *x.Referrers() {
				switch u := r.(type) {
				case *ssa.Return:
					return true, u, "returned"
				case *ssa.Store:
					if u.Val != x {
						continue
					}
					base := u.Addr
					if fa, ok := base.(*ssa.FieldAddr); ok {
						if !freshBase(fa.X) {
							return true, u, "stored into " + PathOf(fa)
						}
						// field of a fresh struct: follow the struct
						if al, ok := fa.X.(*ssa.Alloc); ok {
							if e, at, how := escapes(al); e {
								return e, at, how
							}
						}
						continue
					}
					if al, ok := base.(*ssa.Alloc); ok {
						if e, at, how := escapes(al); e {
							return e, at, how
						}
					}
				case *ssa.Go:
					return true, u, "passed to a goroutine"
				case *ssa.MakeClosure:
					return true, u, "captured by a closure"
				case *ssa.Slice, *ssa.ChangeType, *ssa.Convert, *ssa.MakeInterface, *ssa.Phi:
					if _, isConv := u.(*ssa.Convert); isConv && u.(*ssa.Convert).Type().String() == "string" {
						continue // string(b) copies
					}
					if e, at, how := escapes(u.(ssa.Value)); e {
						return e, at, how
					}
				case *ssa.UnOp:
					if e, at, how := escapes(u); e {
						return e, at, how
					}
				}
			}
			return false, nil, ""
		}
		if e, at, how := escapes(v); e {
			found = append(found, bufEscape{at, kind, how})
		}
	}
	return
}

func checkNoReusedBufferEscape(c *Ctx, rule string, scope []*ssa.Function, floor int) {
	n := 0
	for _, fn := range scope {
		esc, nb := reusedBufferEscapes(fn)
		n += nb
		for _, e := range esc {
			what := "a buffer that is handed back to a pool in this function"
			if e.Kind == "field" {
				what = "a buffer kept in a struct field and reused by the next call"
			}
			c.Check(rule, "Bytes()-alias@"+shortName(fn), e.At, false,
				"the backing array of "+what+" escapes ("+e.How+"): the bytes are overwritten by the next user while this packet is still queued or being sent, so the peer receives another request's bytes")
		}
	}
	c.CheckAt(rule, "scanned", "bytes.Buffer.Bytes() sites", n >= floor, "expected at least the known Bytes() sites to be analysed")
}
