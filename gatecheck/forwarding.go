package main

import (
	"strings"

	"golang.org/x/tools/go/ssa"
)

// forwardsTo widens a call matcher to thin wrappers: a module function all of whose returns hand
// back, position by position, the results of one call that m accepts (possibly through a further
// wrapper). Extracting `held, err := c.holdPlayPacket(p)` from `queued, err := q.Queue(p)` must not
// change what a rule sees.
func forwardsTo(m func(*ssa.Call) bool) func(*ssa.Call) bool {
	var rec func(c *ssa.Call, depth int) bool
	rec = func(c *ssa.Call, depth int) bool {
		if m(c) {
			return true
		}
		if depth == 0 || c.Call.IsInvoke() {
			return false
		}
		f := staticCallee(&c.Call)
		if f == nil || f.Blocks == nil || !strings.HasPrefix(fnPkgPath(f), Mod) {
			return false
		}
		n := f.Signature.Results().Len()
		if n == 0 {
			return false
		}
		var inner *ssa.Call
		for _, r := range returnsOf(f) {
			if r.Block() == f.Recover || len(r.Results) != n {
				continue
			}
			for k := 0; k < n; k++ {
				v := seeThrough(retVal(r, k))
				var src *ssa.Call
				switch x := v.(type) {
				case *ssa.Extract:
					if x.Index != k {
						return false
					}
					src, _ = x.Tuple.(*ssa.Call)
				case *ssa.Call:
					if n != 1 {
						return false
					}
					src = x
				}
				if src == nil {
					return false
				}
				if inner == nil {
					inner = src
				} else if inner != src {
					return false
				}
			}
		}
		return inner != nil && rec(inner, depth-1)
	}
	return func(c *ssa.Call) bool { return rec(c, 2) }
}
