package main

import (
	"fmt"
	"go/token"
	"sort"
	"strings"

	"golang.org/x/tools/go/ssa"
)

func init() {
	register(&propDef{
		ID:    "C05",
		Title: "Decoding untrusted packets never crashes or blows up memory",
		Patterns: []string{"./pkg/edition/java/proto/...", "./pkg/edition/java/proxy/crypto", "./pkg/edition/java/profile", "./pkg/gate/proto",
			"./pkg/edition/java/lite", "./pkg/edition/java/netmc"},
		Run: runC05,
		Rule: "(1) bounded allocation: in every function statically reachable from a packet type's Decode method or from codec.Decoder.Decode (static callees, plus same-named methods for " +
			"interface dispatch), every make whose size is data-dependent on a value read from the stream has a dominating lower bound >= 0 and an upper bound (constant, parameter, " +
			"narrow unsigned type, or the min(n, cap) idiom); (2) panic containment: every interface dispatch of proto.Packet.Decode / Encode in the module happens inside a function whose " +
			"defer chain recovers (util.RecoverFunc closure or deferred util.Recover / recover); (3) util.Recover re-panics non-error values, so no decode-reachable function may panic " +
			"with a non-error value; (4) the frame decoder itself is only driven from the connection read loop (recovering) or from the Lite status fetch whose decode is the recovering decodePayload.",
		Explanation: "Decides: no stream-controlled unbounded allocation before data is read, handler/decoder panics are converted to errors, no unrecoverable string panics on decode paths. " +
			"Does not decide: CPU time / hangs, recursion depth inside third-party decoders (go-mc NBT, JSON) — stack exhaustion is not recoverable and outside what the call graph can bound.",
		Fixtures: []string{"bounds", "guardcut"},
		Variants: []Variant{
			{Name: "links-cap-removed", File: pkgPacket + "/serverlinks.go",
				Old:    "\tif serverLinksCount > maxServerLinks {\n\t\treturn fmt.Errorf(\"too many server links (attempted %d, max %d)\", serverLinksCount, maxServerLinks)\n\t}\n",
				New:    "\t_ = maxServerLinks\n",
				Expect: "alloc-bounded"},
			{Name: "decode-outside-recover", File: pkgCodec + "/decoder.go",
				Old:    "\terr = util.RecoverFunc(func() error {\n\t\treturn ctx.Packet.Decode(ctx, payload)\n\t})",
				New:    "\terr = ctx.Packet.Decode(ctx, payload)",
				Expect: "decode-recovers"},
			{Name: "recover-lets-runtime-errors-through", File: "pkg/edition/java/proto/util/pwriter.go",
				Old: "\t\tif e, ok := r.(error); ok {\n\t\t\t*err = e\n\t\t} else {", New: "\t\tif e, ok := r.(error); ok && e.Error() != \"\" {\n\t\t\t*err = e\n\t\t} else {", Expect: "recover-converts-errors"},
			{Name: "string-panic-in-decoder", File: pkgPacket + "/serverlinks.go",
				Old:    "\tif serverLinksCount < 0 {\n\t\treturn fmt.Errorf(\"server links count %d cannot be negative\", serverLinksCount)\n\t}",
				New:    "\tif serverLinksCount < 0 {\n\t\tpanic(\"server links count cannot be negative\")\n\t}",
				Expect: "non-error-panic"},
		},
	})
}

// decodeReachable computes the functions reachable from the Decode roots.
func decodeReachable(P *Program) (map[*ssa.Function]bool, int) {
	mods := P.ModFuncs()
	byMethod := map[string][]*ssa.Function{}
	for _, f := range mods {
		if f.Signature.Recv() != nil && f.Parent() == nil {
			byMethod[f.Name()] = append(byMethod[f.Name()], f)
		}
	}
	reach := map[*ssa.Function]bool{}
	var work []*ssa.Function
	add := func(f *ssa.Function) {
		if f == nil || f.Blocks == nil || reach[f] || !strings.HasPrefix(fnPkgPath(f), Mod) {
			return
		}
		reach[f] = true
		work = append(work, f)
	}
	roots := 0
	for _, p := range codecPairs(P) {
		if p[1] != nil {
			add(p[1])
			roots++
		}
	}
	if d := P.Func(pkgCodec + ":(*Decoder).Decode"); d != nil {
		add(d)
		roots++
	}
	for len(work) > 0 {
		f := work[len(work)-1]
		work = work[:len(work)-1]
		for _, a := range f.AnonFuncs {
			add(a)
		}
		eachInstr(f, func(in ssa.Instruction) {
			cc := callOf(in)
			if cc == nil {
				return
			}
			if g := staticCallee(cc); g != nil {
				add(origin(g))
				add(g)
				return
			}
			if cc.IsInvoke() {
				// interface dispatch: same-named module methods that also take a reader (decode side)
				for _, g := range byMethod[cc.Method.Name()] {
					n := cc.Method.Name()
					if n == "Decode" || strings.HasPrefix(n, "Read") || strings.HasPrefix(n, "read") || strings.HasPrefix(n, "Unmarshal") {
						add(g)
					}
				}
			}
		})
	}
	return reach, roots
}

func runC05(c *Ctx) {
	reach, roots := decodeReachable(c.P)
	c.Info["decode_roots"] = roots
	c.Info["decode_reachable_functions"] = len(reach)
	if roots < 60 {
		c.Undecided("alloc-bounded", "roots", fmt.Sprintf("expected ≥60 Decode roots, found %d", roots))
	}
	var fns []*ssa.Function
	for f := range reach {
		fns = append(fns, f)
	}
	sort.Slice(fns, func(i, j int) bool { return fns[i].String() < fns[j].String() })

	// taint sources: values read from the stream
	isStreamRead := func(v ssa.Value) bool {
		if cl := callValue(v); cl != nil {
			if cl.Call.IsInvoke() {
				n := cl.Call.Method.Name()
				return n == "ReadByte"
			}
			f := staticCallee(&cl.Call)
			if f == nil {
				return false
			}
			pk := fnPkgPath(f)
			if strings.HasPrefix(f.Name(), "Read") && (strings.HasSuffix(pk, "proto/util") || strings.HasSuffix(pk, "encoding/binary")) {
				return true
			}
			return false
		}
		// load of a local that a panic-reader filled through a pointer: r.VarInt(&n)
		if ld, ok := v.(*ssa.UnOp); ok && ld.Op == token.MUL {
			if a, ok := ld.X.(*ssa.Alloc); ok {
				for _, r := range *a.Referrers() {
					cc := callOf(r)
					if cc == nil {
						continue
					}
					f := staticCallee(cc)
					if f == nil {
						continue
					}
					if strings.HasSuffix(fnPkgPath(f), "proto/util") && (strings.Contains(f.String(), "PReader") || strings.HasPrefix(f.Name(), "PRead") || f.Name() == "PVarInt") {
						return true
					}
				}
			}
		}
		return false
	}
	nAlloc := 0
	for _, fn := range fns {
		eachInstr(fn, func(in ssa.Instruction) {
			ms, ok := in.(*ssa.MakeSlice)
			if !ok {
				return
			}
			for _, sz := range []ssa.Value{ms.Len, ms.Cap} {
				if _, isK := constInt(sz); isK {
					continue
				}
				if !derivesFrom(sz, 6, isStreamRead) {
					continue
				}
				// len(x) of data already read is proportional to the payload
				nAlloc++
				c.Analysed(fn)
				// a negative size panics in make(), which the recovering dispatch (clause 2) turns into a
				// decode error — so only the upper bound is a necessary condition here (C03 demands the
				// lower bound for the primitive readers)
				lower, upper, how := allocBounds(ms, sz, fn)
				if !lower {
					c.Note("negative size reaches make() at %s (recovered as a decode error): %s", c.site(ms), how)
				}
				c.Check("alloc-bounded", "make@"+shortName(fn), ms, upper,
					fmt.Sprintf("allocation sized by a value read from the untrusted stream without an upper bound (%s): a hostile length prefix allocates memory out of proportion to the payload", how))
			}
		})
	}
	c.Info["stream_sized_allocations"] = nAlloc
	if nAlloc < 12 {
		c.Undecided("alloc-bounded", "coverage", fmt.Sprintf("expected ≥12 stream-sized allocations on decode paths, found %d", nAlloc))
	}

	// (2) panic containment at the dispatch sites
	recovers := func(f *ssa.Function) bool {
		r := false
		eachInstr(f, func(in ssa.Instruction) {
			d, ok := in.(*ssa.Defer)
			if !ok {
				return
			}
			if b, isB := d.Call.Value.(*ssa.Builtin); isB && b.Name() == "recover" {
				r = true
			}
			if g := staticCallee(&d.Call); g != nil {
				if strings.HasSuffix(g.String(), "proto/util.Recover") {
					r = true
				}
				eachInstr(g, func(x ssa.Instruction) {
					if cc := callOf(x); cc != nil {
						if b, isB := cc.Value.(*ssa.Builtin); isB && b.Name() == "recover" {
							r = true
						}
					}
				})
			}
		})
		return r
	}
	inRecoverFunc := func(f *ssa.Function) bool {
		// f is a closure passed to util.RecoverFunc in its parent
		par := f.Parent()
		if par == nil {
			return false
		}
		ok := false
		eachInstr(par, func(in ssa.Instruction) {
			cc := callOf(in)
			if cc == nil {
				return
			}
			g := staticCallee(cc)
			if g == nil || !strings.HasSuffix(g.String(), "proto/util.RecoverFunc") {
				return
			}
			for _, a := range cc.Args {
				if mc, isMC := a.(*ssa.MakeClosure); isMC && mc.Fn == f {
					ok = true
				}
			}
		})
		return ok
	}
	nDisp := 0
	for _, fn := range c.P.ModFuncs() {
		// the property is about the Java edition's packet pipeline; pkg/edition/bedrock/proto is an
		// unreferenced experimental decoder (no importer in the module) and not part of it
		if pp := fnPkgPath(fn); !strings.HasPrefix(pp, Mod+"/pkg/edition/java") && !strings.HasPrefix(pp, Mod+"/pkg/gate") {
			continue
		}
		for _, ci := range callsIn(fn, func(nm string, cc *ssa.CallCommon) bool {
			return cc.IsInvoke() && (cc.Method.Name() == "Decode" || cc.Method.Name() == "Encode") && strings.HasSuffix(cc.Value.Type().String(), "gate/proto.Packet")
		}) {
			nDisp++
			c.Analysed(fn)
			ok := recovers(fn) || inRecoverFunc(fn)
			c.Check("decode-recovers", "Packet."+ci.Common().Method.Name()+"@"+shortName(fn), ci, ok,
				"a packet codec is dispatched outside a recovering frame: codecs report read errors by panicking (PReader/PWriter), and any decoder bug on hostile input would end the process instead of failing the packet")
		}
	}
	if nDisp < 2 {
		c.Undecided("decode-recovers", "dispatch", fmt.Sprintf("expected ≥2 Packet.Decode/Encode dispatch sites, found %d", nDisp))
	}
	if rc := c.MustFunc(pkgUtil + ":Recover"); rc != nil {
		// converts error panics, re-panics others
		hasRecover, hasRepanic := false, false
		eachInstr(rc, func(in ssa.Instruction) {
			if cc := callOf(in); cc != nil {
				if b, ok := cc.Value.(*ssa.Builtin); ok && b.Name() == "recover" {
					hasRecover = true
				}
			}
			if _, ok := in.(*ssa.Panic); ok {
				hasRepanic = true
			}
		})
		c.CheckAt("decode-recovers", "util.Recover", c.P.Pos(rc.Pos()), hasRecover, "util.Recover must call recover()")
		c.Info["recover_repanics_non_errors"] = hasRepanic
		checkRecoverConvertsAllErrors(c, rc)
	}

	// (3) non-error panics on decode paths
	nPanic := 0
	for _, fn := range fns {
		eachInstr(fn, func(in ssa.Instruction) {
			p, ok := in.(*ssa.Panic)
			if !ok {
				return
			}
			nPanic++
			t := strip(p.X).Type()
			isErr := isErrorType(t) || implementsError(t)
			// a re-panic of a recovered value inside util.Recover itself is the mechanism, not a source
			if strings.HasSuffix(shortName(fn), "proto/util.Recover") {
				return
			}
			c.Check("non-error-panic", "panic@"+shortName(fn), in, isErr,
				fmt.Sprintf("panic with a %s value on a decode path: util.Recover re-panics non-error values, so this ends the process instead of failing the packet", t))
		})
	}
	c.Info["panic_sites_on_decode_paths"] = nPanic

	// (3b) work-list loops on decode paths keep their no-progress bail-out alive
	nLoopFns := 0
	for _, fn := range fns {
		bad := stickyBailouts(fn)
		if len(bad) == 0 {
			continue
		}
		nLoopFns++
		for _, in := range bad {
			c.Check("bailout-alive", "no-progress-exit@"+shortName(fn), in, false,
				"this loop's only no-progress exit tests a flag that is carried across iterations and only ever set to true: after the first productive pass the exit can never fire, so an input whose remaining items cannot be processed (e.g. a redirect cycle) makes the decoder spin forever")
		}
	}
	c.CheckAt("bailout-alive", "scanned", "decode-reachable functions", true, "")

	// (4) who drives the frame decoder
	dec := c.P.Func(pkgCodec + ":(*Decoder).Decode")
	if dec != nil {
		for _, fn := range c.P.ModFuncs() {
			for _, ci := range callsIn(fn, func(nm string, cc *ssa.CallCommon) bool {
				return staticCallee(cc) == dec || (cc.IsInvoke() && cc.Method.Name() == "Decode" && strings.HasSuffix(cc.Value.Type().String(), "proto.PacketDecoder"))
			}) {
				n := shortName(fn)
				ok := strings.Contains(n, "netmc.reader).ReadPacket") || strings.Contains(n, "lite.fetchStatus") || strings.Contains(n, "lite.decodeStatusResponse") || strings.Contains(n, "codec.")
				c.Check("frame-decoder-callers", "Decode@"+n, ci, ok,
					"the frame decoder is driven from a new place; it must be confirmed that the caller survives decoder errors (known callers: connection read loop, Lite status fetch)")
			}
		}
	}
}

func implementsError(t interface{ String() string }) bool {
	s := t.String()
	return s == "error" || strings.HasSuffix(s, "Error") || strings.HasSuffix(s, "errors.errorString") || strings.HasSuffix(s, "fmt.wrapError") || strings.HasSuffix(s, "fmt.wrapErrors")
}
