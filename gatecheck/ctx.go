package main

import (
	"encoding/json"
	"fmt"
	"os"
	"path/filepath"
	"sort"
	"strings"
	"time"

	"golang.org/x/tools/go/ssa"
)

// VerifDir is where evidence and known findings live.
var VerifDir = envOr("GATECHECK_VERIF", "/verif")

// Obligation is one decided instance of a rule.
type Obligation struct {
	Key     string `json:"key"`     // rule:construct — stable, no line numbers
	Site    string `json:"site"`    // file:line (diagnostic only)
	Verdict string `json:"verdict"` // holds | violated | undecided | known-finding
	Detail  string `json:"detail,omitempty"`
}

// Ctx collects the obligations of one property run.
type Ctx struct {
	Prop   string
	Tier   string
	P      *Program
	Obl    []Obligation
	seen   map[string]int
	Notes  []string
	floors map[string]int // rule -> minimum number of instances
	counts map[string]int
	Funcs  map[string]bool // functions analysed
	Info   map[string]any  // extra evidence keys
}

func newCtx(prop, tier string, P *Program) *Ctx {
	return &Ctx{Prop: prop, Tier: tier, P: P, seen: map[string]int{}, floors: map[string]int{}, counts: map[string]int{}, Funcs: map[string]bool{}, Info: map[string]any{}}
}

// key builds "Cnn/rule:construct".
func (c *Ctx) record(rule, construct, site, verdict, detail string) {
	key := c.Prop + "/" + rule + ":" + construct
	c.seen[key]++
	if n := c.seen[key]; n > 1 {
		key = fmt.Sprintf("%s#%d", key, n)
	}
	c.counts[rule]++
	c.Obl = append(c.Obl, Obligation{Key: key, Site: site, Verdict: verdict, Detail: detail})
}

// Check records an obligation that holds iff ok.
func (c *Ctx) Check(rule, construct string, at ssa.Instruction, ok bool, detail string) bool {
	v := "holds"
	if !ok {
		v = "violated"
	}
	c.record(rule, construct, c.site(at), v, detail)
	return ok
}

// CheckAt is Check with a preformatted site.
func (c *Ctx) CheckAt(rule, construct, site string, ok bool, detail string) bool {
	v := "holds"
	if !ok {
		v = "violated"
	}
	c.record(rule, construct, site, v, detail)
	return ok
}

// Undecided records an anchor that could not be resolved or a construct the rule cannot summarise.
func (c *Ctx) Undecided(rule, construct, why string) {
	c.record(rule, construct, "?", "undecided", why)
}

// Floor demands at least n instances of rule (vacuity protection).
func (c *Ctx) Floor(rule string, n int) { c.floors[rule] = n }

func (c *Ctx) site(in ssa.Instruction) string {
	if in == nil {
		return "?"
	}
	if p := in.Pos(); p.IsValid() {
		return c.P.Pos(p)
	}
	// fall back to nearest instruction with a position in the block, then the function
	for _, x := range in.Block().Instrs {
		if x.Pos().IsValid() {
			return c.P.Pos(x.Pos()) + "~"
		}
	}
	return c.P.Pos(in.Parent().Pos()) + "~"
}

// MustFunc resolves a function anchor; unresolved anchors are undecided obligations.
func (c *Ctx) MustFunc(short string) *ssa.Function {
	fn := c.P.Func(short)
	if fn == nil {
		c.Undecided("anchor", short, "function anchor does not resolve (renamed or removed?)")
		return nil
	}
	c.Funcs[shortName(fn)] = true
	return fn
}

func (c *Ctx) Note(f string, a ...any) { c.Notes = append(c.Notes, fmt.Sprintf(f, a...)) }

// fn marks a function as analysed.
func (c *Ctx) Analysed(fns ...*ssa.Function) {
	for _, f := range fns {
		if f != nil {
			c.Funcs[shortName(f)] = true
		}
	}
}

// ---------- known findings ----------------------------------------------------------------------

type KnownFinding struct {
	Property string `json:"property"`
	Key      string `json:"key"`    // obligation key
	Status   string `json:"status"` // "known" | "fixed"
	What     string `json:"what"`
	Commit   string `json:"commit,omitempty"`
}

func loadKnown() ([]KnownFinding, error) {
	b, err := os.ReadFile(filepath.Join(VerifDir, "known_findings.json"))
	if err != nil {
		if os.IsNotExist(err) {
			return nil, nil
		}
		return nil, err
	}
	var out struct {
		Findings []KnownFinding `json:"findings"`
	}
	if err := json.Unmarshal(b, &out); err != nil {
		return nil, err
	}
	return out.Findings, nil
}

// ---------- finishing: evidence + exit code --------------------------------------------------

type propDef struct {
	ID          string
	Title       string
	Patterns    []string // package patterns for the quick tier
	Run         func(c *Ctx)
	Explanation string // clauses decided / not decided
	Rule        string
	Variants    []Variant
	Fixtures    []string // primitive self-tests that must fire
}

func (c *Ctx) finish(def *propDef, start time.Time, extra map[string]any) int {
	known, err := loadKnown()
	if err != nil {
		fmt.Printf("cannot read known_findings.json: %v\n", err)
		return 2
	}
	knownKeys := map[string]KnownFinding{}
	for _, k := range known {
		if k.Property == c.Prop && k.Status == "known" {
			knownKeys[k.Key] = k
		}
	}
	// floors
	for rule, n := range c.floors {
		if c.counts[rule] < n {
			c.record("floor", rule, "?", "violated", fmt.Sprintf("rule %s matched %d instances, floor is %d (rule would pass vacuously)", rule, c.counts[rule], n))
		}
	}
	var bad []Obligation
	nKnown := 0
	for i := range c.Obl {
		o := &c.Obl[i]
		if o.Verdict == "holds" {
			continue
		}
		if k, ok := knownKeys[o.Key]; ok && o.Verdict == "violated" {
			o.Verdict = "known-finding"
			nKnown++
			fmt.Printf("KNOWN-FINDING: property=%s %s %s\n", c.Prop, o.Key, k.What)
			continue
		}
		bad = append(bad, *o)
	}
	sort.SliceStable(bad, func(i, j int) bool { return bad[i].Key < bad[j].Key })
	for _, o := range bad {
		fmt.Printf("%s: %s: %s: %s\n", o.Site, o.Key, o.Verdict, o.Detail)
	}
	discharged := 0
	for _, o := range c.Obl {
		if o.Verdict == "holds" {
			discharged++
		}
	}
	samples := c.Obl
	if len(samples) > 400 {
		samples = samples[:400]
	}
	var fns []string
	for f := range c.Funcs {
		fns = append(fns, f)
	}
	sort.Strings(fns)
	cov := map[string]any{
		"explanation":        def.Explanation,
		"rule":               fullRule(def),
		"obligations":        len(c.Obl),
		"discharged":         discharged,
		"known_findings":     nKnown,
		"samples":            samples,
		"functions_analysed": fns,
		"n_functions":        len(fns),
		"packages":           pkgPaths(c.P),
		"floors":             c.floors,
		"rule_instances":     c.counts,
		"notes":              c.Notes,
		"exhaustive":         true,
		"checker_cmd":        fmt.Sprintf("./bin/gatecheck -prop %s -tier %s", c.Prop, c.Tier),
		"trusted_base":       []string{"go/types", "golang.org/x/tools/go/ssa v0.50.0", "gatecheck primitives"},
	}
	for k, v := range c.Info {
		cov[k] = v
	}
	for k, v := range extra {
		cov[k] = v
	}
	seed := 0
	fmt.Sscan(os.Getenv("VERIF_SEED"), &seed)
	ev := map[string]any{
		"property_id": c.Prop,
		"tier":        c.Tier,
		"seed":        seed,
		"level":       "other",
		"coverage":    cov,
		"assumptions": []string{
			"go/types and go/ssa (x/tools v0.50.0) model the program faithfully; reflection, unsafe and cgo are not followed",
			"only the structural clauses named in coverage.explanation are decided; the behavioural statement as a whole is not",
			"interface and function-value calls are resolved by static callee only unless the rule says otherwise",
		},
		"wall_s":     time.Since(start).Seconds(),
		"violations": len(bad),
	}
	os.MkdirAll(filepath.Join(VerifDir, "evidence"), 0o755)
	evp := filepath.Join(VerifDir, "evidence", c.Prop+".json")
	b, _ := json.MarshalIndent(ev, "", " ")
	if err := os.WriteFile(evp, b, 0o644); err != nil {
		fmt.Printf("cannot write evidence: %v\n", err)
		return 2
	}
	fmt.Printf("%s %s: %d obligations, %d hold, %d known findings, %d violations, %d functions, %.1fs\n",
		c.Prop, c.Tier, len(c.Obl), discharged, nKnown, len(bad), len(fns), time.Since(start).Seconds())
	if len(bad) > 0 {
		fp := filepath.Join(VerifDir, "evidence", c.Prop+".findings.json")
		fb, _ := json.MarshalIndent(map[string]any{"property_id": c.Prop, "findings": bad}, "", " ")
		os.WriteFile(fp, fb, 0o644)
		fmt.Printf("VIOLATION property=%s replay=%s\n", c.Prop, fp)
		return 1
	}
	os.Remove(filepath.Join(VerifDir, "evidence", c.Prop+".findings.json"))
	return 0
}

func pkgPaths(P *Program) []string {
	var out []string
	for _, p := range P.Pkgs {
		out = append(out, strings.TrimPrefix(p.PkgPath, Mod+"/"))
	}
	sort.Strings(out)
	return out
}
