package main

import (
	"fmt"
	"go/constant"
	"go/token"
	"go/types"
	"strings"

	"golang.org/x/tools/go/ssa"
)

// ---------- naming -------------------------------------------------------------------------

// shortName renders a function name relative to the module: "pkg/x:(*T).M", closures "…$1".
func shortName(fn *ssa.Function) string {
	if fn == nil {
		return "<nil>"
	}
	s := fn.String()
	s = strings.ReplaceAll(s, Mod+"/", "")
	s = strings.ReplaceAll(s, Mod+".", "gate.")
	return s
}

// calleeName returns a stable name of what a call invokes:
// static: ssa function String(); interface: "invoke:<iface type>.<method>"; builtin: "builtin:<name>";
// dynamic (function value): "dynamic".
func calleeName(c *ssa.CallCommon) string {
	if c.IsInvoke() {
		return "invoke:" + types.TypeString(c.Value.Type(), nil) + "." + c.Method.Name()
	}
	switch v := c.Value.(type) {
	case *ssa.Function:
		if o := v.Origin(); o != nil {
			return o.String()
		}
		return v.String()
	case *ssa.Builtin:
		return "builtin:" + v.Name()
	case *ssa.MakeClosure:
		return v.Fn.(*ssa.Function).String()
	}
	return "dynamic"
}

// methodName returns just the method/function identifier of a call ("Lock", "WritePacket", …).
func methodName(c *ssa.CallCommon) string {
	if c.IsInvoke() {
		return c.Method.Name()
	}
	switch v := c.Value.(type) {
	case *ssa.Function:
		return v.Name()
	case *ssa.Builtin:
		return v.Name()
	case *ssa.MakeClosure:
		return v.Fn.Name()
	}
	return ""
}

// staticCallee returns the *ssa.Function called, also for immediately-applied closures.
func staticCallee(c *ssa.CallCommon) *ssa.Function {
	if c.IsInvoke() {
		return nil
	}
	switch v := c.Value.(type) {
	case *ssa.Function:
		return v
	case *ssa.MakeClosure:
		return v.Fn.(*ssa.Function)
	}
	return nil
}

// callOf returns the CallCommon of an instruction if it is a call/go/defer.
func callOf(in ssa.Instruction) *ssa.CallCommon {
	if ci, ok := in.(ssa.CallInstruction); ok {
		return ci.Common()
	}
	return nil
}

// isCallNamed: v is (an Extract of) a call whose calleeName has one of the given suffixes.
func callValue(v ssa.Value) *ssa.Call {
	switch x := v.(type) {
	case *ssa.Call:
		return x
	case *ssa.Extract:
		if c, ok := x.Tuple.(*ssa.Call); ok {
			return c
		}
	}
	return nil
}

func hasAnySuffix(s string, sufs ...string) bool {
	for _, x := range sufs {
		if strings.HasSuffix(s, x) {
			return true
		}
	}
	return false
}

// ---------- value plumbing -----------------------------------------------------------------

// strip removes value-preserving wrappers.
func strip(v ssa.Value) ssa.Value {
	for {
		switch x := v.(type) {
		case *ssa.ChangeType:
			v = x.X
		case *ssa.Convert:
			v = x.X
		case *ssa.MakeInterface:
			v = x.X
		case *ssa.ChangeInterface:
			v = x.X
		case *ssa.Parameter:
			// inside a predicate helper that is being looked into: the parameter is the call's argument
			if a, ok := activeSubst[x]; ok && a != v {
				v = a
				continue
			}
			return v
		default:
			return v
		}
	}
}

// fieldName of a FieldAddr/Field instruction.
func fieldOfAddr(fa *ssa.FieldAddr) *types.Var {
	t := fa.X.Type()
	if p, ok := t.Underlying().(*types.Pointer); ok {
		t = p.Elem()
	}
	st, ok := t.Underlying().(*types.Struct)
	if !ok {
		return nil
	}
	return st.Field(fa.Field)
}

func fieldOfVal(f *ssa.Field) *types.Var {
	st, ok := f.X.Type().Underlying().(*types.Struct)
	if !ok {
		return nil
	}
	return st.Field(f.Field)
}

// PathOf canonicalises an SSA value to an access path ("p.muP", "c.player.mu"), conflating an
// address with the value loaded from it. Unknown shapes produce a unique opaque token.
func PathOf(v ssa.Value) string {
	return pathOf(v, 0)
}

func pathOf(v ssa.Value, d int) string {
	if d > 12 {
		return "…"
	}
	switch x := v.(type) {
	case *ssa.Parameter:
		if a, ok := activeSubst[x]; ok && a != v {
			return pathOf(a, d+1)
		}
		return x.Name()
	case *ssa.FreeVar:
		return x.Name()
	case *ssa.FieldAddr:
		if f := fieldOfAddr(x); f != nil {
			return pathOf(x.X, d+1) + "." + f.Name()
		}
	case *ssa.Field:
		if f := fieldOfVal(x); f != nil {
			return pathOf(x.X, d+1) + "." + f.Name()
		}
	case *ssa.UnOp:
		if x.Op == token.MUL {
			return pathOf(x.X, d+1)
		}
	case *ssa.ChangeType:
		return pathOf(x.X, d+1)
	case *ssa.Convert:
		return pathOf(x.X, d+1)
	case *ssa.MakeInterface:
		return pathOf(x.X, d+1)
	case *ssa.ChangeInterface:
		return pathOf(x.X, d+1)
	case *ssa.TypeAssert:
		return pathOf(x.X, d+1)
	case *ssa.Alloc:
		// a local that was not lifted: if it has exactly one store, see through it
		if sv := singleStore(x); sv != nil {
			return pathOf(sv, d+1)
		}
		return "local:" + x.Comment
	case *ssa.Global:
		return x.String()
	case *ssa.IndexAddr:
		return pathOf(x.X, d+1) + "[]"
	case *ssa.Call:
		// accessor calls on a path, e.g. h.player.conn()
		if x.Call.IsInvoke() {
			return pathOf(x.Call.Value, d+1) + "." + x.Call.Method.Name() + "()"
		}
		if f := staticCallee(&x.Call); f != nil && len(x.Call.Args) >= 1 && f.Signature.Recv() != nil {
			return pathOf(x.Call.Args[0], d+1) + "." + f.Name() + "()"
		}
	}
	return fmt.Sprintf("?%s@%p", v.Name(), v)
}

// singleStore returns the unique value stored into alloc a, if there is exactly one store.
func singleStore(a *ssa.Alloc) ssa.Value {
	var val ssa.Value
	n := 0
	for _, r := range *a.Referrers() {
		if st, ok := r.(*ssa.Store); ok && st.Addr == a {
			val = st.Val
			n++
		}
	}
	if n == 1 {
		return val
	}
	return nil
}

// constInt returns the integer value of v if it is an integer constant (through conversions).
func constInt(v ssa.Value) (int64, bool) {
	v = strip(v)
	c, ok := v.(*ssa.Const)
	if !ok || c.Value == nil {
		return 0, false
	}
	if c.Value.Kind() != constant.Int {
		if c.Value.Kind() == constant.Float {
			f, _ := constant.Float64Val(c.Value)
			if f == float64(int64(f)) {
				return int64(f), true
			}
		}
		return 0, false
	}
	i, exact := constant.Int64Val(c.Value)
	if !exact {
		u, ok := constant.Uint64Val(c.Value)
		if ok {
			return int64(u), true
		}
	}
	return i, exact
}

func constString(v ssa.Value) (string, bool) {
	c, ok := strip(v).(*ssa.Const)
	if !ok || c.Value == nil || c.Value.Kind() != constant.String {
		return "", false
	}
	return constant.StringVal(c.Value), true
}

func constBool(v ssa.Value) (bool, bool) {
	c, ok := strip(v).(*ssa.Const)
	if !ok || c.Value == nil || c.Value.Kind() != constant.Bool {
		return false, false
	}
	return constant.BoolVal(c.Value), true
}

func isNilConst(v ssa.Value) bool {
	c, ok := v.(*ssa.Const)
	return ok && c.Value == nil
}

// ---------- CFG: edges, reachability, guard cuts ------------------------------------------------

// Edge is one outgoing edge of an If: Succ 0 is the true edge, 1 the false edge.
type Edge struct {
	From *ssa.BasicBlock
	Succ int
}

func (e Edge) To() *ssa.BasicBlock { return e.From.Succs[e.Succ] }

// Cond returns the branch condition with leading negations peeled off, and the truth value the
// peeled condition has on this edge.
func (e Edge) Cond() (ssa.Value, bool) {
	iff, ok := e.From.Instrs[len(e.From.Instrs)-1].(*ssa.If)
	if !ok {
		return nil, false
	}
	truth := e.Succ == 0
	c := iff.Cond
	for {
		u, ok := c.(*ssa.UnOp)
		if !ok || u.Op != token.NOT {
			break
		}
		c = u.X
		truth = !truth
	}
	return c, truth
}

// IfEdges enumerates all conditional edges of fn.
func IfEdges(fn *ssa.Function) []Edge {
	var out []Edge
	for _, b := range fn.Blocks {
		if len(b.Instrs) == 0 {
			continue
		}
		if _, ok := b.Instrs[len(b.Instrs)-1].(*ssa.If); ok {
			out = append(out, Edge{b, 0}, Edge{b, 1})
		}
	}
	return out
}

// EdgePred selects edges: cond is the negation-peeled condition, truth its value on the edge.
type EdgePred func(e Edge, cond ssa.Value, truth bool) bool

// reach computes the blocks reachable from start without crossing a cut edge.
func reach(start *ssa.BasicBlock, cut func(Edge) bool) map[*ssa.BasicBlock]bool {
	seen := map[*ssa.BasicBlock]bool{start: true}
	work := []*ssa.BasicBlock{start}
	for len(work) > 0 {
		b := work[len(work)-1]
		work = work[:len(work)-1]
		_, isIf := lastInstr(b).(*ssa.If)
		for i, s := range b.Succs {
			if cut != nil && isIf && cut(Edge{b, i}) {
				continue
			}
			if !seen[s] {
				seen[s] = true
				work = append(work, s)
			}
		}
	}
	return seen
}

func lastInstr(b *ssa.BasicBlock) ssa.Instruction {
	if len(b.Instrs) == 0 {
		return nil
	}
	return b.Instrs[len(b.Instrs)-1]
}

// MustCross reports whether every path from fn's entry to the block of site crosses an edge
// selected by pred (i.e. site is unreachable once those edges are removed). Also returns
// whether the site is reachable at all and how many edges pred selected.
func MustCross(site ssa.Instruction, pred EdgePred) (guarded bool, nsel int) {
	return mustCrossDepth(site, pred, 2)
}

func mustCrossDepth(site ssa.Instruction, pred EdgePred, depth int) (guarded bool, nsel int) {
	fn := site.Parent()
	sel := map[Edge]bool{}
	for _, e := range IfEdges(fn) {
		c, t := e.Cond()
		if pred(e, c, t) {
			sel[e] = true
			continue
		}
		if depth <= 0 {
			continue
		}
		// the edge may stand for conditions decided inside a boolean variable …
		impliedConds(c, t, depth, func(c2 ssa.Value, t2 bool) {
			if !sel[e] && pred(e, c2, t2) {
				sel[e] = true
			}
		})
		// … or inside a helper whose result it tests: continue the cut into the helper
		if !sel[e] && helperEdgeSelected(e, c, t, pred, depth) {
			sel[e] = true
		}
	}
	r := reach(fn.Blocks[0], func(e Edge) bool { return sel[e] })
	if !r[site.Block()] {
		return true, len(sel)
	}
	// not guarded inside this function: if it is an extracted helper, the guard may sit at its call
	// sites — every path to the site enters through one of them
	if depth > 0 && isUnexportedHelper(fn) {
		sites := staticCallersOf(fn)
		if len(sites) > 0 {
			total := len(sel)
			all := true
			saved := activeSubst
			activeSubst = nil // the callers' own values, not this helper's bindings
			for _, cs := range sites {
				g, n := mustCrossDepth(cs, pred, depth-1)
				total += n
				if !(g && n > 0) {
					all = false
				}
			}
			activeSubst = saved
			if all {
				return true, total
			}
		}
	}
	return false, len(sel)
}

// ReachableFromEdge: is the block of site reachable from the target of edge e?
func ReachableFromEdge(e Edge, site ssa.Instruction) bool {
	return reach(e.To(), nil)[site.Block()]
}

// EdgeDominators returns the conditional edges that individually dominate the block b: b is
// unreachable from entry when that single edge is removed.
func EdgeDominators(b *ssa.BasicBlock) []Edge {
	fn := b.Parent()
	var out []Edge
	for _, e := range IfEdges(fn) {
		if !e.From.Dominates(b) {
			continue
		}
		ee := e
		r := reach(fn.Blocks[0], func(x Edge) bool { return x == ee })
		if !r[b] {
			out = append(out, e)
		}
	}
	return out
}

// ---------- condition atoms ---------------------------------------------------------------------

// nilCmp: cond is `v == nil` / `v != nil`; returns v and whether on this edge v is nil.
func nilCmp(cond ssa.Value, truth bool) (v ssa.Value, isNil bool, ok bool) {
	b, k := cond.(*ssa.BinOp)
	if !k || (b.Op != token.EQL && b.Op != token.NEQ) {
		return nil, false, false
	}
	switch {
	case isNilConst(b.Y):
		v = b.X
	case isNilConst(b.X):
		v = b.Y
	default:
		return nil, false, false
	}
	isNil = (b.Op == token.EQL) == truth
	return v, isNil, true
}

// errNilEdge: the edge is the "err == nil" edge for an error produced by a call matching m.
func errNilEdge(cond ssa.Value, truth bool, m func(*ssa.Call) bool) bool {
	v, isNil, ok := nilCmp(cond, truth)
	if !ok || !isNil || v.Type().String() != "error" {
		return false
	}
	for _, o := range origins(v, 6) {
		if c := callValue(o); c != nil && m(c) {
			return true
		}
	}
	return false
}

// errNonNilEdge: the edge on which the error of a call matching m is non-nil.
func errNonNilEdge(cond ssa.Value, truth bool, m func(*ssa.Call) bool) bool {
	v, isNil, ok := nilCmp(cond, truth)
	if !ok || isNil || v.Type().String() != "error" {
		return false
	}
	for _, o := range origins(v, 6) {
		if c := callValue(o); c != nil && m(c) {
			return true
		}
	}
	return false
}

// boolCallEdge: the edge on which a bool-returning call (or bool Extract of it) matching m has value want.
func boolCallEdge(cond ssa.Value, truth bool, want bool, m func(*ssa.Call) bool) bool {
	if truth != want {
		return false
	}
	for _, o := range origins(cond, 4) {
		if c := callValue(o); c != nil && m(c) {
			return true
		}
	}
	return false
}

// callMatcher builds a matcher on calleeName suffixes.
func callSuffix(sufs ...string) func(*ssa.Call) bool {
	return func(c *ssa.Call) bool { return hasAnySuffix(calleeName(&c.Call), sufs...) }
}

func callMethod(names ...string) func(*ssa.Call) bool {
	return func(c *ssa.Call) bool {
		n := methodName(&c.Call)
		for _, x := range names {
			if n == x {
				return true
			}
		}
		return false
	}
}

// ---------- provenance (P5) ---------------------------------------------------------------------

// origins computes the backward slice of v through value-preserving instructions (Phi, conversions,
// Extract stays as is, loads of single-store locals, Slice of the same backing) up to depth.
// The result is the set of leaf values.
func origins(v ssa.Value, depth int) []ssa.Value {
	seen := map[ssa.Value]bool{}
	var out []ssa.Value
	var walk func(v ssa.Value, d int)
	walk = func(v ssa.Value, d int) {
		if v == nil || seen[v] {
			return
		}
		seen[v] = true
		if d <= 0 {
			out = append(out, v)
			return
		}
		switch x := v.(type) {
		case *ssa.Phi:
			for _, e := range x.Edges {
				walk(e, d-1)
			}
		case *ssa.ChangeType:
			walk(x.X, d)
		case *ssa.Convert:
			walk(x.X, d)
		case *ssa.MakeInterface:
			walk(x.X, d)
		case *ssa.ChangeInterface:
			walk(x.X, d)
		case *ssa.UnOp:
			if x.Op == token.MUL {
				if a, ok := x.X.(*ssa.Alloc); ok {
					stores := storesTo(a)
					if len(stores) > 0 {
						for _, s := range stores {
							walk(s, d-1)
						}
						return
					}
				}
			}
			out = append(out, v)
		default:
			out = append(out, v)
		}
	}
	walk(v, depth)
	return out
}

// storesTo lists the values stored directly into alloc a.
func storesTo(a *ssa.Alloc) []ssa.Value {
	var out []ssa.Value
	for _, r := range *a.Referrers() {
		if st, ok := r.(*ssa.Store); ok && st.Addr == a {
			out = append(out, st.Val)
		}
	}
	return out
}

// sameValue: a and b denote the same runtime value on all paths (identical SSA value after
// stripping conversions, or loads of the same access path with no intervening store considered).
func sameValue(a, b ssa.Value) bool {
	a, b = strip(a), strip(b)
	if a == b {
		return true
	}
	pa, pb := PathOf(a), PathOf(b)
	return !strings.HasPrefix(pa, "?") && pa == pb
}

// derivesFrom reports whether target is in the transitive operand closure of v (data dependence),
// following at most depth steps. Calls are followed through their arguments.
func derivesFrom(v ssa.Value, depth int, pred func(ssa.Value) bool) bool {
	seen := map[ssa.Value]bool{}
	var walk func(v ssa.Value, d int) bool
	walk = func(v ssa.Value, d int) bool {
		if v == nil || seen[v] {
			return false
		}
		seen[v] = true
		if pred(v) {
			return true
		}
		if d <= 0 {
			return false
		}
		if p, ok := v.(*ssa.Parameter); ok {
			// inside a helper that is being looked into: the parameter is the call's argument
			if a, bound := activeSubst[p]; bound && a != v {
				return walk(a, d)
			}
			return false
		}
		if a, ok := v.(*ssa.Alloc); ok {
			// composite under construction: values stored into it, its fields and elements (nested)
			for _, sv := range storedInto(a, 6) {
				if walk(sv, d-1) {
					return true
				}
			}
			return false
		}
		in, ok := v.(ssa.Instruction)
		if !ok {
			return false
		}
		for _, op := range in.Operands(nil) {
			if *op != nil && walk(*op, d-1) {
				return true
			}
		}
		// a load from a field address / index address of an alloc'd composite: look at stores into it
		if u, ok := v.(*ssa.UnOp); ok && u.Op == token.MUL {
			switch ad := u.X.(type) {
			case *ssa.FieldAddr:
				if base, ok := ad.X.(*ssa.Alloc); ok {
					for _, r := range *base.Referrers() {
						if fa, ok := r.(*ssa.FieldAddr); ok && fa.Field == ad.Field {
							for _, rr := range *fa.Referrers() {
								if st, ok := rr.(*ssa.Store); ok && st.Addr == fa && walk(st.Val, d-1) {
									return true
								}
							}
						}
					}
				}
			}
		}
		return false
	}
	return walk(v, depth)
}

// ---------- instruction enumeration ------------------------------------------------------------

func eachInstr(fn *ssa.Function, f func(ssa.Instruction)) {
	for _, b := range fn.Blocks {
		for _, in := range b.Instrs {
			f(in)
		}
	}
}

// callsIn lists call instructions (call, go, defer) in fn matching m on calleeName.
func callsIn(fn *ssa.Function, m func(name string, c *ssa.CallCommon) bool) []ssa.CallInstruction {
	var out []ssa.CallInstruction
	eachInstr(fn, func(in ssa.Instruction) {
		if ci, ok := in.(ssa.CallInstruction); ok {
			if m(calleeName(ci.Common()), ci.Common()) {
				out = append(out, ci)
			}
		}
	})
	return out
}

func instrIndex(in ssa.Instruction) int {
	for i, x := range in.Block().Instrs {
		if x == in {
			return i
		}
	}
	return -1
}

// before: a executes before b on every path that reaches b from a's block (same block: index
// order; different blocks: a's block dominates b's block).
func domBefore(a, b ssa.Instruction) bool {
	if a.Block() == b.Block() {
		return instrIndex(a) < instrIndex(b)
	}
	return a.Block().Dominates(b.Block())
}

// reachableInstr: can control flow from instruction a reach instruction b (a before b in same
// block, or b's block reachable from a successor of a's block).
func flowsTo(a, b ssa.Instruction) bool {
	if a.Block() == b.Block() && instrIndex(a) < instrIndex(b) {
		return true
	}
	for _, s := range a.Block().Succs {
		if reach(s, nil)[b.Block()] {
			return true
		}
	}
	return false
}

// returnsOf lists Return instructions of fn.
func returnsOf(fn *ssa.Function) []*ssa.Return {
	var out []*ssa.Return
	eachInstr(fn, func(in ssa.Instruction) {
		if r, ok := in.(*ssa.Return); ok {
			out = append(out, r)
		}
	})
	return out
}

// derefType strips one pointer.
func derefType(t types.Type) types.Type {
	if p, ok := t.Underlying().(*types.Pointer); ok {
		return p.Elem()
	}
	return t
}

func namedOf(t types.Type) *types.Named {
	t = derefType(t)
	n, _ := types.Unalias(t).(*types.Named)
	return n
}

func typeIs(t types.Type, pkgSuffix, name string) bool {
	n := namedOf(t)
	if n == nil || n.Obj() == nil {
		return false
	}
	if n.Obj().Name() != name {
		return false
	}
	if n.Obj().Pkg() == nil {
		return pkgSuffix == ""
	}
	return strings.HasSuffix(n.Obj().Pkg().Path(), pkgSuffix)
}
