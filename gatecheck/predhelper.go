package main

import (
	"go/token"
	"strings"

	"golang.org/x/tools/go/ssa"
)

// Predicate helpers. A guard is often factored into a small boolean function
// (`if q.full(n) { … }`, `if !h.validInConfig(p) { … }`) or computed into a variable first
// (`ok := a && b; if ok { … }`). For the guard cut (P2) and the range analysis (P3) such an edge
// stands for the conditions that necessarily held inside the helper: the conditional edges every path
// to a `return <truth>` crosses, plus the returned comparison itself. While those callee conditions are
// shown to a rule's predicate, the callee's parameters are resolved to the call's arguments
// (activeSubst is consulted by strip and PathOf), so a predicate written against the caller's values
// and access paths applies unchanged.

var activeSubst map[*ssa.Parameter]ssa.Value

type condAtom struct {
	cond  ssa.Value
	truth bool
}

// truthAtoms: what necessarily holds when the boolean value v (computed in fn) equals truth.
func truthAtoms(v ssa.Value, truth bool, depth int) []condAtom {
	if depth < 0 {
		return nil
	}
	v = stripNoSubst(v)
	if u, ok := v.(*ssa.UnOp); ok && u.Op.String() == "!" {
		return truthAtoms(u.X, !truth, depth)
	}
	ph, ok := v.(*ssa.Phi)
	if !ok {
		return []condAtom{{v, truth}}
	}
	// sources: incoming edges that can carry `truth`
	var common map[condAtom]bool
	first := true
	for i, ev := range ph.Edges {
		pred := ph.Block().Preds[i]
		if b, isC := constBool(stripNoSubst(ev)); isC && b != truth {
			continue
		}
		set := map[condAtom]bool{}
		for _, e := range EdgeDominators(pred) {
			c, t := e.Cond()
			if c != nil {
				set[condAtom{c, t}] = true
			}
		}
		if _, isIf := lastInstr(pred).(*ssa.If); isIf {
			for s, succ := range pred.Succs {
				if succ == ph.Block() {
					if c, t := (Edge{pred, s}).Cond(); c != nil {
						set[condAtom{c, t}] = true
					}
				}
			}
		}
		if _, isC := constBool(stripNoSubst(ev)); !isC {
			for _, a := range truthAtoms(ev, truth, depth-1) {
				set[a] = true
			}
		}
		if first {
			common, first = set, false
			continue
		}
		for a := range common {
			if !set[a] {
				delete(common, a)
			}
		}
	}
	var out []condAtom
	for a := range common {
		out = append(out, a)
	}
	return out
}

func stripNoSubst(v ssa.Value) ssa.Value {
	saved := activeSubst
	activeSubst = nil
	defer func() { activeSubst = saved }()
	return strip(v)
}

// impliedConds calls visit for every condition that necessarily holds when `cond` evaluates to
// `truth`, looking through boolean phis and into boolean helper functions of the module. visit runs
// with the helper's parameters bound to the call's arguments.
func impliedConds(cond ssa.Value, truth bool, depth int, visit func(c ssa.Value, t bool)) {
	if depth <= 0 || cond == nil {
		return
	}
	// a boolean computed into a phi in the same function
	if _, isPhi := stripNoSubst(cond).(*ssa.Phi); isPhi {
		for _, a := range truthAtoms(cond, truth, 3) {
			if a.cond == cond {
				continue
			}
			visit(a.cond, a.truth)
			impliedConds(a.cond, a.truth, depth-1, visit)
		}
		return
	}
	cl := callValue(cond)
	if cl == nil || cl.Call.IsInvoke() {
		return
	}
	f := staticCallee(&cl.Call)
	if f == nil || f.Blocks == nil || !strings.HasPrefix(fnPkgPath(f), Mod) || len(f.Blocks) > 40 {
		return
	}
	res := f.Signature.Results()
	if res.Len() != 1 || res.At(0).Type().Underlying().String() != "bool" {
		return
	}
	// bind parameters
	saved := activeSubst
	merged := map[*ssa.Parameter]ssa.Value{}
	for k, v := range saved {
		merged[k] = v
	}
	for i, p := range f.Params {
		if i < len(cl.Call.Args) {
			merged[p] = cl.Call.Args[i]
		}
	}
	// what holds on every path that returns `truth`
	var common map[condAtom]bool
	first := true
	for _, r := range returnsOf(f) {
		if r.Block() == f.Recover || len(r.Results) != 1 {
			continue
		}
		rv := r.Results[0]
		if b, isC := constBool(stripNoSubst(rv)); isC && b != truth {
			continue
		}
		set := map[condAtom]bool{}
		for _, e := range EdgeDominators(r.Block()) {
			if c, t := e.Cond(); c != nil {
				set[condAtom{c, t}] = true
			}
		}
		if _, isC := constBool(stripNoSubst(rv)); !isC {
			for _, a := range truthAtoms(rv, truth, 3) {
				set[a] = true
			}
		}
		if first {
			common, first = set, false
			continue
		}
		for a := range common {
			if !set[a] {
				delete(common, a)
			}
		}
	}
	activeSubst = merged
	defer func() { activeSubst = saved }()
	for a := range common {
		visit(a.cond, a.truth)
		impliedConds(a.cond, a.truth, depth-1, visit)
	}
}

// applyCmpExpanding guards against re-entering the expansion from within an expansion.
var applyCmpExpanding bool

// helperEdgeSelected: the conditional edge (cond, truth) tests the result of a helper of the module —
// `if h.skip(x) {` (bool), or `if err := h.check(x); err != nil {` (error) — and every way the helper
// can produce that result lies, inside the helper, behind an edge the rule's predicate selects (the
// guard cut is continued into the callee, with its parameters bound to the call's arguments).
func helperEdgeSelected(e Edge, cond ssa.Value, truth bool, pred EdgePred, depth int) bool {
	if depth <= 0 || cond == nil {
		return false
	}
	var cl *ssa.Call
	wantNilErr := false // the edge says "the helper's error result is nil"
	resIdx := 0
	boolRes := false
	if c, isCall := stripNoSubst(cond).(*ssa.Call); isCall {
		cl, boolRes = c, true
	} else if v, isNil, ok := nilCmp(cond, truth); ok {
		switch x := stripNoSubst(v).(type) {
		case *ssa.Call:
			cl = x
		case *ssa.Extract:
			cl, _ = x.Tuple.(*ssa.Call)
			resIdx = x.Index
		}
		if cl == nil || !isNil {
			return false
		}
		wantNilErr = true
	} else if ex, ok := stripNoSubst(cond).(*ssa.Extract); ok {
		// v, ok := helper(); if ok {
		cl, _ = ex.Tuple.(*ssa.Call)
		resIdx = ex.Index
		boolRes = true
	}
	if cl == nil || cl.Call.IsInvoke() {
		return false
	}
	f := staticCallee(&cl.Call)
	if f == nil || f.Blocks == nil || !strings.HasPrefix(fnPkgPath(f), Mod) || len(f.Blocks) > 60 {
		return false
	}
	res := f.Signature.Results()
	if resIdx >= res.Len() {
		return false
	}
	rt := res.At(resIdx).Type()
	if boolRes && rt.Underlying().String() != "bool" {
		return false
	}
	if wantNilErr && !isErrorType(rt) {
		return false
	}
	saved := activeSubst
	merged := map[*ssa.Parameter]ssa.Value{}
	for k, v := range saved {
		merged[k] = v
	}
	for i, p := range f.Params {
		if i < len(cl.Call.Args) {
			merged[p] = cl.Call.Args[i]
		}
	}
	activeSubst = merged
	defer func() { activeSubst = saved }()
	n := 0
	for _, r := range returnsOf(f) {
		if r.Block() == f.Recover || len(r.Results) <= resIdx {
			continue
		}
		rv := retVal(r, resIdx)
		if boolRes {
			if b, isC := constBool(stripNoSubst(rv)); isC {
				if b != truth {
					continue
				}
			} else {
				// `return !x`: the helper yields truth exactly when x is !truth
				pv, pt := rv, truth
				for {
					u, isU := stripNoSubst(pv).(*ssa.UnOp)
					if !isU || u.Op != token.NOT {
						break
					}
					pv, pt = u.X, !pt
				}
				if pred(e, pv, pt) || phiTruthGuarded(e, pv, pt, pred, depth) {
					n++
					continue
				}
			}
		} else { // error result must be nil
			if !isNilConst(stripNoSubst(rv)) {
				if !mayBeNilError(rv) {
					continue // definitely an error: not a "nil" return
				}
			}
		}
		n++
		g, ns := mustCrossDepth(r, pred, depth-1)
		if !(g && ns > 0) {
			return false
		}
	}
	return n > 0
}


// phiTruthGuarded: v is a boolean phi (the result of && / || chains); every way it can become `truth`
// is selected by pred: an incoming constant `truth` arrives over a conditional edge that pred selects
// (or whose source block is already cut off), an incoming computed value is itself accepted by pred.
func phiTruthGuarded(e Edge, v ssa.Value, truth bool, pred EdgePred, depth int) bool {
	ph, ok := stripNoSubst(v).(*ssa.Phi)
	if !ok {
		return false
	}
	n := 0
	for i, ev := range ph.Edges {
		pb := ph.Block().Preds[i]
		if b, isC := constBool(stripNoSubst(ev)); isC {
			if b != truth {
				continue
			}
			n++
			okEdge := false
			if _, isIf := lastInstr(pb).(*ssa.If); isIf {
				for s, succ := range pb.Succs {
					if succ == ph.Block() {
						c2, t2 := (Edge{pb, s}).Cond()
						if c2 != nil && pred(e, c2, t2) {
							okEdge = true
						}
					}
				}
			}
			if !okEdge {
				g, ns := mustCrossDepth(lastInstr(pb), pred, depth-1)
				okEdge = g && ns > 0
			}
			if !okEdge {
				return false
			}
			continue
		}
		n++
		if !(pred(e, ev, truth) || phiTruthGuarded(e, ev, truth, pred, depth-1)) {
			g, ns := mustCrossDepth(lastInstr(pb), pred, depth-1)
			if !(g && ns > 0) {
				return false
			}
		}
	}
	return n > 0
}
