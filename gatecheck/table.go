package main

import (
	"fmt"
	"go/ast"
	"go/constant"
	"go/token"
	"go/types"
	"sort"
	"strings"
)

// P8 — table evaluation: constant-fold the packet registration DSL of state/register.go and the
// version table of version/version.go from the AST and go/types constants, and replay the
// documented range semantics of Register symbolically (independently of Register's own code and of
// its run-time panics).

const pkgState = "pkg/edition/java/proto/state"

type VersionTable struct {
	ByName    map[string]int64 // Minecraft_1_20_2 -> 764
	Ordered   []string         // names in the order of version.Versions
	Supported []int64          // protocols excluding Unknown/Legacy, in table order
	pos       map[string]token.Pos
}

type Mapping struct {
	ID        int64
	From      string // version name
	FromProto int64
	Last      string // last valid version name, "" when open
	LastProto int64
}

type Registration struct {
	State, Dir string // "Play", "ClientBound"
	Type       string // "packet.KeepAlive" (package name + type)
	TypeObj    *types.Named
	Mappings   []Mapping
	Pos        token.Pos
}

func evalVersionTable(P *Program) (*VersionTable, error) {
	pk := P.Pkg(pkgVersion)
	if pk == nil || len(pk.Syntax) == 0 {
		return nil, fmt.Errorf("package %s not loaded with syntax", pkgVersion)
	}
	vt := &VersionTable{ByName: map[string]int64{}, pos: map[string]token.Pos{}}
	for _, f := range pk.Syntax {
		for _, d := range f.Decls {
			gd, ok := d.(*ast.GenDecl)
			if !ok || gd.Tok != token.VAR {
				continue
			}
			for _, sp := range gd.Specs {
				vs := sp.(*ast.ValueSpec)
				for i, name := range vs.Names {
					if i >= len(vs.Values) {
						continue
					}
					switch val := vs.Values[i].(type) {
					case *ast.CallExpr:
						if id, ok := val.Fun.(*ast.Ident); ok && id.Name == "v" && len(val.Args) >= 1 {
							tv, ok := pk.TypesInfo.Types[val.Args[0]]
							if ok && tv.Value != nil {
								n, _ := constant.Int64Val(constant.ToInt(tv.Value))
								vt.ByName[name.Name] = n
								vt.pos[name.Name] = name.Pos()
							}
						}
					case *ast.CompositeLit:
						if name.Name == "Versions" {
							for _, e := range val.Elts {
								if id, ok := e.(*ast.Ident); ok {
									vt.Ordered = append(vt.Ordered, id.Name)
								}
							}
						}
					}
				}
			}
		}
	}
	if len(vt.Ordered) == 0 {
		return nil, fmt.Errorf("version.Versions composite literal not found")
	}
	for _, n := range vt.Ordered {
		p, ok := vt.ByName[n]
		if !ok {
			return nil, fmt.Errorf("version.Versions lists %s which has no v(protocol,…) initialiser", n)
		}
		if p >= 0 {
			vt.Supported = append(vt.Supported, p)
		}
	}
	return vt, nil
}

func evalRegistrations(P *Program, vt *VersionTable) ([]Registration, []string, error) {
	pk := P.Pkg(pkgState)
	if pk == nil || len(pk.Syntax) == 0 {
		return nil, nil, fmt.Errorf("package %s not loaded with syntax", pkgState)
	}
	var regs []Registration
	var problems []string
	versionName := func(e ast.Expr) (string, bool) {
		if id, ok := e.(*ast.Ident); ok && id.Name == "nil" {
			return "", true
		}
		sel, ok := e.(*ast.SelectorExpr)
		if !ok {
			return "", false
		}
		obj := pk.TypesInfo.Uses[sel.Sel]
		if obj == nil || obj.Pkg() == nil || !strings.HasSuffix(obj.Pkg().Path(), pkgVersion) {
			return "", false
		}
		return obj.Name(), true
	}
	for _, f := range pk.Syntax {
		ast.Inspect(f, func(n ast.Node) bool {
			call, ok := n.(*ast.CallExpr)
			if !ok {
				return true
			}
			sel, ok := call.Fun.(*ast.SelectorExpr)
			if !ok || sel.Sel.Name != "Register" || len(call.Args) < 1 {
				return true
			}
			// receiver: <State>.<Dir>
			dirSel, ok := sel.X.(*ast.SelectorExpr)
			if !ok {
				return true
			}
			stID, ok := dirSel.X.(*ast.Ident)
			if !ok {
				return true
			}
			if tv, ok := pk.TypesInfo.Types[sel.X]; !ok || !strings.HasSuffix(tv.Type.String(), "state.PacketRegistry") {
				return true
			}
			r := Registration{State: stID.Name, Dir: dirSel.Sel.Name, Pos: call.Pos()}
			// packet type
			if tv, ok := pk.TypesInfo.Types[call.Args[0]]; ok {
				if nt := namedOf(tv.Type); nt != nil {
					r.TypeObj = nt
					r.Type = nt.Obj().Pkg().Name() + "." + nt.Obj().Name()
				}
			}
			if r.Type == "" {
				problems = append(problems, fmt.Sprintf("%s: cannot resolve registered packet type", P.Pos(call.Pos())))
				return true
			}
			for _, a := range call.Args[1:] {
				mc, ok := a.(*ast.CallExpr)
				if !ok {
					problems = append(problems, fmt.Sprintf("%s: mapping is not a call to m/ml", P.Pos(a.Pos())))
					continue
				}
				fn, _ := mc.Fun.(*ast.Ident)
				if fn == nil || (fn.Name != "m" && fn.Name != "ml") {
					problems = append(problems, fmt.Sprintf("%s: mapping built by %v, not m/ml", P.Pos(a.Pos()), mc.Fun))
					continue
				}
				var mp Mapping
				tv, ok := pk.TypesInfo.Types[mc.Args[0]]
				if !ok || tv.Value == nil {
					problems = append(problems, fmt.Sprintf("%s: packet id is not a constant", P.Pos(a.Pos())))
					continue
				}
				mp.ID, _ = constant.Int64Val(constant.ToInt(tv.Value))
				name, ok := versionName(mc.Args[1])
				if !ok || name == "" {
					problems = append(problems, fmt.Sprintf("%s: mapping version is not a version.X constant", P.Pos(a.Pos())))
					continue
				}
				mp.From = name
				if p, ok := vt.ByName[name]; ok {
					mp.FromProto = p
				} else {
					problems = append(problems, fmt.Sprintf("%s: version.%s is not in the version table", P.Pos(a.Pos()), name))
				}
				if fn.Name == "ml" && len(mc.Args) >= 3 {
					ln, ok := versionName(mc.Args[2])
					if !ok {
						problems = append(problems, fmt.Sprintf("%s: last-valid version is not a version.X constant", P.Pos(a.Pos())))
					} else if ln != "" {
						mp.Last = ln
						if p, ok := vt.ByName[ln]; ok {
							mp.LastProto = p
						} else {
							problems = append(problems, fmt.Sprintf("%s: version.%s is not in the version table", P.Pos(a.Pos()), ln))
						}
					}
				}
				r.Mappings = append(r.Mappings, mp)
			}
			regs = append(regs, r)
			return true
		})
	}
	sort.SliceStable(regs, func(i, j int) bool { return regs[i].Pos < regs[j].Pos })
	return regs, problems, nil
}

// idAt evaluates the documented semantics: mapping i is valid from its protocol up to (excluding)
// the next mapping's protocol, or up to its last-valid protocol / the maximum version when last.
func (r *Registration) idAt(p int64, max int64) (int64, bool) {
	for i, m := range r.Mappings {
		from := m.FromProto
		var to int64
		inclusive := true
		if i+1 < len(r.Mappings) {
			to = r.Mappings[i+1].FromProto
			inclusive = false
		} else if m.Last != "" {
			to = m.LastProto
		} else {
			to = max
		}
		if p >= from && (p < to || (inclusive && p == to)) {
			return m.ID, true
		}
	}
	return 0, false
}
