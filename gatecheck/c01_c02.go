package main

import (
	"fmt"
	"go/constant"
	"go/token"
	"strings"

	"golang.org/x/tools/go/ssa"
)

const pkgCodec = "pkg/edition/java/proto/codec"

func init() {
	register(&propDef{
		ID:       "C02",
		Title:    "Frame decoding matches the vanilla acceptance rules on hostile byte streams",
		Patterns: []string{"./pkg/edition/java/proto/codec", "./pkg/edition/java/proto/util"},
		Run:      runC02,
		Rule: "P3 on the frame decoder: the frame buffer allocation is dominated by 0 < length <= 2^21-1; the uncompressed pass-through return is reached only with claimed == 0 exactly " +
			"(a negative claimed size must be rejected) and body length <= threshold; the inflate buffer allocation is dominated by threshold <= claimed <= cap, with cap = 2 MiB on the " +
			"ServerBound edge and 8 MiB otherwise; P10: after the inflate buffer is filled, every path to a success return probes the inflater for further output (exact-size inflation); " +
			"both VarInt reader loops exit with an error once more than 5 bytes were consumed.",
		Explanation: "Decides: allocation bounds, claimed-size acceptance set, exact-size inflation probe, VarInt length bound. " +
			"Does not decide: 'never blocks', agreement with Velocity on arbitrary streams, zlib itself.",
		Fixtures: []string{"bounds", "guardcut"},
		Variants: []Variant{
			{Name: "negative-claimed-passthrough", File: pkgCodec + "/decoder.go",
				Old: "\t\tif claimedUncompressedSize < 0 {\n\t\t\treturn nil, n, fmt.Errorf(\"claimed uncompressed size %d is negative\", claimedUncompressedSize)\n\t\t}\n\t\tif claimedUncompressedSize == 0 {",
				New: "\t\tif claimedUncompressedSize <= 0 {", Expect: "claimed-zero-exactly"},
			{Name: "frame-cap-lifted", File: pkgCodec + "/decoder.go",
				Old: "\tif length < 0 || length > MaximumFrameLength {", New: "\tif length < 0 {", Expect: "frame-bounded"},
			{Name: "zlib-close-result-dropped", File: pkgCodec + "/decoder.go",
				Old: "\treturn decompressed, d.zrd.Close()", New: "\t_ = d.zrd.Close()\n\treturn decompressed, nil", Expect: "inflate-status"},
			{Name: "no-exact-size-probe", File: pkgCodec + "/decoder.go",
				Old: "\tif n, _ := io.ReadFull(d.zrd, extra[:]); n != 0 {", New: "\tif n := len(extra) - 1; n != 0 {", Expect: "exact-size"},
			{Name: "serverbound-cap-8mib", File: pkgCodec + "/decoder.go",
				Old: "\tif d.direction == proto.ServerBound {\n\t\tmaxSize = ServerboundUncompressedCap\n\t}", New: "\tif d.direction == proto.ClientBound {\n\t\tmaxSize = ServerboundUncompressedCap\n\t}", Expect: "inflate-bounded"},
			{Name: "below-threshold-accepted", File: pkgCodec + "/decoder.go",
				Old: "\tif claimedUncompressedSize < d.compressionThreshold {", New: "\tif claimedUncompressedSize < 0 {", Expect: "inflate-bounded"},
			{Name: "varint-six-bytes", File: pkgUtil + "/reader.go",
				Old: "\t\t\tif i >= 5 {", New: "\t\t\tif i >= 6 {", Expect: "varint-bounded"},
		},
	})
	register(&propDef{
		ID:       "C01",
		Title:    "Packet frames survive compression, encryption and arbitrary stream chunking",
		Patterns: []string{"./pkg/edition/java/proto/codec", "./pkg/edition/java/netmc"},
		Run:      runC01,
		Rule: "necessary conditions of the round trip: (1) chunking-insensitivity — every value stored in Decoder.rd is a *fullReader and the frame reader's only caller passes that field, so the " +
			"single Read of the frame body is a full read; (2) writer/reader threshold agreement — the encoder's uncompressed branch (size < threshold, marker 0) lies inside the decoder's " +
			"pass-through acceptance (claimed == 0, len <= threshold) and its compressed branch (size >= threshold, claimed = size) inside the decoder's inflate acceptance (claimed >= threshold), " +
			"decided on the comparison operators; (3) frame atomicity — Encoder.wr/compression/registry/state and Decoder.rd/compression/compressionThreshold/zrd are only touched under the " +
			"respective mutex; (4) cipher symmetry — reader and writer are keyed from the same secret through the same constructor (AES key and IV both the secret, decrypt/encrypt flag " +
			"selecting the CFB8 direction), the reader wraps the buffered reader and the writer the buffered writer, and the connection passes one secret to both.",
		Explanation: "Decides: the structural preconditions for chunking-insensitive framing, encoder/decoder agreement on the compression threshold boundary, serialisation of frame writes, " +
			"symmetric cipher set-up. Does not decide: payload equality for any input, zlib/CFB8 correctness.",
		Fixtures: []string{"lockset", "bounds", "provenance"},
		Variants: []Variant{
			{Name: "raw-reader", File: pkgCodec + "/decoder.go",
				Old: "\td.rd = &fullReader{rd} // Wrap with fullReader to ensure complete reads", New: "\td.rd = rd", Expect: "full-reader"},
			{Name: "encoder-sends-threshold-size-uncompressed", File: pkgCodec + "/encoder.go",
				Old: "\tif uncompressedSize < e.compression.threshold {", New: "\tif uncompressedSize <= e.compression.threshold+1 {", Expect: "threshold-agreement"},
			{Name: "iv-not-secret", File: pkgCodec + "/cipher.go",
				Old: "\treturn newCFB8(block, secret, decrypt), nil", New: "\treturn newCFB8(block, make([]byte, len(secret)), decrypt), nil", Expect: "cipher-symmetry"},
			{Name: "both-encrypt", File: pkgCodec + "/cipher.go",
				Old: "\tcfb, err := newCFB8FromSecret(secret, true)", New: "\tcfb, err := newCFB8FromSecret(secret, false)", Expect: "cipher-symmetry"},
			{Name: "setwriter-unlocked", File: pkgCodec + "/encoder.go",
				Old: "func (e *Encoder) SetWriter(w io.Writer) {\n\te.mu.Lock()\n\te.wr = w\n\te.mu.Unlock()", New: "func (e *Encoder) SetWriter(w io.Writer) {\n\te.wr = w", Expect: "guarded:Encoder.wr"},
		},
	})
}

func constVal(c *Ctx, short string) (int64, bool) {
	k := c.P.Const(short)
	if k == nil {
		c.Undecided("anchor", short, "constant does not resolve")
		return 0, false
	}
	v, ok := constant.Int64Val(constant.ToInt(k.Val()))
	return v, ok
}

func runC02(c *Ctx) {
	// the frame decoder reads a frame body with one Read: its reader must always be the fullReader wrapper
	{
		codecFns := c.P.Funcs(Mod + "/" + pkgCodec)
		checkFullReader(c, codecFns, NewLockCtx(c.P, codecFns))
	}
	// spec constants from the property statement
	const specFrame = 1<<21 - 1
	const specSB, specCB = 2 << 20, 8 << 20

	// (1) frame allocation
	if rf := c.MustFunc(pkgCodec + ":readVarIntFrame"); rf != nil {
		n := 0
		eachInstr(rf, func(in ssa.Instruction) {
			ms, ok := in.(*ssa.MakeSlice)
			if !ok {
				return
			}
			n++
			r := RangeAt(ms.Block(), isVal(ms.Len))
			c.Check("frame-bounded", "make(length)@readVarIntFrame", ms, r.HasLo() && r.Lo >= 1 && r.HasHi() && r.Hi <= specFrame,
				fmt.Sprintf("the frame buffer must be allocated only for 0 < length <= %d (vanilla maximum); derived range %s", specFrame, r))
		})
		if n == 0 {
			c.Undecided("frame-bounded", "readVarIntFrame", "no allocation found")
		}
	}
	// (2) pass-through
	if rp := c.MustFunc(pkgCodec + ":(*Decoder).readPayload"); rp != nil {
		var claimed ssa.Value
		// the claimed-size read happens in readPayload or in an unexported helper it hands the frame to
		for _, f := range deepFuncs(rp, 1) {
			f := f
			eachInstr(f, func(in ssa.Instruction) {
				if ex, ok := in.(*ssa.Extract); ok && ex.Index == 0 {
					if cl, ok := ex.Tuple.(*ssa.Call); ok && strings.HasSuffix(calleeName(&cl.Call), "util.ReadVarIntReturnN") {
						// not the frame-length read: this one reads from a buffer over the frame
						if derivesFrom(cl.Call.Args[0], 3, func(x ssa.Value) bool {
							c2, isC := x.(*ssa.Call)
							return isC && calleeName(&c2.Call) == "bytes.NewBuffer"
						}) {
							claimed = ex
							rp = f
							c.Analysed(f)
						}
					}
				}
			})
		}
		if claimed == nil {
			c.Undecided("claimed-zero-exactly", "readPayload", "claimed size read not found")
		} else {
			n := 0
			for _, r := range returnsOf(rp) {
				if len(r.Results) != 3 || r.Block() == rp.Recover {
					continue
				}
				cl := callValue(retVal(r, 0))
				if cl == nil || methodName(&cl.Call) != "Bytes" {
					continue
				}
				n++
				rg := RangeAt(r.Block(), isVal(claimed))
				c.Check("claimed-zero-exactly", "pass-through-return@readPayload", r, rg.HasLo() && rg.HasHi() && rg.Lo == 0 && rg.Hi == 0,
					fmt.Sprintf("a frame is passed through as uncompressed for claimed sizes in %s; only claimed == 0 means 'not compressed' — a negative claimed size must be rejected", rg))
				// len(body) <= threshold
				g, ns := MustCross(r, func(e Edge, cond ssa.Value, truth bool) bool {
					bo, ok := cond.(*ssa.BinOp)
					if !ok {
						return false
					}
					l := callValue(bo.X)
					if l == nil || methodName(&l.Call) != "Len" || !strings.HasSuffix(PathOf(bo.Y), ".compressionThreshold") {
						return false
					}
					switch bo.Op {
					case token.GTR:
						return !truth
					case token.LEQ:
						return truth
					}
					return false
				})
				c.Check("passthrough-size", "len<=threshold@readPayload", r, g && ns > 0, "an uncompressed frame larger than the threshold must be rejected (exactly the threshold is tolerated)")
			}
			if n == 0 {
				c.Undecided("claimed-zero-exactly", "readPayload", "no pass-through return found")
			}
		}
	}
	// (3) inflate allocation + (4) exact size
	if dc := c.MustFunc(pkgCodec + ":(*Decoder).decompress"); dc != nil {
		claimed := dc.Params[1]
		sb, _ := constVal(c, "pkg/gate/proto:ServerBound")
		n := 0
		var fill ssa.Instruction
		eachInstr(dc, func(in ssa.Instruction) {
			ms, ok := in.(*ssa.MakeSlice)
			if !ok {
				return
			}
			n++
			r := RangeAt(ms.Block(), isVal(claimed))
			okLo, okHi := false, false
			detail := r.String()
			for _, s := range r.Sym {
				switch s.Op {
				case token.GEQ:
					if strings.HasSuffix(PathOf(s.Other), ".compressionThreshold") {
						okLo = true
					}
				case token.LEQ:
					// cap = phi(8 MiB, 2 MiB on ServerBound)
					if ph, ok := s.Other.(*ssa.Phi); ok {
						good := len(ph.Edges) == 2
						for i, e := range ph.Edges {
							k, isK := constInt(e)
							switch {
							case isK && k == specSB:
								if !phiEdgeGuarded(ph, i, func(e Edge, cond ssa.Value, truth bool) bool {
									bo, ok := cond.(*ssa.BinOp)
									if !ok || bo.Op != token.EQL || !truth || !strings.HasSuffix(PathOf(bo.X), ".direction") {
										return false
									}
									k2, ok2 := constInt(bo.Y)
									return ok2 && k2 == sb
								}) {
									good = false
									detail += " (2 MiB cap not tied to direction == ServerBound)"
								}
							case isK && k == specCB:
							default:
								good = false
								detail += fmt.Sprintf(" (cap %v is neither 2 MiB nor 8 MiB)", e)
							}
						}
						okHi = good
					} else if hc := callValue(s.Other); hc != nil && hc.Call.StaticCallee() != nil && hc.Call.StaticCallee().Blocks != nil {
						// cap chosen by a helper: every return is one of the two constants, the 2 MiB one
						// only... and the 8 MiB one never on the direction == ServerBound side
						hf := hc.Call.StaticCallee()
						c.Analysed(hf)
						isSB := func(wantTruth bool) func(e Edge, cond ssa.Value, truth bool) bool {
							return func(e Edge, cond ssa.Value, truth bool) bool {
								bo, ok := cond.(*ssa.BinOp)
								if !ok || !strings.HasSuffix(PathOf(bo.X), ".direction") {
									return false
								}
								k2, ok2 := constInt(bo.Y)
								if !ok2 || k2 != sb {
									return false
								}
								switch bo.Op {
								case token.EQL:
									return truth == wantTruth
								case token.NEQ:
									return truth != wantTruth
								}
								return false
							}
						}
						good, nret := true, 0
						for _, hr := range returnsOf(hf) {
							if hr.Block() == hf.Recover || len(hr.Results) != 1 {
								continue
							}
							nret++
							k, isK := constInt(retVal(hr, 0))
							switch {
							case isK && k == specSB:
								if g, ns := MustCross(hr, isSB(true)); !g || ns == 0 {
									good = false
									detail += fmt.Sprintf(" (%s: 2 MiB cap not tied to direction == ServerBound)", hf.Name())
								}
							case isK && k == specCB:
								if g, ns := MustCross(hr, isSB(false)); !g || ns == 0 {
									good = false
									detail += fmt.Sprintf(" (%s returns the 8 MiB cap without excluding direction == ServerBound)", hf.Name())
								}
							default:
								good = false
								detail += fmt.Sprintf(" (%s returns a cap that is neither 2 MiB nor 8 MiB)", hf.Name())
							}
						}
						okHi = good && nret > 0
					} else if k, isK := constInt(s.Other); isK && k <= specSB {
						okHi = true
					}
				}
			}
			if r.HasHi() && r.Hi <= specSB {
				okHi = true
			}
			c.Check("inflate-bounded", "make(claimed)@decompress", ms, okLo && okHi,
				"the inflate buffer must be allocated only for threshold <= claimed <= cap (2 MiB from clients, 8 MiB from servers); derived: "+detail)
		})
		if n == 0 {
			c.Undecided("inflate-bounded", "decompress", "no allocation found")
		}
		// the fill
		for _, ci := range callsIn(dc, func(nm string, cc *ssa.CallCommon) bool { return nm == "io.ReadFull" }) {
			if cellHolds(ci.Common().Args[1], isMakeSlice) {
				fill = ci
			}
		}
		if fill == nil {
			c.Undecided("exact-size", "decompress", "inflate fill (io.ReadFull into the claimed-size buffer) not found")
		} else {
			isProbe := func(in ssa.Instruction) bool {
				cc := callOf(in)
				if cc == nil || in == fill {
					return false
				}
				touchesZ := false
				if cc.IsInvoke() && strings.HasSuffix(PathOf(cc.Value), ".zrd") && (cc.Method.Name() == "Read") {
					touchesZ = true
				}
				for _, a := range cc.Args {
					if strings.HasSuffix(PathOf(a), ".zrd") && (calleeName(cc) == "io.ReadFull" || calleeName(cc) == "io.ReadAtLeast" || calleeName(cc) == "io.Copy" || calleeName(cc) == "io.CopyN") {
						touchesZ = true
					}
				}
				if !touchesZ {
					return false
				}
				// its count must be used in a comparison
				used := false
				if v, ok := in.(ssa.Value); ok && v.Referrers() != nil {
					for _, r := range *v.Referrers() {
						if ex, ok := r.(*ssa.Extract); ok && ex.Index == 0 && ex.Referrers() != nil {
							for _, rr := range *ex.Referrers() {
								if _, isB := rr.(*ssa.BinOp); isB {
									used = true
								}
							}
						}
					}
				}
				return used
			}
			miss := false
			nSucc := 0
			var dropped ssa.Instruction
			for _, r := range returnsOf(dc) {
				if r.Block() == dc.Recover || !flowsTo(fill, r) {
					continue
				}
				// success return: first result is the buffer
				if !cellHolds(retVal(r, 0), isMakeSlice) {
					continue
				}
				nSucc++
				// every path fill → this return passes a probe
				rr := reachAvoidingInstrs(fill, isProbe)
				if rr[r.Block()] {
					miss = true
				}
				// the inflater's terminal status (checksum / truncated trailer) is part of the verdict: the
				// returned error comes from the zlib reader's Close, or the probe's own error is tested
				if !terminalStatusConsumed(dc, r, isProbe) {
					dropped = r
				}
			}
			if nSucc == 0 {
				c.Undecided("exact-size", "decompress", "no success return (returning the inflated buffer) found")
			}
			c.Check("inflate-status", "zlib-terminal-error@decompress", dropped, dropped == nil,
				"the success return does not carry the zlib reader's terminal status (Close() result or the probe's error): a body with a corrupt or truncated trailer is accepted although the reference decoder rejects it")
			c.Check("exact-size", "probe-after-fill@decompress", fill, !miss,
				"after filling the claimed-size buffer the inflater is not probed for more output: a body that inflates to more than the claimed size is truncated and accepted")
		}
	}
	// (5) VarInt loops
	if rv := c.MustFunc(pkgUtil + ":ReadVarIntReturnN"); rv != nil {
		loops := 0
		var lblocks []*ssa.BasicBlock
		for _, f := range deepFuncs(rv, 1) {
			c.Analysed(f)
			lblocks = append(lblocks, f.Blocks...)
		}
		for _, b := range lblocks {
			rv := b.Parent()
			// loop header: has a predecessor it dominates (back edge)
			isHdr := false
			for _, p := range b.Preds {
				if b.Dominates(p) {
					isHdr = true
				}
			}
			if !isHdr {
				continue
			}
			loops++
			// inside the loop: a comparison with a constant <= 5 whose exceeding edge leaves with an error
			ok := false
			body := map[*ssa.BasicBlock]bool{}
			for _, x := range rv.Blocks {
				if b.Dominates(x) && reach(x, nil)[b] {
					body[x] = true
				}
			}
			for x := range body {
				iff, isIf := lastInstr(x).(*ssa.If)
				if !isIf {
					continue
				}
				bo, isB := iff.Cond.(*ssa.BinOp)
				if !isB {
					continue
				}
				k, isK := constInt(bo.Y)
				if !isK || k > 5 || k < 1 {
					continue
				}
				exceed := -1
				switch bo.Op {
				case token.GEQ, token.GTR:
					exceed = 0
				case token.LSS, token.LEQ:
					exceed = 1
				}
				if exceed < 0 {
					continue
				}
				tgt := x.Succs[exceed]
				for _, in := range tgt.Instrs {
					if r, isR := in.(*ssa.Return); isR && len(r.Results) == 3 && !isNilConst(retVal(r, 2)) && !body[tgt] {
						ok = true
					}
				}
			}
			c.Check("varint-bounded", fmt.Sprintf("loop#%d@ReadVarIntReturnN", loops), b.Instrs[0], ok,
				"a VarInt reading loop has no exit that rejects encodings longer than 5 bytes")
		}
		if loops != 2 {
			c.Undecided("varint-bounded", "ReadVarIntReturnN", fmt.Sprintf("expected two reading loops (ByteReader and generic), found %d", loops))
		}
	}
}

// reachAvoidingInstrs: blocks reachable from instruction `from` (exclusive) without executing an
// instruction satisfying stop.
func reachAvoidingInstrs(from ssa.Instruction, stop func(ssa.Instruction) bool) map[*ssa.BasicBlock]bool {
	seen := map[*ssa.BasicBlock]bool{}
	var walk func(b *ssa.BasicBlock, i int)
	walk = func(b *ssa.BasicBlock, i int) {
		for ; i < len(b.Instrs); i++ {
			if stop(b.Instrs[i]) {
				return
			}
		}
		for _, s := range b.Succs {
			if !seen[s] {
				seen[s] = true
				walk(s, 0)
			}
		}
	}
	// the starting block counts as reached only through a successor
	b := from.Block()
	i := instrIndex(from) + 1
	blocked := false
	for ; i < len(b.Instrs); i++ {
		if stop(b.Instrs[i]) {
			blocked = true
			break
		}
	}
	if !blocked {
		// returns in the same block are "reached"
		seen[b] = true
		for _, s := range b.Succs {
			if !seen[s] {
				seen[s] = true
				walk(s, 0)
			}
		}
	}
	return seen
}

func runC01(c *Ctx) {
	codecFns := c.P.Funcs(Mod + "/" + pkgCodec)
	lc := NewLockCtx(c.P, codecFns)
	checkFullReader(c, codecFns, lc)
	// (3) guarded state
	checkGuarded(c, lc, codecFns, GuardSpec{Type: pkgCodec + ":Encoder", Mutex: "mu", Fields: []string{"wr", "compression", "registry", "state"}})
	checkGuarded(c, lc, codecFns, GuardSpec{Type: pkgCodec + ":Decoder", Mutex: "mu", Fields: []string{"rd", "compression", "compressionThreshold", "zrd"}})
	c.Floor("guarded", 25)

	checkCompressionEnableAgreement(c)

	// (2) threshold agreement
	wc := c.MustFunc(pkgCodec + ":(*Encoder).writeCompressed")
	rp := c.MustFunc(pkgCodec + ":(*Decoder).readPayload")
	dc := c.MustFunc(pkgCodec + ":(*Decoder).decompress")
	if wc != nil && rp != nil && dc != nil {
		isThr := func(v ssa.Value) bool {
			p := PathOf(v)
			return strings.HasSuffix(p, ".threshold") || strings.HasSuffix(p, ".compressionThreshold")
		}
		// encoder: the "0 marker" write and the claimed-size write
		var encUnc, encCmp token.Token
		for _, ci := range callsIn(wc, func(nm string, cc *ssa.CallCommon) bool {
			return strings.HasSuffix(nm, "util.WriteVarIntN") || strings.HasSuffix(nm, "util.WriteVarInt")
		}) {
			arg := ci.Common().Args[1]
			if k, isK := constInt(arg); isK && k == 0 {
				r := RangeAt(ci.Block(), func(v ssa.Value) bool { cl := callValue(v); return cl != nil && methodName(&cl.Call) == "Len" })
				for _, s := range r.Sym {
					if isThr(s.Other) {
						encUnc = s.Op
					}
				}
			} else if cl := callValue(arg); cl != nil && methodName(&cl.Call) == "Len" && !strings.HasSuffix(PathOf(ci.Common().Args[0]), ".wr") {
				r := RangeAt(ci.Block(), func(v ssa.Value) bool { cl := callValue(v); return cl != nil && methodName(&cl.Call) == "Len" })
				for _, s := range r.Sym {
					if isThr(s.Other) {
						encCmp = s.Op
					}
				}
			}
		}
		// decoder
		var decUnc, decCmp token.Token
		for _, rpf := range deepFuncs(rp, 1) {
			for _, r := range returnsOf(rpf) {
				if cl := callValue(retVal(r, 0)); cl != nil && methodName(&cl.Call) == "Bytes" {
					rg := RangeAt(r.Block(), func(v ssa.Value) bool { cl := callValue(v); return cl != nil && methodName(&cl.Call) == "Len" })
					for _, s := range rg.Sym {
						if isThr(s.Other) {
							decUnc = s.Op
						}
					}
				}
			}
		}
		eachInstr(dc, func(in ssa.Instruction) {
			if ms, ok := in.(*ssa.MakeSlice); ok {
				rg := RangeAt(ms.Block(), isVal(dc.Params[1]))
				for _, s := range rg.Sym {
					if isThr(s.Other) {
						decCmp = s.Op
					}
				}
			}
		})
		okUnc := (encUnc == token.LSS && (decUnc == token.LEQ || decUnc == token.LSS)) || (encUnc == token.LEQ && decUnc == token.LEQ)
		okCmp := (encCmp == token.GEQ && decCmp == token.GEQ) || (encCmp == token.GTR && (decCmp == token.GEQ || decCmp == token.GTR))
		c.CheckAt("threshold-agreement", "uncompressed: enc(size "+encUnc.String()+" T) ⊆ dec(len "+decUnc.String()+" T)", c.P.Pos(wc.Pos()), okUnc,
			"the encoder sends sizes uncompressed that the decoder rejects as 'larger than threshold'")
		c.CheckAt("threshold-agreement", "compressed: enc(size "+encCmp.String()+" T) ⊆ dec(claimed "+decCmp.String()+" T)", c.P.Pos(wc.Pos()), okCmp,
			"the encoder compresses sizes whose claimed size the decoder rejects as 'below threshold'")
	}

	// (4) cipher symmetry
	nd, ne, nf, n8 := c.MustFunc(pkgCodec+":NewDecryptReader"), c.MustFunc(pkgCodec+":NewEncryptWriter"), c.MustFunc(pkgCodec+":newCFB8FromSecret"), c.MustFunc(pkgCodec+":newCFB8")
	if nd != nil && ne != nil && nf != nil && n8 != nil {
		flagOf := func(fn *ssa.Function) (bool, bool, bool) {
			for _, ci := range callsIn(fn, func(nm string, cc *ssa.CallCommon) bool { return staticCallee(cc) == nf }) {
				v, isK := constBool(ci.Common().Args[1])
				sec := strip(ci.Common().Args[0]) == ssa.Value(fn.Params[1])
				return v, isK, sec
			}
			return false, false, false
		}
		dv, dk, ds := flagOf(nd)
		ev, ek, es := flagOf(ne)
		c.CheckAt("cipher-symmetry", "reader=decrypt,writer=encrypt,same-constructor", c.P.Pos(nd.Pos()), dk && ek && dv && !ev && ds && es,
			"NewDecryptReader and NewEncryptWriter must build their stream from the same constructor with the secret parameter, decrypt=true for the reader and false for the writer")
		okKeyIV := false
		for _, ci := range callsIn(nf, func(nm string, cc *ssa.CallCommon) bool { return staticCallee(cc) == n8 }) {
			a := ci.Common().Args
			blk := callValue(a[0])
			okKeyIV = blk != nil && calleeName(&blk.Call) == "crypto/aes.NewCipher" && blk.Call.Args[0] == ssa.Value(nf.Params[0]) &&
				strip(a[1]) == ssa.Value(nf.Params[0]) && strip(a[2]) == ssa.Value(nf.Params[1])
		}
		c.CheckAt("cipher-symmetry", "AES key = IV = secret@newCFB8FromSecret", c.P.Pos(nf.Pos()), okKeyIV,
			"Minecraft's stream cipher uses the shared secret as AES key and as CFB8 IV, and passes the direction flag through")
		okDir := false
		for _, e := range IfEdges(n8) {
			cond, truth := e.Cond()
			if strip(cond) != ssa.Value(n8.Params[2]) {
				continue
			}
			for _, in := range e.To().Instrs {
				if cc := callOf(in); cc != nil {
					nm := calleeName(cc)
					if truth && strings.HasSuffix(nm, "NewCFB8Decrypt") || !truth && strings.HasSuffix(nm, "NewCFB8Encrypt") {
						okDir = true
					}
					if truth && strings.HasSuffix(nm, "NewCFB8Encrypt") || !truth && strings.HasSuffix(nm, "NewCFB8Decrypt") {
						okDir = false
					}
				}
			}
		}
		c.CheckAt("cipher-symmetry", "flag-selects-direction@newCFB8", c.P.Pos(n8.Pos()), okDir, "decrypt=true must select the CFB8 decrypter and false the encrypter")
	}
	if ee := c.MustFunc(pkgNetmc + ":(*minecraftConn).EnableEncryption"); ee != nil {
		n := 0
		ok := true
		for _, ci := range callsIn(ee, func(nm string, cc *ssa.CallCommon) bool { return methodName(cc) == "EnableEncryption" }) {
			n++
			if strip(lastArg(ci.Common())) != ssa.Value(ee.Params[1]) {
				ok = false
			}
		}
		c.CheckAt("cipher-symmetry", "one-secret-to-both@minecraftConn.EnableEncryption", c.P.Pos(ee.Pos()), ok && n == 2, "reader and writer must be keyed with the same secret")
	}
	for _, side := range []struct{ fn, ctor, buf, setter string }{
		{"(*reader).EnableEncryption", "NewDecryptReader", ".readBuf", "SetReader"},
		{"(*writer).EnableEncryption", "NewEncryptWriter", ".writeBuf", "SetWriter"},
	} {
		fn := c.MustFunc(pkgNetmc + ":" + side.fn)
		if fn == nil {
			continue
		}
		ok := false
		for _, ci := range callsIn(fn, func(nm string, cc *ssa.CallCommon) bool { return strings.HasSuffix(nm, "codec."+side.ctor) }) {
			if strings.HasSuffix(PathOf(ci.Common().Args[0]), side.buf) && strip(ci.Common().Args[1]) == ssa.Value(fn.Params[1]) {
				for _, s := range callsIn(fn, func(nm string, cc *ssa.CallCommon) bool { return methodName(cc) == side.setter }) {
					if ex, isEx := strip(lastArg(s.Common())).(*ssa.Extract); isEx && ex.Tuple == ssa.Value(ci.(*ssa.Call)) {
						ok = true
					}
				}
			}
		}
		c.CheckAt("cipher-symmetry", side.ctor+"("+side.buf+")→"+side.setter+"@"+side.fn, c.P.Pos(fn.Pos()), ok,
			"the cipher must wrap the buffered stream and be installed into the codec (already buffered plaintext must not be double-processed)")
	}
}
