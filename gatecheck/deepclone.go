package main

import (
	"fmt"
	"go/types"
	"strings"

	"golang.org/x/tools/go/ssa"
)

// checkDeepClone: a function whose job is to hand out a private copy of a slice of structs
// (cloneLiveLiteRoutes: the routes of the published configuration must not alias the caller's
// candidate) either round-trips the value through an encoder (nothing can be shared), or copies the
// elements and then gives EVERY reference-typed field of the element type (slice, map, pointer,
// interface, channel, func — also inside nested struct fields) a fresh value. A field that is only
// copied with the struct stays shared with the caller: editing the candidate afterwards edits the
// published snapshot (and its content hash) without any apply.
func checkDeepClone(c *Ctx, rule string, fn *ssa.Function) {
	if fn == nil {
		return
	}
	c.Analysed(fn)
	// (A) decoded from an encoding of the argument
	roundTrip := false
	eachInstr(fn, func(in ssa.Instruction) {
		if cc := callOf(in); cc != nil {
			n := calleeName(cc)
			if strings.HasSuffix(n, "json.Unmarshal") || strings.HasSuffix(n, "Decoder).Decode") || strings.HasSuffix(n, "yaml.Unmarshal") {
				roundTrip = true
			}
		}
	})
	if roundTrip {
		c.CheckAt(rule, "private-copy@"+fn.Name(), c.P.Pos(fn.Pos()), true, "")
		return
	}
	// (B) element-wise copy: every reference field re-created
	res := fn.Signature.Results()
	if res.Len() == 0 {
		c.Undecided(rule, fn.Name(), "no result")
		return
	}
	sl, ok := res.At(0).Type().Underlying().(*types.Slice)
	if !ok {
		c.Undecided(rule, fn.Name(), "result is not a slice")
		return
	}
	st, ok := sl.Elem().Underlying().(*types.Struct)
	if !ok {
		c.Undecided(rule, fn.Name(), "element type is not a struct")
		return
	}
	isRef := func(t types.Type) bool {
		switch t.Underlying().(type) {
		case *types.Slice, *types.Map, *types.Pointer, *types.Interface, *types.Chan, *types.Signature:
			return true
		}
		return false
	}
	type refField struct {
		path string
		idx  []int
	}
	var refs []refField
	var walk func(s *types.Struct, prefix string, idx []int, depth int)
	walk = func(s *types.Struct, prefix string, idx []int, depth int) {
		for i := 0; i < s.NumFields(); i++ {
			f := s.Field(i)
			p := prefix + f.Name()
			ix := append(append([]int{}, idx...), i)
			if isRef(f.Type()) {
				refs = append(refs, refField{p, ix})
			} else if ns, isS := f.Type().Underlying().(*types.Struct); isS && depth > 0 {
				walk(ns, p+".", ix, depth-1)
			}
		}
	}
	walk(st, "", nil, 2)
	// stores of fresh values into fields of the copy
	fresh := map[string]bool{}
	eachInstr(fn, func(in ssa.Instruction) {
		stI, ok := in.(*ssa.Store)
		if !ok {
			return
		}
		// field path of the address
		var names []string
		a := stI.Addr
		for {
			fa, isFA := a.(*ssa.FieldAddr)
			if !isFA {
				break
			}
			names = append([]string{fieldOfAddr(fa).Name()}, names...)
			a = fa.X
		}
		if len(names) == 0 {
			return
		}
		switch v := stripNoSubst(stI.Val).(type) {
		case *ssa.Call, *ssa.MakeSlice, *ssa.MakeMap, *ssa.Alloc, *ssa.Slice:
			_ = v
			fresh[strings.Join(names, ".")] = true
		case *ssa.Const:
			fresh[strings.Join(names, ".")] = true // nil
		}
	})
	for _, rf := range refs {
		c.CheckAt(rule, "field-recreated:"+rf.path+"@"+fn.Name(), c.P.Pos(fn.Pos()), fresh[rf.path],
			fmt.Sprintf("%s copies its elements by assignment, which shares the reference-typed field %s with the caller's value: the 'private' copy that is published aliases the candidate, so a later edit of the candidate changes the running snapshot and its version without an apply", fn.Name(), rf.path))
	}
	if len(refs) == 0 {
		c.CheckAt(rule, "private-copy@"+fn.Name(), c.P.Pos(fn.Pos()), true, "")
	}
}
