package main

import (
	"fmt"
	"strings"

	"golang.org/x/tools/go/ssa"
)

// checkParameterGrammarAgreement: Lite's Validate excuses a backend address that does not parse when
// containsParameters says a `$n` placeholder may still be substituted into it, and checks the
// placeholders it counts with extractParameterIndices. The two recognisers are siblings: they must
// accept the same placeholder language (`$` followed by digits). If containsParameters is looser
// ("any $"), an address such as host:${PORT} is excused although nothing will ever be substituted —
// an invalid configuration passes validation.
func checkParameterGrammarAgreement(c *Ctx) {
	cp := c.MustFunc(pkgLCfg + ":containsParameters")
	ep := c.MustFunc(pkgLCfg + ":extractParameterIndices")
	if cp == nil || ep == nil {
		return
	}
	c.Analysed(cp, ep)
	// the pattern of a package-level regexp variable: its initialiser in the package's init
	globalPattern := func(g *ssa.Global) (string, bool) {
		pat, ok := "", false
		if g.Pkg == nil {
			return "", false
		}
		initFn := g.Pkg.Func("init")
		if initFn == nil {
			return "", false
		}
		eachInstr(initFn, func(in ssa.Instruction) {
			st, isSt := in.(*ssa.Store)
			if !isSt || st.Addr != ssa.Value(g) {
				return
			}
			if cl := callValue(stripNoSubst(st.Val)); cl != nil && strings.HasPrefix(calleeName(&cl.Call), "regexp.") && len(cl.Call.Args) > 0 {
				if s, isS := constString(cl.Call.Args[0]); isS {
					pat, ok = s, true
				}
			}
		})
		return pat, ok
	}
	patternOf := func(fn *ssa.Function) (string, bool) {
		pat, ok := "", false
		eachInstr(fn, func(in ssa.Instruction) {
			cc := callOf(in)
			if cc == nil {
				return
			}
			n := calleeName(cc)
			switch {
			case n == "regexp.MatchString" || n == "regexp.Match" || n == "regexp.MustCompile" || n == "regexp.Compile":
				if s, isS := constString(cc.Args[0]); isS {
					pat, ok = s, true
				}
			case strings.HasPrefix(n, "(*regexp.Regexp)."):
				// method on a package-level compiled pattern
				if ld, isLd := stripNoSubst(cc.Args[0]).(*ssa.UnOp); isLd {
					if g, isG := ld.X.(*ssa.Global); isG {
						if s, found := globalPattern(g); found {
							pat, ok = s, true
						}
					}
				}
			}
		})
		return pat, ok
	}
	unGroup := func(p string) string {
		// capture groups do not change the language
		var b strings.Builder
		for i := 0; i < len(p); i++ {
			if p[i] == '\\' && i+1 < len(p) {
				b.WriteByte(p[i])
				b.WriteByte(p[i+1])
				i++
				continue
			}
			if p[i] == '(' && !(i+1 < len(p) && p[i+1] == '?') {
				continue
			}
			if p[i] == ')' {
				continue
			}
			b.WriteByte(p[i])
		}
		return b.String()
	}
	pe, okE := patternOf(ep)
	pc, okC := patternOf(cp)
	delegates := false
	for range callsIn(cp, func(nm string, cc *ssa.CallCommon) bool { return staticCallee(cc) == ep }) {
		delegates = true
	}
	switch {
	case !okE:
		c.Undecided("parameter-grammar", "extractParameterIndices", "placeholder pattern not found")
	case delegates:
		c.CheckAt("parameter-grammar", "containsParameters≍extractParameterIndices", c.P.Pos(cp.Pos()), true, "")
	case !okC:
		c.CheckAt("parameter-grammar", "containsParameters≍extractParameterIndices", c.P.Pos(cp.Pos()), false,
			fmt.Sprintf("containsParameters does not recognise placeholders with the placeholder pattern %q (nor through extractParameterIndices): whatever it accepts beyond `$<digits>` excuses an unparseable backend address that will never be substituted", pe))
	default:
		eq, w, err := RegexEquivalent(".*"+unGroup(pc)+".*", ".*"+unGroup(pe)+".*")
		d := ""
		if err != nil {
			d = err.Error()
		} else if !eq {
			d = fmt.Sprintf("%q and %q differ on %q", pc, pe, w)
		}
		c.CheckAt("parameter-grammar", "containsParameters≍extractParameterIndices", c.P.Pos(cp.Pos()), err == nil && eq,
			"the two placeholder recognisers of Lite's validation accept different languages: "+d)
	}
}
