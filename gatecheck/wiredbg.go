package main

import (
	"fmt"
	"strings"
)

// debugWire prints a few accepted token sequences of a packet type's Encode and Decode automata.
func debugWire(name string, proto int64) {
	P, err := Load(registry["C04"].Patterns, false, nil)
	if err != nil {
		fmt.Println(err)
		return
	}
	vt, err := evalVersionTable(P)
	if err != nil {
		fmt.Println(err)
		return
	}
	p, ok := codecPairs(P)[name]
	if !ok {
		fmt.Println("no such codec pair", name)
		return
	}
	for i, side := range []string{"Encode", "Decode"} {
		a, w := wireOf(P, vt, p[i], proto)
		fmt.Printf("== %s %s proto=%d states=%d undecided=%v\n", name, side, proto, len(a.n.adj), w.Undecided)
		for _, s := range sampleLang(a, 12, 40) {
			fmt.Println("   ", s)
		}
	}
}

func sampleLang(a wAuto, max, maxLen int) []string {
	type st struct {
		set map[int]bool
		w   []string
	}
	var out []string
	seen := map[string]bool{}
	q := []st{{a.closure(map[int]bool{a.start: true}), nil}}
	for len(q) > 0 && len(out) < max {
		cur := q[0]
		q = q[1:]
		if cur.set[a.end] {
			out = append(out, "["+strings.Join(cur.w, " ")+"]")
		}
		if len(cur.w) >= maxLen {
			continue
		}
		for _, t := range a.tokens(cur.set) {
			ns := a.step(cur.set, t)
			k := setKey(ns) + fmt.Sprint(len(cur.w))
			if seen[k] {
				continue
			}
			seen[k] = true
			q = append(q, st{ns, append(append([]string{}, cur.w...), t)})
		}
	}
	return out
}
