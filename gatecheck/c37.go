package main

import (
	"fmt"
	"go/constant"
	"go/token"
	"go/types"
	"math"
	"reflect"
	"sort"
	"strings"

	"golang.org/x/tools/go/ssa"
)

const (
	pkgJCfg = "pkg/edition/java/config"
	pkgLCfg = "pkg/edition/java/lite/config"
)

func init() {
	register(&propDef{
		ID:       "C37",
		Title:    "Validation accepts exactly the documented configuration space",
		Patterns: []string{"./pkg/edition/java/config", "./pkg/edition/java/lite/config", "./pkg/gate/config", "./pkg/util/validation"},
		Run:      runC37,
		Rule: "P3 interval clauses: for each numeric constraint (compression level −1..9, threshold ≥ −1, quota burst ≥ 1, max entries ≥ 1, ops > 0 — quota only on the Enabled edge) every " +
			"error report lies behind comparison edges that each imply the value is outside the documented interval, and the edge on which no error is reported bounds the value to exactly " +
			"that interval; P2 reference clauses: the errors for try / forced-host names lie behind the not-found edge of a lookup of that name in Servers; exhaustiveness: the unknown-mode " +
			"error lies behind a failed comparison with every declared ForwardingMode constant, the invalid-strategy error behind slices.Contains(allowedStrategies, s)==false and s != \"\" " +
			"with allowedStrategies listing every declared Strategy constant; bind/servers: ValidHostPort / ValidServerName failures are reported; the trusted-proxy list is parsed and " +
			"reported before (independently of) the proxyProtocol switch; Lite validation is delegated exactly when lite.enabled and its errors are returned; round trip: every exported " +
			"field of the configuration structs has yaml and json tags with the same name and neither is '-'.",
		Explanation: "Decides: the numeric boundaries and which field they apply to, that unknown references / modes / strategies are errors and all declared ones are accepted, that no part of " +
			"the documented checks is skipped by a feature switch, that no field is lost by one serialisation format. Does not decide: the host:port and name grammars themselves, nor " +
			"equality of a reloaded value with the original (value-level).",
		Fixtures: []string{"bounds", "guardcut"},
		Variants: []Variant{
			{Name: "compression-level-10-accepted", File: pkgJCfg + "/config.go",
				Old: "c.Compression.Level > 9 {", New: "c.Compression.Level > 10 {", Expect: "interval:Compression.Level"},
			{Name: "threshold-minus-1-rejected", File: pkgJCfg + "/config.go",
				Old: "\tif c.Compression.Threshold < -1 {", New: "\tif c.Compression.Threshold < 0 {", Expect: "interval:Compression.Threshold"},
			{Name: "quota-burst-zero-accepted", File: pkgJCfg + "/config.go",
				Old: "\t\t\tif quota.Burst < 1 {", New: "\t\t\tif quota.Burst < 0 {", Expect: "interval:Burst"},
			{Name: "quota-checked-when-disabled", File: pkgJCfg + "/config.go",
				Old: "\t\tif quota.Enabled {\n\t\t\tif quota.OPS <= 0 {", New: "\t\t{\n\t\t\tif quota.OPS <= 0 {", Expect: "interval:OPS"},
			{Name: "quota-loop-stops-at-first-disabled", File: pkgJCfg + "/config.go",
				Old: "\t\tif quota.Enabled {\n\t\t\tif quota.OPS <= 0 {", New: "\t\tif !quota.Enabled {\n\t\t\tbreak\n\t\t}\n\t\t{\n\t\t\tif quota.OPS <= 0 {", Expect: "all-items-validated"},
			{Name: "try-reference-unchecked", File: pkgJCfg + "/config.go",
				Old: "\t\tif _, ok := c.Servers[name]; !ok {\n\t\t\te(\"Fallback/try server", New: "\t\tif _, ok := c.Servers[name]; !ok && name == \"\" {\n\t\t\te(\"Fallback/try server", Expect: "reference:try"},
			{Name: "bungeeguard-mode-unknown", File: pkgJCfg + "/config.go",
				Old: "\tcase LegacyForwardingMode, VelocityForwardingMode, BungeeGuardForwardingMode:", New: "\tcase LegacyForwardingMode, VelocityForwardingMode:", Expect: "forwarding-mode"},
			{Name: "trusted-proxies-only-when-enabled", File: pkgJCfg + "/config.go",
				Old: "\ttrusted, err := netutil.ParseTrustedNetworks(ResolveProxyProtocolTrustedProxies(c.ProxyProtocolTrustedProxies))\n\tif err != nil {",
				New: "\ttrusted, err := netutil.ParseTrustedNetworks(ResolveProxyProtocolTrustedProxies(c.ProxyProtocolTrustedProxies))\n\tif err != nil && c.ProxyProtocol {", Expect: "trusted-proxies"},
			{Name: "lite-errors-dropped", File: pkgJCfg + "/config.go",
				Old: "\t\terrs = append(errs, errs2...)\n", New: "\t\t_ = errs2\n", Expect: "lite-delegated"},
			{Name: "strategy-missing-from-allowed", File: pkgLCfg + "/config.go",
				Old: "\tStrategyLeastConnections,\n\tStrategyLowestLatency,\n}", New: "\tStrategyLeastConnections,\n}", Expect: "strategy-set"},
		},
	})
}

// errorReporter finds the closure of fn that appends to the result named "errs".
func errorReporter(fn *ssa.Function) *ssa.Function {
	for _, a := range fn.AnonFuncs {
		found := false
		eachInstr(a, func(in ssa.Instruction) {
			if st, ok := in.(*ssa.Store); ok {
				if fv, isFV := st.Addr.(*ssa.FreeVar); isFV && fv.Name() == "errs" {
					found = true
				}
			}
		})
		if found {
			return a
		}
	}
	return nil
}

// reportCalls lists the calls in fn (not nested closures) to the error reporter e, which may be
// fn's own closure or a parameter handed down (validateX(c, e, w)).
func reportCalls(fn *ssa.Function, e *ssa.Function, eParam *ssa.Parameter) []*ssa.Call {
	var out []*ssa.Call
	eachInstr(fn, func(in ssa.Instruction) {
		cl, ok := in.(*ssa.Call)
		if !ok || cl.Call.IsInvoke() {
			return
		}
		if eParam != nil && stripNoSubst(cl.Call.Value) == ssa.Value(eParam) {
			out = append(out, cl)
			return
		}
		if e == nil {
			return
		}
		for _, g := range resolveFuncValue(cl.Call.Value) {
			if g == e {
				out = append(out, cl)
			}
		}
	})
	return out
}

func firstConstString(cl *ssa.Call) string {
	if len(cl.Call.Args) == 0 {
		return ""
	}
	s, _ := constString(cl.Call.Args[0])
	return s
}

type interval struct {
	key, pathSuffix, msgPrefix string
	lo, hi                     float64 // inclusive bounds of the accepted set; ±Inf for open; loStrict for "> lo"
	loStrict                   bool
	needEnabled                bool
}

// outside: does the edge (value op k, truth) imply the value is outside iv?
func (iv interval) outside(op token.Token, k float64, truth bool) bool {
	if !truth {
		switch op {
		case token.LSS:
			op = token.GEQ
		case token.LEQ:
			op = token.GTR
		case token.GTR:
			op = token.LEQ
		case token.GEQ:
			op = token.LSS
		default:
			return false
		}
	}
	switch op {
	case token.LSS: // v < k  ⇒ outside iff k <= lo (ints) / k <= lo
		if iv.loStrict {
			return k <= iv.lo
		}
		return k <= iv.lo
	case token.LEQ: // v <= k ⇒ outside iff k < lo, or k == lo when lo is excluded
		if iv.loStrict {
			return k <= iv.lo
		}
		return k < iv.lo
	case token.GTR:
		return k >= iv.hi
	case token.GEQ:
		return k > iv.hi
	}
	return false
}

func constNumber(v ssa.Value) (float64, bool) {
	c, ok := strip(v).(*ssa.Const)
	if !ok || c.Value == nil {
		return 0, false
	}
	switch c.Value.Kind() {
	case constant.Int, constant.Float:
		f, _ := constant.Float64Val(constant.ToFloat(c.Value))
		return f, true
	}
	return 0, false
}

func runC37(c *Ctx) {
	checkParameterGrammarAgreement(c)
	val := c.MustFunc(pkgJCfg + ":(*Config).Validate")
	if val == nil {
		return
	}
	c.Analysed(val)
	e := errorReporter(val)
	if e == nil {
		c.Undecided("anchor", "Validate", "error reporter closure not found")
		return
	}
	// Validate and the unexported validators it was split into (validateQuota(q, e), validateServers(c, e) …):
	// their parameters are bound to the arguments of their (single) call, so that access paths and the
	// error reporter handed down as a parameter resolve to Validate's own values.
	parts := deepFuncs(val, 2)
	bind := map[*ssa.Parameter]ssa.Value{}
	for _, f := range parts {
		if f == val || f.Parent() != nil {
			continue
		}
		if sites := staticCallersOf(f); len(sites) == 1 {
			for i, p := range f.Params {
				if i < len(sites[0].Common().Args) {
					bind[p] = sites[0].Common().Args[i]
				}
			}
		}
	}
	savedSubst := activeSubst
	activeSubst = bind
	defer func() { activeSubst = savedSubst }()
	var reports []*ssa.Call
	for _, f := range parts {
		if f.Parent() != nil {
			continue
		}
		if f == val {
			reports = append(reports, reportCalls(f, e, nil)...)
			continue
		}
		c.Analysed(f)
		for _, p := range f.Params {
			isE := false
			for _, g := range resolveFuncValue(strip(p)) {
				if g == e {
					isE = true
				}
			}
			if isE {
				reports = append(reports, reportCalls(f, nil, p)...)
			}
		}
	}
	c.Info["error_reports_in_Validate"] = len(reports)

	// ---- (1) intervals
	ivs := []interval{
		{"Compression.Level", ".Compression.Level", "Unsupported compression level", -1, 9, false, false},
		{"Compression.Threshold", ".Compression.Threshold", "Invalid compression threshold", -1, math.Inf(1), false, false},
		{"OPS", ".OPS", "Invalid quota ops", 0, math.Inf(1), true, true},
		{"Burst", ".Burst", "Invalid quota burst", 1, math.Inf(1), false, true},
		{"MaxEntries", ".MaxEntries", "Invalid quota max entries", 1, math.Inf(1), false, true},
	}
	for _, iv := range ivs {
		var rep *ssa.Call
		for _, r := range reports {
			if strings.HasPrefix(firstConstString(r), iv.msgPrefix) {
				rep = r
			}
		}
		if rep == nil {
			c.CheckAt("interval", iv.key, c.P.Pos(val.Pos()), false, "no error is reported for "+iv.key+" outside its documented range")
			continue
		}
		onValue := func(cond ssa.Value) (token.Token, float64, bool) {
			bo, ok := cond.(*ssa.BinOp)
			if !ok {
				return 0, 0, false
			}
			if k, isK := constNumber(bo.Y); isK && strings.HasSuffix(PathOf(strip(bo.X)), iv.pathSuffix) {
				return bo.Op, k, true
			}
			if k, isK := constNumber(bo.X); isK && strings.HasSuffix(PathOf(strip(bo.Y)), iv.pathSuffix) {
				return flipOp(bo.Op), k, true
			}
			return 0, 0, false
		}
		var sel []Edge
		g, ns := MustCross(rep, func(ed Edge, cond ssa.Value, truth bool) bool {
			op, k, ok := onValue(cond)
			if ok && iv.outside(op, k, truth) {
				sel = append(sel, ed)
				return true
			}
			return false
		})
		sound := g && ns > 0
		// completeness: taking none of the error edges bounds the value to the interval
		complete := sound
		lo, hi := math.Inf(-1), math.Inf(1)
		loStrict := false
		for _, ed := range sel {
			cond, truth := ed.Cond()
			op, k, _ := onValue(cond)
			// the complementary edge
			if truth {
				switch op {
				case token.LSS:
					op = token.GEQ
				case token.LEQ:
					op = token.GTR
				case token.GTR:
					op = token.LEQ
				case token.GEQ:
					op = token.LSS
				}
			}
			switch op {
			case token.GEQ:
				if k > lo {
					lo, loStrict = k, false
				}
			case token.GTR:
				if k >= lo {
					lo, loStrict = k, true
				}
			case token.LEQ:
				if k < hi {
					hi = k
				}
			case token.LSS:
				if k-1 < hi {
					hi = k - 1
				}
			}
		}
		if lo != iv.lo || loStrict != iv.loStrict || hi != iv.hi {
			complete = false
		}
		enabledOK := true
		if iv.needEnabled {
			ge, ne := MustCross(rep, func(ed Edge, cond ssa.Value, truth bool) bool { return truth && strings.HasSuffix(PathOf(strip(cond)), ".Enabled") })
			enabledOK = ge && ne > 0
		}
		c.Check("interval", iv.key, rep, sound && complete && enabledOK,
			fmt.Sprintf("the accepted range of %s must be exactly %s (error edges imply outside=%v; accepted range derived from the code: %s; only-when-enabled=%v)",
				iv.key, fmtInterval(iv.lo, iv.hi, iv.loStrict), sound, fmtInterval(lo, hi, loStrict), enabledOK))
	}

	// every item of every validated collection is examined
	nLoopParts := 0
	for _, f := range parts {
		if f.Parent() != nil {
			continue
		}
		hasLoop := false
		for _, b := range f.Blocks {
			for _, p := range b.Preds {
				if b.Dominates(p) {
					hasLoop = true
				}
			}
		}
		if hasLoop {
			nLoopParts++
			checkNoEarlyLoopExit(c, "all-items-validated", f)
		}
	}
	if nLoopParts == 0 {
		c.Undecided("all-items-validated", "Validate", "no validation loop found")
	}
	checkNoEarlyLoopExit(c, "all-items-validated", c.P.Func(pkgLCfg+":(Config).Validate"))

	// ---- (2) references
	for _, ref := range []struct{ key, msg string }{{"try", "Fallback/try server"}, {"forced-host", "Forced host"}} {
		var rep *ssa.Call
		for _, r := range reports {
			if strings.HasPrefix(firstConstString(r), ref.msg) {
				rep = r
			}
		}
		if rep == nil {
			c.CheckAt("reference", ref.key, c.P.Pos(val.Pos()), false, "unknown "+ref.key+" server names are not reported")
			continue
		}
		// the report lies exactly behind the not-found edge: every dominating condition is that lookup's ok (or the loops' range tests)
		okLookup := false
		extra := false
		// (also when the lookup sits in a local predicate such as registered(name))
		if g, ns := MustCross(rep, func(ed Edge, cond ssa.Value, truth bool) bool {
			ex, ok := cond.(*ssa.Extract)
			if !ok || ex.Index != 1 || truth {
				return false
			}
			lk, ok := ex.Tuple.(*ssa.Lookup)
			return ok && lk.CommaOk && strings.HasSuffix(PathOf(lk.X), ".Servers")
		}); g && ns > 0 {
			okLookup = true
		}
		for _, ed := range EdgeDominators(rep.Block()) {
			cond, truth := ed.Cond()
			if ex, ok := cond.(*ssa.Extract); ok && ex.Index == 1 {
				if lk, ok := ex.Tuple.(*ssa.Lookup); ok && lk.CommaOk && strings.HasSuffix(PathOf(lk.X), ".Servers") && !truth {
					okLookup = true
					continue
				}
				continue // range/next ok
			}
			if bo, ok := cond.(*ssa.BinOp); ok {
				// loop bounds (index < len) are fine; comparisons on strings are an extra condition
				if b, isB := bo.X.Type().Underlying().(*types.Basic); isB && b.Info()&types.IsString != 0 {
					extra = true
				}
			}
		}
		c.Check("reference", ref.key, rep, okLookup && !extra,
			"a "+ref.key+" entry naming a server that is not registered under servers must be reported (not-found edge of the Servers lookup, and nothing else)")
	}

	// ---- (3) forwarding modes
	{
		var rep *ssa.Call
		for _, r := range reports {
			if strings.HasPrefix(firstConstString(r), "Unknown forwarding mode") {
				rep = r
			}
		}
		var declared []string
		if pk := c.P.Pkg(pkgJCfg); pk != nil && pk.Types != nil {
			for _, n := range pk.Types.Scope().Names() {
				if k, ok := pk.Types.Scope().Lookup(n).(*types.Const); ok {
					if nt, isN := k.Type().(*types.Named); isN && nt.Obj().Name() == "ForwardingMode" {
						declared = append(declared, constant.StringVal(k.Val()))
					}
				}
			}
		}
		sort.Strings(declared)
		if rep == nil || len(declared) == 0 {
			c.CheckAt("forwarding-mode", "unknown-mode-error", c.P.Pos(val.Pos()), false, "unknown forwarding modes are not reported / no ForwardingMode constants found")
		} else {
			missing := []string{}
			for _, d := range declared {
				d := d
				g, ns := MustCross(rep, func(ed Edge, cond ssa.Value, truth bool) bool {
					bo, ok := cond.(*ssa.BinOp)
					if !ok || !strings.HasSuffix(PathOf(strip(bo.X)), ".Forwarding.Mode") {
						return false
					}
					s, isS := constString(bo.Y)
					return isS && s == d && ((bo.Op == token.EQL && !truth) || (bo.Op == token.NEQ && truth))
				})
				if !(g && ns > 0) {
					missing = append(missing, d)
				}
			}
			c.Check("forwarding-mode", "unknown-mode-error", rep, len(missing) == 0,
				fmt.Sprintf("every declared forwarding mode %v must be accepted and anything else reported; the error is reachable for %v", declared, missing))
		}
	}

	// ---- (4) bind and servers
	for _, chk := range []struct{ key, callee, msg string }{
		{"bind", "validation.ValidHostPort", "Invalid bind"},
		{"server-address", "validation.ValidHostPort", "Invalid address"},
		{"server-name", "validation.ValidServerName", "Invalid server name format"},
	} {
		ok := false
		for _, r := range reports {
			if !strings.HasPrefix(firstConstString(r), chk.msg) {
				continue
			}
			g, ns := MustCross(r, func(ed Edge, cond ssa.Value, truth bool) bool {
				if errNonNilEdge(cond, truth, callSuffix(chk.callee)) {
					return true
				}
				return boolCallEdge(cond, truth, false, callSuffix(chk.callee))
			})
			ok = g && ns > 0
		}
		c.CheckAt("syntax-checked", chk.key, c.P.Pos(val.Pos()), ok, "a failing "+chk.callee+" for "+chk.key+" must be reported as an error")
	}
	// empty bind
	{
		ok := false
		for _, r := range reports {
			if firstConstString(r) == "Bind is empty" {
				ok = true
			}
		}
		c.CheckAt("syntax-checked", "bind-empty", c.P.Pos(val.Pos()), ok, "an empty bind address must be reported")
	}

	// ---- (5) trusted proxies independent of the switch
	if vp := c.MustFunc(pkgJCfg + ":validateProxyProtocol"); vp != nil {
		c.Analysed(vp)
		var eParam *ssa.Parameter
		if len(vp.Params) >= 2 {
			eParam = vp.Params[1]
		}
		ok := false
		for _, r := range reportCalls(vp, nil, eParam) {
			if !strings.HasPrefix(firstConstString(r), "Invalid proxyProtocolTrustedProxies") {
				continue
			}
			g, ns := MustCross(r, func(ed Edge, cond ssa.Value, truth bool) bool {
				return errNonNilEdge(cond, truth, callSuffix("netutil.ParseTrustedNetworks"))
			})
			sw := false
			for _, ed := range EdgeDominators(r.Block()) {
				cond, _ := ed.Cond()
				if derivesFrom(cond, 3, func(x ssa.Value) bool { return strings.HasSuffix(PathOf(x), ".ProxyProtocol") }) {
					sw = true
				}
			}
			ok = g && ns > 0 && !sw
		}
		c.CheckAt("trusted-proxies", "parsed-and-reported-regardless-of-switch@validateProxyProtocol", c.P.Pos(vp.Pos()), ok,
			"an unparsable trusted-proxy list must be reported even while proxyProtocol is off")
		n := 0
		for _, ci := range callsIn(val, func(nm string, cc *ssa.CallCommon) bool { return strings.HasSuffix(nm, "config.validateProxyProtocol") }) {
			n++
			g, _ := MustCross(ci, func(ed Edge, cond ssa.Value, truth bool) bool {
				return derivesFrom(cond, 3, func(x ssa.Value) bool {
					p := PathOf(x)
					return strings.HasSuffix(p, ".Lite.Enabled") || strings.HasSuffix(p, ".ProxyProtocol")
				})
			})
			c.Check("trusted-proxies", "validateProxyProtocol-unconditional@Validate", ci, !g, "the trusted-proxy validation must run for every configuration")
		}
		if n == 0 {
			c.Undecided("trusted-proxies", "Validate", "validateProxyProtocol is not called")
		}
	}

	// ---- (6) Lite delegation
	{
		n := 0
		for _, ci := range callsIn(val, func(nm string, cc *ssa.CallCommon) bool { return strings.HasSuffix(nm, "lite/config.Config).Validate") }) {
			n++
			g, ns := MustCross(ci, func(ed Edge, cond ssa.Value, truth bool) bool { return truth && strings.HasSuffix(PathOf(strip(cond)), ".Lite.Enabled") })
			// its second result reaches errs
			flows := false
			if v, ok := ci.(ssa.Value); ok && v.Referrers() != nil {
				for _, ref := range *v.Referrers() {
					if ex, isEx := ref.(*ssa.Extract); isEx && ex.Index == 1 {
						flows = valueConsumed(ex, map[ssa.Value]bool{})
						// consumed must mean appended to errs: an append call whose result is stored to the errs cell
						flows = flows && derivesIntoCell(ex, "errs")
					}
				}
			}
			c.Check("lite-delegated", "Lite.Validate-iff-enabled@Validate", ci, g && ns > 0 && flows,
				fmt.Sprintf("Lite routes and strategies must be validated exactly when lite.enabled and their errors returned (guarded=%v errors-returned=%v)", g && ns > 0, flows))
		}
		if n == 0 {
			c.Undecided("lite-delegated", "Validate", "lite Validate is not called")
		}
	}

	// ---- (7) strategies
	if lv := c.MustFunc(pkgLCfg + ":(Config).Validate"); lv != nil {
		c.Analysed(lv)
		le := errorReporter(lv)
		ok := false
		for _, r := range reportCalls(lv, le, nil) {
			if !strings.Contains(firstConstString(r), "invalid strategy") {
				continue
			}
			g1, n1 := MustCross(r, func(ed Edge, cond ssa.Value, truth bool) bool {
				cl := callValue(cond)
				return cl != nil && !truth && strings.HasPrefix(calleeName(&cl.Call), "slices.Contains") && isGlobalNamed(cl.Call.Args[0], "allowedStrategies")
			})
			g2, n2 := MustCross(r, func(ed Edge, cond ssa.Value, truth bool) bool {
				bo, isB := cond.(*ssa.BinOp)
				if !isB {
					return false
				}
				s, isS := constString(bo.Y)
				return isS && s == "" && strings.HasSuffix(PathOf(strip(bo.X)), ".Strategy") && ((bo.Op == token.NEQ && truth) || (bo.Op == token.EQL && !truth))
			})
			ok = g1 && n1 > 0 && g2 && n2 > 0
		}
		c.CheckAt("strategy-set", "invalid-strategy-error@lite.Validate", c.P.Pos(lv.Pos()), ok, "a non-empty strategy that is not in allowedStrategies must be reported")
		// allowedStrategies lists every declared Strategy constant
		var declared []string
		if pk := c.P.Pkg(pkgLCfg); pk != nil && pk.Types != nil {
			for _, n := range pk.Types.Scope().Names() {
				if k, isC := pk.Types.Scope().Lookup(n).(*types.Const); isC {
					if nt, isN := k.Type().(*types.Named); isN && nt.Obj().Name() == "Strategy" {
						declared = append(declared, constant.StringVal(k.Val()))
					}
				}
			}
		}
		listed := map[string]bool{}
		if ini := c.P.Func(pkgLCfg + ":init"); ini != nil {
			eachInstr(ini, func(in ssa.Instruction) {
				st, isSt := in.(*ssa.Store)
				if !isSt {
					return
				}
				ia, isIA := st.Addr.(*ssa.IndexAddr)
				if !isIA {
					return
				}
				// the array ends up in allowedStrategies
				toGlobal := false
				if al, isAl := ia.X.(*ssa.Alloc); isAl && al.Referrers() != nil {
					for _, ref := range *al.Referrers() {
						if sl, isSl := ref.(*ssa.Slice); isSl && sl.Referrers() != nil {
							for _, r2 := range *sl.Referrers() {
								if s2, isS2 := r2.(*ssa.Store); isS2 {
									if gl, isG := s2.Addr.(*ssa.Global); isG && gl.Name() == "allowedStrategies" {
										toGlobal = true
									}
								}
							}
						}
					}
				}
				if s, isS := constString(st.Val); isS && toGlobal {
					listed[s] = true
				}
			})
		}
		var missing []string
		for _, d := range declared {
			if !listed[d] {
				missing = append(missing, d)
			}
		}
		c.CheckAt("strategy-set", "allowedStrategies=declared", c.P.Pos(lv.Pos()), len(declared) >= 5 && len(missing) == 0,
			fmt.Sprintf("every declared strategy must be accepted by validation; declared %v, not listed in allowedStrategies: %v", declared, missing))
	}

	// ---- (8) tags
	nFields, bad := 0, []string{}
	for _, rel := range []string{pkgJCfg, pkgLCfg, "pkg/gate/config"} {
		pk := c.P.Pkg(rel)
		if pk == nil || pk.Types == nil {
			continue
		}
		seen := map[*types.Struct]bool{}
		var walk func(name string, t types.Type)
		walk = func(name string, t types.Type) {
			st, ok := t.Underlying().(*types.Struct)
			if !ok || seen[st] {
				return
			}
			seen[st] = true
			for i := 0; i < st.NumFields(); i++ {
				f := st.Field(i)
				if !f.Exported() {
					continue
				}
				tag := reflect.StructTag(st.Tag(i))
				y, hasY := tag.Lookup("yaml")
				j, hasJ := tag.Lookup("json")
				if !hasY && !hasJ {
					// untagged on both sides: both formats derive a name; nested structs are still walked
					walk(name+"."+f.Name(), f.Type())
					continue
				}
				nFields++
				yn, jn := strings.Split(y, ",")[0], strings.Split(j, ",")[0]
				// a field one format drops ("-") while the other keeps it, or that both formats name explicitly but differently
				if (hasY && yn == "-") != (hasJ && jn == "-") || (hasY && hasJ && yn != jn) {
					bad = append(bad, fmt.Sprintf("%s.%s (yaml:%q json:%q)", name, f.Name(), y, j))
				}
				ft := f.Type()
				if p, isP := ft.(*types.Pointer); isP {
					ft = p.Elem()
				}
				if nt, isN := ft.(*types.Named); isN && nt.Obj().Pkg() != nil && strings.HasPrefix(nt.Obj().Pkg().Path(), Mod) {
					walk(name+"."+f.Name(), nt)
				} else if _, isS := ft.Underlying().(*types.Struct); isS {
					walk(name+"."+f.Name(), ft)
				}
			}
		}
		for _, n := range pk.Types.Scope().Names() {
			if tn, ok := pk.Types.Scope().Lookup(n).(*types.TypeName); ok {
				walk(tn.Name(), tn.Type())
			}
		}
	}
	sort.Strings(bad)
	d := ""
	if len(bad) > 0 {
		d = strings.Join(bad[:min(len(bad), 5)], "; ")
	}
	c.CheckAt("round-trip-tags", "yaml=json names", pkgJCfg, len(bad) == 0 && nFields >= 60,
		fmt.Sprintf("a configuration field must be carried under the same name by both serialisation formats (%d tagged fields); disagreeing: %s", nFields, d))
}

func fmtInterval(lo, hi float64, loStrict bool) string {
	l := "["
	if loStrict {
		l = "("
	}
	los, his := fmt.Sprint(lo), fmt.Sprint(hi)
	if math.IsInf(lo, -1) {
		los, l = "-inf", "("
	}
	r := "]"
	if math.IsInf(hi, 1) {
		his, r = "+inf", ")"
	}
	return l + los + ", " + his + r
}

// derivesIntoCell: v flows (through append/phi/conversions) into a store to the cell named name.
func derivesIntoCell(v ssa.Value, name string) bool {
	seen := map[ssa.Value]bool{}
	var walk func(x ssa.Value) bool
	walk = func(x ssa.Value) bool {
		if seen[x] || x.Referrers() == nil {
			return false
		}
		seen[x] = true
		for _, r := range *x.Referrers() {
			switch u := r.(type) {
			case *ssa.Store:
				if u.Val == x {
					if al, ok := u.Addr.(*ssa.Alloc); ok && al.Comment == name {
						return true
					}
					if fv, ok := u.Addr.(*ssa.FreeVar); ok && fv.Name() == name {
						return true
					}
				}
			case *ssa.Call:
				if walk(u) {
					return true
				}
			case *ssa.Phi:
				if walk(u) {
					return true
				}
			case *ssa.Return:
				return true
			case *ssa.Slice, *ssa.ChangeType, *ssa.Convert:
				if walk(u.(ssa.Value)) {
					return true
				}
			}
		}
		return false
	}
	return walk(v)
}
