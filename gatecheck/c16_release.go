package main

import (
	"go/token"

	"golang.org/x/tools/go/ssa"
)

func checkReleaseIdentity(c *Ctx, ic *ssa.Function, isInFlightAddr func(ssa.Value) bool) {
	identityEdge := func(e Edge, cond ssa.Value, truth bool) bool {
		bo, ok := cond.(*ssa.BinOp)
		if !ok {
			return false
		}
		if !((bo.Op == token.EQL && truth) || (bo.Op == token.NEQ && !truth)) {
			return false
		}
		for _, side := range [][2]ssa.Value{{bo.X, bo.Y}, {bo.Y, bo.X}} {
			ld, isLd := strip(side[0]).(*ssa.UnOp)
			if !isLd || !isInFlightAddr(ld.X) {
				continue
			}
			if isNilConst(strip(side[1])) {
				continue
			}
			switch strip(side[1]).(type) {
			case *ssa.Parameter, *ssa.FreeVar, *ssa.UnOp:
				return true
			}
		}
		return false
	}
	var visit func(f *ssa.Function, depth int, seen map[*ssa.Function]bool) (stores, bad int)
	visit = func(f *ssa.Function, depth int, seen map[*ssa.Function]bool) (stores, bad int) {
		if f == nil || f.Blocks == nil || seen[f] || depth > 3 {
			return
		}
		seen[f] = true
		c.Analysed(f)
		eachInstr(f, func(in ssa.Instruction) {
			switch x := in.(type) {
			case *ssa.Store:
				if !isInFlightAddr(x.Addr) {
					return
				}
				stores++
				g, ns := MustCross(x, identityEdge)
				ok := g && ns > 0
				if !ok {
					bad++
				}
				c.Check("release-identity", "connInFlight=…@"+shortName(f)+" (deferred by internalConnect)", x, ok,
					"the reset deferred by a connection attempt clears the in-flight slot without checking that it still holds this attempt's own connection: a finishing attempt wipes a newer attempt's claim and the next request dials a second backend")
			case *ssa.Call:
				s2, b2 := visit(staticCallee(&x.Call), depth+1, seen)
				stores += s2
				bad += b2
			case *ssa.Defer:
				s2, b2 := visit(staticCallee(&x.Call), depth+1, seen)
				stores += s2
				bad += b2
			}
		})
		return
	}
	total := 0
	nDefer := 0
	eachInstr(ic, func(in ssa.Instruction) {
		d, ok := in.(*ssa.Defer)
		if !ok {
			return
		}
		f := staticCallee(&d.Call)
		if f == nil {
			if mc, isMC := d.Call.Value.(*ssa.MakeClosure); isMC {
				f, _ = mc.Fn.(*ssa.Function)
			}
		}
		s, _ := visit(f, 0, map[*ssa.Function]bool{})
		if s > 0 {
			nDefer++
		}
		total += s
	})
	c.CheckAt("release-identity", "defer-release@internalConnect", c.P.Pos(ic.Pos()), nDefer > 0 && total > 0,
		"a connection attempt must give its in-flight claim back on every exit (a deferred call that clears the slot)")
}
