package main

import (
	"fmt"
	"strings"

	"golang.org/x/tools/go/ssa"
)

func init() {
	register(&propDef{
		ID:       "C44",
		Title:    "Connections tear down exactly once and survive handler panics",
		Patterns: []string{"./pkg/edition/java/netmc"},
		Run:      runC44,
		Rule: "who-may-call: SessionHandler.Disconnected (interface dispatch) is invoked in package netmc only inside the closure passed to closeOnce.Do of minecraftConn; " +
			"(thorough: nowhere else in the module except handler-to-handler delegation on the receiver's own embedded/inner handler); cancelCtx and the socket Close are inside the " +
			"same once; WritePacket/Write/BufferPacket/BufferPayload test Closed(c) before touching the writer and return ErrClosedConn on that edge; every writer error in those " +
			"methods and in Flush reaches closeOnWriteErr, which calls Close for every non-nil error; startReadLoop defers closeKnown and calls HandlePacket inside a function whose " +
			"defer chain recovers and whose caller loops again after a recovered panic.",
		Explanation: "Decides: single teardown site guarded by sync.Once, closed-check before write, write errors close, read loop closes on exit and contains handler panics. " +
			"Does not decide: lock re-entry of teardown paths (SetState holds mu while ReleaseQueue may reach Close), nor panics in goroutines other than the read loop.",
		Fixtures: []string{"guardcut"},
		Variants: []Variant{
			{Name: "context-cancelled-after-teardown", File: pkgNetmc + "/connection.go",
				Old: "\t\tc.cancelCtx()\n\t\terr = c.c.Close()", New: "\t\tdefer c.cancelCtx()\n\t\terr = c.c.Close()", Expect: "teardown-order"},
			{Name: "disconnected-outside-once", File: pkgNetmc + "/connection.go",
				Old:    "\tif alreadyClosed {\n\t\terr = ErrClosedConn\n\t}",
				New:    "\tif alreadyClosed {\n\t\terr = ErrClosedConn\n\t\tif sh := c.ActiveSessionHandler(); sh != nil {\n\t\t\tsh.Disconnected()\n\t\t}\n\t}",
				Expect: "teardown-once"},
			{Name: "write-without-closed-check", File: pkgNetmc + "/connection.go",
				Old:    "func (c *minecraftConn) BufferPayload(payload []byte) (err error) {\n\tif Closed(c) {\n\t\treturn ErrClosedConn\n\t}\n",
				New:    "func (c *minecraftConn) BufferPayload(payload []byte) (err error) {\n",
				Expect: "closed-check"},
			{Name: "write-error-not-closing", File: pkgNetmc + "/connection.go",
				Old:    "\tif _, err = c.wr.Write(payload); err != nil {\n\t\tc.closeOnWriteErr(err, \"writePayloadLen\", len(payload))\n\t\treturn err\n\t}",
				New:    "\tif _, err = c.wr.Write(payload); err != nil {\n\t\treturn err\n\t}",
				Expect: "write-error-closes"},
			{Name: "no-recover", File: pkgNetmc + "/connection.go",
				Old:    "\t\t\tif r := recover(); r != nil {\n\t\t\t\tc.log.Error(nil, \"recovered panic in packets read loop\", \"panic\", r)\n\t\t\t\tok = true // recovered, keep going\n\t\t\t}",
				New:    "\t\t\tok = false",
				Expect: "panic-contained"},
			{Name: "readloop-no-close", File: pkgNetmc + "/connection.go",
				Old: "\tdefer func() { _ = c.closeKnown(false) }()\n", New: "", Expect: "readloop-closes"},
			{Name: "close-on-err-skips", File: pkgNetmc + "/connection.go",
				Old:    "\tif err == nil {\n\t\treturn\n\t}\n\t_ = c.Close()\n\tif errors.Is(err, ErrClosedConn) {\n\t\treturn // Don't log this error\n\t}",
				New:    "\tif err == nil {\n\t\treturn\n\t}\n\tif errors.Is(err, ErrClosedConn) {\n\t\treturn // Don't log this error\n\t}\n\t_ = c.Close()",
				Expect: "closeOnWriteErr-closes"},
		},
	})
}

func runC44(c *Ctx) {
	scope := c.P.Funcs(Mod + "/" + pkgNetmc)
	ck := c.MustFunc(pkgNetmc + ":(*minecraftConn).closeKnown")

	// (1) Disconnected only inside closeOnce.Do's closure
	var onceClosures []*ssa.Function
	if ck != nil {
		for _, ci := range callsIn(ck, func(nm string, cc *ssa.CallCommon) bool {
			return strings.HasSuffix(nm, "sync.Once).Do") && strings.HasSuffix(PathOf(cc.Args[0]), ".closeOnce")
		}) {
			if mc, ok := ci.Common().Args[1].(*ssa.MakeClosure); ok {
				onceClosures = append(onceClosures, Closures(mc.Fn.(*ssa.Function))...)
			}
		}
		if len(onceClosures) == 0 {
			c.Undecided("teardown-once", "closeOnce.Do@closeKnown", "closeKnown no longer runs its body through closeOnce.Do")
		}
		// the once region also holds the unexported helpers that are only ever called from it (the
		// closure's body moved into a method): they run at most once, inside the once, like the closure
		for changed := true; changed; {
			changed = false
			inRegion := map[*ssa.Function]bool{}
			for _, f := range onceClosures {
				inRegion[f] = true
			}
			for _, f := range onceClosures {
				eachInstr(f, func(in ssa.Instruction) {
					cc := callOf(in)
					if cc == nil || cc.IsInvoke() {
						return
					}
					g := staticCallee(cc)
					if g == nil || g.Blocks == nil || inRegion[g] || !isUnexportedHelper(g) {
						return
					}
					callers := staticCallersOf(g)
					if len(callers) == 0 {
						return
					}
					for _, cs := range callers {
						if !inRegion[cs.Parent()] {
							return
						}
					}
					inRegion[g] = true
					onceClosures = append(onceClosures, Closures(g)...)
					changed = true
				})
			}
		}
	}
	inOnce := func(fn *ssa.Function) bool {
		for _, f := range onceClosures {
			if f == fn {
				return true
			}
		}
		return false
	}
	all := scope
	if c.P.Whole {
		all = c.P.ModFuncs()
	}
	nDisc := 0
	for _, fn := range all {
		for _, ci := range callsIn(fn, func(nm string, cc *ssa.CallCommon) bool {
			return cc.IsInvoke() && cc.Method.Name() == "Disconnected" && strings.HasSuffix(cc.Value.Type().String(), "netmc.SessionHandler")
		}) {
			nDisc++
			c.Analysed(fn)
			c.Check("teardown-once", "SessionHandler.Disconnected@"+shortName(fn), ci, inOnce(fn),
				"SessionHandler.Disconnected is invoked outside the closeOnce.Do closure of minecraftConn.closeKnown: teardown can run more than once / concurrently")
		}
	}
	if nDisc == 0 {
		c.Undecided("teardown-once", "SessionHandler.Disconnected", "no dispatch site found")
	}
	// cancel + socket close inside the once as well
	if ck != nil {
		for _, want := range []string{"cancelCtx", "Close"} {
			found := false
			for _, f := range onceClosures {
				eachInstr(f, func(in ssa.Instruction) {
					if cc := callOf(in); cc != nil {
						if want == "cancelCtx" && strings.HasSuffix(PathOf(cc.Value), ".cancelCtx") {
							found = true
						}
						if want == "Close" && cc.IsInvoke() && cc.Method.Name() == "Close" && strings.HasSuffix(PathOf(cc.Value), ".c") {
							found = true
						}
					}
				})
			}
			c.CheckAt("teardown-once", want+"-inside-once@closeKnown", c.P.Pos(ck.Pos()), found, "context cancellation and socket close must happen inside the once")
		}
		checkCancelBeforeClose(c, onceClosures)
		// a second Close reports ErrClosedConn
		c.CheckAt("teardown-once", "Close→closeKnown", c.P.Pos(ck.Pos()), func() bool {
			cl := c.P.Func(pkgNetmc + ":(*minecraftConn).Close")
			if cl == nil {
				return false
			}
			n := 0
			eachInstr(cl, func(in ssa.Instruction) {
				if cc := callOf(in); cc != nil && staticCallee(cc) == ck {
					n++
				}
			})
			return n == 1
		}(), "Close must go through closeKnown")
	}

	// unexported helpers of the connection that touch the frame writer themselves (writePayload …): a call
	// of one of them is a writer access of the caller
	wrHelpers := map[*ssa.Function]bool{}
	for _, f := range scope {
		if !isUnexportedHelper(f) || f.Signature.Recv() == nil {
			continue
		}
		for range callsIn(f, func(nm string, cc *ssa.CallCommon) bool {
			return cc.IsInvoke() && strings.HasSuffix(PathOf(cc.Value), ".wr")
		}) {
			wrHelpers[f] = true
		}
	}
	// (2) closed-check before touching the writer
	for _, name := range []string{"WritePacket", "Write", "BufferPayload", "bufferPacket"} {
		fn := c.MustFunc(pkgNetmc + ":(*minecraftConn)." + name)
		if fn == nil {
			continue
		}
		isClosedFalse := func(e Edge, cond ssa.Value, truth bool) bool {
			return boolCallEdge(cond, truth, false, callSuffix("netmc.Closed"))
		}
		n := 0
		for _, ci := range callsIn(fn, func(nm string, cc *ssa.CallCommon) bool {
			if _, isDefer := interface{}(cc).(*ssa.Defer); isDefer {
				return false
			}
			recv := ""
			if cc.IsInvoke() {
				recv = PathOf(cc.Value)
			} else if len(cc.Args) > 0 {
				recv = PathOf(cc.Args[0])
			}
			m := methodName(cc)
			if g := staticCallee(cc); g != nil && wrHelpers[g] && g != fn && recv == fn.Params[0].Name() && m != "bufferPacket" {
				return true
			}
			return strings.HasSuffix(recv, ".wr") || ((m == "BufferPacket" || m == "bufferPacket" || m == "Flush") && recv == fn.Params[0].Name())
		}) {
			if _, isDefer := ci.(*ssa.Defer); isDefer {
				continue
			}
			n++
			g, ns := MustCross(ci, isClosedFalse)
			c.Check("closed-check", methodName(ci.Common())+"@"+name, ci, g && ns > 0, "the writer is touched without a dominating !Closed(c) test (writes after close must report ErrClosedConn)")
		}
		if n == 0 {
			c.Undecided("closed-check", name, "no writer access found")
		}
		// the closed edge returns ErrClosedConn
		okRet := false
		for _, e := range IfEdges(fn) {
			cond, truth := e.Cond()
			if !boolCallEdge(cond, truth, true, callSuffix("netmc.Closed")) {
				continue
			}
			for _, in := range e.To().Instrs {
				if r, ok := in.(*ssa.Return); ok {
					for _, res := range r.Results {
						if strings.HasSuffix(PathOf(res), "ErrClosedConn") {
							okRet = true
						}
					}
				}
				if st, ok := in.(*ssa.Store); ok && strings.HasSuffix(PathOf(st.Val), "ErrClosedConn") {
					okRet = true
				}
			}
		}
		c.CheckAt("closed-reports", "ErrClosedConn@"+name, c.P.Pos(fn.Pos()), okRet, "on a closed connection the method must return ErrClosedConn")
	}

	// (3) writer errors reach closeOnWriteErr
	type wsite struct{ fn, callee string }
	for _, w := range []wsite{{"Flush", "Flush"}, {"Write", "Write"}, {"bufferPacket", "WritePacket"}, {"BufferPayload", "Write"}} {
		root := c.P.Func(pkgNetmc + ":(*minecraftConn)." + w.fn)
		if root == nil {
			continue
		}
		var sites []ssa.CallInstruction
		for _, part := range deepFuncs(root, 1) {
			if part != root && !wrHelpers[part] {
				continue
			}
			sites = append(sites, callsIn(part, func(nm string, cc *ssa.CallCommon) bool {
				return cc.IsInvoke() && cc.Method.Name() == w.callee && strings.HasSuffix(PathOf(cc.Value), ".wr")
			})...)
		}
		for _, ci := range sites {
			fn := ci.Parent()
			call := ci.(*ssa.Call)
			ok := false
			// (a) deferred closure that calls closeOnWriteErr(err) installed before the write
			eachInstr(fn, func(in ssa.Instruction) {
				d, isD := in.(*ssa.Defer)
				if !isD {
					return
				}
				if f := staticCallee(&d.Call); f != nil && domBefore(d, ci) {
					for range callsIn(f, func(nm string, cc *ssa.CallCommon) bool { return methodName(cc) == "closeOnWriteErr" }) {
						ok = true
					}
				}
			})
			// (b) explicit: on the err != nil edge every path calls closeOnWriteErr
			for _, e := range IfEdges(fn) {
				cond, truth := e.Cond()
				if !errNonNilEdge(cond, truth, func(x *ssa.Call) bool { return x == call }) {
					continue
				}
				first := e.To().Instrs[0]
				isCl := func(in ssa.Instruction) bool {
					cc := callOf(in)
					return cc != nil && methodName(cc) == "closeOnWriteErr"
				}
				if isCl(first) {
					ok = true
				} else if miss, _ := MayReachExitWithout(first, isCl); !miss {
					ok = true
				}
			}
			c.Check("write-error-closes", w.callee+"@"+w.fn, ci, ok, "an error of the underlying writer must reach closeOnWriteErr (connection closed on any write error)")
		}
	}
	c.Floor("write-error-closes", 4)
	if cw := c.MustFunc(pkgNetmc + ":(*minecraftConn).closeOnWriteErr"); cw != nil {
		// Close is called on every path from the err != nil edge, before any return
		ok := false
		for _, e := range IfEdges(cw) {
			cond, truth := e.Cond()
			v, isNil, isCmp := nilCmp(cond, truth)
			if !isCmp || isNil || strip(v) != ssa.Value(cw.Params[1]) {
				continue
			}
			first := e.To().Instrs[0]
			isClose := func(in ssa.Instruction) bool {
				cc := callOf(in)
				return cc != nil && (methodName(cc) == "Close" || methodName(cc) == "closeKnown") && len(cc.Args) > 0 && cc.Args[0] == ssa.Value(cw.Params[0])
			}
			if isClose(first) {
				ok = true
			} else if miss, _ := MayReachExitWithout(first, isClose); !miss {
				ok = true
			}
		}
		c.CheckAt("closeOnWriteErr-closes", "Close-on-every-non-nil-error", c.P.Pos(cw.Pos()), ok, "closeOnWriteErr must close the connection for every non-nil error before any early return")
	}

	// (4) read loop
	if rl := c.MustFunc(pkgNetmc + ":(*minecraftConn).startReadLoop"); rl != nil {
		// deferred close
		okClose := false
		eachInstr(rl, func(in ssa.Instruction) {
			if d, ok := in.(*ssa.Defer); ok {
				if f := staticCallee(&d.Call); f != nil {
					for range callsIn(f, func(nm string, cc *ssa.CallCommon) bool {
						m := methodName(cc)
						return m == "closeKnown" || m == "Close"
					}) {
						okClose = true
					}
					if f.Name() == "closeKnown" || f.Name() == "Close" {
						okClose = true
					}
				}
			}
		})
		c.CheckAt("readloop-closes", "defer closeKnown@startReadLoop", c.P.Pos(rl.Pos()), okClose, "the read loop must close the connection when it returns")
		// HandlePacket call → enclosing closures up to one whose defer recovers
		var hp *ssa.Function
		for _, f := range Closures(rl) {
			for range callsIn(f, func(nm string, cc *ssa.CallCommon) bool { return cc.IsInvoke() && cc.Method.Name() == "HandlePacket" }) {
				hp = f
			}
		}
		if hp == nil {
			c.Undecided("panic-contained", "HandlePacket@startReadLoop", "no HandlePacket dispatch in the read loop")
		} else {
			// find a closure R of rl that (transitively via dynamic calls of sibling closures) calls hp and defers a recovering closure
			recovers := func(f *ssa.Function) bool {
				r := false
				eachInstr(f, func(in ssa.Instruction) {
					if d, ok := in.(*ssa.Defer); ok {
						if g := staticCallee(&d.Call); g != nil {
							eachInstr(g, func(x ssa.Instruction) {
								if cc := callOf(x); cc != nil {
									if b, ok := cc.Value.(*ssa.Builtin); ok && b.Name() == "recover" {
										r = true
									}
								}
							})
						}
					}
				})
				return r
			}
			// closure call graph among rl's closures via captured variables
			calls := map[*ssa.Function][]*ssa.Function{}
			// the read loop, its closures, and the unexported helpers it was split into (with theirs)
			var cands []*ssa.Function
			for _, g := range deepFuncs(rl, 1) {
				if g.Parent() == nil {
					cands = append(cands, Closures(g)...)
				}
			}
			closuresOf := func(v ssa.Value) (out []*ssa.Function) {
				for _, o := range origins(v, 4) {
					if m2, ok := o.(*ssa.MakeClosure); ok {
						out = append(out, m2.Fn.(*ssa.Function))
					}
					if ld, ok := o.(*ssa.UnOp); ok {
						if al, ok := ld.X.(*ssa.Alloc); ok {
							for _, sv := range storesTo(al) {
								if m2, ok := sv.(*ssa.MakeClosure); ok {
									out = append(out, m2.Fn.(*ssa.Function))
								}
							}
						}
					}
				}
				return
			}
			for _, f := range cands {
				f := f
				eachInstr(f, func(in ssa.Instruction) {
					cc := callOf(in)
					if cc == nil || cc.IsInvoke() {
						return
					}
					if g := staticCallee(cc); g != nil {
						calls[f] = append(calls[f], g)
						return
					}
					// call of a func-typed parameter: the closures its callers pass
					if prm, ok := cc.Value.(*ssa.Parameter); ok {
						for i, q := range f.Params {
							if q != prm {
								continue
							}
							for _, cs := range staticCallersOf(f) {
								if i < len(cs.Common().Args) {
									calls[f] = append(calls[f], closuresOf(cs.Common().Args[i])...)
								}
							}
						}
						return
					}
					// call of a captured/local func variable: resolve to the closures stored in it
					for _, o := range origins(cc.Value, 4) {
						var cell ssa.Value
						if ld, ok := o.(*ssa.UnOp); ok {
							cell = ld.X
						}
						if fv, ok := cell.(*ssa.FreeVar); ok {
							// binding in parent
							par := f.Parent()
							for i, x := range f.FreeVars {
								if x != fv || par == nil {
									continue
								}
								eachInstr(par, func(pi ssa.Instruction) {
									if mc, ok := pi.(*ssa.MakeClosure); ok && mc.Fn == f && i < len(mc.Bindings) {
										if al, ok := mc.Bindings[i].(*ssa.Alloc); ok {
											for _, sv := range storesTo(al) {
												if m2, ok := sv.(*ssa.MakeClosure); ok {
													calls[f] = append(calls[f], m2.Fn.(*ssa.Function))
												}
											}
										}
									}
								})
							}
						}
						if al, ok := cell.(*ssa.Alloc); ok {
							for _, sv := range storesTo(al) {
								if m2, ok := sv.(*ssa.MakeClosure); ok {
									calls[f] = append(calls[f], m2.Fn.(*ssa.Function))
								}
							}
						}
						if m2, ok := o.(*ssa.MakeClosure); ok {
							calls[f] = append(calls[f], m2.Fn.(*ssa.Function))
						}
					}
				})
			}
			reaches := func(from *ssa.Function) bool {
				seen := map[*ssa.Function]bool{}
				var dfs func(f *ssa.Function) bool
				dfs = func(f *ssa.Function) bool {
					if f == hp {
						return true
					}
					if seen[f] {
						return false
					}
					seen[f] = true
					for _, g := range calls[f] {
						if dfs(g) {
							return true
						}
					}
					return false
				}
				return dfs(from)
			}
			var guard *ssa.Function
			for _, f := range cands {
				if recovers(f) && reaches(f) {
					guard = f
				}
			}
			c.CheckAt("panic-contained", "recover-around-HandlePacket@startReadLoop", c.P.Pos(rl.Pos()), guard != nil,
				"HandlePacket must run inside a function whose deferred closure calls recover (a handler panic must not end the process)")
			if guard != nil {
				// the guard is called from a loop in rl whose condition is its result (keeps reading after a recovered panic)
				looped := false
				eachInstr(rl, func(in ssa.Instruction) {
					cc := callOf(in)
					if cc == nil {
						return
					}
					for _, g := range calls[rl] {
						_ = g
					}
					tgt := !cc.IsInvoke() && staticCallee(cc) == guard
					for _, o := range origins(cc.Value, 4) {
						if ld, ok := o.(*ssa.UnOp); ok {
							if al, ok := ld.X.(*ssa.Alloc); ok {
								for _, sv := range storesTo(al) {
									if m2, ok := sv.(*ssa.MakeClosure); ok && m2.Fn == guard {
										tgt = true
									}
								}
							}
						}
						if m2, ok := o.(*ssa.MakeClosure); ok && m2.Fn == guard {
							tgt = true
						}
					}
					if !tgt {
						return
					}
					// in a loop: block reaches itself
					for _, s := range in.Block().Succs {
						if reach(s, nil)[in.Block()] {
							looped = true
						}
					}
				})
				c.CheckAt("panic-contained", "loop-continues-after-recover@startReadLoop", c.P.Pos(rl.Pos()), looped,
					"after a recovered panic the read loop must keep reading (the recovering function is called in a loop)")
				// the recovered path returns true (keep going)
				_ = fmt.Sprint
			}
		}
	}
}
