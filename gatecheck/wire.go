package main

import (
	"fmt"
	"go/token"
	"go/types"
	"sort"
	"strings"

	"golang.org/x/tools/go/ssa"
)

// P7 — wire grammar. A function that reads or writes a stream is abstracted to a non-deterministic
// automaton over wire tokens by walking its SSA control-flow graph:
//   - calls that touch the stream become tokens: "b" (one byte, fixed-width reads/writes are
//     expanded to N of them), "varint", "blob" (data-dependent length), "ext:<pkg>" (third-party codec
//     that is handed the stream), "dyn:<iface>" (interface-dispatched sub-codec), "rec:<fn>" (recursion);
//   - module functions that are handed the stream are inlined (bounded depth);
//   - loops stay cycles, data-dependent branches stay non-deterministic choices;
//   - branches on the protocol version are resolved by partial evaluation for one concrete protocol;
//   - error exits (the non-nil edge of any error-typed comparison) and panics are cut.
// Writer and reader automata are compared for language inclusion L(writer) ⊆ L(reader) — every
// token sequence the encoder can emit must be a sequence the decoder can consume to a normal return.

type wEdge struct {
	to  int
	tok string
}

type wNFA struct {
	adj [][]wEdge
}

func (n *wNFA) state() int {
	n.adj = append(n.adj, nil)
	return len(n.adj) - 1
}

func (n *wNFA) edge(from, to int, tok string) { n.adj[from] = append(n.adj[from], wEdge{to, tok}) }

// chain adds from --tok-->… for a token that expands to count unit tokens; returns the last state.
func (n *wNFA) emit(from int, tok string) int {
	if strings.HasPrefix(tok, "fixed:") {
		var k int
		fmt.Sscanf(tok, "fixed:%d", &k)
		if k > 64 {
			// large fixed blocks: one token carrying the size
			to := n.state()
			n.edge(from, to, tok)
			return to
		}
		cur := from
		for i := 0; i < k; i++ {
			to := n.state()
			n.edge(cur, to, "b")
			cur = to
		}
		return cur
	}
	to := n.state()
	n.edge(from, to, tok)
	return to
}

type wireCtx struct {
	P         *Program
	vt        *VersionTable
	proto     int64 // concrete protocol, or -1 (branches on the protocol stay non-deterministic)
	nfa       *wNFA
	stack     map[*ssa.Function]int
	Undecided []string
	Inlined   map[string]bool
	maxDepth  int
	protoVals map[ssa.Value]bool // parameters of protocol-predicate helpers being evaluated
	fnDepth   int
	// failReturn: additional returns that are failure exits (e.g. a nil result of a function without an error result)
	failReturn func(*ssa.Return) bool
}

func newWireCtx(P *Program, vt *VersionTable, proto int64) *wireCtx {
	return &wireCtx{P: P, vt: vt, proto: proto, nfa: &wNFA{}, stack: map[*ssa.Function]int{}, Inlined: map[string]bool{}, maxDepth: 8}
}

var wireLeaf = map[string]string{
	"pkg/edition/java/proto/util.ReadVarInt":        "varint",
	"pkg/edition/java/proto/util.ReadVarIntReturnN": "varint",
	"pkg/edition/java/proto/util.WriteVarInt":       "varint",
	"pkg/edition/java/proto/util.WriteVarIntN":      "varint",
	// a boolean is one byte on the wire, but a byte that only ever carries 0/1: writing a byte-valued
	// field through WriteBool (or reading one through ReadBool) squashes it, so the token is its own
	// symbol; a byte read accepts it (wireIncluded), a bool read does not accept a byte.
	"pkg/edition/java/proto/util.WriteBool": "bool",
	"pkg/edition/java/proto/util.ReadBool":  "bool",
}

// wireOpaque: third-party codecs whose payload the other side handles as raw, pre-serialised bytes.
// One named package per entry, with the reason.
var wireOpaque = map[string]string{
	// NBT is self-delimiting; Gate keeps tags as raw bytes (util.BinaryTag.Data) and writes them with
	// w.Write(bt.Data) while reading goes through go-mc's decoder.
	"github.com/Tnze/go-mc/nbt": "blob",
}

func isStreamType(t types.Type) bool {
	s := t.String()
	switch s {
	case "io.Reader", "io.Writer", "io.ByteReader", "io.ByteWriter", "io.ReadWriter", "*bytes.Buffer", "*bytes.Reader", "*bufio.Reader", "*bufio.Writer", "io.ReadCloser", "io.WriteCloser":
		return true
	}
	return strings.HasSuffix(s, "proto/util.PReader") || strings.HasSuffix(s, "proto/util.PWriter")
}

// derivedSet computes the values of fn that denote (or wrap, or hold) the root stream.
func derivedSet(fn *ssa.Function, roots map[ssa.Value]bool) map[ssa.Value]bool {
	d := map[ssa.Value]bool{}
	for r := range roots {
		d[r] = true
	}
	changed := true
	for changed {
		changed = false
		set := func(v ssa.Value) {
			if !d[v] {
				d[v] = true
				changed = true
			}
		}
		eachInstr(fn, func(in ssa.Instruction) {
			switch x := in.(type) {
			case *ssa.ChangeInterface:
				if d[x.X] {
					set(x)
				}
			case *ssa.MakeInterface:
				if d[x.X] {
					set(x)
				}
			case *ssa.ChangeType:
				if d[x.X] {
					set(x)
				}
			case *ssa.TypeAssert:
				if d[x.X] {
					set(x)
				}
			case *ssa.Extract:
				if d[x.Tuple] && (isStreamType(x.Type()) || x.Index == 0 && !types.Identical(x.Type(), types.Typ[types.Bool])) {
					set(x)
				}
			case *ssa.Phi:
				for _, e := range x.Edges {
					if d[e] {
						set(x)
					}
				}
			case *ssa.UnOp:
				if x.Op == token.MUL && d[x.X] {
					set(x) // load from a cell / field that holds the stream
				}
			case *ssa.FieldAddr:
				// field of a wrapper struct that was built around the stream (PReader.r)
				if d[x.X] && isStreamType(derefType(x.Type())) {
					set(x)
				}
			case *ssa.Store:
				if d[x.Val] {
					switch a := x.Addr.(type) {
					case *ssa.Alloc:
						set(a) // local cell holding the stream (captured variable)
					case *ssa.IndexAddr:
						// variadic argument array holding the stream: io.MultiReader(a, r)
						if al, ok := a.X.(*ssa.Alloc); ok && al.Comment == "varargs" {
							set(al)
						}
					}
				}
			case *ssa.Slice:
				if al, ok := x.X.(*ssa.Alloc); ok && al.Comment == "varargs" && d[al] {
					set(x)
				}
			case *ssa.Call:
				// wrapper constructors: a call that is handed the stream and returns a stream-like value
				if isWrapperCall(x, d) {
					set(x)
				}
			}
		})
	}
	return d
}

func isWrapperCall(c *ssa.Call, d map[ssa.Value]bool) bool {
	has := false
	for _, a := range c.Call.Args {
		if d[a] {
			has = true
		}
	}
	if c.Call.IsInvoke() && d[c.Call.Value] {
		has = true
	}
	if !has {
		return false
	}
	rt := c.Type()
	if tup, ok := rt.(*types.Tuple); ok {
		if tup.Len() == 0 {
			return false
		}
		rt = tup.At(0).Type()
	}
	if isStreamType(rt) {
		return true
	}
	// constructors of third-party codecs: NewDecoder(r) / NewEncoder(w) …
	name := methodName(&c.Call)
	if strings.HasPrefix(name, "New") || strings.HasPrefix(name, "Panic") {
		if _, isPtr := rt.Underlying().(*types.Pointer); isPtr {
			return true
		}
	}
	return false
}

func bufToken(v ssa.Value) string {
	v = strip(v)
	switch x := v.(type) {
	case *ssa.Slice:
		if a, ok := x.X.(*ssa.Alloc); ok {
			if arr, ok := derefType(a.Type()).Underlying().(*types.Array); ok {
				lo := int64(0)
				if x.Low != nil {
					k, isK := constInt(x.Low)
					if !isK {
						return "blob"
					}
					lo = k
				}
				hi := arr.Len()
				if x.High != nil {
					k, isK := constInt(x.High)
					if !isK {
						return "blob"
					}
					hi = k
				}
				return fmt.Sprintf("fixed:%d", hi-lo)
			}
		}
	case *ssa.MakeSlice:
		if k, ok := constInt(x.Len); ok {
			return fmt.Sprintf("fixed:%d", k)
		}
	}
	return "blob"
}

var methodPairs = map[string]string{"Encode": "codec", "Decode": "codec", "Write": "io", "Read": "io", "Marshal": "marshal", "Unmarshal": "marshal",
	"WriteTo": "io", "ReadFrom": "io", "MarshalBinary": "marshal", "UnmarshalBinary": "marshal"}

func normMethod(m string) string {
	if p, ok := methodPairs[m]; ok {
		return p
	}
	return m
}

// evalProtoCond evaluates a branch condition that depends only on the protocol version.
func (w *wireCtx) evalProtoCond(cond ssa.Value) (val bool, known bool) {
	if w.proto < 0 {
		return false, false
	}
	versionOf := func(v ssa.Value) (int64, bool) {
		// *version.Minecraft_X (pointer to Version) or its .Protocol field
		v = strip(v)
		if ld, ok := v.(*ssa.UnOp); ok && ld.Op == token.MUL {
			switch a := ld.X.(type) {
			case *ssa.Global:
				if p, ok := w.vt.ByName[a.Name()]; ok && strings.HasSuffix(a.Pkg.Pkg.Path(), pkgVersion) {
					return p, true
				}
			case *ssa.FieldAddr:
				if fieldOfAddr(a).Name() == "Protocol" {
					if ld2, ok := a.X.(*ssa.UnOp); ok {
						if g, ok := ld2.X.(*ssa.Global); ok {
							if p, ok := w.vt.ByName[g.Name()]; ok {
								return p, true
							}
						}
					}
				}
			}
		}
		if k, ok := constInt(v); ok {
			return k, true
		}
		return 0, false
	}
	if u, ok := cond.(*ssa.UnOp); ok && u.Op == token.NOT {
		v, k := w.evalProtoCond(u.X)
		return !v, k
	}
	isProtoVal := func(v ssa.Value) bool {
		if w.protoVals[strip(v)] {
			return true
		}
		p := PathOf(v)
		return strings.HasSuffix(p, ".Protocol") || p == "protocol" || strings.HasSuffix(p, "rotocol") || strings.HasSuffix(p, ".Protocol()")
	}
	if cl := callValue(cond); cl != nil && !cl.Call.IsInvoke() {
		f := staticCallee(&cl.Call)
		if f != nil && f.Signature.Recv() != nil && strings.HasSuffix(f.Signature.Recv().Type().String(), "gate/proto.Protocol") && len(cl.Call.Args) == 2 {
			if !isProtoVal(cl.Call.Args[0]) {
				return false, false
			}
			x, ok := versionOf(cl.Call.Args[1])
			if !ok {
				return false, false
			}
			switch f.Name() {
			case "GreaterEqual":
				return w.proto >= x, true
			case "Greater":
				return w.proto > x, true
			case "LowerEqual":
				return w.proto <= x, true
			case "Lower":
				return w.proto < x, true
			}
		}
		// a predicate helper over the protocol alone
		if f != nil && f.Signature.Recv() == nil && len(cl.Call.Args) > 0 {
			for _, a := range cl.Call.Args {
				if !isProtoVal(a) || !isProtocolType(a.Type()) {
					return false, false
				}
			}
			w.fnDepth++
			defer func() { w.fnDepth-- }()
			return w.evalProtoFunc(f, w.fnDepth)
		}
		return false, false
	}
	if bo, ok := cond.(*ssa.BinOp); ok {
		var other ssa.Value
		op := bo.Op
		switch {
		case isProtoVal(bo.X):
			other = bo.Y
		case isProtoVal(bo.Y):
			other = bo.X
			op = flipOp(op)
		default:
			return false, false
		}
		x, ok := versionOf(other)
		if !ok {
			return false, false
		}
		switch op {
		case token.GEQ:
			return w.proto >= x, true
		case token.GTR:
			return w.proto > x, true
		case token.LEQ:
			return w.proto <= x, true
		case token.LSS:
			return w.proto < x, true
		case token.EQL:
			return w.proto == x, true
		case token.NEQ:
			return w.proto != x, true
		}
	}
	return false, false
}

func isErrorType(t types.Type) bool {
	return t.String() == "error"
}

// build adds the automaton of fn (with the given stream roots) to the NFA and returns its
// start and end states.
func (w *wireCtx) build(fn *ssa.Function, roots map[ssa.Value]bool, depth int) (int, int) {
	start, end := w.nfa.state(), w.nfa.state()
	if fn.Blocks == nil {
		w.nfa.edge(start, end, "ext:"+fnPkgPath(fn))
		return start, end
	}
	w.stack[fn]++
	defer func() { w.stack[fn]-- }()
	w.Inlined[shortName(fn)] = true
	d := derivedSet(fn, roots)
	entry := map[*ssa.BasicBlock]int{}
	for _, b := range fn.Blocks {
		entry[b] = w.nfa.state()
	}
	// constant-trip-count loops are unrolled into layers (wire_unroll.go)
	loops := constLoops(fn)
	inLoop := map[*ssa.BasicBlock]*constLoop{}
	layers := map[*constLoop][]map[*ssa.BasicBlock]int{}
	for h, l := range loops {
		inLoop[h] = l
		for b := range l.body {
			inLoop[b] = l
		}
		ls := make([]map[*ssa.BasicBlock]int, l.trips+1)
		for k := range ls {
			ls[k] = map[*ssa.BasicBlock]int{h: w.nfa.state()}
			for b := range l.body {
				ls[k][b] = w.nfa.state()
			}
		}
		layers[l] = ls
	}
	// stateOf: where control goes when block `from`, processed in layer `layer` of its loop (if any),
	// takes its successor #i; -1 = that edge does not exist in this layer
	stateOf := func(from *ssa.BasicBlock, i int, layer int) int {
		s := from.Succs[i]
		l := inLoop[from]
		if l == nil {
			if l2 := loops[s]; l2 != nil {
				return layers[l2][0][s] // entering an unrolled loop
			}
			return entry[s]
		}
		if from == l.header {
			if i == l.bodyIdx {
				if layer < l.trips {
					return layers[l][layer][s]
				}
				return -1
			}
			if layer == l.trips {
				return entry[s]
			}
			return -1
		}
		switch {
		case s == l.header:
			if layer+1 <= l.trips {
				return layers[l][layer+1][s]
			}
			return -1
		case l.body[s]:
			return layers[l][layer][s]
		}
		return entry[s] // leaving the loop (error exit, break)
	}
	first := entry[fn.Blocks[0]]
	if l := loops[fn.Blocks[0]]; l != nil {
		first = layers[l][0][fn.Blocks[0]]
	}
	w.nfa.edge(start, first, "")
	process := func(b *ssa.BasicBlock, cur int, layer int) {
		for _, in := range b.Instrs {
			switch x := in.(type) {
			case *ssa.Call:
				cur = w.call(fn, x, d, cur, depth)
			case *ssa.If:
				for i := range b.Succs {
					e := Edge{b, i}
					c2, truth := e.Cond()
					// cut error exits
					if v, isNil, ok := nilCmp(c2, truth); ok && !isNil && isErrorType(v.Type()) {
						continue
					}
					if val, known := w.evalProtoCond(c2); known && val != truth {
						continue
					}
					if to := stateOf(b, i, layer); to >= 0 {
						w.nfa.edge(cur, to, "")
					}
				}
			case *ssa.Jump:
				if to := stateOf(b, 0, layer); to >= 0 {
					w.nfa.edge(cur, to, "")
				}
			case *ssa.Return:
				// a return that yields a non-nil error constant is a failure exit
				fail := false
				for i := range x.Results {
					rv := retVal(x, i)
					if isErrorType(x.Results[i].Type()) {
						if _, isConst := rv.(*ssa.Const); !isConst {
							if !mayBeNilError(rv) {
								fail = true
							}
						}
					}
				}
				if w.failReturn != nil && depth == 0 && w.failReturn(x) {
					fail = true
				}
				if !fail {
					w.nfa.edge(cur, end, "")
				}
			case *ssa.Panic:
				// dead end
			}
		}
	}
	for _, b := range fn.Blocks {
		if b == fn.Recover {
			continue
		}
		if l := inLoop[b]; l != nil {
			for k := 0; k <= l.trips; k++ {
				process(b, layers[l][k][b], k)
			}
			continue
		}
		process(b, entry[b], 0)
	}
	return start, end
}

// mayBeNilError: the error value returned can be nil at run time (a call result, a variable) —
// as opposed to a freshly constructed error (errors.New / fmt.Errorf / a global sentinel).
func mayBeNilError(v ssa.Value) bool {
	v = strip(v)
	switch x := v.(type) {
	case *ssa.Call:
		n := calleeName(&x.Call)
		if n == "errors.New" || n == "fmt.Errorf" || strings.HasSuffix(n, "errors.Join") {
			return false
		}
		return true
	case *ssa.UnOp:
		if _, isG := x.X.(*ssa.Global); isG {
			return false // sentinel error
		}
		return true
	case *ssa.Alloc:
		return false
	case *ssa.MakeInterface:
		return false
	}
	return true
}

func (w *wireCtx) call(fn *ssa.Function, c *ssa.Call, d map[ssa.Value]bool, cur int, depth int) int {
	cc := &c.Call
	var hot []int // argument indices that carry the stream
	for i, a := range cc.Args {
		if d[a] {
			hot = append(hot, i)
		}
	}
	recvHot := cc.IsInvoke() && d[cc.Value]
	// closures that capture the stream, passed to a helper (util.RecoverFunc(func() error {…}))
	if len(hot) == 0 && !recvHot {
		for ai, a := range cc.Args {
			if mc, ok := a.(*ssa.MakeClosure); ok {
				cl := mc.Fn.(*ssa.Function)
				roots := map[ssa.Value]bool{}
				for i, b := range mc.Bindings {
					if d[b] && i < len(cl.FreeVars) {
						roots[cl.FreeVars[i]] = true
					}
				}
				if len(roots) > 0 {
					s, e := w.build(cl, roots, depth+1)
					w.nfa.edge(cur, s, "")
					if !calledExactlyOnce(staticCallee(cc), ai) {
						// iteration callback (Range(func…)): zero or more executions
						w.nfa.edge(cur, e, "")
						w.nfa.edge(e, s, "")
					}
					return e
				}
			}
		}
		// immediately applied closure
		if mc, ok := cc.Value.(*ssa.MakeClosure); ok {
			cl := mc.Fn.(*ssa.Function)
			roots := map[ssa.Value]bool{}
			for i, b := range mc.Bindings {
				if d[b] && i < len(cl.FreeVars) {
					roots[cl.FreeVars[i]] = true
				}
			}
			if len(roots) > 0 {
				s, e := w.build(cl, roots, depth+1)
				w.nfa.edge(cur, s, "")
				return e
			}
		}
		return cur
	}
	if d[c] {
		return cur // wrapper constructor: no bytes move
	}
	if recvHot {
		switch cc.Method.Name() {
		case "Read", "Write":
			return w.nfa.emit(cur, bufToken(cc.Args[0]))
		case "ReadByte", "WriteByte":
			return w.nfa.emit(cur, "fixed:1")
		case "WriteString", "ReadString", "ReadBytes", "WriteRune", "ReadRune":
			return w.nfa.emit(cur, "blob")
		case "Len", "Bytes", "String", "Cap", "Size", "Buffered", "Available", "Reset", "UnreadByte", "Grow":
			return cur
		}
		return w.nfa.emit(cur, "blob")
	}
	f := staticCallee(cc)
	if f == nil {
		// dynamic: interface method on something else, or a function value
		if cc.IsInvoke() {
			return w.nfa.emit(cur, "dyn:"+types.TypeString(cc.Value.Type(), func(p *types.Package) string { return p.Name() })+"."+normMethod(cc.Method.Name()))
		}
		// function value: a local closure?
		if fs := resolveFuncValue(cc.Value); len(fs) == 1 {
			roots := map[ssa.Value]bool{}
			for _, i := range hot {
				if i < len(fs[0].Params) {
					roots[fs[0].Params[i]] = true
				}
			}
			s, e := w.build(fs[0], roots, depth+1)
			w.nfa.edge(cur, s, "")
			return e
		}
		return w.nfa.emit(cur, "dyn:func")
	}
	// statically bound method of a concrete stream (*bytes.Buffer, *bytes.Reader, *bufio.X) that is the stream itself
	if f.Signature.Recv() != nil && len(hot) > 0 && hot[0] == 0 && isStreamType(f.Signature.Recv().Type()) && f.Pkg != nil &&
		(f.Pkg.Pkg.Path() == "bytes" || f.Pkg.Pkg.Path() == "bufio") {
		switch f.Name() {
		case "Read", "Write":
			return w.nfa.emit(cur, bufToken(cc.Args[1]))
		case "ReadByte", "WriteByte":
			return w.nfa.emit(cur, "fixed:1")
		case "WriteString", "ReadString", "ReadBytes", "WriteRune", "ReadRune", "Next":
			return w.nfa.emit(cur, "blob")
		case "Len", "Bytes", "String", "Cap", "Size", "Buffered", "Available", "Reset", "UnreadByte", "Grow", "Flush":
			return cur
		}
	}
	name := strings.TrimPrefix(origin(f).String(), Mod+"/")
	if tok, ok := wireLeaf[name]; ok {
		return w.nfa.emit(cur, tok)
	}
	switch origin(f).String() {
	case "io.ReadFull", "io.ReadAtLeast":
		return w.nfa.emit(cur, bufToken(cc.Args[1]))
	case "io.ReadAll", "io.Copy", "io.CopyN", "io.CopyBuffer", "io.WriteString", "fmt.Fprintf", "fmt.Fprint":
		return w.nfa.emit(cur, "blob")
	case "encoding/binary.Read", "encoding/binary.Write":
		sz := int64(-1)
		if len(cc.Args) == 3 {
			t := derefType(strip(cc.Args[2]).Type())
			if s := w.P.Pkgs[0].TypesSizes; s != nil {
				if _, isBasic := t.Underlying().(*types.Basic); isBasic {
					sz = s.Sizeof(t)
				}
				if _, isArr := t.Underlying().(*types.Array); isArr {
					sz = s.Sizeof(t)
				}
			}
		}
		if sz > 0 {
			return w.nfa.emit(cur, fmt.Sprintf("fixed:%d", sz))
		}
		return w.nfa.emit(cur, "blob")
	}
	inModule := strings.HasPrefix(fnPkgPath(f), Mod)
	if inModule && f.Blocks != nil {
		if w.stack[f] > 0 || w.stack[origin(f)] > 0 {
			return w.nfa.emit(cur, "rec:"+f.Name())
		}
		if depth >= w.maxDepth {
			w.Undecided = append(w.Undecided, "inlining depth exceeded at "+shortName(f))
			return w.nfa.emit(cur, "deep:"+f.Name())
		}
		roots := map[ssa.Value]bool{}
		for _, i := range hot {
			if i < len(f.Params) {
				roots[f.Params[i]] = true
			}
		}
		// constant arguments are visible inside (readN(rd, 16) reads a fixed block of 16)
		savedSubst := activeSubst
		bound := map[*ssa.Parameter]ssa.Value{}
		for k, v := range savedSubst {
			bound[k] = v
		}
		for i, a := range cc.Args {
			if i < len(f.Params) {
				if k, isK := strip(a).(*ssa.Const); isK {
					bound[f.Params[i]] = k
				}
			}
		}
		activeSubst = bound
		s, e := w.build(f, roots, depth+1)
		activeSubst = savedSubst
		w.nfa.edge(cur, s, "")
		return e
	}
	// third-party codec handed the stream
	pk := fnPkgPath(f)
	if pk == "" && f.Object() != nil && f.Object().Pkg() != nil {
		pk = f.Object().Pkg().Path()
	}
	// only calls that move bytes: configuration methods of a third-party codec (NetworkFormat(true),
	// DisallowUnknownFields(), …) are not tokens
	moves := false
	for _, p := range []string{"Decode", "Encode", "Read", "Write", "Unmarshal", "Marshal", "Parse", "Skip", "Copy", "Next", "Token"} {
		if strings.HasPrefix(f.Name(), p) {
			moves = true
		}
	}
	if !moves {
		return cur
	}
	if tok, ok := wireOpaque[pk]; ok {
		return w.nfa.emit(cur, tok)
	}
	return w.nfa.emit(cur, "ext:"+pk)
}

// calledExactlyOnce: helper f calls its function parameter #idx exactly once, outside any loop
// (util.RecoverFunc(fn)). Unknown helpers and iteration helpers (Range) are not.
func calledExactlyOnce(f *ssa.Function, idx int) bool {
	if f == nil || f.Blocks == nil || idx >= len(f.Params) {
		return false
	}
	p := f.Params[idx]
	n := 0
	ok := true
	eachInstr(f, func(in ssa.Instruction) {
		cc := callOf(in)
		if cc == nil || cc.Value != ssa.Value(p) {
			return
		}
		n++
		for _, s := range in.Block().Succs {
			if reach(s, nil)[in.Block()] {
				ok = false
			}
		}
	})
	return ok && n == 1
}

// ---- language inclusion -----------------------------------------------------------------------------

type wAuto struct {
	n          *wNFA
	start, end int
}

func (a wAuto) closure(set map[int]bool) map[int]bool {
	work := make([]int, 0, len(set))
	for s := range set {
		work = append(work, s)
	}
	for len(work) > 0 {
		s := work[len(work)-1]
		work = work[:len(work)-1]
		for _, e := range a.n.adj[s] {
			if e.tok == "" && !set[e.to] {
				set[e.to] = true
				work = append(work, e.to)
			}
		}
	}
	return set
}

func (a wAuto) step(set map[int]bool, tok string) map[int]bool {
	out := map[int]bool{}
	for s := range set {
		for _, e := range a.n.adj[s] {
			if e.tok == tok {
				out[e.to] = true
			}
			// a raw slice written without a length prefix is accepted by a large fixed-size read
			// (signature blocks: the writer's slice has that size by construction of the value)
			if tok == "blob" && strings.HasPrefix(e.tok, "fixed:") {
				out[e.to] = true
			}
		}
	}
	return a.closure(out)
}

func (a wAuto) tokens(set map[int]bool) []string {
	seen := map[string]bool{}
	for s := range set {
		for _, e := range a.n.adj[s] {
			if e.tok != "" {
				seen[e.tok] = true
			}
		}
	}
	var out []string
	for t := range seen {
		out = append(out, t)
	}
	sort.Strings(out)
	return out
}

func setKey(m map[int]bool) string {
	ks := make([]int, 0, len(m))
	for k := range m {
		ks = append(ks, k)
	}
	sort.Ints(ks)
	return fmt.Sprint(ks)
}

// Included decides L(a) ⊆ L(b); on failure returns a token sequence a accepts and b does not
// (or cannot continue on). empty reports whether L(a) is empty (nothing reaches a normal return).
func wireIncluded(a, b wAuto) (ok bool, witness []string, empty bool, err error) {
	type st struct {
		sa, sb map[int]bool
		w      []string
	}
	s0 := st{a.closure(map[int]bool{a.start: true}), b.closure(map[int]bool{b.start: true}), nil}
	seen := map[string]bool{setKey(s0.sa) + "|" + setKey(s0.sb): true}
	queue := []st{s0}
	anyAccept := false
	steps := 0
	for len(queue) > 0 {
		cur := queue[0]
		queue = queue[1:]
		steps++
		if steps > 60000 {
			return false, nil, false, fmt.Errorf("automaton too large")
		}
		if cur.sa[a.end] {
			anyAccept = true
			if !cur.sb[b.end] {
				return false, cur.w, false, nil
			}
		}
		for _, t := range a.tokens(cur.sa) {
			na := a.step(cur.sa, t)
			if len(na) == 0 {
				continue
			}
			nb := b.step(cur.sb, t)
			if t == "bool" {
				// the reader may take a boolean as a plain byte (nothing is lost)
				for k := range b.step(cur.sb, "b") {
					nb[k] = true
				}
			}
			k := setKey(na) + "|" + setKey(nb)
			if seen[k] {
				continue
			}
			seen[k] = true
			if len(cur.w) < 64 {
				queue = append(queue, st{na, nb, append(append([]string{}, cur.w...), t)})
			} else {
				queue = append(queue, st{na, nb, cur.w})
			}
		}
	}
	return true, nil, !anyAccept, nil
}
