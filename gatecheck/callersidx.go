package main

import (
	"strings"

	"golang.org/x/tools/go/ssa"
	"golang.org/x/tools/go/ssa/ssautil"
)

// A program-wide index of static call sites of module functions, built once per SSA program.
var callersIdx = map[*ssa.Program]map[*ssa.Function][]ssa.CallInstruction{}

func staticCallersOf(fn *ssa.Function) []ssa.CallInstruction {
	if fn == nil || fn.Prog == nil {
		return nil
	}
	idx, ok := callersIdx[fn.Prog]
	if !ok {
		idx = map[*ssa.Function][]ssa.CallInstruction{}
		for f := range ssautil.AllFunctions(fn.Prog) {
			if f.Blocks == nil || f.Synthetic != "" || !strings.HasPrefix(fnPkgPath(f), Mod) {
				continue // no body, or a compiler-made wrapper (promoted method, bound method, thunk)
			}
			for _, b := range f.Blocks {
				for _, in := range b.Instrs {
					ci, isCall := in.(ssa.CallInstruction)
					if !isCall {
						continue
					}
					if g := staticCallee(ci.Common()); g != nil {
						idx[g] = append(idx[g], ci)
						if o := origin(g); o != g && g.Synthetic != "" {
							idx[o] = append(idx[o], ci) // call through an instantiation wrapper
						}
					}
				}
			}
		}
		callersIdx[fn.Prog] = idx
	}
	return idx[fn]
}

// isUnexportedHelper: a named, unexported function or method of the module whose address is not taken
// (all its uses are the static calls in the index) — the kind of function a block gets extracted into.
func isUnexportedHelper(fn *ssa.Function) bool {
	if fn == nil || fn.Parent() != nil || fn.Object() == nil || fn.Object().Exported() {
		return false
	}
	if !strings.HasPrefix(fnPkgPath(fn), Mod) {
		return false
	}
	if fn.Referrers() != nil {
		for _, r := range *fn.Referrers() {
			ci, ok := r.(ssa.CallInstruction)
			if !ok || ci.Common().Value != ssa.Value(fn) {
				return false // used as a value (callback, goroutine target via value, stored)
			}
		}
	}
	return true
}

// withCalleeBound runs f with callee's parameters bound to the arguments of its single static call
// site, so that rules written against the caller's values can read the callee's body. Returns false
// (and does not run f) when the callee has no or several call sites.
func withCalleeBound(callee *ssa.Function, f func()) bool {
	sites := staticCallersOf(callee)
	if len(sites) != 1 {
		return false
	}
	saved := activeSubst
	merged := map[*ssa.Parameter]ssa.Value{}
	for k, v := range saved {
		merged[k] = v
	}
	args := sites[0].Common().Args
	for i, p := range callee.Params {
		if i < len(args) {
			merged[p] = args[i]
		}
	}
	activeSubst = merged
	defer func() { activeSubst = saved }()
	f()
	return true
}
