package main

import (
	"fmt"
	"go/token"
	"go/types"

	"golang.org/x/tools/go/ssa"
)

// P6 — known bits / width. possibleBits(v) over-approximates the set of bits that can be 1 in an
// integer SSA value. Two contradiction rules are derived from it:
//
//	dead-mask:        x & m (m a non-zero constant) where no bit of m can be set in x — the code tests
//	                  bits that can never be set (e.g. testing bit 15 of a value read as one byte);
//	narrowing-drops:  T(v) where v was just OR-ed with a constant that has bits at or above T's width —
//	                  the conversion discards the bits the code just set.
//
// Both are "stated belief" contradictions in the sense of Engler et al.: the mask documents how wide
// the author believes the value is, the surrounding read/write says otherwise.

func typeWidth(t types.Type) (bits int, signed bool, ok bool) {
	b, isB := t.Underlying().(*types.Basic)
	if !isB {
		return 0, false, false
	}
	switch b.Kind() {
	case types.Int8:
		return 8, true, true
	case types.Uint8:
		return 8, false, true
	case types.Int16:
		return 16, true, true
	case types.Uint16:
		return 16, false, true
	case types.Int32:
		return 32, true, true
	case types.Uint32:
		return 32, false, true
	case types.Int64, types.Int:
		return 64, true, true
	case types.Uint64, types.Uint, types.Uintptr:
		return 64, false, true
	}
	return 0, false, false
}

func maskOf(bits int) uint64 {
	if bits >= 64 {
		return ^uint64(0)
	}
	return uint64(1)<<uint(bits) - 1
}

func possibleBits(v ssa.Value, depth int) uint64 {
	all := ^uint64(0)
	if w, _, ok := typeWidth(v.Type()); ok {
		all = maskOf(w)
	}
	if depth < 0 {
		return all
	}
	switch x := v.(type) {
	case *ssa.Const:
		if k, ok := constInt(x); ok {
			return uint64(k) & all
		}
	case *ssa.Convert:
		src := possibleBits(x.X, depth-1)
		sw, ssigned, sok := typeWidth(x.X.Type())
		dw, _, dok := typeWidth(x.Type())
		if !sok || !dok {
			return all
		}
		if dw <= sw {
			return src & maskOf(dw)
		}
		// widening: sign extension may set the high bits unless the source's top bit cannot be set
		if ssigned && src&(uint64(1)<<uint(sw-1)) != 0 {
			return all
		}
		return src
	case *ssa.ChangeType:
		return possibleBits(x.X, depth-1)
	case *ssa.BinOp:
		a, b := possibleBits(x.X, depth-1), possibleBits(x.Y, depth-1)
		switch x.Op {
		case token.AND:
			return a & b
		case token.OR, token.XOR:
			return (a | b) & all
		case token.AND_NOT:
			return a
		case token.SHR:
			if k, ok := constInt(x.Y); ok && k >= 0 && k < 64 {
				if _, signed, _ := typeWidth(x.X.Type()); signed && a>>63 != 0 {
					return all
				}
				return a >> uint(k)
			}
		case token.SHL:
			if k, ok := constInt(x.Y); ok && k >= 0 && k < 64 {
				return (a << uint(k)) & all
			}
		}
	case *ssa.Phi:
		var u uint64
		for _, e := range x.Edges {
			u |= possibleBits(e, depth-1)
		}
		return u & all
	case *ssa.Extract:
		// results of the util.ReadUintN / ReadByte helpers are bounded by their type already
	case *ssa.Call:
		if b, ok := x.Call.Value.(*ssa.Builtin); ok && (b.Name() == "len" || b.Name() == "cap") {
			return maskOf(63)
		}
	}
	return all
}

type BitFinding struct {
	At   ssa.Instruction
	Kind string
	Msg  string
}

func bitContradictions(fn *ssa.Function) []BitFinding {
	var out []BitFinding
	eachInstr(fn, func(in ssa.Instruction) {
		switch x := in.(type) {
		case *ssa.BinOp:
			if x.Op != token.AND {
				return
			}
			for _, side := range [][2]ssa.Value{{x.X, x.Y}, {x.Y, x.X}} {
				m, isK := constInt(side[1])
				if !isK || m == 0 {
					continue
				}
				if _, isConst := side[0].(*ssa.Const); isConst {
					continue
				}
				pb := possibleBits(side[0], 8)
				if pb&uint64(m) == 0 {
					out = append(out, BitFinding{in, "dead-mask",
						fmt.Sprintf("`%s & %#x` tests bits that can never be set: the operand can only have bits %#x set (it comes from a narrower value)", side[0].Name(), m, pb)})
				}
			}
		case *ssa.Convert:
			dw, _, dok := typeWidth(x.Type())
			sw, _, sok := typeWidth(x.X.Type())
			if !dok || !sok || dw >= sw {
				return
			}
			// the value was OR-ed with a constant that has bits at or above the target width
			for _, o := range origins(x.X, 3) {
				bo, ok := o.(*ssa.BinOp)
				if !ok || bo.Op != token.OR {
					continue
				}
				for _, side := range []ssa.Value{bo.X, bo.Y} {
					if k, isK := constInt(side); isK && uint64(k)&^maskOf(dw) != 0 {
						out = append(out, BitFinding{in, "narrowing-drops",
							fmt.Sprintf("conversion to %s keeps %d bits but the value was just OR-ed with %#x: the flag bit(s) %#x are discarded", x.Type(), dw, k, uint64(k)&^maskOf(dw))})
					}
				}
			}
		}
	})
	return out
}
