package main

import (
	"fmt"
	"strings"

	"golang.org/x/tools/go/ssa"
)

const pkgVersion = "pkg/edition/java/proto/version"

func init() {
	register(&propDef{
		ID:       "C43",
		Title:    "Server list pings get one well-formed response and an exact echo",
		Patterns: []string{"./pkg/edition/java/proxy", "./pkg/edition/java/proto/version"},
		Run:      runC43,
		Rule: "newInitialPing keeps the client's protocol only on the true edge of Protocol.Supported() and uses MaximumVersion otherwise, and Supported() is data-dependent on the " +
			"version table (not merely 'not -1'); Players.Online comes from PlayerCount(); no path of handleStatusRequest writes two responses and every write is dominated by the " +
			"receivedRequest=true store, while the repeated-request edge closes without writing; the ping echo writes exactly the received payload with Close deferred; every path " +
			"through the status and handshake HandlePacket dispatches to a known handler or closes the connection.",
		Explanation: "Decides: protocol selection gate and that the gate consults the table, player-count provenance, at-most-one response per connection, echo provenance and close, " +
			"close-on-anything-else. Does not decide: JSON well-formedness of the response body or behaviour with ping handlers installed.",
		Fixtures: []string{"guardcut", "provenance"},
		Variants: []Variant{
			{Name: "supported-ignores-table", File: pkgVersion + "/version.go",
				Old: "func (p Protocol) Supported() bool {\n\tv := p.Version()\n\treturn v != Unknown && v != Legacy\n}", New: "func (p Protocol) Supported() bool {\n\treturn !p.Unknown()\n}", Expect: "supported-table"},
			{Name: "ping-protocol-unchecked", File: pkgProxy + "/session_status.go",
				Old: "\tif !version.Protocol(protocol).Supported() {\n\t\tprotocol = version.MaximumVersion.Protocol\n\t}\n", New: "", Expect: "ping-protocol"},
			{Name: "second-request-answered", File: pkgProxy + "/session_status.go",
				Old: "\tif h.receivedRequest {\n\t\t// Already sent response\n\t\t_ = h.conn.Close()\n\t\treturn\n\t}\n", New: "", Expect: "one-response"},
			{Name: "echo-rebuilt", File: pkgProxy + "/session_status.go",
				Old: "h.conn.Write(p.Payload)", New: "h.conn.Write(append([]byte{}, p.Payload[:1]...))", Expect: "echo-payload"},
			{Name: "echo-no-close", File: pkgProxy + "/session_status.go",
				Old: "\tdefer h.conn.Close()\n\tif err := h.conn.Write(p.Payload)", New: "\tif err := h.conn.Write(p.Payload)", Expect: "echo-closes"},
			{Name: "unknown-packet-ignored", File: pkgProxy + "/session_status.go",
				Old: "\tdefault:\n\t\t// unexpected packet, simply close\n\t\t_ = h.conn.Close()\n\t}", New: "\tdefault:\n\t}", Expect: "dispatch-or-close"},
			{Name: "online-constant", File: pkgProxy + "/session_status.go",
				Old: "Online: p.PlayerCount(),", New: "Online: len(p.config().Servers),", Expect: "online-count"},
		},
	})
}

// readsGlobal: does fn (following static callees with bodies, depth) load one of the named package-level variables?
func readsGlobal(fn *ssa.Function, depth int, names map[string]bool, seen map[*ssa.Function]bool) bool {
	if fn == nil || fn.Blocks == nil || seen[fn] || depth < 0 {
		return false
	}
	seen[fn] = true
	found := false
	eachInstr(fn, func(in ssa.Instruction) {
		for _, op := range in.Operands(nil) {
			if g, ok := (*op).(*ssa.Global); ok && names[g.Name()] {
				found = true
			}
		}
		if cc := callOf(in); cc != nil && !found {
			if g := staticCallee(cc); g != nil && readsGlobal(g, depth-1, names, seen) {
				found = true
			}
		}
	})
	return found
}

// phiEdgeGuarded: the i-th incoming edge of phi can only be taken after crossing an edge selected by pred.
func phiEdgeGuarded(phi *ssa.Phi, i int, pred EdgePred) bool {
	fn := phi.Parent()
	sel := map[Edge]bool{}
	for _, e := range IfEdges(fn) {
		cnd, t := e.Cond()
		if pred(e, cnd, t) {
			sel[e] = true
		}
	}
	p := phi.Block().Preds[i]
	r := reach(fn.Blocks[0], func(e Edge) bool { return sel[e] })
	if !r[p] {
		return true
	}
	// p reachable without crossing: unless p's only way into the phi block is itself a selected edge
	for si, s := range p.Succs {
		if s == phi.Block() {
			if _, isIf := lastInstr(p).(*ssa.If); isIf && sel[Edge{p, si}] {
				continue
			}
			return false
		}
	}
	return true
}

func runC43(c *Ctx) {
	// Supported() consults the table
	sup := c.MustFunc(pkgVersion + ":(Protocol).Supported")
	if sup != nil {
		tbl := readsGlobal(sup, 3, map[string]bool{"ProtocolToVersion": true, "Versions": true, "SupportedVersions": true}, map[*ssa.Function]bool{})
		c.CheckAt("supported-table", "Protocol.Supported", c.P.Pos(sup.Pos()), tbl,
			"Protocol.Supported() does not consult the version table (ProtocolToVersion/Versions/SupportedVersions): every protocol number except -1 — e.g. 9999, 3, -2 — counts as supported, so the client's unknown protocol is echoed in status and such clients are let into login")
	}
	isSupportedTrue := func(e Edge, cond ssa.Value, truth bool) bool {
		return boolCallEdge(cond, truth, true, callSuffix("version.Protocol).Supported"))
	}
	if np := c.MustFunc(pkgProxy + ":newInitialPing"); np != nil {
		// the stored Version.Protocol
		var protoVals, onlineVals []ssa.Value
		eachInstr(np, func(in ssa.Instruction) {
			fa, ok := in.(*ssa.FieldAddr)
			if !ok {
				return
			}
			f := fieldOfAddr(fa)
			if f.Name() == "Protocol" && typeIs(fa.X.Type(), "java/ping", "Version") {
				protoVals = append(protoVals, storedInto(fa, 0)...)
			}
			if f.Name() == "Online" {
				onlineVals = append(onlineVals, storedInto(fa, 0)...)
			}
		})
		if len(protoVals) == 0 {
			c.Undecided("ping-protocol", "Version.Protocol@newInitialPing", "no store to the advertised protocol found")
		}
		for _, pv := range protoVals {
			ok := true
			detail := ""
			param := np.Params[1]
			switch x := strip(pv).(type) {
			case *ssa.Phi:
				for i, e := range x.Edges {
					if strip(e) == ssa.Value(param) {
						if !phiEdgeGuarded(x, i, isSupportedTrue) {
							ok, detail = false, "the client's protocol reaches the response without passing the Supported() == true edge"
						}
					} else if !strings.HasSuffix(PathOf(e), "MaximumVersion.Protocol") {
						ok, detail = false, "fallback protocol is not version.MaximumVersion.Protocol: "+PathOf(e)
					}
				}
			case *ssa.Parameter:
				ok, detail = false, "the client's protocol is advertised unconditionally"
			default:
				// chosen by a helper (advertisedProtocol(protocol)): each return is the client's protocol
				// behind Supported() == true, or the maximum version
				if hc, isC := strip(pv).(*ssa.Call); isC && moduleHelperWithBody(&hc.Call) != nil {
					g := moduleHelperWithBody(&hc.Call)
					c.Analysed(g)
					res := make([]ssa.Value, len(hc.Call.Args))
					for i, a := range hc.Call.Args {
						res[i] = strip(a)
					}
					nRet := 0
					withBinding(g, res, func() {
						for _, hr := range successReturns(g) {
							if len(hr.Results) != 1 {
								continue
							}
							nRet++
							rv := hr.Results[0]
							if strip(rv) == ssa.Value(param) {
								if gd, ns := MustCross(hr, isSupportedTrue); !gd || ns == 0 {
									ok, detail = false, "the client's protocol is returned by "+g.Name()+" without passing the Supported() == true edge"
								}
							} else if !strings.HasSuffix(PathOf(rv), "MaximumVersion.Protocol") {
								ok, detail = false, "fallback protocol is not version.MaximumVersion.Protocol: "+PathOf(rv)
							}
						}
					})
					if nRet == 0 {
						ok, detail = false, "protocol helper has no return"
					}
				} else if !strings.HasSuffix(PathOf(pv), "MaximumVersion.Protocol") {
					ok, detail = false, "unexpected protocol source "+PathOf(pv)
				}
			}
			c.CheckAt("ping-protocol", "client-protocol-only-if-supported@newInitialPing", c.P.Pos(np.Pos()), ok, detail)
		}
		okOnline := len(onlineVals) > 0
		for _, ov := range onlineVals {
			cl, isCall := strip(ov).(*ssa.Call)
			if !isCall || !strings.HasSuffix(calleeName(&cl.Call), "Proxy).PlayerCount") {
				okOnline = false
			}
		}
		c.CheckAt("online-count", "Players.Online=PlayerCount()@newInitialPing", c.P.Pos(np.Pos()), okOnline, "the advertised online count must be the proxy's player count")
	}

	// handleStatusRequest
	if hr := c.MustFunc(pkgProxy + ":(*statusSessionHandler).handleStatusRequest"); hr != nil {
		writes := callsIn(hr, func(nm string, cc *ssa.CallCommon) bool {
			m := methodName(cc)
			return m == "writeStatusResponse" || ((m == "WritePacket" || m == "Write" || m == "BufferPacket") && strings.HasSuffix(PathOf(cc.Value), ".conn"))
		})
		if len(writes) == 0 {
			c.Undecided("one-response", "handleStatusRequest", "no response write found")
		}
		isRecv := func(v ssa.Value) bool { return strings.HasSuffix(PathOf(v), ".receivedRequest") }
		var flagStore ssa.Instruction
		eachInstr(hr, func(in ssa.Instruction) {
			if st, ok := in.(*ssa.Store); ok && isRecv(st.Addr) {
				if v, isB := constBool(st.Val); isB && v {
					flagStore = in
				}
			}
		})
		for i, w := range writes {
			for j, w2 := range writes {
				if i <= j && flowsTo(w, w2) {
					c.Check("one-response", fmt.Sprintf("no-second-write#%d-%d@handleStatusRequest", i, j), w2, false, "a path writes two status responses")
				}
			}
			g, n := MustCross(w, func(e Edge, cond ssa.Value, truth bool) bool { return isRecv(cond) && !truth })
			c.Check("one-response", fmt.Sprintf("write#%d-after-first-request-gate@handleStatusRequest", i), w, g && n > 0 && flagStore != nil && domBefore(flagStore, w),
				"a status response must only be written on the first request (receivedRequest false edge, flag set before writing)")
		}
		// repeated request edge: closes, writes nothing
		for _, e := range IfEdges(hr) {
			cond, truth := e.Cond()
			if !isRecv(cond) || !truth {
				continue
			}
			isClose := closesConn
			first := e.To().Instrs[0]
			miss := false
			if !isClose(first) {
				miss, _ = MayReachExitWithout(first, isClose)
			}
			c.Check("repeat-closes", "receivedRequest-edge@handleStatusRequest", first, !miss, "a repeated status request must close the connection")
		}
		// classic mode uses newInitialPing with the packet's protocol
		for _, ci := range callsIn(hr, func(nm string, cc *ssa.CallCommon) bool { return strings.HasSuffix(nm, "proxy.newInitialPing") }) {
			c.Check("ping-protocol", "protocol-arg@handleStatusRequest", ci, strings.HasSuffix(PathOf(ci.Common().Args[1]), ".Protocol"),
				"newInitialPing must be given the protocol of the request")
		}
	}

	// echo
	if hp := c.MustFunc(pkgProxy + ":(*statusSessionHandler).handleStatusPing"); hp != nil {
		n := 0
		for _, ci := range callsIn(hp, func(nm string, cc *ssa.CallCommon) bool {
			m := methodName(cc)
			return m == "Write" || m == "WritePacket" || m == "BufferPayload" || m == "BufferPacket"
		}) {
			n++
			args := ci.Common().Args
			a := args[len(args)-1]
			c.Check("echo-payload", methodName(ci.Common())+"@handleStatusPing", ci, methodName(ci.Common()) == "Write" && PathOf(a) == hp.Params[1].Name()+".Payload",
				"the ping must be answered with the received payload itself (byte-identical echo), got "+PathOf(a))
		}
		if n != 1 {
			c.CheckAt("echo-payload", "one-write@handleStatusPing", c.P.Pos(hp.Pos()), false, fmt.Sprintf("expected exactly one echo write, found %d", n))
		}
		closed := false
		eachInstr(hp, func(in ssa.Instruction) {
			if d, ok := in.(*ssa.Defer); ok && methodName(&d.Call) == "Close" {
				closed = true
			}
		})
		if !closed {
			// or explicit Close on every path
			first := hp.Blocks[0].Instrs[0]
			miss, _ := MayReachExitWithout(first, closesConn)
			closed = !miss
		}
		c.CheckAt("echo-closes", "Close@handleStatusPing", c.P.Pos(hp.Pos()), closed, "the connection must be closed after the ping echo on every path")
	}

	// dispatch or close
	for _, h := range []struct {
		fn       string
		handlers []string
	}{
		{"(*statusSessionHandler).HandlePacket", []string{"handleStatusRequest", "handleStatusPing"}},
		{"(*handshakeSessionHandler).HandlePacket", []string{"handleHandshake"}},
	} {
		fn := c.MustFunc(pkgProxy + ":" + h.fn)
		if fn == nil {
			continue
		}
		hit := func(in ssa.Instruction) bool {
			cc := callOf(in)
			if cc == nil {
				return false
			}
			m := methodName(cc)
			if m == "Close" || closesConn(in) {
				return true
			}
			for _, x := range h.handlers {
				if m == x {
					return true
				}
			}
			return false
		}
		first := fn.Blocks[0].Instrs[0]
		miss := false
		if !hit(first) {
			miss, _ = MayReachExitWithout(first, hit)
		}
		c.CheckAt("dispatch-or-close", h.fn, c.P.Pos(fn.Pos()), !miss, "a path through HandlePacket neither dispatches to a handler nor closes the connection (unknown/other packets must close)")
		// handlers are only reached for their packet type: each handler call is dominated by a successful type assertion
		for _, ci := range callsIn(fn, func(nm string, cc *ssa.CallCommon) bool {
			for _, x := range h.handlers {
				if methodName(cc) == x {
					return true
				}
			}
			return false
		}) {
			g, n := MustCross(ci, func(e Edge, cond ssa.Value, truth bool) bool {
				ex, ok := cond.(*ssa.Extract)
				if !ok || !truth {
					return false
				}
				_, isTA := ex.Tuple.(*ssa.TypeAssert)
				return isTA
			})
			c.Check("dispatch-typed", methodName(ci.Common())+"@"+h.fn, ci, g && n > 0, "handler call not guarded by a type switch case")
		}
	}

	// login requires a supported protocol
	if hl := c.MustFunc(pkgProxy + ":(*handshakeSessionHandler).handleLogin"); hl != nil {
		for _, ci := range callsIn(hl, func(nm string, cc *ssa.CallCommon) bool { return methodName(cc) == "SetActiveSessionHandler" }) {
			g, n := MustCross(ci, isSupportedTrue)
			c.Check("login-supported", "SetActiveSessionHandler@handleLogin", ci, g && n > 0, "login proceeds for a protocol the proxy does not support")
		}
	}
}

// closesConn: the instruction closes the connection — a Close() call, or a call of an unexported
// helper of the module every path of which does (h.closeConn()).
func closesConn(in ssa.Instruction) bool {
	cc := callOf(in)
	if cc == nil {
		return false
	}
	if methodName(cc) == "Close" {
		return true
	}
	g := moduleHelperWithBody(cc)
	if g == nil || !isUnexportedHelper(g) || len(g.Blocks) == 0 || len(g.Blocks[0].Instrs) == 0 {
		return false
	}
	isClose := func(x ssa.Instruction) bool { c2 := callOf(x); return c2 != nil && methodName(c2) == "Close" }
	first := g.Blocks[0].Instrs[0]
	if isClose(first) {
		return true
	}
	miss, _ := MayReachExitWithout(first, isClose)
	return !miss
}
