package main

import (
	"go/token"
	"strings"

	"golang.org/x/tools/go/ssa"
)

// checkLastSeenAdopted: the chat queue hands every continuation the *fixed* last-seen update (the
// client's offset plus the acknowledgements the proxy was holding back — UpdateFromMessage has
// already zeroed the held counter at that point). Whatever the continuation sends on must be built
// after that value was adopted: on every path on which the fixed update is non-nil, the store of it
// into a packet's / builder's LastSeenMessages precedes every return that yields something.
// Otherwise the held acknowledgements are flushed and lost (the backend never catches up).
func checkLastSeenAdopted(c *Ctx, lc *LockCtx) {
	type site struct {
		call ssa.CallInstruction
		fnAt int // index of the continuation argument
		lsAt int // index of the lastSeen argument
	}
	var sites []site
	for name, idx := range map[string][2]int{"chatHandler).queueCommandResult": {4, 3}, "chatQueue).QueuePacket": {1, 3}} {
		for f, css := range lc.Callers {
			if !strings.HasSuffix(shortName(f), name) {
				continue
			}
			for _, cs := range css {
				sites = append(sites, site{cs.Instr, idx[0], idx[1]})
			}
		}
	}
	n := 0
	for _, s := range sites {
		args := s.call.Common().Args
		if s.fnAt >= len(args) || s.lsAt >= len(args) {
			continue
		}
		if isNilConst(strip(args[s.lsAt])) {
			continue // no last-seen update is fed in: nothing to adopt
		}
		// queueCommandResult itself passes its own parameter through to QueuePacket with a wrapper closure
		if _, isPrm := strip(args[s.lsAt]).(*ssa.Parameter); isPrm {
			continue
		}
		for _, f := range resolveFuncValue(args[s.fnAt]) {
			if len(f.Params) == 0 {
				continue
			}
			P := f.Params[len(f.Params)-1]
			if !typeIs(P.Type(), "packet/chat", "LastSeenMessages") {
				continue
			}
			n++
			c.Analysed(f)
			// a continuation that only hands its arguments on to a method (return h.resolve(packet, P)):
			// the method is the continuation, with the parameter that receives P
			for hop := 0; hop < 2; hop++ {
				var next *ssa.Function
				var nextP *ssa.Parameter
				cnt := 0
				eachInstr(f, func(in ssa.Instruction) {
					cc := callOf(in)
					if cc == nil {
						return
					}
					g := moduleHelperWithBody(cc)
					if g == nil {
						return
					}
					for i, a := range cc.Args {
						if stripNoSubst(a) == ssa.Value(P) && i < len(g.Params) {
							next, nextP = g, g.Params[i]
							cnt++
						}
					}
				})
				if next == nil || cnt != 1 || len(f.Blocks) > 3 {
					break
				}
				f, P = next, nextP
				c.Analysed(f)
			}
			isP := func(v ssa.Value) bool { return strip(v) == ssa.Value(P) }
			stop := func(in ssa.Instruction) bool {
				st, ok := in.(*ssa.Store)
				if !ok || !strings.HasSuffix(PathOf(st.Addr), ".LastSeenMessages") {
					return false
				}
				ld, ok := strip(st.Val).(*ssa.UnOp)
				return ok && ld.Op == token.MUL && isP(ld.X)
			}
			cut := func(e Edge) bool {
				cond, truth := e.Cond()
				v, isNil, ok := nilCmp(cond, truth)
				return ok && isNil && isP(v)
			}
			reached := reachAvoiding(f.Blocks[0], stop, cut)
			var bad ssa.Instruction
			for _, r := range returnsOf(f) {
				if !reached[r.Block()] || r.Block() == f.Recover || len(r.Results) == 0 {
					continue
				}
				v := strip(retVal(r, 0))
				if isNilConst(v) {
					continue
				}
				// a completed future / value built from nil only carries nothing
				if cl, ok := v.(*ssa.Call); ok {
					allNil := len(cl.Call.Args) > 0
					for _, a := range cl.Call.Args {
						if !isNilConst(strip(a)) {
							allNil = false
						}
					}
					if allNil {
						continue
					}
				}
				bad = r
			}
			if bad == nil {
				c.CheckAt("last-seen-adopted", shortName(f), c.P.Pos(f.Pos()), true, "")
			} else {
				c.Check("last-seen-adopted", shortName(f), bad, false,
					"a packet or acknowledgement is produced on a path where the queue's fixed last-seen update (client offset + held acknowledgements, already flushed from the counter) has not been adopted: the held acknowledgements are lost and the backend never catches up")
			}
		}
	}
	if n < 2 {
		c.Undecided("last-seen-adopted", "continuations", "expected the session chat and session command continuations, found fewer")
	}
}
