package main

import (
	"fmt"
	"go/token"
	"strings"

	"golang.org/x/tools/go/ssa"
)

const pkgFloodgate = "pkg/edition/bedrock/geyser/floodgate"
const pkgGeyser = "pkg/edition/bedrock/geyser"

func init() {
	register(&propDef{
		ID:       "C39",
		Title:    "Floodgate identity data is authentic and interoperable with Floodgate",
		Patterns: []string{"./pkg/edition/bedrock/geyser/floodgate"},
		Run:      runC39,
		Rule: "library precondition: at every cipher.AEAD Open/Seal the nonce either was made with the AEAD's NonceSize() or has a dominating test len(nonce) == 12 / NonceSize() " +
			"(crypto/cipher's GCM panics on any other length — hostile input must not reach it); the plaintext is returned only on Open's err == nil edge; every constant index into a " +
			"strings.Split result is covered by a dominating len(parts) == N test; Encrypt and Decrypt agree on header, splitter, base64 alphabet and AES-GCM construction; " +
			"WriteHostname's field list and ReadBedrockData's field reads agree index by index (writer/reader table agreement).",
		Explanation: "Decides: no panic on hostile identity data (nonce length, slice indices), authenticated-decryption gate, framing and field-order agreement of the proxy's own encoder and decoder. " +
			"Does not decide: interoperability with the Java Floodgate implementation (no reference on disk) or AES-GCM itself.",
		Fixtures: []string{"guardcut", "bounds"},
		Variants: []Variant{
			{Name: "iv-length-unchecked", File: pkgFloodgate + "/cipher.go",
				Old:    "\tif len(iv) != IV_LENGTH {\n\t\treturn nil, errors.New(\"invalid IV length\")\n\t}\n",
				New:    "",
				Expect: "nonce-length"},
			{Name: "plaintext-despite-error", File: pkgFloodgate + "/cipher.go",
				Old:    "\tplainText, err := gcm.Open(nil, iv, cipherText, nil)\n\tif err != nil {\n\t\treturn nil, fmt.Errorf(\"failed to decrypt: %w\", err)\n\t}",
				New:    "\tplainText, err := gcm.Open(nil, iv, cipherText, nil)\n\tif err != nil && len(plainText) == 0 {\n\t\treturn nil, fmt.Errorf(\"failed to decrypt: %w\", err)\n\t}",
				Expect: "plaintext-authenticated"},
			{Name: "parts-count-relaxed", File: pkgFloodgate + "/floodgate.go",
				Old: "\tif len(parts) != 12 {\n\t\treturn nil, fmt.Errorf(\"invalid bedrock data format: expected 12 parts, got %d\", len(parts))", New: "\tif len(parts) < 10 {\n\t\treturn nil, fmt.Errorf(\"invalid bedrock data format: expected 12 parts, got %d\", len(parts))", Expect: "index-in-range"},
			{Name: "field-order-swapped", File: pkgFloodgate + "/floodgate.go",
				Old: "\t\td.IP,\n\t\td.LinkedPlayer,\n", New: "\t\td.LinkedPlayer,\n\t\td.IP,\n", Expect: "field-order"},
			{Name: "splitter-mismatch", File: pkgFloodgate + "/cipher.go",
				Old: "splitIndex := bytes.IndexByte(data, SPLITTER)", New: "splitIndex := bytes.IndexByte(data, ':')", Expect: "framing"},
			{Name: "url-base64-on-decode", File: pkgFloodgate + "/cipher.go",
				Old: "iv, err := base64.StdEncoding.DecodeString(string(ivB64))", New: "iv, err := base64.URLEncoding.DecodeString(string(ivB64))", Expect: "framing"},
		},
	})
	register(&propDef{
		ID:       "C40",
		Title:    "Bedrock players get valid, stable Java identities",
		Patterns: []string{"./pkg/edition/bedrock/geyser", "./pkg/edition/bedrock/geyser/floodgate"},
		Run:      runC40,
		Rule: "P3 in javaCompatibleUsername: every byte appended is the constant '_' or byte(r) on an incoming edge where the dominating comparisons confine r to a-z, A-Z, 0-9 or '_'; " +
			"every append is dominated by the not-yet-16 edge of a length test with a constant <= 16, and no path leads from one append to another without passing that test (one byte per " +
			"iteration); every return is that builder's String() or the constant \"_\", the latter only under Len()==0; the Bedrock profile's Name is the result of javaCompatibleUsername; " +
			"JavaUuid calls no clock or random source, hashes \"FloodgateXUID:\"+decimal XUID, and (P6) sets version nibble 0101 and variant bits 10 before returning.",
		Explanation: "Decides: the Java name alphabet and length bounds for every gamertag/format, determinism and RFC 4122 bits of the XUID→UUID mapping. " +
			"Does not decide: injectivity of SHA-1 (distinct XUIDs → distinct UUIDs).",
		Fixtures: []string{"bounds", "knownbits"},
		Variants: []Variant{
			{Name: "space-allowed", File: pkgGeyser + "/geyser.go",
				Old: "case r >= 'a' && r <= 'z', r >= 'A' && r <= 'Z', r >= '0' && r <= '9', r == '_':", New: "case r >= 'a' && r <= 'z', r >= 'A' && r <= 'Z', r >= '0' && r <= '9', r == '_', r == ' ':", Expect: "alphabet"},
			{Name: "range-too-wide", File: pkgGeyser + "/geyser.go",
				Old: "r >= 'A' && r <= 'Z'", New: "r >= 'A' && r <= 'z'", Expect: "alphabet"},
			{Name: "length-17", File: pkgGeyser + "/geyser.go",
				Old: "const maxJavaUsernameLen = 16", New: "const maxJavaUsernameLen = 17", Expect: "length-bound"},
			{Name: "two-bytes-per-rune", File: pkgGeyser + "/geyser.go",
				Old: "\t\tdefault:\n\t\t\tnormalized.WriteByte('_')\n", New: "\t\tdefault:\n\t\t\tnormalized.WriteByte('_')\n\t\t\tnormalized.WriteByte('_')\n", Expect: "length-bound"},
			{Name: "empty-name-returned", File: pkgGeyser + "/geyser.go",
				Old: "\tif normalized.Len() == 0 {\n\t\treturn \"_\"\n\t}\n", New: "", Expect: "non-empty"},
			{Name: "profile-name-unfiltered", File: pkgGeyser + "/geyser.go",
				Old: "\tformattedName = javaCompatibleUsername(formattedName)\n", New: "", Expect: "name-through-filter"},
			{Name: "uuid-version-bits", File: pkgFloodgate + "/floodgate.go",
				Old: "sum[6] = (sum[6] & 0x0f) | (5 << 4)", New: "sum[6] = (sum[6] & 0x2f) | (5 << 4)", Expect: "uuid-bits"},
		},
	})
}

func isLenOf(v ssa.Value, of func(ssa.Value) bool) bool {
	cl, ok := strip(v).(*ssa.Call)
	if !ok {
		return false
	}
	b, ok := cl.Call.Value.(*ssa.Builtin)
	return ok && b.Name() == "len" && of(cl.Call.Args[0])
}

func runC39(c *Ctx) {
	scope := c.P.Funcs(Mod + "/" + pkgFloodgate)
	// (1) AEAD nonce length
	nAEAD := 0
	for _, fn := range scope {
		for _, ci := range callsIn(fn, func(nm string, cc *ssa.CallCommon) bool {
			return cc.IsInvoke() && (cc.Method.Name() == "Open" || cc.Method.Name() == "Seal") && strings.HasSuffix(cc.Value.Type().String(), "cipher.AEAD")
		}) {
			nAEAD++
			c.Analysed(fn)
			aead := ci.Common().Value
			nonce := ci.Common().Args[1]
			ok := false
			how := ""
			// (a) made with NonceSize()
			if ms, isMS := seeThrough(nonce).(*ssa.MakeSlice); isMS {
				if cl := callValue(ms.Len); cl != nil && cl.Call.IsInvoke() && cl.Call.Method.Name() == "NonceSize" && cl.Call.Value == aead {
					ok, how = true, "made with NonceSize()"
				}
			}
			// (b) dominating length test
			if !ok {
				same := func(v ssa.Value) bool { return seeThrough(v) == seeThrough(nonce) }
				r := RangeAt(ci.Block(), func(v ssa.Value) bool { return isLenOf(v, same) })
				if r.HasLo() && r.HasHi() && r.Lo == 12 && r.Hi == 12 {
					ok, how = true, "len == 12 dominates"
				}
				for _, s := range r.Sym {
					if cl := callValue(s.Other); cl != nil && s.Op == token.EQL && cl.Call.IsInvoke() && cl.Call.Method.Name() == "NonceSize" {
						ok, how = true, "len == NonceSize() dominates"
					}
				}
			}
			// (c) handed back, with the error nil, by a helper that length-checked it on every such return
			if ex, isEx := seeThrough(nonce).(*ssa.Extract); !ok && isEx {
				if hc, isC := ex.Tuple.(*ssa.Call); isC {
					if g := moduleHelperWithBody(&hc.Call); g != nil {
						c.Analysed(g)
						errIdx := g.Signature.Results().Len() - 1
						behindNil, nn := MustCross(ci, func(e Edge, cond ssa.Value, truth bool) bool {
							return errNilEdge(cond, truth, func(x *ssa.Call) bool { return x == hc })
						})
						all, n := behindNil && nn > 0, 0
						for _, hr := range successReturns(g) {
							if len(hr.Results) <= errIdx || !isNilConst(retVal(hr, errIdx)) {
								continue // error return: not reached behind err == nil
							}
							n++
							rv := retVal(hr, ex.Index)
							same := func(v ssa.Value) bool { return seeThrough(v) == seeThrough(rv) }
							r := RangeAt(hr.Block(), func(v ssa.Value) bool { return isLenOf(v, same) })
							if !(r.HasLo() && r.HasHi() && r.Lo == 12 && r.Hi == 12) {
								all = false
							}
						}
						if all && n > 0 {
							ok, how = true, "length-checked in "+g.Name()+" on every nil-error return"
						}
					}
				}
			}
			c.Check("nonce-length", ci.Common().Method.Name()+"@"+shortName(fn), ci, ok,
				"the nonce handed to AES-GCM is neither made with NonceSize() nor length-checked: crypto/cipher panics (\"incorrect nonce length given to GCM\") on identity data whose IV does not decode to 12 bytes "+how)
			if ci.Common().Method.Name() != "Open" {
				continue
			}
			// (2) plaintext only on err == nil
			open := ci.(*ssa.Call)
			for _, r := range returnsOf(fn) {
				if len(r.Results) != 2 {
					continue
				}
				ex, isEx := strip(retVal(r, 0)).(*ssa.Extract)
				if !isEx || ex.Tuple != ssa.Value(open) {
					continue
				}
				g, n := MustCross(r, func(e Edge, cond ssa.Value, truth bool) bool {
					return errNilEdge(cond, truth, func(x *ssa.Call) bool { return x == open })
				})
				c.Check("plaintext-authenticated", "return-plaintext@"+shortName(fn), r, g && n > 0,
					"decrypted data is returned on a path where AES-GCM authentication failed (data under another key / altered data would be accepted)")
			}
		}
	}
	if nAEAD < 2 {
		c.Undecided("nonce-length", "AEAD", fmt.Sprintf("expected Open and Seal call sites, found %d", nAEAD))
	}

	// (3) constant indices into strings.Split results
	nIdx := 0
	for _, fn := range scope {
		eachInstr(fn, func(in ssa.Instruction) {
			ia, ok := in.(*ssa.IndexAddr)
			if !ok {
				return
			}
			cl := callValue(seeThrough(ia.X))
			if cl == nil || calleeName(&cl.Call) != "strings.Split" {
				return
			}
			k, isK := constInt(ia.Index)
			if !isK {
				return
			}
			if k == 0 {
				// strings.Split with a non-empty separator always yields at least one element
				if s, isS := constString(cl.Call.Args[1]); isS && s != "" {
					return
				}
			}
			nIdx++
			c.Analysed(fn)
			same := func(v ssa.Value) bool { return seeThrough(v) == ssa.Value(cl) }
			r := RangeAt(ia.Block(), func(v ssa.Value) bool { return isLenOf(v, same) })
			c.Check("index-in-range", fmt.Sprintf("parts[%d]@%s", k, shortName(fn)), ia, r.HasLo() && r.Lo > k,
				fmt.Sprintf("index %d into a strings.Split result without a dominating length test that guarantees it (derived len range %s): index-out-of-range panic on hostile data", k, r))
		})
	}
	if nIdx < 12 {
		c.Undecided("index-in-range", "floodgate", fmt.Sprintf("expected ≥12 indexed reads of split parts, found %d", nIdx))
	}

	// (4) framing agreement
	enc := c.MustFunc(pkgFloodgate + ":(*AesCipher).Encrypt")
	dec := c.MustFunc(pkgFloodgate + ":(*AesCipher).Decrypt")
	if enc != nil && dec != nil {
		type facts struct {
			header, b64std, gcm, aesKey bool
			splitter                    int64
			headerCompared              bool // a prefix/equality test against the whole HEADER (not a shorter identifier)
		}
		get := func(fn *ssa.Function) facts {
			f := facts{splitter: -1}
			eachInstrDeep(fn, 2, func(in ssa.Instruction) {
				for _, op := range in.Operands(nil) {
					if g, ok := (*op).(*ssa.Global); ok {
						if g.Name() == "HEADER" {
							f.header = true
						}
						if g.Name() == "StdEncoding" && g.Pkg.Pkg.Path() == "encoding/base64" {
							f.b64std = true
						}
						if g.Pkg.Pkg.Path() == "encoding/base64" && g.Name() != "StdEncoding" {
							f.b64std = false
							f.splitter = -2
						}
					}
				}
				cc := callOf(in)
				if cc == nil {
					return
				}
				switch calleeName(cc) {
				case "bytes.HasPrefix", "bytes.Equal", "strings.HasPrefix":
					if len(cc.Args) == 2 && derivesFrom(cc.Args[1], 4, func(v ssa.Value) bool {
						g, isG := v.(*ssa.Global)
						return isG && g.Name() == "HEADER"
					}) {
						f.headerCompared = true
					}
				case "crypto/cipher.NewGCM":
					f.gcm = true
				case "crypto/aes.NewCipher":
					f.aesKey = strings.HasSuffix(PathOf(cc.Args[0]), ".key")
				case "bytes.IndexByte":
					if k, ok := constInt(cc.Args[1]); ok && f.splitter != -2 {
						f.splitter = k
					}
				case "builtin:append":
					// append(result, SPLITTER): variadic slice with one constant byte
					for _, a := range callArgs(cc)[1:] {
						if k, ok := constInt(a); ok && f.splitter != -2 {
							f.splitter = k
						}
					}
				}
			})
			return f
		}
		fe, fd := get(enc), get(dec)
		c.CheckAt("framing", "header-compared-whole@Decrypt", c.P.Pos(dec.Pos()), fd.headerCompared,
			"Decrypt skips len(HEADER) bytes but does not compare them with HEADER itself (identifier + version byte): AES-GCM is run without associated data, so a header byte that is skipped unchecked can be altered freely — data with a foreign version byte is accepted")
		c.CheckAt("framing", "Encrypt≍Decrypt", c.P.Pos(dec.Pos()), fe.header && fd.header && fe.b64std && fd.b64std && fe.gcm && fd.gcm && fe.aesKey && fd.aesKey && fe.splitter == fd.splitter && fe.splitter >= 0,
			fmt.Sprintf("encoder and decoder must agree on header, splitter byte, base64 alphabet and AES-GCM over the cipher's key; encrypt=%+v decrypt=%+v", fe, fd))
	}

	// (5) field order agreement WriteHostname ↔ ReadBedrockData
	wh := c.MustFunc(pkgFloodgate + ":(*Floodgate).WriteHostname")
	rb := c.MustFunc(pkgFloodgate + ":ReadBedrockData")
	if wh != nil && rb != nil {
		writer := map[string]int64{}
		eachInstr(wh, func(in ssa.Instruction) {
			ia, ok := in.(*ssa.IndexAddr)
			if !ok {
				return
			}
			_, isA := ia.X.(*ssa.Alloc)
			k, isK := constInt(ia.Index)
			if !isA || !isK {
				return
			}
			for _, sv := range storedInto(ia, 0) {
				field := ""
				derivesFrom(sv, 6, func(v ssa.Value) bool {
					if fa, ok := v.(*ssa.FieldAddr); ok && typeIs(fa.X.Type(), "geyser/floodgate", "BedrockData") {
						field = fieldOfAddr(fa).Name()
						return true
					}
					return false
				})
				if field != "" {
					writer[field] = k
				}
			}
		})
		reader := map[string]int64{}
		eachInstr(rb, func(in ssa.Instruction) {
			fa, ok := in.(*ssa.FieldAddr)
			if !ok || !typeIs(fa.X.Type(), "geyser/floodgate", "BedrockData") {
				return
			}
			for _, sv := range storedInto(fa, 0) {
				derivesFrom(sv, 8, func(v ssa.Value) bool {
					if ia, ok := v.(*ssa.IndexAddr); ok {
						if k, isK := constInt(ia.Index); isK {
							if cl := callValue(seeThrough(ia.X)); cl != nil && calleeName(&cl.Call) == "strings.Split" {
								reader[fieldOfAddr(fa).Name()] = k
								return true
							}
						}
					}
					return false
				})
			}
		})
		if len(writer) < 12 || len(reader) < 12 {
			c.Undecided("field-order", "WriteHostname/ReadBedrockData", fmt.Sprintf("could not recover all 12 fields (writer %d, reader %d)", len(writer), len(reader)))
		}
		for f, wi := range writer {
			ri, ok := reader[f]
			c.CheckAt("field-order", f, c.P.Pos(rb.Pos()), ok && ri == wi,
				fmt.Sprintf("field %s is written at position %d but read from position %d", f, wi, ri))
		}
	}
}

func runC40(c *Ctx) {
	ju := c.MustFunc(pkgGeyser + ":javaCompatibleUsername")
	if ju != nil {
		allowed := [][2]int64{{'a', 'z'}, {'A', 'Z'}, {'0', '9'}, {'_', '_'}}
		inAllowed := func(lo, hi int64) bool {
			for _, a := range allowed {
				if lo >= a[0] && hi <= a[1] {
					return true
				}
			}
			return false
		}
		var writes []ssa.CallInstruction
		var builder ssa.Value
		for _, ci := range callsIn(ju, func(nm string, cc *ssa.CallCommon) bool {
			return strings.HasPrefix(nm, "(*strings.Builder).Write")
		}) {
			writes = append(writes, ci)
			builder = ci.Common().Args[0]
		}
		if len(writes) == 0 {
			c.Undecided("alphabet", "javaCompatibleUsername", "no builder writes found")
		}
		for i, w := range writes {
			m := methodName(w.Common())
			arg := w.Common().Args[1]
			if m != "WriteByte" {
				c.Check("alphabet", fmt.Sprintf("write#%d@javaCompatibleUsername", i), w, false, "only single-byte appends are analysable; "+m+" may append arbitrary text")
				continue
			}
			if k, isK := constInt(arg); isK {
				c.Check("alphabet", fmt.Sprintf("write#%d(const)@javaCompatibleUsername", i), w, inAllowed(k, k), fmt.Sprintf("constant byte %q is outside [A-Za-z0-9_]", rune(k)))
				continue
			}
			// the byte chosen by a helper (javaUsernameByte(r)): every return is an allowed constant, or the
			// rune itself behind a predicate helper each of whose true-returns confines it to the alphabet
			if hc, isC := strip(arg).(*ssa.Call); isC {
				if h := moduleHelperWithBody(&hc.Call); h != nil && len(h.Params) == 1 {
					c.Analysed(h)
					okH, why := true, ""
					for _, hr := range successReturns(h) {
						rv := stripNoSubst(hr.Results[0])
						if k, isK := constInt(rv); isK {
							if !inAllowed(k, k) {
								okH, why = false, fmt.Sprintf("%s returns the constant byte %q", h.Name(), rune(k))
							}
							continue
						}
						if rv != ssa.Value(h.Params[0]) {
							okH, why = false, h.Name()+" returns a computed byte"
							continue
						}
						confined := false
						MustCross(hr, func(e Edge, cond ssa.Value, truth bool) bool {
							pc, isPC := stripNoSubst(cond).(*ssa.Call)
							if !isPC || !truth {
								return false
							}
							g := moduleHelperWithBody(&pc.Call)
							if g == nil || len(g.Params) != 1 || len(pc.Call.Args) != 1 || stripNoSubst(pc.Call.Args[0]) != ssa.Value(h.Params[0]) {
								return false
							}
							c.Analysed(g)
							all, n := true, 0
							for _, gr := range successReturns(g) {
								gv := stripNoSubst(gr.Results[0])
								if b, isB := constBool(gv); isB {
									if !b {
										continue
									}
									n++
									r := RangeAt(gr.Block(), isVal(g.Params[0]))
									if !(r.HasLo() && r.HasHi() && inAllowed(r.Lo, r.Hi)) {
										all = false
									}
									continue
								}
								n++
								bo, isBO := gv.(*ssa.BinOp)
								k, isK := int64(0), false
								if isBO && bo.Op == token.EQL && stripNoSubst(bo.X) == ssa.Value(g.Params[0]) {
									k, isK = constInt(bo.Y)
								}
								if !isK || !inAllowed(k, k) {
									all = false
								}
							}
							if all && n > 0 {
								confined = true
							}
							return all && n > 0
						})
						if !confined {
							okH, why = false, h.Name()+" returns the rune itself on a path where no predicate confines it to a-z, A-Z, 0-9 or '_'"
						}
					}
					c.Check("alphabet", fmt.Sprintf("write#%d(rune)@javaCompatibleUsername", i), w, okH,
						"a byte outside the Java alphabet can be appended: "+why)
					continue
				}
			}
			// byte(r): range of r on every incoming edge of the block
			src := strip(arg)
			isR := func(v ssa.Value) bool { return strip(v) == src }
			blk := w.Block()
			ok := len(blk.Preds) > 0
			var seenRanges []string
			for _, p := range blk.Preds {
				r := RangeAt(p, isR)
				for si, s := range p.Succs {
					if s != blk {
						continue
					}
					if _, isIf := lastInstr(p).(*ssa.If); isIf {
						er := RangeOnEdge(Edge{p, si}, isR)
						if er.Lo > r.Lo {
							r.Lo = er.Lo
						}
						if er.Hi < r.Hi {
							r.Hi = er.Hi
						}
					}
				}
				seenRanges = append(seenRanges, r.String())
				if !(r.HasLo() && r.HasHi() && inAllowed(r.Lo, r.Hi)) {
					ok = false
				}
			}
			c.Check("alphabet", fmt.Sprintf("write#%d(rune)@javaCompatibleUsername", i), w, ok,
				fmt.Sprintf("a rune is appended unchanged on an edge where it is not confined to a-z, A-Z, 0-9 or '_' (ranges per incoming edge: %v)", seenRanges))
		}
		// length bound
		isLenCall2 := func(v ssa.Value) bool {
			cl, ok := v.(*ssa.Call)
			return ok && calleeName(&cl.Call) == "(*strings.Builder).Len" && builder != nil && cl.Call.Args[0] == builder
		}
		var checkBlock *ssa.BasicBlock
		for i, w := range writes {
			g, n := MustCross(w, func(e Edge, cond ssa.Value, truth bool) bool {
				bo, ok := cond.(*ssa.BinOp)
				if !ok || !isLenCall2(bo.X) {
					return false
				}
				k, isK := constInt(bo.Y)
				if !isK || k > 16 || k < 1 {
					return false
				}
				hit := false
				switch bo.Op {
				case token.EQL, token.GEQ:
					hit = !truth
				case token.NEQ, token.LSS:
					hit = truth
				}
				if hit {
					checkBlock = e.From
				}
				return hit
			})
			c.Check("length-bound", fmt.Sprintf("write#%d-after-len-test@javaCompatibleUsername", i), w, g && n > 0,
				"an append is not dominated by the 'fewer than 16 bytes so far' edge of a length test against a constant <= 16")
		}
		if checkBlock != nil {
			for i, w1 := range writes {
				for j, w2 := range writes {
					// a path w1 → w2 that avoids the length test?
					r := map[*ssa.BasicBlock]bool{}
					for _, s := range w1.Block().Succs {
						for b := range reachAvoidingBlock(s, checkBlock) {
							r[b] = true
						}
					}
					same := w1.Block() == w2.Block() && instrIndex(w1) < instrIndex(w2)
					c.Check("length-bound", fmt.Sprintf("one-byte-per-test#%d→#%d@javaCompatibleUsername", i, j), w2, !same && !(r[w2.Block()] && w2.Block() != checkBlock),
						"two appends can happen without the length test in between (the name could exceed 16 characters)")
				}
			}
		}
		// returns
		for _, r := range returnsOf(ju) {
			v := r.Results[0]
			if s, isS := constString(v); isS {
				okConst := s == "_"
				g, n := MustCross(r, func(e Edge, cond ssa.Value, truth bool) bool {
					bo, ok := cond.(*ssa.BinOp)
					if !ok || !isLenCall2(bo.X) {
						return false
					}
					k, isK := constInt(bo.Y)
					return isK && k == 0 && (bo.Op == token.EQL) == truth
				})
				c.Check("non-empty", "const-return@javaCompatibleUsername", r, okConst && g && n > 0, "constant result must be \"_\" and only for an empty normalised name")
				continue
			}
			cl := callValue(v)
			okStr := cl != nil && calleeName(&cl.Call) == "(*strings.Builder).String" && cl.Call.Args[0] == builder
			// must not be reachable with Len()==0
			g, n := MustCross(r, func(e Edge, cond ssa.Value, truth bool) bool {
				bo, ok := cond.(*ssa.BinOp)
				if !ok || !isLenCall2(bo.X) {
					return false
				}
				k, isK := constInt(bo.Y)
				if !isK || k != 0 {
					return false
				}
				switch bo.Op {
				case token.EQL:
					return !truth
				case token.NEQ, token.GTR:
					return truth
				}
				return false
			})
			c.Check("non-empty", "builder-return@javaCompatibleUsername", r, okStr && g && n > 0, "the result must be the normalised builder, returned only when it is non-empty (names are 1..16 characters)")
		}
	}
	// (4) profile name flows through the filter
	nProf := 0
	for _, fn := range c.P.Funcs(Mod + "/" + pkgGeyser) {
		if fnPkgPath(fn) != Mod+"/"+pkgGeyser {
			continue
		}
		eachInstr(fn, func(in ssa.Instruction) {
			fa, ok := in.(*ssa.FieldAddr)
			if !ok || fieldOfAddr(fa).Name() != "Name" || !typeIs(fa.X.Type(), "java/profile", "GameProfile") {
				return
			}
			for _, sv := range storedInto(fa, 0) {
				nProf++
				c.Analysed(fn)
				cl := callValue(seeThrough(sv))
				viaFilter := cl != nil && ju != nil && staticCallee(&cl.Call) == ju
				if !viaFilter && cl != nil && ju != nil {
					// a helper every return of which is javaCompatibleUsername(…)
					if h := moduleHelperWithBody(&cl.Call); h != nil {
						c.Analysed(h)
						n, all := 0, true
						for _, hr := range successReturns(h) {
							n++
							rc := callValue(seeThrough(hr.Results[0]))
							if rc == nil || staticCallee(&rc.Call) != ju {
								all = false
							}
						}
						viaFilter = all && n > 0
					}
				}
				c.Check("name-through-filter", "GameProfile.Name@"+shortName(fn), in, viaFilter,
					"a Bedrock player's Java profile name does not come out of javaCompatibleUsername")
			}
		})
	}
	if nProf == 0 {
		c.Undecided("name-through-filter", "geyser", "no GameProfile.Name assignment found")
	}

	// (5) JavaUuid
	if jf := c.MustFunc(pkgFloodgate + ":(*BedrockData).JavaUuid"); jf != nil {
		pure := true
		var hw []ssa.Instruction
		// JavaUuid and the helpers it was split into (xuidDigest(xuid), stampRFC4122(id, 5)), parameters bound
		jfParts, jfRestore := boundParts(jf, 1)
		defer jfRestore()
		eachJF := func(f func(ssa.Instruction)) {
			for _, part := range jfParts {
				c.Analysed(part)
				eachInstr(part, f)
			}
		}
		eachJF(func(in ssa.Instruction) {
			cc := callOf(in)
			if cc == nil {
				return
			}
			n := calleeName(cc)
			if strings.Contains(n, "rand") || strings.HasPrefix(n, "time.") || strings.HasSuffix(n, "uuid.New") {
				pure = false
			}
			if cc.IsInvoke() && cc.Method.Name() == "Write" && strings.HasSuffix(cc.Value.Type().String(), "hash.Hash") {
				hw = append(hw, in)
			}
		})
		c.CheckAt("uuid-deterministic", "JavaUuid", c.P.Pos(jf.Pos()), pure, "the XUID→UUID mapping must not use a clock or random source")
		// what is hashed: the writes in order, each read as its concatenated parts
		for i := 0; i < len(hw); i++ {
			for j := i + 1; j < len(hw); j++ {
				if domBeforeIn(jf, hw[j], hw[i]) {
					hw[i], hw[j] = hw[j], hw[i]
				}
			}
		}
		var hashed []string
		fixed := len(hw) > 0
		for _, w := range hw {
			k, ok := strKinds(callOf(w).Args[0], func(v ssa.Value) string {
				if s, isS := constString(v); isS {
					return fmt.Sprintf("%q", s)
				}
				if derivesFrom(v, 6, func(x ssa.Value) bool { return strings.HasSuffix(PathOf(x), ".Xuid") }) {
					return "xuid"
				}
				return "?"
			}, 3)
			hashed = append(hashed, k...)
			fixed = fixed && ok
		}
		okIn := fixed && strings.Join(hashed, " ") == `"FloodgateXUID:" xuid`
		c.CheckAt("uuid-input", "sha1(\"FloodgateXUID:\"‖xuid)@JavaUuid", c.P.Pos(jf.Pos()), okIn, "the UUID must be derived from the namespace prefix followed by the XUID only")
		var st6, st8 *ssa.Store
		eachJF(func(in ssa.Instruction) {
			st, ok := in.(*ssa.Store)
			if !ok {
				return
			}
			ia, ok := st.Addr.(*ssa.IndexAddr)
			if !ok {
				return
			}
			if k, isK := constInt(ia.Index); isK {
				switch k {
				case 6:
					st6 = st
				case 8:
					st8 = st
				}
			}
		})
		ok6, ok8 := false, false
		if st6 != nil {
			kb := knownBits(st6.Val, 6)
			ok6 = kb.ones&0xf0 == 0x50 && kb.zeros&0xf0 == 0xa0
		}
		if st8 != nil {
			kb := knownBits(st8.Val, 6)
			ok8 = kb.ones&0xc0 == 0x80 && kb.zeros&0xc0 == 0x40
		}
		c.CheckAt("uuid-bits", "version=5,variant=RFC4122@JavaUuid", c.P.Pos(jf.Pos()), ok6 && ok8,
			fmt.Sprintf("byte 6 must be forced to 0101xxxx (ok=%v) and byte 8 to 10xxxxxx (ok=%v)", ok6, ok8))
	}
}

// reachAvoidingBlock: blocks reachable from start without passing through avoid.
func reachAvoidingBlock(start, avoid *ssa.BasicBlock) map[*ssa.BasicBlock]bool {
	seen := map[*ssa.BasicBlock]bool{}
	if start == avoid {
		return seen
	}
	seen[start] = true
	work := []*ssa.BasicBlock{start}
	for len(work) > 0 {
		b := work[len(work)-1]
		work = work[:len(work)-1]
		for _, s := range b.Succs {
			if s == avoid || seen[s] {
				continue
			}
			seen[s] = true
			work = append(work, s)
		}
	}
	return seen
}
