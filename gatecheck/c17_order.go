package main

import (
	"go/token"
	"strings"

	"golang.org/x/tools/go/ssa"
)

// listOrder recognises the two loop idioms over the cursor list and checks that the cursor saved
// before the candidate is returned is the candidate's absolute position:
//
//	for i := p.tryIndex; i < len(list); i++ { e := list[i]; …; p.tryIndex = i }
//	for j, e := range list[p.tryIndex:]      { …; p.tryIndex = p.tryIndex + j }   (offset re-added)
func listOrder(fn *ssa.Function, elem ssa.Value, cand *ssa.Return, isList func(ssa.Value) bool) (bool, string) {
	isCursor := func(v ssa.Value) bool { return strings.HasSuffix(PathOf(v), ".tryIndex") }
	ld, ok := strip(elem).(*ssa.UnOp)
	if !ok {
		return false, "the candidate is not an element of the list"
	}
	ia, ok := ld.X.(*ssa.IndexAddr)
	if !ok {
		return false, "the candidate is not an element of the list"
	}
	var base ssa.Value // slice offset, nil when the whole list is indexed
	switch x := ia.X.(type) {
	case *ssa.Slice:
		if !isList(x.X) {
			return false, "the candidate is not taken from the cursor list"
		}
		if x.Low != nil {
			if k, isK := constInt(x.Low); !(isK && k == 0) {
				base = x.Low
				if !isCursor(base) {
					return false, "the list is re-sliced at something other than the saved cursor"
				}
			}
		}
	default:
		if !isList(ia.X) {
			return false, "the candidate is not taken from the cursor list"
		}
	}
	idx := ia.Index
	// advancing by one from the start value
	start, stepOK := ssa.Value(nil), false
	switch x := idx.(type) {
	case *ssa.Phi: // classic: i = phi(start, i+1)
		for _, e := range x.Edges {
			if bo, ok := e.(*ssa.BinOp); ok && bo.Op == token.ADD && bo.X == ssa.Value(x) {
				if k, isK := constInt(bo.Y); isK && k == 1 {
					stepOK = true
					continue
				}
			}
			start = e
		}
	case *ssa.BinOp: // range: t = phi(-1, i); i = t + 1
		if ph, ok := x.X.(*ssa.Phi); ok && x.Op == token.ADD {
			if k, isK := constInt(x.Y); isK && k == 1 {
				for _, e := range ph.Edges {
					if e == ssa.Value(x) {
						stepOK = true
						continue
					}
					if k0, isK0 := constInt(e); isK0 && k0 == -1 {
						start = zeroMarker{}
					}
				}
			}
		}
	}
	if !stepOK || start == nil {
		return false, "the index does not advance by one per iteration"
	}
	if base == nil {
		if _, isZero := start.(zeroMarker); isZero || !isCursor(start) {
			return false, "iteration does not start at the saved cursor"
		}
	} else if _, isZero := start.(zeroMarker); !isZero {
		if k, isK := constInt(start); !(isK && k == 0) {
			return false, "iteration over the re-sliced list does not start at its first element"
		}
	}
	// the saved cursor: last store to tryIndex that dominates the return
	var saved ssa.Value
	eachInstr(fn, func(in ssa.Instruction) {
		st, ok := in.(*ssa.Store)
		if !ok {
			return
		}
		if fa, isFA := st.Addr.(*ssa.FieldAddr); !isFA || fieldOfAddr(fa).Name() != "tryIndex" {
			return
		}
		if domBefore(st, cand) {
			saved = st.Val
		}
	})
	if saved == nil {
		return false, "the cursor is not saved before the candidate is returned"
	}
	if base == nil {
		if strip(saved) == idx {
			return true, ""
		}
		return false, "the saved cursor is not the candidate's index"
	}
	if bo, ok := strip(saved).(*ssa.BinOp); ok && bo.Op == token.ADD {
		if (bo.X == idx && isCursor(bo.Y)) || (bo.Y == idx && isCursor(bo.X)) {
			return true, ""
		}
	}
	return false, "the list is iterated from the saved cursor (list[tryIndex:]) but the cursor is saved as the position relative to that sub-list, so it moves backwards"
}

// zeroMarker stands for "range loop start" (index 0 of the ranged value).
type zeroMarker struct{ ssa.Value }
