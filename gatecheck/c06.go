package main

import (
	"fmt"
	"go/constant"
	"go/token"
	"go/types"
	"sort"
	"strings"

	"golang.org/x/tools/go/ssa"
)

const pkgGoMC = "github.com/Tnze/go-mc/data/packetid"

// gomc764 is the frozen name mapping between Gate's packet types and go-mc's packet id constants
// (go-mc v1.20.2 describes protocol 764 — the only independent protocol table available offline).
// key: State.Dir/Type ; value: go-mc constant name. One row per shared packet type.
var gomc764 = map[string]string{
	"Login.ClientBound/packet.Disconnect":            "ClientboundLoginDisconnect",
	"Login.ClientBound/packet.EncryptionRequest":     "ClientboundLoginEncryptionRequest",
	"Login.ClientBound/packet.ServerLoginSuccess":    "ClientboundLoginSuccess",
	"Login.ClientBound/packet.SetCompression":        "ClientboundLoginCompression",
	"Login.ClientBound/packet.LoginPluginMessage":    "ClientboundLoginPluginRequest",
	"Login.ServerBound/packet.ServerLogin":           "ServerboundLoginStart",
	"Login.ServerBound/packet.EncryptionResponse":    "ServerboundLoginEncryptionResponse",
	"Login.ServerBound/packet.LoginPluginResponse":   "ServerboundLoginPluginResponse",
	"Login.ServerBound/packet.LoginAcknowledged":     "ServerboundLoginAcknowledged",
	"Status.ClientBound/packet.StatusResponse":       "ClientboundStatusResponse",
	"Status.ClientBound/packet.StatusPing":           "ClientboundStatusPongResponse",
	"Status.ServerBound/packet.StatusRequest":        "ServerboundStatusRequest",
	"Status.ServerBound/packet.StatusPing":           "ServerboundStatusPingRequest",
	"Config.ClientBound/plugin.Message":              "ClientboundConfigCustomPayload",
	"Config.ClientBound/packet.Disconnect":           "ClientboundConfigDisconnect",
	"Config.ClientBound/config.FinishedUpdate":       "ClientboundConfigFinishConfiguration",
	"Config.ClientBound/packet.KeepAlive":            "ClientboundConfigKeepAlive",
	"Config.ClientBound/packet.PingIdentify":         "ClientboundConfigPing",
	"Config.ClientBound/config.RegistrySync":         "ClientboundConfigRegistryData",
	"Config.ClientBound/packet.ResourcePackRequest":  "ClientboundConfigResourcePack",
	"Config.ClientBound/config.ActiveFeatures":       "ClientboundConfigUpdateEnabledFeatures",
	"Config.ClientBound/config.TagsUpdate":           "ClientboundConfigUpdateTags",
	"Config.ServerBound/packet.ClientSettings":       "ServerboundConfigClientInformation",
	"Config.ServerBound/plugin.Message":              "ServerboundConfigCustomPayload",
	"Config.ServerBound/config.FinishedUpdate":       "ServerboundConfigFinishConfiguration",
	"Config.ServerBound/packet.KeepAlive":            "ServerboundConfigKeepAlive",
	"Config.ServerBound/packet.PingIdentify":         "ServerboundConfigPong",
	"Config.ServerBound/packet.ResourcePackResponse": "ServerboundConfigResourcePack",
	"Play.ClientBound/packet.BundleDelimiter":        "BundleDelimiter",
	"Play.ClientBound/bossbar.BossBar":               "ClientboundBossEvent",
	"Play.ClientBound/packet.TabCompleteResponse":    "ClientboundCommandSuggestions",
	"Play.ClientBound/packet.AvailableCommands":      "ClientboundCommands",
	"Play.ClientBound/plugin.Message":                "ClientboundCustomPayload",
	"Play.ClientBound/packet.Disconnect":             "ClientboundDisconnect",
	"Play.ClientBound/packet.KeepAlive":              "ClientboundKeepAlive",
	"Play.ClientBound/packet.JoinGame":               "ClientboundLogin",
	"Play.ClientBound/playerinfo.Remove":             "ClientboundPlayerInfoRemove",
	"Play.ClientBound/playerinfo.Upsert":             "ClientboundPlayerInfoUpdate",
	"Play.ClientBound/packet.ResourcePackRequest":    "ClientboundResourcePack",
	"Play.ClientBound/packet.Respawn":                "ClientboundRespawn",
	"Play.ClientBound/packet.ServerData":             "ClientboundServerData",
	"Play.ClientBound/title.Actionbar":               "ClientboundSetActionBarText",
	"Play.ClientBound/title.Subtitle":                "ClientboundSetSubtitleText",
	"Play.ClientBound/title.Text":                    "ClientboundSetTitleText",
	"Play.ClientBound/title.Times":                   "ClientboundSetTitlesAnimation",
	"Play.ClientBound/title.Clear":                   "ClientboundClearTitles",
	"Play.ClientBound/config.StartUpdate":            "ClientboundStartConfiguration",
	"Play.ClientBound/chat.SystemChat":               "ClientboundSystemChat",
	"Play.ClientBound/packet.HeaderAndFooter":        "ClientboundTabList",
	"Play.ClientBound/packet.PlayerChatCompletion":   "ClientboundCustomChatCompletions",
	"Play.ClientBound/packet.SoundEntityPacket":      "ClientboundSoundEntity",
	"Play.ClientBound/packet.StopSoundPacket":        "ClientboundStopSound",
	"Play.ServerBound/chat.ChatAcknowledgement":      "ServerboundChatAck",
	"Play.ServerBound/chat.SessionPlayerCommand":     "ServerboundChatCommand",
	"Play.ServerBound/chat.SessionPlayerChat":        "ServerboundChat",
	"Play.ServerBound/packet.ClientSettings":         "ServerboundClientInformation",
	"Play.ServerBound/packet.TabCompleteRequest":     "ServerboundCommandSuggestion",
	"Play.ServerBound/config.FinishedUpdate":         "ServerboundConfigurationAcknowledged",
	"Play.ServerBound/plugin.Message":                "ServerboundCustomPayload",
	"Play.ServerBound/packet.KeepAlive":              "ServerboundKeepAlive",
	"Play.ServerBound/packet.ResourcePackResponse":   "ServerboundResourcePack",
}

func init() {
	register(&propDef{
		ID:       "C06",
		Title:    "Packet id tables agree with the reference protocol for every version",
		Patterns: []string{"./pkg/edition/java/proto/state", "./pkg/edition/java/proto/version", pkgGoMC},
		Run:      runC06,
		Rule: "P8: the registration DSL of state/register.go and version.Versions are constant-folded from the AST and go/types; Register's documented range semantics are replayed " +
			"symbolically (independently of Register's code and its run-time panics): for every state × direction × supported protocol the id→type and type→id relations are functions; " +
			"every Register call's mappings are strictly increasing in protocol, a last-valid mapping is last and not below its start, every version used is in version.Versions, and " +
			"version.Versions is strictly increasing; the evaluated id at protocol 764 equals go-mc v1.20.2's packetid constant for every type in a frozen name-mapping table; " +
			"P2: PacketRegistry.ProtocolRegistry returns the MinimumVersion registry when the protocol is absent and Fallback is set, Fallback is cleared exactly for Play.ServerBound and " +
			"Play.ClientBound, and NewPacketRegistry creates a registry for every supported version; Protocol.Supported() consults the version table.",
		Explanation: "Decides (exhaustively over the finite table): uniqueness of ids and types per state/direction/protocol, well-formedness of every mapping list, agreement with the one " +
			"independent table on disk (protocol 764), fallback to the lowest version. Does not decide: agreement with Velocity for the other versions (no reference on disk), nor that " +
			"Register's code implements the documented range semantics.",
		Fixtures: []string{"table"},
		Variants: []Variant{
			{Name: "duplicate-id", File: pkgState + "/register.go",
				Old: "\tConfig.ServerBound.Register(&config.KnownPacks{},\n\t\tm(0x07, version.Minecraft_1_20_5),", New: "\tConfig.ServerBound.Register(&config.KnownPacks{},\n\t\tm(0x06, version.Minecraft_1_20_5),", Expect: "id-unique"},
			{Name: "version-boundary-slip-1-12", File: pkgState + "/register.go",
				Old: "m(0x2E, version.Minecraft_1_12_1)", New: "m(0x2E, version.Minecraft_1_12)", Expect: "reference-ids"},
			{Name: "wrong-id-764", File: pkgState + "/register.go",
				Old: "\tConfig.ServerBound.Register(&p.KeepAlive{},\n\t\tm(0x03, version.Minecraft_1_20_2),", New: "\tConfig.ServerBound.Register(&p.KeepAlive{},\n\t\tm(0x06, version.Minecraft_1_20_2),", Expect: "gomc-764"},
			{Name: "mappings-out-of-order", File: pkgState + "/register.go",
				Old: "\t\tm(0x02, version.Minecraft_1_20_2),\n\t\tm(0x03, version.Minecraft_1_20_5),\n\t)\n\tConfig.ServerBound.Register(&p.KeepAlive{},", New: "\t\tm(0x03, version.Minecraft_1_20_5),\n\t\tm(0x02, version.Minecraft_1_20_2),\n\t)\n\tConfig.ServerBound.Register(&p.KeepAlive{},", Expect: "mappings-increasing"},
			{Name: "fallback-off-for-login", File: pkgState + "/register.go",
				Old: "\tPlay.ServerBound.Fallback = false\n", New: "\tPlay.ServerBound.Fallback = false\n\tLogin.ServerBound.Fallback = false\n", Expect: "fallback-set"},
			{Name: "fallback-to-max", File: pkgState + "/registry.go",
				Old: "return p.ProtocolRegistry(version.MinimumVersion.Protocol)", New: "return p.ProtocolRegistry(version.MaximumVersion.Protocol)", Expect: "fallback-lowest"},
			{Name: "version-table-unordered", File: pkgVersion + "/version.go",
				Old: "\t\tMinecraft_1_9, Minecraft_1_9_1, Minecraft_1_9_4,", New: "\t\tMinecraft_1_9_1, Minecraft_1_9, Minecraft_1_9_4,", Expect: "versions-increasing"},
		},
	})
}

func runC06(c *Ctx) {
	vt, err := evalVersionTable(c.P)
	if err != nil {
		c.Undecided("table", "version.Versions", err.Error())
		return
	}
	// version table strictly increasing (after the two markers)
	okInc := true
	prev := int64(-1 << 62)
	for _, n := range vt.Ordered {
		p := vt.ByName[n]
		if p < 0 {
			continue
		}
		if p <= prev {
			okInc = false
		}
		prev = p
	}
	c.CheckAt("versions-increasing", "version.Versions", "pkg/edition/java/proto/version/version.go", okInc && len(vt.Supported) >= 40,
		fmt.Sprintf("version.Versions must list the supported protocols in strictly increasing order (%d supported)", len(vt.Supported)))
	c.Info["supported_protocols"] = len(vt.Supported)
	max := vt.Supported[len(vt.Supported)-1]

	regs, problems, err := evalRegistrations(c.P, vt)
	if err != nil {
		c.Undecided("table", "state/register.go", err.Error())
		return
	}
	for _, p := range problems {
		c.Undecided("table", "dsl", p)
	}
	c.Info["registrations"] = len(regs)
	checkGoldenIDs(c, regs, vt)
	if len(regs) < 85 {
		c.Undecided("table", "registrations", fmt.Sprintf("expected ≥85 Register calls, evaluated %d", len(regs)))
	}
	// (2) per-call well-formedness
	for _, r := range regs {
		key := fmt.Sprintf("%s.%s/%s", r.State, r.Dir, r.Type)
		ok := len(r.Mappings) > 0
		why := ""
		for i, m := range r.Mappings {
			if i > 0 && m.FromProto <= r.Mappings[i-1].FromProto {
				ok, why = false, fmt.Sprintf("mapping %d (version %s) is not above mapping %d (version %s)", i, m.From, i-1, r.Mappings[i-1].From)
			}
			if m.Last != "" && i != len(r.Mappings)-1 {
				ok, why = false, "a last-valid mapping is followed by another mapping"
			}
			if m.Last != "" && m.LastProto < m.FromProto {
				ok, why = false, "last-valid version is below the mapping's start version"
			}
			if m.FromProto < 0 {
				ok, why = false, "mapping starts at a non-supported version marker"
			}
		}
		c.CheckAt("mappings-increasing", key, c.P.Pos(r.Pos), ok, "Register mappings must be strictly increasing in protocol with an optional last-valid bound on the last one: "+why)
	}
	// (1) uniqueness, exhaustively
	type cell struct{ state, dir string }
	byCell := map[cell][]*Registration{}
	for i := range regs {
		r := &regs[i]
		byCell[cell{r.State, r.Dir}] = append(byCell[cell{r.State, r.Dir}], r)
	}
	var cells []cell
	for k := range byCell {
		cells = append(cells, k)
	}
	sort.Slice(cells, func(i, j int) bool { return cells[i].state+cells[i].dir < cells[j].state+cells[j].dir })
	pairs := 0
	for _, ce := range cells {
		conflicts := []string{}
		for _, p := range vt.Supported {
			ids := map[int64]string{}
			typs := map[string]bool{}
			for _, r := range byCell[ce] {
				id, ok := r.idAt(p, max)
				if !ok {
					continue
				}
				pairs++
				if other, dup := ids[id]; dup && other != r.Type {
					conflicts = append(conflicts, fmt.Sprintf("protocol %d: id %#x is both %s and %s", p, id, other, r.Type))
				} else if dup {
					conflicts = append(conflicts, fmt.Sprintf("protocol %d: %s registered twice with id %#x", p, r.Type, id))
				}
				ids[id] = r.Type
				if typs[r.Type] {
					conflicts = append(conflicts, fmt.Sprintf("protocol %d: type %s has two ids", p, r.Type))
				}
				typs[r.Type] = true
			}
		}
		d := ""
		if len(conflicts) > 0 {
			d = strings.Join(conflicts[:min(len(conflicts), 4)], "; ")
		}
		c.CheckAt("id-unique", ce.state+"."+ce.dir, "pkg/edition/java/proto/state/register.go", len(conflicts) == 0,
			"each packet id must map to one type and each type to one id in every protocol: "+d)
	}
	c.Info["evaluated_type_protocol_pairs"] = pairs
	c.Info["exhaustive"] = true

	// (4) independent ids for 764
	gm := c.P.Pkg("!" + pkgGoMC)
	if gm == nil || gm.Types == nil {
		c.Undecided("gomc-764", "go-mc packetid", "package "+pkgGoMC+" not loadable from the module cache")
	} else {
		const p764 = 764
		byKey := map[string]*Registration{}
		for i := range regs {
			r := &regs[i]
			byKey[fmt.Sprintf("%s.%s/%s", r.State, r.Dir, r.Type)] = r
		}
		var keys []string
		for k := range gomc764 {
			keys = append(keys, k)
		}
		sort.Strings(keys)
		compared := 0
		for _, k := range keys {
			r := byKey[k]
			if r == nil {
				c.CheckAt("gomc-764", k, "?", false, "frozen mapping row refers to a packet type that is no longer registered in that state/direction")
				continue
			}
			id, ok := r.idAt(p764, max)
			if !ok {
				c.Note("not registered at 764: %s", k)
				continue
			}
			obj, _ := gm.Types.Scope().Lookup(gomc764[k]).(*types.Const)
			if obj == nil {
				c.Undecided("gomc-764", k, "go-mc constant "+gomc764[k]+" not found")
				continue
			}
			want, _ := constant.Int64Val(obj.Val())
			compared++
			c.CheckAt("gomc-764", k, c.P.Pos(r.Pos), id == want,
				fmt.Sprintf("at protocol 764 Gate maps %s to id %#x but the independent table (go-mc %s) says %#x", k, id, gomc764[k], want))
		}
		c.Info["gomc_rows_compared"] = compared
		if compared < 50 {
			c.Undecided("gomc-764", "rows", fmt.Sprintf("only %d rows could be compared", compared))
		}
	}

	// (3) fallback
	if pr := c.MustFunc(pkgState + ":(*PacketRegistry).ProtocolRegistry"); pr != nil {
		ok := false
		for _, ci := range callsIn(pr, func(nm string, cc *ssa.CallCommon) bool { return staticCallee(cc) == pr }) {
			arg := ci.Common().Args[1]
			argOK := strings.HasSuffix(PathOf(arg), "MinimumVersion.Protocol")
			g1, n1 := MustCross(ci, func(e Edge, cond ssa.Value, truth bool) bool {
				v, isNil, isCmp := nilCmp(cond, truth)
				_, isLk := strip(v).(*ssa.Lookup)
				return isCmp && isNil && isLk
			})
			g2, n2 := MustCross(ci, func(e Edge, cond ssa.Value, truth bool) bool {
				return truth && strings.HasSuffix(PathOf(cond), ".Fallback")
			})
			ok = argOK && g1 && g2 && n1 > 0 && n2 > 0
		}
		c.CheckAt("fallback-lowest", "ProtocolRegistry", c.P.Pos(pr.Pos()), ok, "an unknown protocol must fall back to the MinimumVersion registry (only when the lookup missed and Fallback is set)")
	}
	// Fallback stores
	cleared := map[string]bool{}
	for _, fn := range c.P.Funcs(Mod + "/" + pkgState) {
		eachInstr(fn, func(in ssa.Instruction) {
			st, ok := in.(*ssa.Store)
			if !ok || !strings.HasSuffix(PathOf(st.Addr), ".Fallback") {
				return
			}
			v, isK := constBool(st.Val)
			if !isK {
				c.Check("fallback-set", "non-constant@"+shortName(fn), in, false, "Fallback set to a non-constant")
				return
			}
			if !v {
				cleared[strings.TrimSuffix(PathOf(st.Addr), ".Fallback")] = true
			}
		})
	}
	var cl []string
	for k := range cleared {
		cl = append(cl, k)
	}
	sort.Strings(cl)
	wantCl := "[" + Mod + "/" + pkgState + ".Play.ClientBound " + Mod + "/" + pkgState + ".Play.ServerBound]"
	c.CheckAt("fallback-set", "cleared-only-for-Play", "pkg/edition/java/proto/state/register.go", fmt.Sprint(cl) == wantCl,
		fmt.Sprintf("Fallback must be on for every registry except Play (whose packets differ per version); cleared for %v", cl))
	if np := c.MustFunc(pkgState + ":NewPacketRegistry"); np != nil {
		// default true
		def := false
		eachInstr(np, func(in ssa.Instruction) {
			if st, ok := in.(*ssa.Store); ok {
				if fa, ok := st.Addr.(*ssa.FieldAddr); ok && fieldOfAddr(fa).Name() == "Fallback" {
					if v, isK := constBool(st.Val); isK && v {
						def = true
					}
				}
			}
		})
		c.CheckAt("fallback-set", "default-true@NewPacketRegistry", c.P.Pos(np.Pos()), def, "registries must fall back by default")
	}

	// (5) Supported consults the table
	if sup := c.MustFunc(pkgVersion + ":(Protocol).Supported"); sup != nil {
		tbl := readsGlobal(sup, 3, map[string]bool{"ProtocolToVersion": true, "Versions": true, "SupportedVersions": true}, map[*ssa.Function]bool{})
		c.CheckAt("supported-table", "Protocol.Supported", c.P.Pos(sup.Pos()), tbl, "Protocol.Supported() does not consult the version table: unknown protocols are treated as known")
	}
	_ = token.NoPos
}
