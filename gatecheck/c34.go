package main

import (
	"fmt"
	"go/constant"
	"go/token"
	"strings"

	"golang.org/x/tools/go/ssa"
)

const (
	pkgQuota = "pkg/internal/addrquota"
	pkgPL    = "pkg/internal/packetlimiter"
)

func init() {
	register(&propDef{
		ID:       "C34",
		Title:    "Rate limiters enforce exactly their configured windows and buckets",
		Patterns: []string{"./pkg/internal/addrquota", "./pkg/internal/packetlimiter"},
		Run:      runC34,
		Rule: "bucketing (P2/P5): ipKey masks the To4 form with CIDRMask(24,32) on the To4!=nil edge and the 16-byte form with CIDRMask(64,128) otherwise, and an unparsable address gets " +
			"no bucket; quota (P5/P4): the per-bucket limiter is rate.NewLimiter(Limit(q.eps), q.burst) with NewQuota storing its parameters into those fields, looked up and inserted " +
			"under q.mu with the same ipKey(ip) key, and Blocked is the negation of Allow() on that limiter; window counter (pairing/conservation): expire cuts at now−interval with a " +
			"strict '<' and subtracts exactly counts[head] from total for every slot it frees, add writes the same count into counts[tail] and total and advances tail modulo the buffer " +
			"length after growing when the buffer is full, updateAndAdd expires before it adds, rate is total/(interval·1e−9); limiter (sibling pairing): each dimension adds its own " +
			"quantity (1 / the byte size) at one shared timestamp, compares its own counter's rate with its own configured per-second limit by a strict '>', under l.mu, and a dimension " +
			"exists exactly when its limit is positive.",
		Explanation: "Decides: the /24 and /64 grouping incl. IPv4-mapped addresses, which configured numbers drive which limiter, the boundary conventions (strictly older entries expire, " +
			"strictly greater rate closes), conservation of the running sum, agreement between the packet and byte dimensions. Does not decide: equality with a naive sliding-window count " +
			"for all timestamp sequences (index arithmetic of the ring buffer and its resize are value-level), nor x/time/rate's token arithmetic.",
		Fixtures: []string{"guardcut", "provenance"},
		Variants: []Variant{
			{Name: "ipv6-bucket-128", File: pkgQuota + "/quota.go",
				Old: "\treturn ip.Mask(net.CIDRMask(64, 128)).String()", New: "\treturn ip.Mask(net.CIDRMask(128, 128)).String()", Expect: "bucket"},
			{Name: "ipv4-bucket-on-16-byte-form", File: pkgQuota + "/quota.go",
				Old: "\tif v4 := ip.To4(); v4 != nil {\n\t\treturn v4.Mask(net.CIDRMask(24, 32)).String()\n\t}", New: "\tif len(ip) == net.IPv4len {\n\t\treturn ip.Mask(net.CIDRMask(24, 32)).String()\n\t}", Expect: "bucket"},
			{Name: "burst-and-rate-swapped", File: pkgQuota + "/quota.go",
				Old: "\t\teps:   eventsPerSecond,\n\t\tburst: burst,", New: "\t\teps:   float32(burst),\n\t\tburst: int(eventsPerSecond),", Expect: "quota-params"},
			{Name: "expire-inclusive-boundary", File: pkgPL + "/counter.go",
				Old: "c.times[c.head]-minTime < 0 {", New: "c.times[c.head]-minTime <= 0 {", Expect: "window-boundary"},
			{Name: "total-not-reduced-on-expire", File: pkgPL + "/counter.go",
				Old: "\t\tc.total -= c.counts[c.head]\n", New: "", Expect: "sum-conserved"},
			{Name: "limit-reached-closes", File: pkgPL + "/limiter.go",
				Old: "\t\tif l.packets.rate() > float64(l.packetsPerSecond) {", New: "\t\tif l.packets.rate() >= float64(l.packetsPerSecond) {", Expect: "exceeds"},
			{Name: "bytes-compared-with-packet-limit", File: pkgPL + "/limiter.go",
				Old: "\t\tif l.bytes.rate() > float64(l.bytesPerSecond) {", New: "\t\tif l.bytes.rate() > float64(l.packetsPerSecond) {", Expect: "exceeds"},
			{Name: "bytes-counted-as-packets", File: pkgPL + "/limiter.go",
				Old: "\t\tl.bytes.updateAndAdd(int64(bytes), now)", New: "\t\tl.bytes.updateAndAdd(1, now)", Expect: "quantity"},
			{Name: "rate-per-window-not-per-second", File: pkgPL + "/counter.go",
				Old: "\treturn float64(c.total) / (float64(c.interval) * 1e-9)", New: "\treturn float64(c.total)", Expect: "rate-formula"},
		},
	})
}

func fieldPath(v ssa.Value, name string) bool { return strings.HasSuffix(PathOf(v), "."+name) }

func runC34(c *Ctx) {
	// ---------------- addrquota
	if ik := c.MustFunc(pkgQuota + ":ipKey"); ik != nil {
		c.Analysed(ik)
		var to4 *ssa.Call
		var parse *ssa.Call
		for _, ci := range callsIn(ik, func(nm string, cc *ssa.CallCommon) bool { return nm == "(net.IP).To4" || nm == "net.ParseIP" }) {
			if calleeName(ci.Common()) == "net.ParseIP" {
				parse, _ = ci.(*ssa.Call)
			} else {
				to4, _ = ci.(*ssa.Call)
			}
		}
		nMask := 0
		for _, ci := range callsIn(ik, func(nm string, cc *ssa.CallCommon) bool { return nm == "(net.IP).Mask" }) {
			nMask++
			recv := strip(ci.Common().Args[0])
			cm := callValue(ci.Common().Args[1])
			ones, bits := int64(-1), int64(-1)
			if cm != nil && calleeName(&cm.Call) == "net.CIDRMask" {
				ones, _ = constInt(cm.Call.Args[0])
				bits, _ = constInt(cm.Call.Args[1])
			}
			v4Edge := func(want bool) EdgePred {
				return func(e Edge, cond ssa.Value, truth bool) bool {
					v, isNil, ok := nilCmp(cond, truth)
					return ok && to4 != nil && strip(v) == ssa.Value(to4) && isNil == !want
				}
			}
			switch {
			case to4 != nil && recv == ssa.Value(to4):
				g, ns := MustCross(ci, v4Edge(true))
				c.Check("bucket", "IPv4→/24@ipKey", ci, ones == 24 && bits == 32 && g && ns > 0,
					fmt.Sprintf("IPv4 addresses (incl. IPv4-mapped IPv6, i.e. the To4 form) must be grouped by /24: mask is /%d of %d bits", ones, bits))
			case parse != nil && recv == ssa.Value(parse):
				g, ns := MustCross(ci, v4Edge(false))
				c.Check("bucket", "IPv6→/64@ipKey", ci, ones == 64 && bits == 128 && g && ns > 0,
					fmt.Sprintf("IPv6 addresses must be grouped by /64 and only when the address has no IPv4 form: mask is /%d of %d bits, behind-To4-nil=%v", ones, bits, g && ns > 0))
			default:
				c.Check("bucket", "Mask(?)@ipKey", ci, false, "a prefix mask is applied to something that is neither the parsed address nor its To4 form")
			}
		}
		if nMask != 2 || to4 == nil {
			c.Undecided("bucket", "ipKey", fmt.Sprintf("expected To4 and two prefix masks, found To4=%v masks=%d", to4 != nil, nMask))
		}
		// unparsable → ""
		okEmpty := false
		for _, r := range returnsOf(ik) {
			if s, isS := constString(retVal(r, 0)); isS && s == "" {
				g, ns := MustCross(r, func(e Edge, cond ssa.Value, truth bool) bool {
					v, isNil, ok := nilCmp(cond, truth)
					return ok && isNil && parse != nil && strip(v) == ssa.Value(parse)
				})
				okEmpty = g && ns > 0
			}
		}
		c.CheckAt("bucket", "unparsable→no-bucket@ipKey", c.P.Pos(ik.Pos()), okEmpty, "an address that does not parse must yield the empty key (no bucket)")
	}
	scopeQ := c.P.Funcs(Mod + "/" + pkgQuota)
	lcQ := NewLockCtx(c.P, scopeQ)
	if bl := c.MustFunc(pkgQuota + ":(*Quota).Blocked"); bl != nil {
		c.Analysed(bl)
		var newLim []ssa.CallInstruction
		for _, part := range deepFuncs(bl, 1) {
			newLim = append(newLim, callsIn(part, func(nm string, cc *ssa.CallCommon) bool { return strings.HasSuffix(nm, "x/time/rate.NewLimiter") })...)
		}
		for _, ci := range newLim {
			a0, a1 := ci.Common().Args[0], ci.Common().Args[1]
			c.Check("quota-params", "NewLimiter(Limit(eps), burst)@Blocked", ci, fieldPath(strip(a0), "eps") && fieldPath(strip(a1), "burst"),
				"a bucket's limiter must refill at the configured events per second and allow the configured burst (derived: "+PathOf(strip(a0))+", "+PathOf(strip(a1))+")")
		}
		var keys []ssa.Value
		for _, part := range deepFuncs(bl, 1) {
			part := part
			scan := func() {
				for _, ci := range callsIn(part, func(nm string, cc *ssa.CallCommon) bool {
					return strings.HasSuffix(nm, "lru.Cache).Get") || strings.HasSuffix(nm, "lru.Cache).Add")
				}) {
					keys = append(keys, strip(ci.Common().Args[1]))
					held := lcQ.At(ci)
					ok := false
					for p := range held {
						if strings.HasSuffix(p, ".mu") {
							ok = true
						}
					}
					c.Check("quota-params", methodName(ci.Common())+"-under-mu@Blocked", ci, ok, "the bucket cache is not goroutine-safe and must be accessed under q.mu")
				}
			}
			if part == bl {
				scan()
			} else if !withCalleeBound(part, scan) {
				scan()
			}
		}
		same := len(keys) == 2 && keys[0] == keys[1]
		if same {
			cl := callValue(keys[0])
			same = cl != nil && strings.HasSuffix(calleeName(&cl.Call), "addrquota.ipKey") && strip(cl.Call.Args[0]) == ssa.Value(bl.Params[1])
		}
		c.CheckAt("quota-params", "Get/Add(ipKey(ip))@Blocked", c.P.Pos(bl.Pos()), same, "lookup and insertion must use the same bucket key ipKey(ip)")
		okNeg := false
		eachInstr(bl, func(in ssa.Instruction) {
			if u, ok := in.(*ssa.UnOp); ok && u.Op == token.NOT {
				if cl := callValue(u.X); cl != nil && strings.HasSuffix(calleeName(&cl.Call), "rate.Limiter).Allow") {
					okNeg = true
				}
			}
		})
		c.CheckAt("quota-params", "blocked=!Allow()@Blocked", c.P.Pos(bl.Pos()), okNeg, "an address is blocked exactly when its bucket's limiter does not allow the event")
	}
	if nq := c.MustFunc(pkgQuota + ":NewQuota"); nq != nil {
		c.Analysed(nq)
		want := map[string]int{"eps": 0, "burst": 1}
		got := map[string]bool{}
		eachInstr(nq, func(in ssa.Instruction) {
			st, ok := in.(*ssa.Store)
			if !ok {
				return
			}
			fa, isFA := st.Addr.(*ssa.FieldAddr)
			if !isFA {
				return
			}
			if i, w := want[fieldOfAddr(fa).Name()]; w {
				got[fieldOfAddr(fa).Name()] = st.Val == ssa.Value(nq.Params[i])
			}
		})
		c.CheckAt("quota-params", "eps,burst←parameters@NewQuota", c.P.Pos(nq.Pos()), got["eps"] && got["burst"], "NewQuota must store events-per-second and burst unchanged in their own fields")
	}

	// ---------------- packet limiter: counter
	exp := c.MustFunc(pkgPL + ":(*counter).expire")
	add := c.MustFunc(pkgPL + ":(*counter).add")
	rt := c.MustFunc(pkgPL + ":(*counter).rate")
	ua := c.MustFunc(pkgPL + ":(*counter).updateAndAdd")
	if exp != nil {
		c.Analysed(exp)
		// cut = now - interval
		var cut ssa.Value
		eachInstr(exp, func(in ssa.Instruction) {
			if bo, ok := in.(*ssa.BinOp); ok && bo.Op == token.SUB && bo.X == ssa.Value(exp.Params[1]) && fieldPath(bo.Y, "interval") {
				cut = bo
			}
		})
		c.CheckAt("window-boundary", "cut=now-interval@expire", c.P.Pos(exp.Pos()), cut != nil, "the window must start at now − interval")
		// the expiry test: a slot is dropped only behind times[head] - cut < 0 (strict), whichever way
		// the loop spells it (loop condition, or `if … >= 0 { break }`)
		var drop ssa.Instruction
		eachInstr(exp, func(in ssa.Instruction) {
			if st, ok := in.(*ssa.Store); ok && fieldPath(st.Addr, "total") {
				drop = in
			}
		})
		if drop == nil {
			c.Undecided("window-boundary", "expire", "no store to the running sum found")
		} else {
			found := ""
			g, ns := MustCross(drop, func(e Edge, cond ssa.Value, truth bool) bool {
				bo, ok := cond.(*ssa.BinOp)
				if !ok {
					return false
				}
				d, isD := bo.X.(*ssa.BinOp)
				if !isD || d.Op != token.SUB || cut == nil || d.Y != cut || !strings.Contains(PathOf(d.X), ".times[") {
					return false
				}
				k, isK := constInt(bo.Y)
				if !isK || k != 0 {
					return false
				}
				op := bo.Op
				if !truth {
					op = map[token.Token]token.Token{token.LSS: token.GEQ, token.GEQ: token.LSS, token.LEQ: token.GTR, token.GTR: token.LEQ, token.EQL: token.NEQ, token.NEQ: token.EQL}[op]
				}
				found += " " + op.String()
				return op == token.LSS
			})
			c.Check("window-boundary", "times[head]-cut<0@expire", drop, g && ns > 0,
				"an entry expires only when it is strictly older than now − interval (an entry exactly interval old is still in the trailing window); comparisons found on the way to the drop:"+found)
		}
		// conservation on expire: total -= counts[head] in the loop body, and the slot is zeroed
		sub, zero, adv := false, false, false
		eachInstr(exp, func(in ssa.Instruction) {
			st, ok := in.(*ssa.Store)
			if !ok {
				return
			}
			switch {
			case fieldPath(st.Addr, "total"):
				if bo, isB := st.Val.(*ssa.BinOp); isB && bo.Op == token.SUB && fieldPath(bo.X, "total") && strings.Contains(PathOf(bo.Y), ".counts[") {
					sub = true
				}
			case strings.Contains(PathOf(st.Addr), ".counts["):
				if k, isK := constInt(st.Val); isK && k == 0 {
					zero = true
				}
			case fieldPath(st.Addr, "head"):
				if ringNext(st.Val, func(x ssa.Value) bool { return fieldPath(x, "head") }, 4) {
					adv = true
				}
			}
		})
		c.CheckAt("sum-conserved", "total-=counts[head];counts[head]=0;head++@expire", c.P.Pos(exp.Pos()), sub && zero && adv,
			fmt.Sprintf("every slot freed by expire must leave the running sum (subtracts=%v zeroes-slot=%v advances-head=%v)", sub, zero, adv))
	}
	if add != nil {
		c.Analysed(add)
		cnt := add.Params[2]
		var toCounts, toTotal, timeNow, tailMod bool
		eachInstr(add, func(in ssa.Instruction) {
			st, ok := in.(*ssa.Store)
			if !ok {
				return
			}
			switch {
			case strings.Contains(PathOf(st.Addr), ".counts["):
				if bo, isB := st.Val.(*ssa.BinOp); isB && bo.Op == token.ADD && bo.Y == ssa.Value(cnt) && strings.Contains(PathOf(bo.X), ".counts[") {
					toCounts = true
				}
				if st.Val == ssa.Value(cnt) {
					toCounts = true
				}
			case fieldPath(st.Addr, "total"):
				if bo, isB := st.Val.(*ssa.BinOp); isB && bo.Op == token.ADD && bo.Y == ssa.Value(cnt) && fieldPath(bo.X, "total") {
					toTotal = true
				}
			case strings.Contains(PathOf(st.Addr), ".times["):
				timeNow = st.Val == ssa.Value(add.Params[1])
			case fieldPath(st.Addr, "tail"):
				tailMod = ringNext(st.Val, func(x ssa.Value) bool { return fieldPath(x, "tail") }, 4)
			}
		})
		c.CheckAt("sum-conserved", "counts[tail]+=n;total+=n@add", c.P.Pos(add.Pos()), toCounts && toTotal,
			fmt.Sprintf("what is added to the running sum must be recorded in the slot that expire will subtract later (slot=%v sum=%v)", toCounts, toTotal))
		c.CheckAt("sum-conserved", "times[tail]=now;tail=(tail+1)%%len@add", c.P.Pos(add.Pos()), timeNow && tailMod, "the slot must carry the event's time and the tail must advance modulo the buffer length")
		// grow when full, before writing
		okGrow := false
		for _, ci := range callsIn(add, func(nm string, cc *ssa.CallCommon) bool { return strings.HasSuffix(nm, "counter).resize") }) {
			g, ns := MustCross(ci, func(e Edge, cond ssa.Value, truth bool) bool {
				bo, ok := cond.(*ssa.BinOp)
				return ok && bo.Op == token.EQL && truth && fieldPath(bo.Y, "head")
			})
			okGrow = g && ns > 0
		}
		c.CheckAt("sum-conserved", "resize-when-full@add", c.P.Pos(add.Pos()), okGrow, "the buffer must grow when the next tail would meet the head (otherwise live entries are overwritten)")
	}
	if rt != nil {
		c.Analysed(rt)
		ok := false
		for _, r := range returnsOf(rt) {
			if div, isB := strip(retVal(r, 0)).(*ssa.BinOp); isB && div.Op == token.QUO && fieldPath(strip(div.X), "total") {
				if mul, isM := div.Y.(*ssa.BinOp); isM && mul.Op == token.MUL && fieldPath(strip(mul.X), "interval") {
					if k, isK := mul.Y.(*ssa.Const); isK && k.Value != nil {
						if f, _ := constant.Float64Val(constant.ToFloat(k.Value)); f > 0.99e-9 && f < 1.01e-9 {
							ok = true
						}
					}
				}
			}
		}
		c.CheckAt("rate-formula", "total/(interval·1e-9)@rate", c.P.Pos(rt.Pos()), ok, "the rate must be the window's sum divided by the window length in seconds (so that rate > limit ⇔ sum > limit·window)")
	}
	if ua != nil {
		c.Analysed(ua)
		var e, a ssa.CallInstruction
		for _, ci := range callsIn(ua, func(nm string, cc *ssa.CallCommon) bool { return strings.HasSuffix(nm, "counter).expire") || strings.HasSuffix(nm, "counter).add") }) {
			if strings.HasSuffix(calleeName(ci.Common()), ").expire") {
				e = ci
			} else {
				a = ci
			}
		}
		ok := e != nil && a != nil && domBefore(e, a) && e.Common().Args[1] == ssa.Value(ua.Params[2]) && a.Common().Args[1] == ssa.Value(ua.Params[2]) && a.Common().Args[2] == ssa.Value(ua.Params[1])
		c.CheckAt("sum-conserved", "expire(now);add(now,count)@updateAndAdd", c.P.Pos(ua.Pos()), ok, "old entries must be expired (relative to the same now) before the new one is added")
	}

	// ---------------- packet limiter: limiter
	scopeP := c.P.Funcs(Mod + "/" + pkgPL)
	lcP := NewLockCtx(c.P, scopeP)
	if ac := c.MustFunc(pkgPL + ":(*Limiter).Account"); ac != nil {
		c.Analysed(ac)
		dims := map[string]string{"packets": "packetsPerSecond", "bytes": "bytesPerSecond"}
		var nows []ssa.Value
		seen := map[string]bool{}
		for _, ci := range callsIn(ac, func(nm string, cc *ssa.CallCommon) bool { return strings.HasSuffix(nm, "counter).updateAndAdd") }) {
			recv := PathOf(ci.Common().Args[0])
			dim := recv[strings.LastIndex(recv, ".")+1:]
			seen["add:"+dim] = true
			q := strip(ci.Common().Args[1])
			okQ := false
			switch dim {
			case "packets":
				k, isK := constInt(q)
				okQ = isK && k == 1
			case "bytes":
				okQ = q == ssa.Value(ac.Params[1])
			}
			c.Check("quantity", dim+".updateAndAdd@Account", ci, okQ, "the "+dim+" dimension must count "+map[string]string{"packets": "one per packet", "bytes": "the packet's size"}[dim])
			nows = append(nows, ci.Common().Args[2])
			held := lcP.At(ci)
			locked := false
			for p := range held {
				if strings.HasSuffix(p, ".mu") {
					locked = true
				}
			}
			c.Check("quantity", dim+"-under-mu@Account", ci, locked, "counters are not goroutine-safe and must be updated under l.mu")
		}
		sameNow := len(nows) == 2 && nows[0] == nows[1]
		if sameNow {
			cl := callValue(nows[0])
			sameNow = cl != nil && calleeName(&cl.Call) == "(time.Time).UnixNano"
		}
		c.CheckAt("quantity", "one-timestamp@Account", c.P.Pos(ac.Pos()), sameNow, "both dimensions must be evaluated at the same current time")
		for _, e := range IfEdges(ac) {
			cond, truth := e.Cond()
			bo, ok := cond.(*ssa.BinOp)
			if !ok || !truth {
				continue
			}
			cl := callValue(bo.X)
			if cl == nil || !strings.HasSuffix(calleeName(&cl.Call), "counter).rate") {
				continue
			}
			recv := PathOf(cl.Call.Args[0])
			dim := recv[strings.LastIndex(recv, ".")+1:]
			seen["cmp:"+dim] = true
			lim := PathOf(strip(bo.Y))
			// the true edge returns false
			closes := false
			if r, isR := lastInstr(e.To()).(*ssa.Return); isR {
				if b, isB := constBool(retVal(r, 0)); isB && !b {
					closes = true
				}
			}
			c.Check("exceeds", dim+".rate()>limit@Account", lastInstr(e.From), bo.Op == token.GTR && strings.HasSuffix(lim, "."+dims[dim]) && closes,
				fmt.Sprintf("the connection is closed exactly when the %s rate exceeds (strictly) its own configured limit %s; found %s %s", dim, dims[dim], bo.Op, lim))
		}
		for _, k := range []string{"add:packets", "add:bytes", "cmp:packets", "cmp:bytes"} {
			if !seen[k] {
				c.Undecided("exceeds", "Account", "missing "+k)
			}
		}
	}
	if nw := c.MustFunc(pkgPL + ":New"); nw != nil {
		c.Analysed(nw)
		for i, dim := range []string{"packets", "bytes"} {
			ok := false
			eachInstr(nw, func(in ssa.Instruction) {
				st, isSt := in.(*ssa.Store)
				if !isSt || !fieldPath(st.Addr, dim) {
					return
				}
				cl := callValue(st.Val)
				if cl == nil || !strings.HasSuffix(calleeName(&cl.Call), "packetlimiter.newCounter") || cl.Call.Args[0] != ssa.Value(nw.Params[2]) {
					return
				}
				g, ns := MustCross(st, func(e Edge, cond ssa.Value, truth bool) bool {
					bo, isB := cond.(*ssa.BinOp)
					if !isB || bo.X != ssa.Value(nw.Params[i]) {
						return false
					}
					k, isK := constInt(bo.Y)
					return isK && k == 0 && ((bo.Op == token.GTR && truth) || (bo.Op == token.LEQ && !truth))
				})
				ok = g && ns > 0
			})
			c.CheckAt("exceeds", dim+"-counter-iff-limit>0@New", c.P.Pos(nw.Pos()), ok, "the "+dim+" dimension must be tracked over the configured window exactly when its limit is positive")
		}
	}
}
