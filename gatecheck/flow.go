package main

import (
	"go/token"

	"golang.org/x/tools/go/ssa"
)

// MustSince is a forward must-analysis of one boolean fact: "on every path to this point a gen
// instruction has executed after the last kill instruction". (P10-style pairing / ordering.)
type MustSince struct {
	fn   *ssa.Function
	gen  func(ssa.Instruction) bool
	kill func(ssa.Instruction) bool
	in   map[*ssa.BasicBlock]bool
	seen map[*ssa.BasicBlock]bool
}

func NewMustSince(fn *ssa.Function, gen, kill func(ssa.Instruction) bool) *MustSince {
	m := &MustSince{fn: fn, gen: gen, kill: kill, in: map[*ssa.BasicBlock]bool{}, seen: map[*ssa.BasicBlock]bool{}}
	if len(fn.Blocks) == 0 {
		return m
	}
	// optimistic init: true everywhere except entry, iterate down
	for _, b := range fn.Blocks {
		m.in[b] = true
	}
	m.in[fn.Blocks[0]] = false
	changed := true
	for changed {
		changed = false
		for _, b := range fn.Blocks {
			if b != fn.Blocks[0] {
				v := true
				any := false
				for _, p := range b.Preds {
					any = true
					if !m.out(p) {
						v = false
					}
				}
				if !any {
					v = false
				}
				if v != m.in[b] {
					m.in[b] = v
					changed = true
				}
			}
		}
	}
	return m
}

func (m *MustSince) out(b *ssa.BasicBlock) bool {
	v := m.in[b]
	for _, in := range b.Instrs {
		if m.kill != nil && m.kill(in) {
			v = false
		}
		if m.gen(in) {
			v = true
		}
	}
	return v
}

// At: fact value immediately before instruction in.
func (m *MustSince) At(in ssa.Instruction) bool {
	b := in.Block()
	v := m.in[b]
	for _, x := range b.Instrs {
		if x == in {
			return v
		}
		if m.kill != nil && m.kill(x) {
			v = false
		}
		if m.gen(x) {
			v = true
		}
	}
	return v
}

// MayReachExitWithout: is there a path from `from` (exclusive) to a function exit (Return or
// Panic) that executes no instruction satisfying hit? Used for "every path after A does R".
func MayReachExitWithout(from ssa.Instruction, hit func(ssa.Instruction) bool) (bool, ssa.Instruction) {
	type st struct {
		b *ssa.BasicBlock
		i int
	}
	seen := map[*ssa.BasicBlock]bool{}
	var exit ssa.Instruction
	var walk func(b *ssa.BasicBlock, i int) bool
	walk = func(b *ssa.BasicBlock, i int) bool {
		for ; i < len(b.Instrs); i++ {
			in := b.Instrs[i]
			if hit(in) {
				return false
			}
			switch in.(type) {
			case *ssa.Return:
				exit = in
				return true
			}
		}
		for _, s := range b.Succs {
			if seen[s] {
				continue
			}
			seen[s] = true
			if walk(s, 0) {
				return true
			}
		}
		return false
	}
	if _, isRet := from.(*ssa.Return); isRet {
		// from is itself the exit (callers have established that it is not a hit)
		return true, from
	}
	r := walk(from.Block(), instrIndex(from)+1)
	return r, exit
}

// storedInto lists the values stored into addr or into any field/element address derived from it.
func storedInto(addr ssa.Value, depth int) []ssa.Value {
	var out []ssa.Value
	refs := addr.Referrers()
	if refs == nil || depth < 0 {
		return nil
	}
	for _, r := range *refs {
		switch x := r.(type) {
		case *ssa.Store:
			if x.Addr == addr {
				out = append(out, x.Val)
			}
		case *ssa.FieldAddr:
			if x.X == addr {
				out = append(out, storedInto(x, depth-1)...)
			}
		case *ssa.IndexAddr:
			if x.X == addr {
				out = append(out, storedInto(x, depth-1)...)
			}
		}
	}
	return out
}

// resolveFuncValue finds the functions a called function value may denote when it is a local
// closure: a MakeClosure, a local variable assigned closures, or a captured such variable.
func resolveFuncValue(v ssa.Value) []*ssa.Function {
	var out []*ssa.Function
	seen := map[ssa.Value]bool{}
	var walk func(v ssa.Value, d int)
	fromCell := func(cell ssa.Value, d int) {
		switch c := cell.(type) {
		case *ssa.Alloc:
			for _, sv := range storesTo(c) {
				walk(sv, d-1)
			}
		case *ssa.FreeVar:
			fn := c.Parent()
			par := fn.Parent()
			if par == nil {
				return
			}
			for i, fv := range fn.FreeVars {
				if fv != c {
					continue
				}
				eachInstr(par, func(in ssa.Instruction) {
					if mc, ok := in.(*ssa.MakeClosure); ok && mc.Fn == fn && i < len(mc.Bindings) {
						b := mc.Bindings[i]
						switch bb := b.(type) {
						case *ssa.Alloc:
							for _, sv := range storesTo(bb) {
								walk(sv, d-1)
							}
						case *ssa.FreeVar:
							// captured from a further enclosing function
							for _, sv := range resolveCell(bb, d-1) {
								walk(sv, d-1)
							}
						default:
							walk(b, d-1)
						}
					}
				})
			}
		}
	}
	walk = func(v ssa.Value, d int) {
		if v == nil || seen[v] || d < 0 {
			return
		}
		seen[v] = true
		switch x := v.(type) {
		case *ssa.Function:
			out = append(out, x)
		case *ssa.MakeClosure:
			out = append(out, x.Fn.(*ssa.Function))
		case *ssa.Phi:
			for _, e := range x.Edges {
				walk(e, d-1)
			}
		case *ssa.ChangeType:
			walk(x.X, d)
		case *ssa.UnOp:
			if x.Op == token.MUL {
				fromCell(x.X, d)
			}
		case *ssa.FreeVar:
			// captured by value
			fromCell(x, d)
		}
	}
	walk(v, 8)
	return out
}

// resolveCell returns the values stored into the variable a free variable refers to.
func resolveCell(fv *ssa.FreeVar, d int) []ssa.Value {
	if d < 0 {
		return nil
	}
	fn := fv.Parent()
	par := fn.Parent()
	if par == nil {
		return nil
	}
	var out []ssa.Value
	for i, x := range fn.FreeVars {
		if x != fv {
			continue
		}
		eachInstr(par, func(in ssa.Instruction) {
			if mc, ok := in.(*ssa.MakeClosure); ok && mc.Fn == fn && i < len(mc.Bindings) {
				switch bb := mc.Bindings[i].(type) {
				case *ssa.Alloc:
					out = append(out, storesTo(bb)...)
				case *ssa.FreeVar:
					out = append(out, resolveCell(bb, d-1)...)
				default:
					out = append(out, bb)
				}
			}
		})
	}
	return out
}
