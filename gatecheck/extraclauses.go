package main

import "strings"

// extraClauses: clauses added to a property's check after its rule text was written (most of them
// in answer to a seeded change that the first rule set missed, see DESIGN.md §8.6). They are part of
// what the check decides and are appended to the rule text of the manifest and the evidence.
var extraClauses = map[string][]string{
	"C01": {"enable-agreement: Encoder.SetCompression and Decoder.SetCompressionThreshold both enable compression exactly for threshold >= 0", "lock-released: every function of the codec package that takes a mutex releases it on all exits (MAY-held-at-exit analysis with deferred unlocks)"},
	"C02": {"full-reader (shared with C01/C15): every store to Decoder.rd wraps the reader in fullReader", "inflate-status: the success return of decompress carries the zlib reader's terminal status (Close() result or the probe's error), so a corrupt/truncated trailer is rejected"},
	"C03": {"read-error-consumed: the error result of every stream read in proto/util reaches a test, a return or a store (no discarded or shadowed error)",
		"forge-short-layout (P6b bit-slice provenance): ReadExtendedForgeShort returns value bits 0..14 from the short's low 15 bits and bits 15..22 from the continuation byte, the 0x8000 marker never reaching the value, and WriteExtendedForgeShort places them the same way"},
	"C04": {"forge-short-layout (P6b bit-slice provenance): Read/WriteExtendedForgeShort place every value bit where the other side takes it from, the flag bit is set exactly when the third byte follows",
		"reference-wire with typed tokens: the Encode language of every registered packet type at every released protocol equals the committed reference (/verif/reference/packet_wire.json); a boolean (WriteBool/ReadBool) is its own token — a byte read accepts it, a byte written through it is a lossy projection — so a byte-valued field squashed to a boolean on both sides (which byte-level inclusion cannot see) differs from the reference"},
	"C05": {"recover-converts-errors: every re-panic in util.Recover lies behind the failed r.(error) assertion (runtime errors are converted, not re-thrown)", "bailout-alive: no loop on a decode path exits on a progress flag that is carried across iterations and only ever set to true (the one structural hang pattern decided; termination in general is not)"},
	"C06": {"reference-ids: every (state, direction, type, protocol) cell of /verif/reference/packet_ids.json keeps its id (ids of released protocol versions are immutable)"},
	"C08": {"join-confirmed: AuthenticateJoin reports an online-mode result only on the HTTP status == 200 edge"},
	"C11": {"key-agreement: every access of Proxy.playerNames uses the same (lower-cased) key spelling, followed through parameters to all call sites", "lock-released: every Proxy method that takes muP releases it on all exits"},
	"C12": {"lock-released: every Proxy / players method that takes a registry mutex releases it on all exits"},
	"C13": {"fired-with-drain: isLoginEventFired is set to true once, in the critical section that drains the queued login plugin messages", "lock-released for loginInboundConn"},
	"C14": {"queue-reconciled: SetState and SetOutboundState call ensurePlayPacketQueue(new.State) unconditionally under c.mu", "lock-released for package netmc"},
	"C15": {"scratch-buffer-empty: a buffer handed out by bufpool.(*Pool).Get is empty — a fresh one is made with length 0 (capacity free), a pooled one was Reset before sync.Pool.Put — because the frame encoder sends the whole content of the scratch buffer it builds a relayed frame in", "full-reader (shared with C01): the decoder's reader is always the fullReader wrapper"},
	"C17": {"exclusion-alive: no instruction that may store nil into connInFlight / connectedServer_ (directly or through a callee, nil arguments propagated) flows to a call of nextServerToTry — the 'skip the current / in-flight server' exclusions must still see those servers",
		"host-clean by string shape: the value ClearVirtualHost returns is its parameter cut at NUL and at /// (Split(..)[0], SplitN(..)[0], Cut and helpers around them are one operation)"},
	"C22": {"error-no-command/bearing-return-behind-err-nil: every command-bearing return reachable after executeCommand lies behind its err == nil edge (a failed proxy command must not fall through to the forwarding return)"},
	"C20": {"mac-covers-payload also in streaming form: with io.MultiWriter(buf, mac) no write may go to the buffer (or the MAC) alone and nothing is written through it after Sum"},
	"C39": {"framing/header-compared-whole: the prefix Decrypt compares before skipping len(HEADER) bytes derives from HEADER itself (identifier + version byte), not a shorter identifier"},
	"C16": {"lock-released for connectedPlayer / connectionRequest", "server-equality: RegisteredServer values are never compared with == (always RegisteredServerEqual)"},
	"C18": {"lock-released for serverConnection", "recorded-on-own-connection: recordBackendKeepAlive is handed the handler's own serverConn field"},
	"C21": {"last-seen-adopted: in the session chat/command continuations the queue's fixed last-seen update is stored into the packet/builder before anything is returned on the paths where it is non-nil", "lock-released for chatQueue"},
	"C23": {"redirect-filtered also fires when the copy is built with CreateBuilder() and no filtered Redirect replaces the copied target"},
	"C24": {"lock-released for clientConfigSessionHandler", "bypass-only-with-a-backend: enqueuePluginMessage returns false (deliver directly) only behind target != nil", "overflow handling restated on the region past the totals that does not enqueue; deque operations are seen through helpers"},
	"C26": {"unknown-is-nil: a provider function of package proxy that returns a bungeecord interface does not convert a possibly-nil pointer (nil constant, or the result of a helper that can return nil) into it without a dominating nil test — a typed nil defeats the responder's `== nil` checks for unknown servers / players", "payload-owned: Bytes() of a buffer kept in a struct field or returned to a pool does not escape (returned, stored, captured)"},
	"C27": {"lock-released for package resourcepack"},
	"C28": {"update-not-dropped: every early return of processUpdateForEntry lies behind 'no add-player action' and 'entry is nil'", "lock-released for package internal/tablist"},
	"C29": {"param-substitution: $i is replaced by groups[i-1], highest index first (ReplaceAll loop descending, or Replacer pairs listed descending)"},
	"C30": {"all-tried: a wholesale clear of the candidate list in the backend iterator is only reachable when a removal looked for the selected backend by literal equality (it is an element of the list, so that search cannot miss); a removal that only compares parsed addresses lets an unparsable selection discard the untried backends", "key-agreement: every access of StrategyManager.connectionCounters / activeConnections / latencyCache uses the same key spelling", "lock-released for StrategyManager"},
	"C31": {"payload-owned: the re-encoded handshake payload does not alias a pooled or reused buffer"},
	"C32": {"lock-released for pingStatusCache"},
	"C35": {"publish-owned (deep clone, type-directed): cloneLiveLiteRoutes either round-trips the routes through an encoder or re-creates every reference-typed field (slice, map, pointer, interface…) of the element type with a fresh value — a field copied with the struct stays shared with the caller's candidate", "lock-released for package gate"},
	"C37": {"parameter-grammar: Lite validation's two placeholder recognisers (containsParameters, extractParameterIndices) accept the same language ($ followed by digits): regex language equivalence modulo capture groups, or delegation", "all-items-validated: validation loops are left only when their range is exhausted (no break/return inside)"},
	"C38": {"return-only-if-unchanged-or-recorded: reconcile returns only when the fresh fingerprint equals 'observed' or after storing it"},
	"C41": {"consume-matches-wiretype: every ConsumeVarint/ConsumeBytes of a principal field lies behind 'tag wire type == that type' (path-consistent guard cut)"},
	"C42": {"complete-atomic: testing !completed and storing value / completed=true are one critical section (no Lock/Unlock of the mutex in between, also not inside a helper)", "register-atomic: ThenAccept reads 'completed' and appends the callback in one exclusive critical section", "lock-released for package future"},
	"C44": {"teardown-order: inside closeOnce the context is cancelled before the socket is closed and before Disconnected() runs"},
}

func fullRule(d *propDef) string {
	if x := extraClauses[d.ID]; len(x) > 0 {
		return d.Rule + " Further clauses: " + strings.Join(x, "; ") + "."
	}
	return d.Rule
}
