package main

import (
	"fmt"
	"go/token"
	"strings"

	"golang.org/x/tools/go/ssa"
)

func init() {
	register(&propDef{
		ID:       "C25",
		Title:    "Plugin channel events fire for forwarded messages with the real message body",
		Patterns: []string{"./pkg/edition/java/proxy"},
		Run:      runC25,
		Rule: "P5: the `data` field of every PluginMessageEvent composite in the program derives from a plugin.Message's Data (directly, or through make+copy / append-to-nil), " +
			"never from PacketContext.Payload; the message written by the event's continuation carries the event's data and the original channel; " +
			"P2: the PlayerChannelRegisterEvent fire site is not confined to the error edge of the forwarding write and every successful forward of a register message reaches exactly one fire.",
		Explanation: "Decides: provenance of event data at all construction sites (any phase, either direction), data-seen = data-forwarded in the continuations, polarity and count of the " +
			"channel-register event relative to the forwarding write. Does not decide: which channels a register message lists (parsing), nor event delivery order.",
		Fixtures: []string{"guardcut", "provenance"},
		Variants: []Variant{
			{Name: "event-data-is-payload", File: pkgProxy + "/session_backend_play.go",
				Old:    "\t\tdata:       clone,\n\t\tforward:    true,\n\t}, func(pme *PluginMessageEvent) {\n\t\tif pme.Allowed() && b.serverConn.active() {\n\t\t\tb.forwardToPlayer(nil",
				New:    "\t\tdata:       pc.Payload,\n\t\tforward:    true,\n\t}, func(pme *PluginMessageEvent) {\n\t\tif pme.Allowed() && b.serverConn.active() {\n\t\t\tb.forwardToPlayer(nil",
				Expect: "event-data:"},
			{Name: "register-fires-on-error", File: pkgProxy + "/session_client_play.go",
				Old:    "if backendConn.WritePacket(packet) == nil {\n\t\t\tc.proxy().event.Fire(&PlayerChannelRegisterEvent{",
				New:    "if backendConn.WritePacket(packet) != nil {\n\t\t\tc.proxy().event.Fire(&PlayerChannelRegisterEvent{",
				Expect: "register-event"},
			{Name: "forward-other-data", File: pkgProxy + "/session_client_initial_connect.go",
				Old: "\t\t\t\t\tData:    pme.Data(),", New: "\t\t\t\t\tData:    packet.Data[:0],", Expect: "forwarded-is-seen"},
		},
	})
}

func runC25(c *Ctx) {
	scope := c.P.ModFuncs()
	nEv := 0
	for _, fn := range scope {
		eachInstr(fn, func(in ssa.Instruction) {
			a, ok := in.(*ssa.Alloc)
			if !ok || !typeIs(a.Type(), "java/proxy", "PluginMessageEvent") {
				return
			}
			// the data field store
			var dataVals []ssa.Value
			for _, r := range *a.Referrers() {
				if fa, ok := r.(*ssa.FieldAddr); ok && fieldOfAddr(fa).Name() == "data" {
					dataVals = append(dataVals, storedInto(fa, 0)...)
				}
			}
			if len(dataVals) == 0 {
				return // not a construction site (zero value used for HasSubscriber etc.)
			}
			nEv++
			c.Analysed(fn)
			for _, dv := range dataVals {
				ok, why := isMessageBody(dv)
				c.Check("event-data", "PluginMessageEvent.data@"+shortName(fn), in, ok,
					"plugin-message event data must be the plugin message's body: "+why)
			}
			// continuation: the closure passed alongside must forward the event's data
			checkContinuationForwards(c, fn, a)
		})
	}
	c.Floor("event-data", 5)

	// channel register event
	nReg := 0
	for _, fn := range c.P.Funcs(Mod + "/" + pkgProxy) {
		var fires []ssa.Instruction
		eachInstr(fn, func(in ssa.Instruction) {
			cc := callOf(in)
			if cc == nil || !(methodName(cc) == "Fire" || methodName(cc) == "FireParallel") {
				return
			}
			for _, a := range cc.Args {
				if al, ok := strip(a).(*ssa.Alloc); ok && typeIs(al.Type(), "java/proxy", "PlayerChannelRegisterEvent") {
					fires = append(fires, in)
				}
			}
		})
		if len(fires) == 0 {
			continue
		}
		c.Analysed(fn)
		nReg += len(fires)
		c.CheckAt("register-event-once", "fire-sites@"+shortName(fn), c.P.Pos(fn.Pos()), len(fires) == 1, fmt.Sprintf("expected one PlayerChannelRegisterEvent fire site, found %d", len(fires)))
		isWrite := callMethod("WritePacket", "BufferPacket", "Write")
		for _, f := range fires {
			onErr, _ := MustCross(f, func(e Edge, cond ssa.Value, truth bool) bool { return errNonNilEdge(cond, truth, isWrite) })
			c.Check("register-event-polarity", "Fire@"+shortName(fn), f, !onErr,
				"PlayerChannelRegisterEvent is only fired when forwarding the registration FAILED; it must fire when the registration is forwarded")
			// dominated by IsRegister
			g, n := MustCross(f, func(e Edge, cond ssa.Value, truth bool) bool {
				return boolCallEdge(cond, truth, true, callSuffix("plugin.IsRegister"))
			})
			c.Check("register-event-scope", "Fire@"+shortName(fn), f, g && n > 0, "the register event must only fire for channel registration messages")
			// the forwarding write that precedes it: from its success every path fires
			for _, w := range callsIn(fn, func(nm string, cc *ssa.CallCommon) bool { return methodName(cc) == "WritePacket" }) {
				if !flowsTo(w, f) {
					continue
				}
				wc := w.(*ssa.Call)
				// success edges of this write; if unchecked, start right after the call
				var starts []ssa.Instruction
				checked := false
				for _, e := range IfEdges(fn) {
					cond, truth := e.Cond()
					if errNilEdge(cond, truth, func(x *ssa.Call) bool { return x == wc }) {
						starts = append(starts, e.To().Instrs[0])
						checked = true
					} else if errNonNilEdge(cond, truth, func(x *ssa.Call) bool { return x == wc }) {
						checked = true
					}
				}
				if !checked {
					starts = []ssa.Instruction{w}
				}
				miss := len(starts) == 0
				for _, s := range starts {
					if s == f {
						continue
					}
					m, _ := MayReachExitWithout(s, func(x ssa.Instruction) bool { return x == f })
					if s != w && s.Block() == f.Block() && instrIndex(s) <= instrIndex(f) {
						m = false
					}
					if m {
						miss = true
					}
				}
				c.Check("register-event-on-forward", "WritePacket→Fire@"+shortName(fn), w, !miss,
					"a successfully forwarded channel registration must raise the register event on every path")
			}
			// not in a loop
			inLoop := reach(f.Block(), nil)[f.Block()] && func() bool {
				for _, s := range f.Block().Succs {
					if reach(s, nil)[f.Block()] {
						return true
					}
				}
				return false
			}()
			c.Check("register-event-once", "not-in-loop@"+shortName(fn), f, !inLoop, "the register event fire is inside a loop")
		}
	}
	if nReg == 0 {
		c.Undecided("register-event-polarity", "PlayerChannelRegisterEvent", "no fire site found")
	}
}

// isMessageBody: v is <plugin.Message>.Data, or a fresh copy of it (make+copy, append(nil, x...)).
var msgBodyDepth int

func isMessageBody(v ssa.Value) (bool, string) {
	v = seeThrough(v)
	isMsgData := func(x ssa.Value) bool {
		ld, ok := strip(x).(*ssa.UnOp)
		if !ok || ld.Op != token.MUL {
			return false
		}
		fa, ok := ld.X.(*ssa.FieldAddr)
		if !ok {
			return false
		}
		return fieldOfAddr(fa).Name() == "Data" && typeIs(fa.X.Type(), "packet/plugin", "Message")
	}
	if derivesFrom(v, 6, func(x ssa.Value) bool {
		ld, ok := x.(*ssa.UnOp)
		if !ok || ld.Op != token.MUL {
			return false
		}
		fa, ok := ld.X.(*ssa.FieldAddr)
		return ok && fieldOfAddr(fa).Name() == "Payload"
	}) {
		return false, "it derives from PacketContext.Payload (the whole packet: id + channel + body)"
	}
	if isMsgData(v) {
		return true, ""
	}
	switch x := v.(type) {
	case *ssa.MakeSlice:
		// copy(x, msg.Data) — x itself or a load of the local variable holding it
		aliases := []ssa.Value{x}
		for _, r := range *x.Referrers() {
			if st, ok := r.(*ssa.Store); ok && st.Val == ssa.Value(x) {
				if al, ok := st.Addr.(*ssa.Alloc); ok && singleStore(al) != nil {
					for _, rr := range *al.Referrers() {
						if ld, ok := rr.(*ssa.UnOp); ok && ld.Op == token.MUL {
							aliases = append(aliases, ld)
						}
					}
				}
			}
		}
		for _, al := range aliases[1:] {
			for _, r := range *al.Referrers() {
				if call, ok := r.(*ssa.Call); ok {
					if b, ok := call.Call.Value.(*ssa.Builtin); ok && b.Name() == "copy" && call.Call.Args[0] == al && isMsgData(call.Call.Args[1]) {
						return true, ""
					}
				}
			}
		}
		for _, r := range *x.Referrers() {
			if call, ok := r.(*ssa.Call); ok {
				if b, ok := call.Call.Value.(*ssa.Builtin); ok && b.Name() == "copy" && call.Call.Args[0] == ssa.Value(x) && isMsgData(call.Call.Args[1]) {
					return true, ""
				}
			}
		}
		return false, "fresh slice that is not filled from the message's Data"
	case *ssa.Call:
		if b, ok := x.Call.Value.(*ssa.Builtin); ok && b.Name() == "append" && len(x.Call.Args) == 2 && isMsgData(x.Call.Args[1]) {
			return true, ""
		}
		if f := staticCallee(&x.Call); f != nil && (f.Name() == "Clone" || f.Name() == "Data") && len(x.Call.Args) > 0 && isMsgData(x.Call.Args[0]) {
			return true, ""
		}
		// a helper of the module that hands back a message body on every return (its parameters
		// read as this call's arguments)
		if f := staticCallee(&x.Call); f != nil && f.Blocks != nil && strings.HasPrefix(fnPkgPath(f), Mod) && f.Signature.Results().Len() == 1 && msgBodyDepth < 2 {
			saved := activeSubst
			merged := map[*ssa.Parameter]ssa.Value{}
			for k, v := range saved {
				merged[k] = v
			}
			for i, q := range f.Params {
				if i < len(x.Call.Args) {
					merged[q] = x.Call.Args[i]
				}
			}
			activeSubst = merged
			msgBodyDepth++
			all, n, why := true, 0, ""
			for _, r := range returnsOf(f) {
				if r.Block() == f.Recover || len(r.Results) != 1 {
					continue
				}
				n++
				if ok, w := isMessageBody(retVal(r, 0)); !ok {
					all, why = false, w
				}
			}
			msgBodyDepth--
			activeSubst = saved
			if all && n > 0 {
				return true, ""
			}
			if n > 0 {
				return false, "helper " + f.Name() + " does not return a message body: " + why
			}
		}
	}
	return false, "value " + v.Name() + " (" + PathOf(v) + ") is not a plugin.Message body"
}

// checkContinuationForwards: closures created in fn that receive a *PluginMessageEvent and build a
// plugin.Message must take its Data from the event (or from the very slice stored in the event).
func checkContinuationForwards(c *Ctx, fn *ssa.Function, ev *ssa.Alloc) {
	var evData []ssa.Value
	for _, r := range *ev.Referrers() {
		if fa, ok := r.(*ssa.FieldAddr); ok && fieldOfAddr(fa).Name() == "data" {
			evData = append(evData, storedInto(fa, 0)...)
		}
	}
	for _, cl := range fn.AnonFuncs {
		if len(cl.Params) != 1 || !typeIs(cl.Params[0].Type(), "java/proxy", "PluginMessageEvent") {
			continue
		}
		eachInstr(cl, func(in ssa.Instruction) {
			a, ok := in.(*ssa.Alloc)
			if !ok || !typeIs(a.Type(), "packet/plugin", "Message") {
				return
			}
			for _, r := range *a.Referrers() {
				fa, ok := r.(*ssa.FieldAddr)
				if !ok || fieldOfAddr(fa).Name() != "Data" {
					continue
				}
				for _, sv := range storedInto(fa, 0) {
					good := false
					// pme.Data() / pme.data
					if call, ok := strip(sv).(*ssa.Call); ok && methodName(&call.Call) == "Data" && len(call.Call.Args) > 0 && call.Call.Args[0] == ssa.Value(cl.Params[0]) {
						good = true
					}
					if strings.HasSuffix(PathOf(sv), cl.Params[0].Name()+".data") {
						good = true
					}
					// the captured clone that was put into the event
					if fv, ok := strip(sv).(*ssa.FreeVar); ok {
						for i, x := range cl.FreeVars {
							if x != fv {
								continue
							}
							eachInstr(fn, func(pi ssa.Instruction) {
								if mc, ok := pi.(*ssa.MakeClosure); ok && mc.Fn == cl && i < len(mc.Bindings) {
									for _, d := range evData {
										if seeThrough(mc.Bindings[i]) == seeThrough(d) {
											good = true
										}
									}
								}
							})
						}
					}
					if ld, ok := strip(sv).(*ssa.UnOp); ok && ld.Op == token.MUL {
						if fv, ok := ld.X.(*ssa.FreeVar); ok {
							for i, x := range cl.FreeVars {
								if x != fv {
									continue
								}
								eachInstr(fn, func(pi ssa.Instruction) {
									if mc, ok := pi.(*ssa.MakeClosure); ok && mc.Fn == cl && i < len(mc.Bindings) {
										if al, ok := mc.Bindings[i].(*ssa.Alloc); ok {
											for _, st := range storesTo(al) {
												for _, d := range evData {
													if seeThrough(st) == seeThrough(d) {
														good = true
													}
												}
											}
										}
									}
								})
							}
						}
					}
					c.Check("forwarded-is-seen", "Message.Data@"+shortName(cl), in, good,
						"the message forwarded after the event must carry the data the event exposed (handlers see what is forwarded)")
				}
			}
		})
	}
}

// seeThrough strips conversions and loads of local variables that are assigned exactly once.
func seeThrough(v ssa.Value) ssa.Value {
	for i := 0; i < 8; i++ {
		v = strip(v)
		ld, ok := v.(*ssa.UnOp)
		if !ok || ld.Op != token.MUL {
			return v
		}
		a, ok := ld.X.(*ssa.Alloc)
		if !ok {
			return v
		}
		sv := singleStore(a)
		if sv == nil {
			return v
		}
		v = sv
	}
	return v
}
