package main

import (
	"encoding/json"
	"fmt"
	"os"
	"path/filepath"
	"sort"
	"strings"
)

// Reference wire layouts. The field layout of a packet in a released protocol version is immutable
// (vanilla and Velocity will never parse anything else), so the token language of every registered
// packet type's Encode at every protocol it is registered for — as evaluated (P7) from the pinned
// tree — is the reference for later changes. Languages are compared exactly: each automaton is
// determinised, minimised and numbered canonically, which makes the serialisation a normal form of
// the regular language (two encoders written differently but emitting the same field sequences get
// the same form; a refactoring into helpers is silent). Tokens that carry identifiers of code
// (ext:/dyn:/rec:) are reduced to their kind so that renaming a helper is not a difference.
//
// The reference is what the proxy does today; what makes it trustworthy is stated in DESIGN.md
// (cross-checked against the decoder by C04, ids against go-mc by C06, daily interop). A cell that
// does not exist in the reference (new packet type, new protocol version) is not judged.

type wDFA struct {
	N   int      `json:"n"`   // states 0..N-1, 0 is the start; N == 0 is the empty language
	Acc []int    `json:"acc"` // accepting states
	T   [][3]any `json:"t"`   // [from, token, to], sorted
	tr  []map[string]int
	acc map[int]bool
}

func normTok(t string) string {
	for _, k := range []string{"ext:", "dyn:", "rec:"} {
		if strings.HasPrefix(t, k) {
			return strings.TrimSuffix(k, ":")
		}
	}
	return t
}

// canonDFA determinises, trims, minimises and canonically numbers a.
func canonDFA(a wAuto) *wDFA {
	// subset construction
	type dstate struct {
		set map[int]bool
		tr  map[string]int
		acc bool
	}
	var ds []*dstate
	index := map[string]int{}
	add := func(set map[int]bool) int {
		k := setKey(set)
		if i, ok := index[k]; ok {
			return i
		}
		index[k] = len(ds)
		ds = append(ds, &dstate{set: set, tr: map[string]int{}, acc: set[a.end]})
		return len(ds) - 1
	}
	add(a.closure(map[int]bool{a.start: true}))
	for i := 0; i < len(ds); i++ {
		next := map[string]map[int]bool{}
		for s := range ds[i].set {
			for _, e := range a.n.adj[s] {
				if e.tok == "" {
					continue
				}
				t := normTok(e.tok)
				if next[t] == nil {
					next[t] = map[int]bool{}
				}
				next[t][e.to] = true
			}
		}
		for t, set := range next {
			ds[i].tr[t] = add(a.closure(set))
		}
		if len(ds) > 20000 {
			return nil
		}
	}
	// trim: keep states that can reach acceptance
	n := len(ds)
	live := make([]bool, n)
	changed := true
	for i := range ds {
		live[i] = ds[i].acc
	}
	for changed {
		changed = false
		for i := range ds {
			if live[i] {
				continue
			}
			for _, to := range ds[i].tr {
				if live[to] {
					live[i] = true
					changed = true
					break
				}
			}
		}
	}
	if !live[0] {
		return &wDFA{}
	}
	// Moore minimisation over live states (transitions into dead states are dropped)
	class := make([]int, n)
	for i := range ds {
		switch {
		case !live[i]:
			class[i] = -1
		case ds[i].acc:
			class[i] = 1
		default:
			class[i] = 0
		}
	}
	for {
		sigs := map[string]int{}
		nc := make([]int, n)
		for i := range ds {
			if !live[i] {
				nc[i] = -1
				continue
			}
			var parts []string
			for t, to := range ds[i].tr {
				if live[to] {
					parts = append(parts, fmt.Sprintf("%s>%d", t, class[to]))
				}
			}
			sort.Strings(parts)
			sig := fmt.Sprintf("%d|%s", class[i], strings.Join(parts, ","))
			id, ok := sigs[sig]
			if !ok {
				id = len(sigs)
				sigs[sig] = id
			}
			nc[i] = id
		}
		same := true
		// partitions only refine: stable when the number of classes stops growing
		cnt := map[int]bool{}
		for i := range class {
			if class[i] >= 0 {
				cnt[class[i]] = true
			}
		}
		if len(sigs) != len(cnt) {
			same = false
		}
		class = nc
		if same {
			break
		}
	}
	// canonical numbering: BFS from the start class, tokens in sorted order
	rep := map[int]int{} // class -> representative det state
	for i := range ds {
		if live[i] {
			if _, ok := rep[class[i]]; !ok {
				rep[class[i]] = i
			}
		}
	}
	num := map[int]int{class[0]: 0}
	order := []int{class[0]}
	out := &wDFA{}
	for qi := 0; qi < len(order); qi++ {
		cl := order[qi]
		st := ds[rep[cl]]
		var toks []string
		for t, to := range st.tr {
			if live[to] {
				toks = append(toks, t)
			}
		}
		sort.Strings(toks)
		for _, t := range toks {
			tc := class[st.tr[t]]
			if _, ok := num[tc]; !ok {
				num[tc] = len(order)
				order = append(order, tc)
			}
			out.T = append(out.T, [3]any{qi, t, num[tc]})
		}
		if st.acc {
			out.Acc = append(out.Acc, qi)
		}
	}
	out.N = len(order)
	return out
}

func (d *wDFA) key() string {
	b, _ := json.Marshal(d)
	return string(b)
}

func (d *wDFA) index() {
	d.tr = make([]map[string]int, d.N)
	for i := range d.tr {
		d.tr[i] = map[string]int{}
	}
	d.acc = map[int]bool{}
	for _, a := range d.Acc {
		d.acc[a] = true
	}
	for _, t := range d.T {
		from, to := toInt(t[0]), toInt(t[2])
		d.tr[from][t[1].(string)] = to
	}
}

func toInt(v any) int {
	switch x := v.(type) {
	case int:
		return x
	case float64:
		return int(x)
	}
	return -1
}

// dfaDifference returns a shortest token sequence accepted by exactly one of a, b and which one.
func dfaDifference(a, b *wDFA) (seq []string, onlyIn string) {
	a.index()
	b.index()
	type st struct {
		x, y int // -1 = dead
		w    []string
	}
	start := st{0, 0, nil}
	if a.N == 0 {
		start.x = -1
	}
	if b.N == 0 {
		start.y = -1
	}
	seen := map[[2]int]bool{{start.x, start.y}: true}
	q := []st{start}
	for len(q) > 0 {
		s := q[0]
		q = q[1:]
		ax := s.x >= 0 && a.acc[s.x]
		bx := s.y >= 0 && b.acc[s.y]
		if ax != bx {
			if ax {
				return s.w, "current"
			}
			return s.w, "reference"
		}
		toks := map[string]bool{}
		if s.x >= 0 {
			for t := range a.tr[s.x] {
				toks[t] = true
			}
		}
		if s.y >= 0 {
			for t := range b.tr[s.y] {
				toks[t] = true
			}
		}
		var ts []string
		for t := range toks {
			ts = append(ts, t)
		}
		sort.Strings(ts)
		for _, t := range ts {
			nx, ny := -1, -1
			if s.x >= 0 {
				if to, ok := a.tr[s.x][t]; ok {
					nx = to
				}
			}
			if s.y >= 0 {
				if to, ok := b.tr[s.y][t]; ok {
					ny = to
				}
			}
			if nx < 0 && ny < 0 {
				continue
			}
			k := [2]int{nx, ny}
			if seen[k] {
				continue
			}
			seen[k] = true
			w := append(append([]string{}, s.w...), t)
			q = append(q, st{nx, ny, w})
		}
	}
	return nil, ""
}

type wireGolden struct {
	DFAs  []*wDFA               `json:"dfas"`
	Types map[string][][3]int64 `json:"types"` // "pkg.Type" -> runs [fromProto, toProto, dfa index]
}

func wireGoldenPath() string {
	if exe, err := os.Executable(); err == nil {
		p := filepath.Join(filepath.Dir(filepath.Dir(exe)), "reference", "packet_wire.json")
		if _, err := os.Stat(p); err == nil {
			return p
		}
	}
	return filepath.Join("/verif", "reference", "packet_wire.json")
}

// registeredProtocols: type -> sorted supported protocols at which it is registered.
func registeredProtocols(regs []Registration, vt *VersionTable) map[string][]int64 {
	max := vt.Supported[len(vt.Supported)-1]
	set := map[string]map[int64]bool{}
	for i := range regs {
		r := &regs[i]
		for _, p := range vt.Supported {
			if _, ok := r.idAt(p, max); ok {
				if set[r.Type] == nil {
					set[r.Type] = map[int64]bool{}
				}
				set[r.Type][p] = true
			}
		}
	}
	out := map[string][]int64{}
	for k, m := range set {
		for p := range m {
			out[k] = append(out[k], p)
		}
		sort.Slice(out[k], func(i, j int) bool { return out[k][i] < out[k][j] })
	}
	return out
}

func dumpWireGolden() error {
	P, err := Load(registry["C04"].Patterns, false, nil)
	if err != nil {
		return err
	}
	vt, err := evalVersionTable(P)
	if err != nil {
		return err
	}
	regs, _, err := evalRegistrations(P, vt)
	if err != nil {
		return err
	}
	pairs := codecPairs(P)
	g := wireGolden{Types: map[string][][3]int64{}}
	idx := map[string]int{}
	rp := registeredProtocols(regs, vt)
	var names []string
	for k := range rp {
		names = append(names, k)
	}
	sort.Strings(names)
	for _, name := range names {
		p, ok := pairs[name]
		if !ok || p[0] == nil {
			continue
		}
		for _, pr := range rp[name] {
			a, _ := wireOf(P, vt, p[0], pr)
			d := canonDFA(a)
			if d == nil {
				return fmt.Errorf("%s@%d: automaton too large", name, pr)
			}
			k := d.key()
			i, ok := idx[k]
			if !ok {
				i = len(g.DFAs)
				idx[k] = i
				g.DFAs = append(g.DFAs, d)
			}
			runs := g.Types[name]
			if n := len(runs); n > 0 && runs[n-1][2] == int64(i) && runs[n-1][1] == prevSupported(vt, pr) {
				runs[n-1][1] = pr
			} else {
				runs = append(runs, [3]int64{pr, pr, int64(i)})
			}
			g.Types[name] = runs
		}
	}
	b, _ := json.Marshal(g)
	_, err = os.Stdout.Write(append(b, '\n'))
	return err
}

// checkWireGolden compares the Encode language of every registered type at every registered
// protocol with the reference.
func checkWireGolden(c *Ctx, rule string) {
	b, err := os.ReadFile(wireGoldenPath())
	if err != nil {
		c.Undecided(rule, "reference/packet_wire.json", err.Error())
		return
	}
	var g wireGolden
	if err := json.Unmarshal(b, &g); err != nil {
		c.Undecided(rule, "reference/packet_wire.json", err.Error())
		return
	}
	vt, err := evalVersionTable(c.P)
	if err != nil {
		c.Undecided(rule, "version.Versions", err.Error())
		return
	}
	regs, _, err := evalRegistrations(c.P, vt)
	if err != nil {
		c.Undecided(rule, "register.go", err.Error())
		return
	}
	pairs := codecPairs(c.P)
	rp := registeredProtocols(regs, vt)
	var names []string
	for k := range g.Types {
		names = append(names, k)
	}
	sort.Strings(names)
	cells := 0
	for _, name := range names {
		p, ok := pairs[name]
		if !ok || p[0] == nil {
			c.Note("reference layout %s has no Encode in this tree (type removed or renamed)", name)
			continue
		}
		here := map[int64]bool{}
		for _, pr := range rp[name] {
			here[pr] = true
		}
		memo := map[string]string{}
		var diffs []string
		for _, run := range g.Types[name] {
			for _, pr := range vt.Supported {
				if pr < run[0] || pr > run[1] || !here[pr] {
					continue
				}
				cells++
				a, _ := wireOf(c.P, vt, p[0], pr)
				d := canonDFA(a)
				if d == nil {
					diffs = append(diffs, fmt.Sprintf("protocol %d: automaton too large", pr))
					continue
				}
				ref := g.DFAs[run[2]]
				k := d.key()
				mk := fmt.Sprintf("%d|%s", run[2], k)
				msg, seen := memo[mk]
				if !seen {
					if k != ref.key() {
						seq, side := dfaDifference(d, ref)
						if side == "current" {
							msg = fmt.Sprintf("now also emits [%s]", strings.Join(seq, " "))
						} else if side == "reference" {
							msg = fmt.Sprintf("no longer emits [%s]", strings.Join(seq, " "))
						}
					}
					memo[mk] = msg
				}
				if msg != "" {
					diffs = append(diffs, fmt.Sprintf("protocol %d: %s", pr, msg))
				}
			}
		}
		d := ""
		if len(diffs) > 0 {
			d = strings.Join(diffs[:min(len(diffs), 3)], "; ")
			if len(diffs) > 3 {
				d += fmt.Sprintf(" (+%d more protocols)", len(diffs)-3)
			}
		}
		c.CheckAt(rule, name, c.P.Pos(p[0].Pos()), len(diffs) == 0,
			"the field sequence Encode writes for an already released protocol version differs from the reference layout (a vanilla peer parses the reference layout): "+d)
	}
	c.Info["reference_wire_cells"] = cells
	if cells < 1500 {
		c.Undecided(rule, "coverage", fmt.Sprintf("only %d (type, protocol) cells compared", cells))
	}
}
