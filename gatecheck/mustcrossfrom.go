package main

import (
	"golang.org/x/tools/go/ssa"
)

// MustCrossConsistent is MustCross with the facts that dominate the site taken into account: an
// edge that contradicts a condition every path to the site has already decided the other way (same
// SSA condition value, opposite truth) cannot lie on the *last* stretch of a real path — the stretch
// from the point where the youngest of those condition values was defined to the site, during which
// all of them are immutable. The cut is therefore evaluated on that stretch only (reachability from
// the defining block), which keeps the argument sound inside loops: earlier iterations may have taken
// the "contradicting" edges with other values.
//
// It answers: does every feasible path to site cross an edge selected by pred?
func MustCrossConsistent(site ssa.Instruction, pred EdgePred) (guarded bool, nsel int) {
	b := site.Block()
	fn := b.Parent()
	facts := map[ssa.Value]bool{}
	var start *ssa.BasicBlock
	for _, e := range EdgeDominators(b) {
		cond, truth := e.Cond()
		if cond == nil {
			continue
		}
		facts[cond] = truth
		// defining block of the condition value
		var def *ssa.BasicBlock
		if in, ok := cond.(ssa.Instruction); ok {
			def = in.Block()
		}
		if def == nil {
			continue // parameter / constant: defined at entry
		}
		if start == nil || start.Dominates(def) {
			start = def
		}
	}
	if start == nil {
		start = fn.Blocks[0]
	}
	sel := map[Edge]bool{}
	for _, e := range IfEdges(fn) {
		cond, truth := e.Cond()
		if pred(e, cond, truth) {
			sel[e] = true
			nsel++
			continue
		}
		if want, ok := facts[cond]; ok && want != truth {
			sel[e] = true // contradicts what is known at the site
		}
	}
	r := reach(start, func(e Edge) bool { return sel[e] })
	if start == b {
		// the site's own block defines the youngest fact: nothing to cross on the last stretch
		return false, nsel
	}
	return !r[b], nsel
}
