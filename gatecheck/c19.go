package main

import (
	"fmt"
	"go/token"
	"strings"

	"golang.org/x/tools/go/ssa"
)

func init() {
	register(&propDef{
		ID:       "C19",
		Title:    "Backend handshake keeps the player's host first and forwarding data well-formed",
		Patterns: []string{"./pkg/edition/java/proxy", "./pkg/edition/java/forge/...", "./pkg/edition/java/lite"},
		Run:      runC19,
		Rule: "P5 prefix provenance: on every success return of handshakeAddr the returned string's leftmost concatenation leaf is host-carrying — the vHost parameter, the result of an " +
			"addresser hook that was handed a host-carrying default, backendHandshakeBaseHost(host-carrying), or a forwarding address — never a constant or a Forge token (followed through " +
			"phis, tuple results and the returns of module helpers with parameters bound; a helper's `…, false` return is excluded behind its ok test); everything appended to the host " +
			"begins with NUL (forge.HandshakeHostnameToken, every return of modernforge.ModernToken); backendHandshakeBaseHost returns its argument or the part before the first NUL " +
			"(Split/SplitN/Cut are one operation); forwarding-exact: a forwarding address can reach a success return, and no concatenation or backend-addresser call takes an operand " +
			"that can be a forwarding address unless it lies behind the false edge of a flag assigned together with it (phi-correlated); string shape: every return of " +
			"createLegacyForwardingAddress / createBungeeGuardForwardingAddress evaluates — through strings.Builder writes, + chains, strings.Join of a literal, helper returns — to exactly " +
			"backend-address NUL player-ip NUL undashed-uuid NUL json(properties), the BungeeGuard variant marshalling a property list to which {bungeeguard-token, secret} was appended.",
		Explanation: "Decides: host-first for all client types, Forge markers and address hooks; shape and order of the BungeeCord forwarding string; presence of the BungeeGuard token property. " +
			"Does not decide: that a real BungeeCord backend parses the JSON (encoding/json is trusted), nor what custom hooks return.",
		Fixtures: []string{"provenance", "strshape"},
		Variants: []Variant{
			{Name: "modern-forge-token-replaces-host", File: pkgProxy + "/server.go",
				Old: "\t\tvHost = backendHandshakeBaseHost(vHost, phase.ModernForge) + modernforge.ModernToken(forgeTokenSource)", New: "\t\tvHost = modernforge.ModernToken(forgeTokenSource)", Expect: "host-first"},
			{Name: "legacy-forge-token-prepended", File: pkgProxy + "/server.go",
				Old: "\t\tvHost += forge.HandshakeHostnameToken", New: "\t\tvHost = forge.HandshakeHostnameToken + vHost", Expect: "host-first"},
			{Name: "base-host-takes-last-part", File: pkgProxy + "/server.go",
				Old: "\t\treturn strings.SplitN(vHost, \"\\x00\", 2)[0]", New: "\t\treturn strings.SplitN(vHost, \"\\x00\", 2)[1]", Expect: "base-host"},
			{Name: "legacy-uuid-before-ip", File: pkgProxy + "/server.go",
				Old: "\tb.WriteString(playerIP)\n\tb.WriteString(sep)\n\tb.WriteString(s.player.profile.ID.Undashed())\n\tb.WriteString(sep)\n\t// Add BungeeForge extraData property for Forge client compatibility.\n\tproperties := s.player.profile.Properties\n\tif marker := s.forgeExtraDataProperty(); marker != \"\" {\n\t\tproperties = append(properties, profile.Property{Name: \"extraData\", Value: marker})\n\t}\n\tprops,",
				New: "\tb.WriteString(s.player.profile.ID.Undashed())\n\tb.WriteString(sep)\n\tb.WriteString(playerIP)\n\tb.WriteString(sep)\n\t// Add BungeeForge extraData property for Forge client compatibility.\n\tproperties := s.player.profile.Properties\n\tif marker := s.forgeExtraDataProperty(); marker != \"\" {\n\t\tproperties = append(properties, profile.Property{Name: \"extraData\", Value: marker})\n\t}\n\tprops,", Expect: "forwarding-layout"},
			{Name: "bungeeguard-token-dropped", File: pkgProxy + "/server.go",
				Old: "\tproperties = append(properties, profile.Property{Name: \"bungeeguard-token\", Value: secret})\n", New: "\t_ = secret\n", Expect: "bungeeguard-token"},
			{Name: "forge-token-on-forwarding-address", File: pkgProxy + "/server.go",
				Old: "\tif usedForwarding {\n\t\treturn vHost, nil\n\t}\n", New: "", Expect: "forwarding-exact"},
			{Name: "modern-token-without-nul", File: "pkg/edition/java/forge/modernforge/modern.go",
				Old: "\t\treturn \"\\000\" + Token\n", New: "\t\treturn Token\n", Expect: "token-nul-prefixed"},
		},
	})
}

func runC19(c *Ctx) {
	ha := c.MustFunc(pkgProxy + ":(*serverConnection).handshakeAddr")
	bh := c.MustFunc(pkgProxy + ":backendHandshakeBaseHost")
	if ha == nil || bh == nil {
		return
	}
	c.Analysed(ha, bh)
	vHostParam := ha.Params[1]
	// handshakeAddr and the unexported helpers it was split into (the forwarding builders are judged
	// on their own below)
	var parts []*ssa.Function
	for _, f := range deepFuncs(ha, 1) {
		if n := f.Name(); n == "createLegacyForwardingAddress" || n == "createBungeeGuardForwardingAddress" || f == bh {
			continue
		}
		parts = append(parts, f)
	}

	isForwardingCall := func(v ssa.Value) bool {
		cl, ok := v.(*ssa.Call)
		return ok && (strings.HasSuffix(calleeName(&cl.Call), ").createLegacyForwardingAddress") || strings.HasSuffix(calleeName(&cl.Call), ").createBungeeGuardForwardingAddress"))
	}
	// fwPossible: may v be (or contain) a legacy/BungeeGuard forwarding address? Followed through
	// phis, concatenations, tuple results and the returns of module helpers (parameters bound).
	var fwPossible func(v ssa.Value, depth int) bool
	fwHelper := func(cl *ssa.Call, idx int, depth int) bool {
		g := moduleHelperWithBody(&cl.Call)
		if g == nil || depth <= 0 {
			return false
		}
		res := make([]ssa.Value, len(cl.Call.Args))
		for i, a := range cl.Call.Args {
			res[i] = strip(a)
		}
		any := false
		withBinding(g, res, func() {
			for _, r := range successReturns(g) {
				if idx < len(r.Results) && fwPossible(retVal(r, idx), depth-1) {
					any = true
				}
			}
		})
		return any
	}
	fwPossible = func(v ssa.Value, depth int) bool {
		if depth <= 0 {
			return false
		}
		v = strip(v)
		switch x := v.(type) {
		case *ssa.Call:
			if isForwardingCall(x) {
				return true
			}
			return fwHelper(x, 0, depth)
		case *ssa.Extract:
			if cl, ok := x.Tuple.(*ssa.Call); ok {
				return fwHelper(cl, x.Index, depth)
			}
		case *ssa.Phi:
			for _, e := range x.Edges {
				if fwPossible(e, depth-1) {
					return true
				}
			}
		case *ssa.BinOp:
			if x.Op == token.ADD {
				return fwPossible(x.X, depth-1) || fwPossible(x.Y, depth-1)
			}
		}
		return false
	}
	// covers(flag, str): whenever str is a forwarding address, the boolean flag is true — the two are
	// assigned together (phis of one block, edge by edge), or the flag is constantly true.
	var covers func(flag, str ssa.Value, depth int) bool
	covers = func(flag, str ssa.Value, depth int) bool {
		if depth <= 0 {
			return false
		}
		if !fwPossible(str, 8) {
			return true
		}
		if b, isK := constBool(flag); isK {
			return b
		}
		// derived values: covered when everything they derive from is
		viaReturns := func(cl *ssa.Call, idx int) bool {
			g := moduleHelperWithBody(&cl.Call)
			if g == nil {
				return false
			}
			res := make([]ssa.Value, len(cl.Call.Args))
			for i, a := range cl.Call.Args {
				res[i] = strip(a)
			}
			all := true
			withBinding(g, res, func() {
				for _, r := range successReturns(g) {
					if idx < len(r.Results) && !covers(flag, retVal(r, idx), depth-1) {
						all = false
					}
				}
			})
			return all
		}
		switch x := strip(str).(type) {
		case *ssa.Call:
			if isForwardingCall(x) {
				return false
			}
			return viaReturns(x, 0)
		case *ssa.Extract:
			if cl, ok := x.Tuple.(*ssa.Call); ok {
				return viaReturns(cl, x.Index)
			}
			return false
		case *ssa.BinOp:
			return covers(flag, x.X, depth-1) && covers(flag, x.Y, depth-1)
		}
		sp, ok1 := strip(str).(*ssa.Phi)
		fp, ok2 := stripNoSubst(flag).(*ssa.Phi)
		if ok1 && ok2 && sp.Block() == fp.Block() && len(sp.Edges) == len(fp.Edges) {
			for i := range sp.Edges {
				if !covers(fp.Edges[i], sp.Edges[i], depth-1) {
					return false
				}
			}
			return true
		}
		// the string was merged again after the flag was settled: the flag has one value on all of
		// the merge's incoming paths, so it must cover each incoming value
		if fi, isI := stripNoSubst(flag).(ssa.Instruction); ok1 && isI && fi.Block() != sp.Block() && fi.Block().Dominates(sp.Block()) {
			for _, e := range sp.Edges {
				if !covers(flag, e, depth-1) {
					return false
				}
			}
			return true
		}
		return false
	}
	// notForwardingAt: site lies behind an edge on which a flag that covers operand is false.
	notForwardingAt := func(site ssa.Instruction, operand ssa.Value) bool {
		g, n := MustCross(site, func(e Edge, cond ssa.Value, truth bool) bool {
			if truth {
				return false
			}
			if _, isBool := constBool(cond); isBool {
				return false
			}
			if _, isPhi := stripNoSubst(cond).(*ssa.Phi); !isPhi {
				return false
			}
			return covers(cond, operand, 6)
		})
		return g && n > 0
	}

	// hostCarrying: every leftmost leaf of v is host-carrying. Forwarding addresses may be a leaf: they
	// are judged by forwarding-exact.
	var hostCarrying func(v ssa.Value, site ssa.Instruction, seen map[ssa.Value]bool) (bool, string)
	viaHelper := func(cl *ssa.Call, idx int, site ssa.Instruction, seen map[ssa.Value]bool) (bool, string, bool) {
		g := moduleHelperWithBody(&cl.Call)
		if g == nil || len(seen) > 40 {
			return false, "", false
		}
		c.Analysed(g)
		// `v, ok := helper()`: at a site behind `ok`, the helper's `return …, false` did not happen
		type guard struct {
			idx   int
			truth bool
		}
		var guards []guard
		if cl.Referrers() != nil && site != nil && site.Parent() == cl.Parent() {
			for _, ref := range *cl.Referrers() {
				ex, isEx := ref.(*ssa.Extract)
				if !isEx || ex.Index == idx || ex.Type().String() != "bool" {
					continue
				}
				for _, t := range []bool{true, false} {
					t := t
					if gd, n := MustCross(site, func(e Edge, cond ssa.Value, truth bool) bool {
						return stripNoSubst(cond) == ssa.Value(ex) && truth == t
					}); gd && n > 0 {
						guards = append(guards, guard{ex.Index, t})
					}
				}
			}
		}
		res := make([]ssa.Value, len(cl.Call.Args))
		for i, a := range cl.Call.Args {
			res[i] = strip(a)
		}
		ok, why, n := true, "", 0
		withBinding(g, res, func() {
		next:
			for _, r := range successReturns(g) {
				if idx >= len(r.Results) {
					continue
				}
				for _, gd := range guards {
					if b, isK := constBool(r.Results[gd.idx]); isK && b != gd.truth {
						continue next
					}
				}
				n++
				if o, w := hostCarrying(retVal(r, idx), r, seen); !o {
					ok, why = false, w+" (returned by "+g.Name()+")"
				}
			}
		})
		return ok && n > 0, why, true
	}
	hostCarrying = func(v ssa.Value, site ssa.Instruction, seen map[ssa.Value]bool) (bool, string) {
		v = strip(v)
		if seen[v] {
			return true, ""
		}
		seen[v] = true
		switch x := v.(type) {
		case *ssa.Parameter:
			if x == vHostParam {
				return true, ""
			}
			return false, "parameter " + x.Name()
		case *ssa.BinOp:
			if x.Op == token.ADD {
				return hostCarrying(x.X, site, seen)
			}
		case *ssa.Phi:
			for _, e := range x.Edges {
				if ok, why := hostCarrying(e, site, seen); !ok {
					return false, why
				}
			}
			return true, ""
		case *ssa.Extract:
			if cl, ok := x.Tuple.(*ssa.Call); ok {
				if o, w, handled := viaHelper(cl, x.Index, site, seen); handled {
					return o, w
				}
			}
			return hostCarrying(x.Tuple, site, seen)
		case *ssa.Call:
			n := calleeName(&x.Call)
			switch {
			case strings.HasSuffix(n, "proxy.backendHandshakeBaseHost"):
				return hostCarrying(x.Call.Args[0], site, seen)
			case x.Call.IsInvoke() && (x.Call.Method.Name() == "HandshakeAddr" || x.Call.Method.Name() == "BackendHandshakeAddr"):
				// a hook decides the address; it must at least be offered a host-carrying default
				return hostCarrying(x.Call.Args[0], site, seen)
			case isForwardingCall(x):
				return true, "" // forwarding addresses are judged by forwarding-exact
			}
			if o, w, handled := viaHelper(x, 0, site, seen); handled {
				return o, w
			}
			return false, "result of " + n
		case *ssa.Const:
			return false, "constant " + x.String()
		}
		return false, v.String()
	}

	nRet, nFwRet := 0, 0
	for _, r := range returnsOf(ha) {
		if r.Block() == ha.Recover || len(r.Results) != 2 || !isNilConst(retVal(r, 1)) {
			continue
		}
		nRet++
		v := retVal(r, 0)
		if fwPossible(v, 8) {
			nFwRet++
		}
		ok, why := hostCarrying(v, r, map[ssa.Value]bool{})
		c.Check("host-first", "return@handshakeAddr", r, ok,
			"the server address sent to the backend does not start with the player's virtual host (leftmost part is "+why+"): forced hosts and downstream proxies route on the first NUL-separated part")
	}
	if nRet < 1 {
		c.Undecided("host-first", "handshakeAddr", "no success return found")
	}
	c.CheckAt("forwarding-exact", "forwarding-address-returned@handshakeAddr", c.P.Pos(ha.Pos()), nFwRet > 0,
		"no success return of handshakeAddr can carry the legacy/BungeeGuard forwarding address: with forwarding configured the backend would not receive the player's IP, UUID and properties")

	// the forwarding address is final: nothing is appended to it and no backend hook rewrites it
	nMod := 0
	for _, f := range parts {
		f := f
		eachInstr(f, func(in ssa.Instruction) {
			switch x := in.(type) {
			case *ssa.BinOp:
				if x.Op != token.ADD || x.Type().String() != "string" {
					return
				}
				// what is appended to the host begins with NUL
				if hc, _ := hostCarrying(x.X, in, map[ssa.Value]bool{}); hc {
					okN, what := nulPrefixed(c, x.Y)
					c.Check("token-nul-prefixed", "append "+what+"@"+f.Name(), in, okN, "what is appended to the host must start with NUL so that the host stays the first NUL-separated part")
				}
				for _, op := range []ssa.Value{x.X, x.Y} {
					if !fwPossible(op, 8) {
						continue
					}
					nMod++
					c.Check("forwarding-exact", "append-not-forwarding@"+f.Name(), in, notForwardingAt(in, op),
						"something is appended to a value that can be the legacy/BungeeGuard forwarding address (a BungeeCord backend splits it into exactly four NUL-separated parts): the concatenation must lie on the not-forwarding side")
				}
			case *ssa.Call:
				if !(x.Call.IsInvoke() && x.Call.Method.Name() == "BackendHandshakeAddr") {
					return
				}
				nMod++
				a := x.Call.Args[0]
				c.Check("forwarding-exact", "BackendHandshakeAddr-not-forwarding@"+f.Name(), in, !fwPossible(a, 8) || notForwardingAt(in, a), "the backend addresser must not rewrite a forwarding address")
				// it is offered the base host
				cl := callNamed(a, "proxy.backendHandshakeBaseHost")
				c.Check("host-first", "BackendHandshakeAddr(baseHost(vHost))@"+f.Name(), in, cl != nil, "the backend addresser must be offered the host part of the virtual host")
			}
		})
	}
	if nMod == 0 {
		c.Undecided("forwarding-exact", "handshakeAddr", "no backend addresser call or concatenation found")
	}

	// ---- backendHandshakeBaseHost: the argument itself or its part before the first NUL
	for _, r := range returnsOf(bh) {
		src, steps := strChain(retVal(r, 0), 2)
		ok := strip(src) == ssa.Value(bh.Params[0]) && (len(steps) == 0 || (len(steps) == 1 && steps[0] == strStep{"cut", "\x00"}))
		c.Check("base-host", "return@backendHandshakeBaseHost", r, ok, "the base host must be the argument itself or its part before the first NUL")
	}

	// ---- forwarding builders
	for _, spec := range []struct {
		fn    string
		guard bool
	}{{"createLegacyForwardingAddress", false}, {"createBungeeGuardForwardingAddress", true}} {
		fn := c.MustFunc(pkgProxy + ":(*serverConnection)." + spec.fn)
		if fn == nil {
			continue
		}
		c.Analysed(fn)
		tokenOK := false
		classify := func(a ssa.Value) string {
			if s, ok := constString(a); ok {
				if s == "\x00" {
					return "NUL"
				}
				return fmt.Sprintf("%q", s)
			}
			switch {
			case derivesFrom(a, 3, func(x ssa.Value) bool {
				cl, ok := x.(*ssa.Call)
				return ok && methodName(&cl.Call) == "Undashed"
			}):
				return "uuid"
			case derivesFrom(a, 4, func(x ssa.Value) bool {
				cl, ok := x.(*ssa.Call)
				return ok && strings.HasSuffix(calleeName(&cl.Call), "netutil.Host") && derivesFrom(cl.Call.Args[0], 3, func(y ssa.Value) bool {
					c2, ok := y.(*ssa.Call)
					return ok && methodName(&c2.Call) == "RemoteAddr"
				})
			}):
				return "player-ip"
			case derivesFrom(a, 4, func(x ssa.Value) bool {
				cl, ok := x.(*ssa.Call)
				return ok && calleeName(&cl.Call) == "encoding/json.Marshal"
			}):
				derivesFrom(a, 4, func(x ssa.Value) bool {
					if cl, ok := x.(*ssa.Call); ok && calleeName(&cl.Call) == "encoding/json.Marshal" {
						if spec.guard && bungeeGuardTokenIn(cl.Call.Args[0], fn) {
							tokenOK = true
						}
						return true
					}
					return false
				})
				return "json"
			case derivesFrom(a, 4, func(x ssa.Value) bool {
				cl, ok := x.(*ssa.Call)
				return ok && methodName(&cl.Call) == "Addr" && derivesFrom(cl.Call.Value, 3, func(y ssa.Value) bool {
					c2, ok := y.(*ssa.Call)
					return ok && methodName(&c2.Call) == "ServerInfo"
				})
			}):
				return "backend-addr"
			}
			return "?"
		}
		const want = "backend-addr NUL player-ip NUL uuid NUL json"
		nr, fixed := 0, true
		for _, r := range successReturns(fn) {
			nr++
			kinds, ok := strKinds(retVal(r, 0), classify, 3)
			if !ok {
				fixed = false
			}
			got := strings.Join(kinds, " ")
			c.Check("forwarding-layout", spec.fn, r, got == want,
				"the forwarding address must be "+want+" (BungeeCord's handshake split); derived: "+got)
		}
		c.CheckAt("forwarding-layout", spec.fn+"/unconditional", c.P.Pos(fn.Pos()), fixed && nr > 0, "every part must be written on every path (one fixed sequence of parts) and the built string returned")
		if spec.guard {
			c.CheckAt("bungeeguard-token", "append({bungeeguard-token, secret})→json.Marshal@"+spec.fn, c.P.Pos(fn.Pos()), tokenOK,
				"the marshalled property list must contain the bungeeguard-token property carrying the configured secret")
		}
	}
}

// bungeeGuardTokenIn: the marshalled value derives from an append whose element is
// {Name: "bungeeguard-token", Value: <the secret parameter of specFn>}.
func bungeeGuardTokenIn(jsonArg ssa.Value, specFn *ssa.Function) bool {
	return derivesFrom(jsonArg, 6, func(x ssa.Value) bool {
		cl, isC := x.(*ssa.Call)
		if !isC {
			return false
		}
		b, isB := cl.Call.Value.(*ssa.Builtin)
		if !isB || b.Name() != "append" || len(cl.Call.Args) < 2 {
			return false
		}
		name, val := false, false
		eachInstr(cl.Parent(), func(in ssa.Instruction) {
			st, isSt := in.(*ssa.Store)
			if !isSt {
				return
			}
			fa, isFA := st.Addr.(*ssa.FieldAddr)
			if !isFA {
				return
			}
			if !storedIntoSliceOf(fa.X, cl.Call.Args[1]) {
				return
			}
			switch fieldOfAddr(fa).Name() {
			case "Name":
				if s, isS := constString(st.Val); isS && s == "bungeeguard-token" {
					name = true
				}
			case "Value":
				if p, isP := strip(st.Val).(*ssa.Parameter); isP && len(specFn.Params) > 1 && p == specFn.Params[1] {
					val = true
				}
			}
		})
		return name && val
	})
}

// storedIntoSliceOf: addr is an element (IndexAddr) of the array that backs the slice value s
// (the varargs literal of an append call).
func storedIntoSliceOf(addr ssa.Value, s ssa.Value) bool {
	sl, ok := strip(s).(*ssa.Slice)
	if !ok {
		return false
	}
	if ia, ok := addr.(*ssa.IndexAddr); ok {
		return ia.X == sl.X
	}
	// composite literal built in a temporary and copied into the element: *(&arr[0]) = *tmp
	tmp, ok := addr.(*ssa.Alloc)
	if !ok || tmp.Referrers() == nil {
		return false
	}
	for _, r := range *tmp.Referrers() {
		ld, isLd := r.(*ssa.UnOp)
		if !isLd || ld.Referrers() == nil {
			continue
		}
		for _, r2 := range *ld.Referrers() {
			if st, isSt := r2.(*ssa.Store); isSt {
				if ia, isIA := st.Addr.(*ssa.IndexAddr); isIA && ia.X == sl.X {
					return true
				}
			}
		}
	}
	return false
}

// nulPrefixed: v is a string that starts with NUL on all paths: a constant, a concatenation whose
// leftmost leaf is such a constant, or a call to a module function all of whose returns are.
func nulPrefixed(c *Ctx, v ssa.Value) (bool, string) {
	v = strip(v)
	switch x := v.(type) {
	case *ssa.Const:
		s, ok := constString(x)
		return ok && strings.HasPrefix(s, "\x00"), fmt.Sprintf("%q", s)
	case *ssa.BinOp:
		if x.Op == token.ADD {
			return nulPrefixed(c, x.X)
		}
	case *ssa.Call:
		f := staticCallee(&x.Call)
		if f == nil || f.Blocks == nil {
			return false, calleeName(&x.Call)
		}
		c.Analysed(f)
		all := true
		for _, r := range returnsOf(f) {
			if ok, _ := nulPrefixed(c, retVal(r, 0)); !ok {
				all = false
			}
		}
		return all, shortName(f) + "(…)"
	}
	return false, v.String()
}
