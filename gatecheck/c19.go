package main

import (
	"fmt"
	"go/token"
	"strings"

	"golang.org/x/tools/go/ssa"
)

func init() {
	register(&propDef{
		ID:       "C19",
		Title:    "Backend handshake keeps the player's host first and forwarding data well-formed",
		Patterns: []string{"./pkg/edition/java/proxy", "./pkg/edition/java/forge/...", "./pkg/edition/java/lite"},
		Run:      runC19,
		Rule: "P5 prefix provenance: on every return of handshakeAddr that is not the forwarding return, the returned string's leftmost concatenation leaf is host-carrying — the vHost " +
			"parameter, the result of an addresser hook that was handed a host-carrying default, or backendHandshakeBaseHost(host-carrying) — never a constant or a Forge token; everything " +
			"appended to it begins with NUL (forge.HandshakeHostnameToken, every return of modernforge.ModernToken), so the host stays the first NUL-separated part; " +
			"backendHandshakeBaseHost returns its argument or the part before the first NUL; the forwarding return is reached only with usedForwarding set, is not concatenated with " +
			"anything, and the backend addresser hook and the Forge tokens are applied only on the not-forwarding edge; P7 on strings.Builder: createLegacyForwardingAddress and " +
			"createBungeeGuardForwardingAddress write exactly backend-address NUL player-ip NUL undashed-uuid NUL json(properties) in that order and return the builder, the BungeeGuard " +
			"variant marshals a property list to which {bungeeguard-token, secret} was appended.",
		Explanation: "Decides: host-first for all client types, Forge markers and address hooks; shape and order of the BungeeCord forwarding string; presence of the BungeeGuard token property. " +
			"Does not decide: that a real BungeeCord backend parses the JSON (encoding/json is trusted), nor what custom hooks return.",
		Fixtures: []string{"provenance"},
		Variants: []Variant{
			{Name: "modern-forge-token-replaces-host", File: pkgProxy + "/server.go",
				Old: "\t\tvHost = backendHandshakeBaseHost(vHost, phase.ModernForge) + modernforge.ModernToken(forgeTokenSource)", New: "\t\tvHost = modernforge.ModernToken(forgeTokenSource)", Expect: "host-first"},
			{Name: "legacy-forge-token-prepended", File: pkgProxy + "/server.go",
				Old: "\t\tvHost += forge.HandshakeHostnameToken", New: "\t\tvHost = forge.HandshakeHostnameToken + vHost", Expect: "host-first"},
			{Name: "base-host-takes-last-part", File: pkgProxy + "/server.go",
				Old: "\t\treturn strings.SplitN(vHost, \"\\x00\", 2)[0]", New: "\t\treturn strings.SplitN(vHost, \"\\x00\", 2)[1]", Expect: "base-host"},
			{Name: "legacy-uuid-before-ip", File: pkgProxy + "/server.go",
				Old: "\tb.WriteString(playerIP)\n\tb.WriteString(sep)\n\tb.WriteString(s.player.profile.ID.Undashed())\n\tb.WriteString(sep)\n\t// Add BungeeForge extraData property for Forge client compatibility.\n\tproperties := s.player.profile.Properties\n\tif marker := s.forgeExtraDataProperty(); marker != \"\" {\n\t\tproperties = append(properties, profile.Property{Name: \"extraData\", Value: marker})\n\t}\n\tprops,",
				New: "\tb.WriteString(s.player.profile.ID.Undashed())\n\tb.WriteString(sep)\n\tb.WriteString(playerIP)\n\tb.WriteString(sep)\n\t// Add BungeeForge extraData property for Forge client compatibility.\n\tproperties := s.player.profile.Properties\n\tif marker := s.forgeExtraDataProperty(); marker != \"\" {\n\t\tproperties = append(properties, profile.Property{Name: \"extraData\", Value: marker})\n\t}\n\tprops,", Expect: "forwarding-layout"},
			{Name: "bungeeguard-token-dropped", File: pkgProxy + "/server.go",
				Old: "\tproperties = append(properties, profile.Property{Name: \"bungeeguard-token\", Value: secret})\n", New: "\t_ = secret\n", Expect: "bungeeguard-token"},
			{Name: "forge-token-on-forwarding-address", File: pkgProxy + "/server.go",
				Old: "\tif usedForwarding {\n\t\treturn vHost, nil\n\t}\n", New: "", Expect: "forwarding-exact"},
			{Name: "modern-token-without-nul", File: "pkg/edition/java/forge/modernforge/modern.go",
				Old: "\t\treturn \"\\000\" + Token\n", New: "\t\treturn Token\n", Expect: "token-nul-prefixed"},
		},
	})
}

func runC19(c *Ctx) {
	ha := c.MustFunc(pkgProxy + ":(*serverConnection).handshakeAddr")
	bh := c.MustFunc(pkgProxy + ":backendHandshakeBaseHost")
	if ha == nil || bh == nil {
		return
	}
	c.Analysed(ha, bh)
	vHostParam := ha.Params[1]

	isForwardingCall := func(v ssa.Value) bool {
		cl, ok := v.(*ssa.Call)
		return ok && (strings.HasSuffix(calleeName(&cl.Call), ").createLegacyForwardingAddress") || strings.HasSuffix(calleeName(&cl.Call), ").createBungeeGuardForwardingAddress"))
	}
	// hostCarrying: every leftmost leaf of v is host-carrying. allowFwd: forwarding addresses may be a leaf
	// (only below a hook that is itself guarded, see forwarding-exact).
	var hostCarrying func(v ssa.Value, seen map[ssa.Value]bool) (bool, string)
	hostCarrying = func(v ssa.Value, seen map[ssa.Value]bool) (bool, string) {
		v = strip(v)
		if seen[v] {
			return true, ""
		}
		seen[v] = true
		switch x := v.(type) {
		case *ssa.Parameter:
			if x == vHostParam {
				return true, ""
			}
			return false, "parameter " + x.Name()
		case *ssa.BinOp:
			if x.Op == token.ADD {
				return hostCarrying(x.X, seen)
			}
		case *ssa.Phi:
			for _, e := range x.Edges {
				if ok, why := hostCarrying(e, seen); !ok {
					return false, why
				}
			}
			return true, ""
		case *ssa.Extract:
			return hostCarrying(x.Tuple, seen)
		case *ssa.Call:
			n := calleeName(&x.Call)
			switch {
			case strings.HasSuffix(n, "proxy.backendHandshakeBaseHost"):
				return hostCarrying(x.Call.Args[0], seen)
			case x.Call.IsInvoke() && (x.Call.Method.Name() == "HandshakeAddr" || x.Call.Method.Name() == "BackendHandshakeAddr"):
				// a hook decides the address; it must at least be offered a host-carrying default
				return hostCarrying(x.Call.Args[0], seen)
			case isForwardingCall(x):
				return true, "" // forwarding addresses are judged by forwarding-exact
			}
			return false, "result of " + n
		case *ssa.Const:
			return false, "constant " + x.String()
		}
		return false, v.String()
	}
	usedFwdEdge := func(want bool) EdgePred {
		return func(e Edge, cond ssa.Value, truth bool) bool {
			// cond is the usedForwarding flag: a phi of boolean constants
			ph, ok := cond.(*ssa.Phi)
			if !ok {
				return false
			}
			for _, ed := range ph.Edges {
				if _, isC := constBool(ed); !isC {
					if _, isPhi := ed.(*ssa.Phi); !isPhi {
						return false
					}
				}
			}
			return truth == want
		}
	}
	nRet := 0
	for _, r := range returnsOf(ha) {
		if r.Block() == ha.Recover || len(r.Results) != 2 || !isNilConst(retVal(r, 1)) {
			continue
		}
		nRet++
		v := retVal(r, 0)
		fwd, nf := MustCross(r, usedFwdEdge(true))
		if fwd && nf > 0 {
			_, isCat := strip(v).(*ssa.BinOp)
			c.Check("forwarding-exact", "return-on-usedForwarding@handshakeAddr", r, !isCat,
				"the forwarding address is extended after it was built (a BungeeCord backend splits it into exactly four NUL-separated parts)")
			continue
		}
		notFwd, nn := MustCross(r, usedFwdEdge(false))
		c.Check("forwarding-exact", "plain-return-not-forwarding@handshakeAddr", r, notFwd && nn > 0,
			"a return that may append Forge tokens or run the backend addresser is reachable with a legacy/BungeeGuard forwarding address")
		ok, why := hostCarrying(v, map[ssa.Value]bool{})
		c.Check("host-first", "return@handshakeAddr", r, ok,
			"the server address sent to the backend does not start with the player's virtual host (leftmost part is "+why+"): forced hosts and downstream proxies route on the first NUL-separated part")
	}
	if nRet < 2 {
		c.Undecided("host-first", "handshakeAddr", fmt.Sprintf("expected a forwarding and a plain success return, found %d", nRet))
	}
	// everything appended begins with NUL
	eachInstr(ha, func(in ssa.Instruction) {
		bo, ok := in.(*ssa.BinOp)
		if !ok || bo.Op != token.ADD || bo.Type().String() != "string" {
			return
		}
		okN, what := nulPrefixed(c, bo.Y)
		c.Check("token-nul-prefixed", "append "+what+"@handshakeAddr", in, okN, "what is appended to the host must start with NUL so that the host stays the first NUL-separated part")
	})
	// hooks and tokens only when not forwarding
	for _, ci := range callsIn(ha, func(nm string, cc *ssa.CallCommon) bool { return cc.IsInvoke() && cc.Method.Name() == "BackendHandshakeAddr" }) {
		g, ns := MustCross(ci, usedFwdEdge(false))
		c.Check("forwarding-exact", "BackendHandshakeAddr-not-forwarding@handshakeAddr", ci, g && ns > 0, "the backend addresser must not rewrite a forwarding address")
		// it is offered the base host
		a := ci.Common().Args[0]
		cl := callNamed(a, "proxy.backendHandshakeBaseHost")
		c.Check("host-first", "BackendHandshakeAddr(baseHost(vHost))@handshakeAddr", ci, cl != nil, "the backend addresser must be offered the host part of the virtual host")
	}

	// ---- backendHandshakeBaseHost
	for _, r := range returnsOf(bh) {
		v := strip(retVal(r, 0))
		ok := false
		if v == ssa.Value(bh.Params[0]) {
			ok = true
		} else if ld, isLd := v.(*ssa.UnOp); isLd {
			if ia, isIA := ld.X.(*ssa.IndexAddr); isIA {
				k, isK := constInt(ia.Index)
				if cl := callValue(ia.X); cl != nil && isK && k == 0 {
					n := calleeName(&cl.Call)
					sep, _ := constString(cl.Call.Args[1])
					if (n == "strings.SplitN" || n == "strings.Split") && sep == "\x00" && strip(cl.Call.Args[0]) == ssa.Value(bh.Params[0]) {
						ok = true
					}
				}
			}
		}
		c.Check("base-host", "return@backendHandshakeBaseHost", r, ok, "the base host must be the argument itself or its part before the first NUL")
	}

	// ---- forwarding builders
	for _, spec := range []struct {
		fn    string
		guard bool
	}{{"createLegacyForwardingAddress", false}, {"createBungeeGuardForwardingAddress", true}} {
		fn := c.MustFunc(pkgProxy + ":(*serverConnection)." + spec.fn)
		if fn == nil {
			continue
		}
		c.Analysed(fn)
		var writes []ssa.CallInstruction
		for _, ci := range callsIn(fn, func(nm string, cc *ssa.CallCommon) bool { return nm == "(*strings.Builder).WriteString" }) {
			writes = append(writes, ci)
		}
		// order by dominance (they all lie on the spine of the function)
		for i := 0; i < len(writes); i++ {
			for j := i + 1; j < len(writes); j++ {
				if domBefore(writes[j], writes[i]) {
					writes[i], writes[j] = writes[j], writes[i]
				}
			}
		}
		var kinds []string
		var jsonArg ssa.Value
		for _, w := range writes {
			a := w.Common().Args[1]
			k := "?"
			if s, ok := constString(a); ok {
				if s == "\x00" {
					k = "NUL"
				} else {
					k = fmt.Sprintf("%q", s)
				}
			} else if derivesFrom(a, 3, func(x ssa.Value) bool {
				cl, ok := x.(*ssa.Call)
				return ok && methodName(&cl.Call) == "Undashed"
			}) {
				k = "uuid"
			} else if derivesFrom(a, 4, func(x ssa.Value) bool {
				cl, ok := x.(*ssa.Call)
				return ok && strings.HasSuffix(calleeName(&cl.Call), "netutil.Host") && derivesFrom(cl.Call.Args[0], 3, func(y ssa.Value) bool {
					c2, ok := y.(*ssa.Call)
					return ok && methodName(&c2.Call) == "RemoteAddr"
				})
			}) {
				k = "player-ip"
			} else if derivesFrom(a, 4, func(x ssa.Value) bool {
				cl, ok := x.(*ssa.Call)
				return ok && calleeName(&cl.Call) == "encoding/json.Marshal"
			}) {
				k = "json"
				derivesFrom(a, 4, func(x ssa.Value) bool {
					if cl, ok := x.(*ssa.Call); ok && calleeName(&cl.Call) == "encoding/json.Marshal" {
						jsonArg = cl.Call.Args[0]
						return true
					}
					return false
				})
			} else if derivesFrom(a, 4, func(x ssa.Value) bool {
				cl, ok := x.(*ssa.Call)
				return ok && methodName(&cl.Call) == "Addr" && derivesFrom(cl.Call.Value, 3, func(y ssa.Value) bool {
					c2, ok := y.(*ssa.Call)
					return ok && methodName(&c2.Call) == "ServerInfo"
				})
			}) {
				k = "backend-addr"
			}
			kinds = append(kinds, k)
		}
		got := strings.Join(kinds, " ")
		const want = "backend-addr NUL player-ip NUL uuid NUL json"
		at := ssa.Instruction(nil)
		if len(writes) > 0 {
			at = writes[0]
		}
		c.Check("forwarding-layout", spec.fn, at, got == want,
			"the forwarding address must be "+want+" (BungeeCord's handshake split); derived: "+got)
		// all writes on every path + returns the builder
		allDom := true
		for _, r := range returnsOf(fn) {
			if r.Block() == fn.Recover {
				continue
			}
			for _, w := range writes {
				if !domBefore(w, r) {
					allDom = false
				}
			}
			cl := callValue(retVal(r, 0))
			if cl == nil || calleeName(&cl.Call) != "(*strings.Builder).String" {
				allDom = false
			}
		}
		c.CheckAt("forwarding-layout", spec.fn+"/unconditional", c.P.Pos(fn.Pos()), allDom && len(writes) == 7, "every part must be written on every path and the builder's content returned")
		if spec.guard {
			ok := false
			if jsonArg != nil {
				ok = derivesFrom(jsonArg, 6, func(x ssa.Value) bool {
					cl, isC := x.(*ssa.Call)
					if !isC {
						return false
					}
					b, isB := cl.Call.Value.(*ssa.Builtin)
					if !isB || b.Name() != "append" {
						return false
					}
					// the appended element: {Name: "bungeeguard-token", Value: secret}
					name, val := false, false
					for _, o := range origins(cl.Call.Args[1], 4) {
						_ = o
					}
					eachInstr(fn, func(in ssa.Instruction) {
						st, isSt := in.(*ssa.Store)
						if !isSt {
							return
						}
						fa, isFA := st.Addr.(*ssa.FieldAddr)
						if !isFA {
							return
						}
						if !storedIntoSliceOf(fa.X, cl.Call.Args[1]) {
							return
						}
						switch fieldOfAddr(fa).Name() {
						case "Name":
							if s, isS := constString(st.Val); isS && s == "bungeeguard-token" {
								name = true
							}
						case "Value":
							if p, isP := strip(st.Val).(*ssa.Parameter); isP && p == fn.Params[1] {
								val = true
							}
						}
					})
					return name && val
				})
			}
			c.CheckAt("bungeeguard-token", "append({bungeeguard-token, secret})→json.Marshal@"+spec.fn, c.P.Pos(fn.Pos()), ok,
				"the marshalled property list must contain the bungeeguard-token property carrying the configured secret")
		}
	}
}

// storedIntoSliceOf: addr is an element (IndexAddr) of the array that backs the slice value s
// (the varargs literal of an append call).
func storedIntoSliceOf(addr ssa.Value, s ssa.Value) bool {
	sl, ok := strip(s).(*ssa.Slice)
	if !ok {
		return false
	}
	if ia, ok := addr.(*ssa.IndexAddr); ok {
		return ia.X == sl.X
	}
	// composite literal built in a temporary and copied into the element: *(&arr[0]) = *tmp
	tmp, ok := addr.(*ssa.Alloc)
	if !ok || tmp.Referrers() == nil {
		return false
	}
	for _, r := range *tmp.Referrers() {
		ld, isLd := r.(*ssa.UnOp)
		if !isLd || ld.Referrers() == nil {
			continue
		}
		for _, r2 := range *ld.Referrers() {
			if st, isSt := r2.(*ssa.Store); isSt {
				if ia, isIA := st.Addr.(*ssa.IndexAddr); isIA && ia.X == sl.X {
					return true
				}
			}
		}
	}
	return false
}

// nulPrefixed: v is a string that starts with NUL on all paths: a constant, a concatenation whose
// leftmost leaf is such a constant, or a call to a module function all of whose returns are.
func nulPrefixed(c *Ctx, v ssa.Value) (bool, string) {
	v = strip(v)
	switch x := v.(type) {
	case *ssa.Const:
		s, ok := constString(x)
		return ok && strings.HasPrefix(s, "\x00"), fmt.Sprintf("%q", s)
	case *ssa.BinOp:
		if x.Op == token.ADD {
			return nulPrefixed(c, x.X)
		}
	case *ssa.Call:
		f := staticCallee(&x.Call)
		if f == nil || f.Blocks == nil {
			return false, calleeName(&x.Call)
		}
		c.Analysed(f)
		all := true
		for _, r := range returnsOf(f) {
			if ok, _ := nulPrefixed(c, retVal(r, 0)); !ok {
				all = false
			}
		}
		return all, shortName(f) + "(…)"
	}
	return false, v.String()
}
