package main

import (
	"fmt"
	"go/token"
	"strings"

	"golang.org/x/tools/go/ssa"
)

// checkForgeShortLayout decides, by bit-slice provenance (P6b), that ReadExtendedForgeShort and
// WriteExtendedForgeShort implement the same layout:
//
//	u16 bits 0..14  = value bits 0..14
//	u16 bit 15      = 1 iff a third byte follows
//	third byte bits = value bits 15..22
//
// A reader that returns anything else for a bit, or a writer that places a bit elsewhere, makes the
// proxy's own 1.7 plugin messages / encryption byte arrays undecodable (C04) or truncates them (C07).
func checkForgeShortLayout(c *Ctx, rule string) {
	R := c.MustFunc(pkgUtil + ":ReadExtendedForgeShort")
	W := c.MustFunc(pkgUtil + ":WriteExtendedForgeShort")
	if R == nil || W == nil {
		return
	}
	p := newBitProv()
	c.Analysed(R)
	c.Analysed(W)

	// ---- reader
	var u16, u8 ssa.Value
	var u8call ssa.Instruction
	eachInstr(R, func(in ssa.Instruction) {
		cl, ok := in.(*ssa.Call)
		if !ok {
			return
		}
		n := calleeName(&cl.Call)
		for _, ref := range *cl.Referrers() {
			if ex, isEx := ref.(*ssa.Extract); isEx && ex.Index == 0 {
				switch {
				case strings.HasSuffix(n, "util.ReadUint16"):
					u16 = ex
				case strings.HasSuffix(n, "util.ReadUint8") || strings.HasSuffix(n, "util.ReadByte"):
					u8 = ex
					u8call = cl
				}
			}
		}
	})
	if u16 == nil || u8 == nil {
		c.Undecided(rule, "layout@ReadExtendedForgeShort", "the two wire reads (ReadUint16 then ReadUint8) were not found")
	} else {
		f8 := p.factsAt(u8call.Block(), nil)
		c.Check(rule, "third-byte-iff-flag@ReadExtendedForgeShort", u8call, f8[bitFact{u16, 15}] == bOne && len(f8) > 0,
			"the continuation byte must be read exactly when bit 15 of the short is set")
		nret := 0
		for _, r := range returnsOf(R) {
			if len(r.Results) != 2 || !isNilConst(retVal(r, 1)) {
				continue
			}
			nret++
			B := r.Block()
			facts := p.factsAt(B, nil)
			v := p.bits(retVal(r, 0), facts, 14)
			okLow, okHigh, okTop := true, true, true
			for i := 0; i < 15; i++ {
				if v[i] != (bitSrc{bSrc, u16, i}) {
					okLow = false
				}
			}
			afterRead := u8call.Block().Dominates(B)
			for j := 0; j < 8; j++ {
				b := v[15+j]
				switch {
				case afterRead && b == (bitSrc{bSrc, u8, j}):
				case !afterRead && b == (bitSrc{bOpt, u8, j}):
				case !afterRead && b.kind == bZero && facts[bitFact{u16, 15}] == bZero:
				default:
					okHigh = false
				}
			}
			for i := 23; i < 64; i++ {
				if v[i].kind != bZero {
					okTop = false
				}
			}
			c.Check(rule, "value-bits-0-14@ReadExtendedForgeShort", r, okLow, "decoded bits 0..14 must be bits 0..14 of the short; derived: "+fmtBits(v, 0, 15))
			c.Check(rule, "value-bits-15-22@ReadExtendedForgeShort", r, okHigh,
				"decoded bits 15..22 must be the continuation byte (and 0 without one) — the 0x8000 marker is not part of the value; derived: "+fmtBits(v, 15, 23))
			c.Check(rule, "value-bits-above@ReadExtendedForgeShort", r, okTop, "decoded bits above 22 must be zero; derived: "+fmtBits(v, 23, 32))
		}
		if nret == 0 {
			c.Undecided(rule, "layout@ReadExtendedForgeShort", "no success return")
		}
	}

	// ---- writer
	var val ssa.Value
	for _, prm := range W.Params {
		if _, _, ok := typeWidth(prm.Type()); ok {
			val = prm
		}
	}
	if val == nil {
		c.Undecided(rule, "layout@WriteExtendedForgeShort", "no integer parameter")
		return
	}
	// "high != 0" edges: condition over exactly value bits 15..22
	highEdge := func(e Edge) (isHigh bool, nonZero bool) {
		cond, truth := e.Cond()
		bo, ok := cond.(*ssa.BinOp)
		if !ok || (bo.Op != token.EQL && bo.Op != token.NEQ) {
			return false, false
		}
		var x ssa.Value
		if k, isK := constInt(bo.Y); isK && k == 0 {
			x = bo.X
		} else if k, isK := constInt(bo.X); isK && k == 0 {
			x = bo.Y
		} else {
			return false, false
		}
		v := p.bits(x, nil, 10)
		seen := map[int]bool{}
		for _, b := range v {
			switch b.kind {
			case bZero:
			case bSrc:
				if b.root != val || b.bit < 15 || b.bit > 22 {
					return false, false
				}
				seen[b.bit] = true
			default:
				return false, false
			}
		}
		if len(seen) != 8 {
			return false, false
		}
		return true, (bo.Op == token.NEQ) == truth
	}
	edgesOf := func(b *ssa.BasicBlock, extra *Edge) (nz, z bool) {
		es := EdgeDominators(b)
		if extra != nil {
			es = append(es, *extra)
		}
		for _, e := range es {
			if h, n := highEdge(e); h {
				if n {
					nz = true
				} else {
					z = true
				}
			}
		}
		return
	}
	var flagOK func(v ssa.Value, b *ssa.BasicBlock, extra *Edge, d int) (bool, string)
	flagOK = func(v ssa.Value, b *ssa.BasicBlock, extra *Edge, d int) (bool, string) {
		facts := p.factsAt(b, extra)
		bv := p.bits(v, facts, 12)
		nz, z := edgesOf(b, extra)
		switch bv[15].kind {
		case bOne:
			return nz, "bit 15 set where the value's bits 15..22 are not known to be non-zero"
		case bZero:
			return z, "bit 15 clear where the value's bits 15..22 are not known to be zero"
		}
		ph, isPhi := strip(v).(*ssa.Phi)
		if !isPhi || d == 0 {
			return false, "bit 15 of the short is " + bv[15].String()
		}
		for i, e := range ph.Edges {
			pred := ph.Block().Preds[i]
			var ex *Edge
			if _, isIf := lastInstr(pred).(*ssa.If); isIf {
				for s, succ := range pred.Succs {
					if succ == ph.Block() {
						ex = &Edge{pred, s}
					}
				}
			}
			if ok, why := flagOK(e, pred, ex, d-1); !ok {
				return false, why
			}
		}
		return true, ""
	}
	n16, n8 := 0, 0
	thirdByte := func(at ssa.Instruction, bv ssa.Value) {
		n8++
		v := p.bits(bv, p.factsAt(at.Block(), nil), 12)
		okB := true
		for j := 0; j < 8; j++ {
			if v[j] != (bitSrc{bSrc, val, 15 + j}) {
				okB = false
			}
		}
		nz, _ := edgesOf(at.Block(), nil)
		c.Check(rule, "third-byte-bits@WriteExtendedForgeShort", at, okB, "the third byte must carry value bits 15..22; derived: "+fmtBits(v, 0, 8))
		c.Check(rule, "third-byte-iff-high@WriteExtendedForgeShort", at, nz, "the third byte must be written exactly when the value has bits 15..22")
	}
	eachInstr(W, func(in ssa.Instruction) {
		switch x := in.(type) {
		case *ssa.Call:
			if n := calleeName(&x.Call); strings.HasSuffix(n, "util.WriteUint8") || strings.HasSuffix(n, "util.WriteByte") || strings.HasSuffix(n, "util.WriteInt8") {
				// the third byte written through the package's own one-byte writer
				thirdByte(x, x.Call.Args[len(x.Call.Args)-1])
				return
			}
			if !strings.HasSuffix(calleeName(&x.Call), "util.WriteUint16") {
				return
			}
			n16++
			a := x.Call.Args[len(x.Call.Args)-1]
			v := p.bits(a, p.factsAt(x.Block(), nil), 12)
			okLow, okTop := true, true
			for i := 0; i < 15; i++ {
				if v[i] != (bitSrc{bSrc, val, i}) {
					okLow = false
				}
			}
			for i := 16; i < 64; i++ {
				if v[i].kind != bZero {
					okTop = false
				}
			}
			c.Check(rule, "short-bits-0-14@WriteExtendedForgeShort", x, okLow && okTop, "the short must carry value bits 0..14 in bits 0..14; derived: "+fmtBits(v, 0, 16))
			ok, why := flagOK(a, x.Block(), nil, 3)
			c.Check(rule, "flag-iff-third-byte@WriteExtendedForgeShort", x, ok, "bit 15 of the short must be set exactly when the value has bits 15..22 (a third byte follows): "+why)
		case *ssa.Store:
			w, _, ok := typeWidth(x.Val.Type())
			if !ok || w != 8 {
				return
			}
			if _, isIdx := x.Addr.(*ssa.IndexAddr); !isIdx {
				return
			}
			thirdByte(x, x.Val)
		}
	})
	if n16 == 0 || n8 == 0 {
		c.Undecided(rule, "layout@WriteExtendedForgeShort", fmt.Sprintf("WriteUint16 calls=%d, byte stores=%d", n16, n8))
	}
}
