package main

import (
	"fmt"
	"go/constant"
	"go/token"

	"golang.org/x/tools/go/ssa"
)

// P6b — bit-slice provenance. For integer code built from masks, shifts by constants, or/and and
// width conversions (the 1.7/Forge extended short, flag bytes) every bit of a value is a copy of one
// bit of a "root" (a wire read result or a parameter), a constant, or a merge of those. The analysis
// is a forward dataflow over SSA with facts taken from dominating branch conditions ("(x & K) == 0
// on this edge" makes those root bits zero). It runs nothing: each SSA operator has a transfer
// function on 64-entry vectors.

type bitKind uint8

const (
	bZero  bitKind = iota // constant 0
	bOne                  // constant 1
	bSrc                  // copy of root.bit
	bOpt                  // copy of root.bit on some paths, 0 on the others
	bFlag                 // 1 on some paths, 0 on the others
	bMixed                // anything else
)

type bitSrc struct {
	kind bitKind
	root ssa.Value
	bit  int
}

func (b bitSrc) String() string {
	switch b.kind {
	case bZero:
		return "0"
	case bOne:
		return "1"
	case bSrc:
		return fmt.Sprintf("%s[%d]", b.root.Name(), b.bit)
	case bOpt:
		return fmt.Sprintf("%s[%d]?", b.root.Name(), b.bit)
	case bFlag:
		return "flag"
	}
	return "mixed"
}

type bitVec [64]bitSrc

type bitFact struct {
	root ssa.Value
	bit  int
}

type bitFacts map[bitFact]bitKind // bZero or bOne

type bitProv struct {
	memo map[ssa.Value]*bitVec // unrefined vectors
}

func newBitProv() *bitProv { return &bitProv{memo: map[ssa.Value]*bitVec{}} }

// factsAt collects the bit facts implied by the conditional edges every path to block b crosses,
// plus (optionally) one extra edge.
func (p *bitProv) factsAt(b *ssa.BasicBlock, extra *Edge) bitFacts {
	f := bitFacts{}
	edges := EdgeDominators(b)
	if extra != nil {
		edges = append(edges, *extra)
	}
	for _, e := range edges {
		cond, truth := e.Cond()
		bo, ok := cond.(*ssa.BinOp)
		if !ok || (bo.Op != token.EQL && bo.Op != token.NEQ) {
			continue
		}
		var x ssa.Value
		if k, isK := constInt(bo.Y); isK && k == 0 {
			x = bo.X
		} else if k, isK := constInt(bo.X); isK && k == 0 {
			x = bo.Y
		} else {
			continue
		}
		isZero := (bo.Op == token.EQL) == truth
		v := p.bits(x, nil, 8)
		if isZero {
			for _, s := range v {
				if s.kind == bSrc {
					f[bitFact{s.root, s.bit}] = bZero
				}
			}
		} else {
			// exactly one bit can be set → it is set
			var only *bitSrc
			n := 0
			for i := range v {
				if v[i].kind != bZero {
					n++
					only = &v[i]
				}
			}
			if n == 1 && only.kind == bSrc {
				f[bitFact{only.root, only.bit}] = bOne
			}
		}
	}
	return f
}

func mergeBit(a, b bitSrc) bitSrc {
	if a == b {
		return a
	}
	sameSrc := func(x, y bitSrc) bool { return x.root == y.root && x.bit == y.bit }
	switch {
	case a.kind == bZero && (b.kind == bSrc || b.kind == bOpt):
		return bitSrc{bOpt, b.root, b.bit}
	case b.kind == bZero && (a.kind == bSrc || a.kind == bOpt):
		return bitSrc{bOpt, a.root, a.bit}
	case (a.kind == bSrc || a.kind == bOpt) && (b.kind == bSrc || b.kind == bOpt) && sameSrc(a, b):
		return bitSrc{bOpt, a.root, a.bit}
	case (a.kind == bZero || a.kind == bOne || a.kind == bFlag) && (b.kind == bZero || b.kind == bOne || b.kind == bFlag):
		return bitSrc{kind: bFlag}
	}
	return bitSrc{kind: bMixed}
}

func orBit(a, b bitSrc) bitSrc {
	switch {
	case a.kind == bZero:
		return b
	case b.kind == bZero:
		return a
	case a.kind == bOne || b.kind == bOne:
		return bitSrc{kind: bOne}
	case a == b:
		return a
	}
	return bitSrc{kind: bMixed}
}

func andBit(a, b bitSrc) bitSrc {
	switch {
	case a.kind == bZero || b.kind == bZero:
		return bitSrc{kind: bZero}
	case a.kind == bOne:
		return b
	case b.kind == bOne:
		return a
	case a == b:
		return a
	}
	return bitSrc{kind: bMixed}
}

// normalise v to the 64-bit extension of a value of type t.
func extendTo(v *bitVec, w int, signed bool) {
	if w >= 64 {
		return
	}
	top := v[w-1]
	for i := w; i < 64; i++ {
		if !signed || top.kind == bZero {
			v[i] = bitSrc{kind: bZero}
		} else if top.kind == bOne {
			v[i] = bitSrc{kind: bOne}
		} else {
			v[i] = bitSrc{kind: bMixed}
		}
	}
}

// bits computes the provenance vector of v. facts may be nil (no refinement).
func (p *bitProv) bits(v ssa.Value, facts bitFacts, depth int) bitVec {
	var out bitVec
	mixed := func() bitVec {
		var m bitVec
		for i := range m {
			m[i] = bitSrc{kind: bMixed}
		}
		return m
	}
	leaf := func() bitVec {
		var l bitVec
		w, signed, ok := typeWidth(v.Type())
		if !ok {
			return mixed()
		}
		for i := 0; i < w; i++ {
			l[i] = bitSrc{bSrc, v, i}
			if k, has := facts[bitFact{v, i}]; has {
				l[i] = bitSrc{kind: k}
			}
		}
		extendTo(&l, w, signed)
		return l
	}
	if depth < 0 {
		return leaf()
	}
	switch x := v.(type) {
	case *ssa.Const:
		if x.Value == nil || x.Value.Kind() != constant.Int {
			return mixed()
		}
		var u uint64
		if i, ok := constant.Int64Val(x.Value); ok {
			u = uint64(i)
		} else if uu, ok := constant.Uint64Val(x.Value); ok {
			u = uu
		} else {
			return mixed()
		}
		for i := 0; i < 64; i++ {
			if u&(1<<uint(i)) != 0 {
				out[i] = bitSrc{kind: bOne}
			}
		}
		return out
	case *ssa.Convert:
		if _, _, ok := typeWidth(x.X.Type()); !ok {
			return leaf()
		}
		out = p.bits(x.X, facts, depth-1)
		if w, signed, ok := typeWidth(x.Type()); ok {
			extendTo(&out, w, signed)
			return out
		}
		return mixed()
	case *ssa.ChangeType:
		return p.bits(x.X, facts, depth-1)
	case *ssa.UnOp:
		if x.Op == token.MUL {
			if a, ok := x.X.(*ssa.Alloc); ok {
				if sv := singleStore(a); sv != nil {
					return p.bits(sv, facts, depth-1)
				}
			}
		}
		return leaf()
	case *ssa.Phi:
		first := true
		for i, e := range x.Edges {
			pred := x.Block().Preds[i]
			var extra *Edge
			if _, isIf := lastInstr(pred).(*ssa.If); isIf {
				for s, succ := range pred.Succs {
					if succ == x.Block() {
						extra = &Edge{pred, s}
					}
				}
			}
			ef := p.factsAt(pred, extra)
			for k, val := range facts {
				ef[k] = val
			}
			ev := p.bits(e, ef, depth-1)
			if first {
				out = ev
				first = false
				continue
			}
			for b := range out {
				out[b] = mergeBit(out[b], ev[b])
			}
		}
		return out
	case *ssa.BinOp:
		w, signed, okT := typeWidth(x.Type())
		switch x.Op {
		case token.AND, token.OR, token.AND_NOT, token.XOR:
			a := p.bits(x.X, facts, depth-1)
			b := p.bits(x.Y, facts, depth-1)
			for i := range out {
				switch x.Op {
				case token.AND:
					out[i] = andBit(a[i], b[i])
				case token.OR:
					out[i] = orBit(a[i], b[i])
				case token.AND_NOT:
					switch b[i].kind {
					case bZero:
						out[i] = a[i]
					case bOne:
						out[i] = bitSrc{kind: bZero}
					default:
						out[i] = bitSrc{kind: bMixed}
					}
				case token.XOR:
					switch {
					case a[i].kind == bZero:
						out[i] = b[i]
					case b[i].kind == bZero:
						out[i] = a[i]
					default:
						out[i] = bitSrc{kind: bMixed}
					}
				}
			}
			return out
		case token.SHL, token.SHR:
			k, isK := constInt(x.Y)
			if !isK || k < 0 || k > 63 || !okT {
				return leaf()
			}
			a := p.bits(x.X, facts, depth-1)
			if x.Op == token.SHL {
				for i := 63; i >= 0; i-- {
					if i-int(k) >= 0 {
						out[i] = a[i-int(k)]
					} else {
						out[i] = bitSrc{kind: bZero}
					}
				}
				extendTo(&out, w, signed)
				return out
			}
			for i := 0; i < 64; i++ {
				if i+int(k) < 64 {
					out[i] = a[i+int(k)]
				} else {
					out[i] = a[63] // extension bits are already normalised
				}
			}
			return out
		}
		return leaf()
	}
	return leaf()
}

// fmtBits renders bits lo..hi-1 of v for messages.
func fmtBits(v bitVec, lo, hi int) string {
	s := ""
	for i := lo; i < hi; i++ {
		if i > lo {
			s += " "
		}
		s += v[i].String()
	}
	return s
}
